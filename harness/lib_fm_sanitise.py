"""Generators and reporting helpers for the sanitising / normalising transformations
(C29 associates, C30 array notation and index normalisation, C40 idempotence).

Nothing here decides a verdict: programs are derived in the JSON grammar of spec/FMachine.tla, rendered by
lib_fm, and judged by TLC (Trace_FMachine for behaviour, Trace_Idempotent for text pairs)."""
import copy
import re

from . import lib_fm as F
from .lib_fm import V, N, R, op, call, el, rng_, assign, decl, unit, NONE


_NONFINITE = re.compile(r'(?<![\w.])[+-]?(nan|inf|infinity)(?![\w.])', re.I)
_orig_parse_output = F.parse_output


def install_nonfinite_guard():
    """A transformed program that reads outside an array may print NaN / Infinity; lib_fm.parse_output cannot
    represent those.  They are replaced by a value outside the machine's magnitude bound (so it can never equal
    an expected value) before parsing.  Only affects the process of the calling driver."""
    def parse_output(text, nruns):
        return _orig_parse_output(_NONFINITE.sub('123456.75', text), nruns)
    F.parse_output = parse_output


# ----------------------------------------------------------------------------- C29: ASSOCIATE programs
class AssocGen(F.Gen):
    """Nested ASSOCIATE blocks (up to `max_depth` deep) over scalar variables, array elements, whole arrays
    and expressions.  The knobs select a *population* (a syntactic class of programs), so that a defect
    of one class cannot hide the behaviour on the others:

    volatile     False: whatever a selector mentions (operands of an expression selector, subscripts of an
                 element selector) is defined nowhere inside the OUTERMOST enclosing associate block
                 (intent(in) dummies, literals, loop variables of loops around that block), so binding on
                 entry (Fortran), at every use (textual replacement) and on entry of an enclosing block
                 (merging) cannot be told apart.  True: selectors mention anything.
    expr         expression selectors are generated
    unique       associate names are unique in the routine (False: sibling blocks reuse names)
    dependent    every nested block has at least one selector that mentions a name of its parent block
    subdep       element selectors whose SUBSCRIPT mentions a name of an enclosing block
    print_names  PRINT statements may mention associate names
    whole        whole-array selectors (`z => ia`, used as z(i) / z(lo:hi) / z inside the block)
    intrinsics   False: no intrinsic function references anywhere in the kernel (subscripts are literals or loop
                 variables, values are not folded back by MOD - more programs leave the machine's magnitude bound)
    sections     rank-1 array-section selectors: 'lb1' only sections for which name(e) denotes base(e) (they start
                 at index 1 with unit stride), 'shift' any section (other lower bounds, strides, `:` on ia(0:4),
                 rows of ib(1:3,-1:1), sections of sections)
    shadow       a nested block may rebind (shadow) a name of an enclosing block"""

    def __init__(self, rng, features=(), volatile=False, expr=True, unique=True, dependent=True, subdep=False,
                 print_names=False, whole=True, max_depth=3, intrinsics=True, sections='none', shadow=False):
        super().__init__(rng, features)
        self.sections = sections     # 'none' | 'lb1' (sections whose name(e) is base(e): lower bound 1, unit stride) | 'shift' (any)
        self.shadow = shadow         # a nested block may reuse (shadow) a name of an enclosing block
        self.sec_alias = {}          # associate names currently bound to an integer rank-1 section -> extent
        self.var_alias = []          # associate names currently bound to a writable scalar VARIABLE (not an element)
        self.volatile = volatile
        self.expr = expr
        self.unique = unique
        self.dependent = dependent
        self.subdep = subdep
        self.print_names = print_names
        self.whole = whole
        self.max_depth = max_depth
        self.intrinsics = intrinsics
        if not intrinsics:
            self.f -= {'select', 'section'}
        self.arr_alias = []          # associate names currently bound to the whole array ia
        self.counter = 0
        self.levels = []             # per open block: dict(scal=[names usable as integer scalars], ro=[read-only stable ones], arr=[..])
        self.outer_loops = []

    def stmt(self, d):
        if 'assoc' in self.f and self.assoc_depth < self.max_depth and self.rng.random() < (0.35 if self.assoc_depth else 0.2):
            return self.assoc_stmt(d)
        out = super().stmt(d)
        if not self.intrinsics:
            for s in out:
                if s['s'] == 'do' and has_kind(s['hi'], 'call'):      # DO i = lo, min(n, hi)
                    s['hi'] = N(self.loop_range[s['var']][1])
        if self.assoc_names:
            for s in out:
                if s['s'] == 'call':
                    self.use_names_in_call(s)
        if not self.print_names and self.assoc_names:
            for s in out:
                if s['s'] == 'print' and mentions(s['items'], set(self.assoc_names)):
                    s['items'] = [self.int_expr(1, ['n', 'm', 'k', 't1', 't2'])]
                    if mentions(s['items'], set(self.assoc_names)):      # through ia_elem of an array alias
                        s['items'] = [V('k'), V('t1')]
        return out

    def use_names_in_call(self, s):
        """Associate names as actual arguments (respecting Fortran's aliasing rules: the intent(out) scalar of
        h1 is never an element of the array passed alongside)."""
        rng = self.rng
        visible = set(self.int_scalars)
        if s['name'] == 'h1':
            if self.arr_alias and rng.random() < 0.5:
                s['args'][0] = V(rng.choice(self.arr_alias))
            if rng.random() < 0.6:
                s['args'][1] = op('sum', self.int_expr(1, [x for x in self.int_scalars if x not in self.active_loops]), N(1))
            va = [x for x in self.var_alias if x in visible]
            if va and rng.random() < 0.5:
                s['args'][2] = V(rng.choice(va))
        elif s['name'] == 'h2':
            wr = [x for x in self.int_writable if x not in self.active_loops]
            tgt = V(rng.choice(wr))
            if rng.random() < 0.7:
                s['args'][0] = tgt
                s['args'][1] = op('sum', self.int_expr(1, [x for x in self.int_scalars if x not in self.active_loops]), N(1))

    def bounded(self, e):
        return super().bounded(e) if self.intrinsics else e

    def index(self, arr, dim, scalars, simple=None):
        return super().index(arr, dim, scalars, simple if self.intrinsics else True)

    def int_expr(self, d, scalars):
        e = super().int_expr(d, scalars)
        if self.intrinsics:
            return e
        for _ in range(20):
            if not has_kind(e, 'call') and not has_kind(e, 'pow'):
                return e
            e = super().int_expr(d, scalars)
        return self.int_leaf(scalars)

    def real_expr(self, d, rscalars, scalars):
        e = super().real_expr(d, rscalars, scalars)
        return e if self.intrinsics or not has_kind(e, 'call') else R(1, 2)

    def ia_elem(self, scalars):
        if self.sec_alias and self.rng.random() < 0.5:
            z = self.rng.choice(sorted(self.sec_alias))
            return el(z, N(self.rng.randint(1, self.sec_alias[z])))
        if self.arr_alias and self.rng.random() < 0.6:
            return el(self.rng.choice(self.arr_alias), self.index('ia', 0, scalars))
        return super().ia_elem(scalars)

    def section_stmt(self):
        if self.sec_alias and self.rng.random() < 0.7:
            z = self.rng.choice(sorted(self.sec_alias))
            n = self.sec_alias[z]
            r = self.rng.random()
            if r < 0.4 or n < 2:
                return [assign(V(z), _m(op('sum', V(z), self.int_leaf(self.int_scalars_noarr))))]
            if r < 0.7:
                return [assign(el(z, rng_(N(1), N(n - 1))), _m(op('prod', el(z, rng_(N(2), N(n))), N(2))))]
            if self.sections == 'lb1':      # closed ranges only: z(:b) / z(a:) need the section's own bounds
                return [assign(el(z, rng_(N(2), N(n))), _m(op('sum', el(z, rng_(N(1), N(n - 1))), N(1)), 7))]
            return [assign(el(z, rng_(N(2), NONE)), _m(op('sum', el(z, rng_(NONE, N(n - 1))), N(1)), 7))]
        if self.arr_alias and self.rng.random() < 0.7:
            z = self.rng.choice(self.arr_alias)
            lo, hi = self.arrays['ia'][0]
            r = self.rng.random()
            if r < 0.4:
                return [assign(V(z), _m(op('sum', V(z), self.int_leaf(self.int_scalars_noarr))))]
            if r < 0.7:
                return [assign(el(z, rng_(N(lo), N(hi - 1))), _m(op('prod', el(z, rng_(N(lo + 1), N(hi))), N(2))))]
            return [assign(el(z, rng_(N(lo + 1), N(hi))), call('mod', op('sum', el('ia', rng_(N(lo + 1), N(hi))), N(1)), N(7)))]
        return super().section_stmt()

    def section_selector(self):
        """-> (selector, extent) of an integer rank-1 section with literal bounds."""
        rng = self.rng
        j = rng.choice([-1, 0, 1])
        aligned = [(el('ia', rng_(N(1), N(h))), h) for h in (2, 3, 4)] + [(el('ib', rng_(), N(j)), 3), (el('ib', rng_(N(1), N(2)), N(j)), 2)]
        aligned += [(el(z, rng_(N(1), N(n - 1))), n - 1) for z, n in self.sec_alias.items() if n > 2]
        if self.sections == 'lb1':
            return rng.choice(aligned)
        shifted = [(el('ia', rng_(N(2), N(4))), 3), (el('ia', rng_()), 5), (el('ia', rng_(N(0), N(4), N(2))), 3), (el('ia', rng_(N(4), N(1), N(-1))), 4),
                   (el('ia', rng_(NONE, N(2))), 3), (el('ia', rng_(N(1), N(3), N(2))), 2), (el('ib', N(rng.randint(1, 3)), rng_()), 3),
                   (el('ib', rng_(N(2), N(3)), N(j)), 2), (el('ib', N(2), rng_(N(0), N(1))), 2)]
        shifted += [(el(z, rng_(N(2), NONE)), n - 1) for z, n in self.sec_alias.items() if n >= 2] + \
                   [(el(z, rng_(NONE, NONE, N(2))), (n + 1) // 2) for z, n in self.sec_alias.items() if n >= 3]
        return rng.choice(shifted if rng.random() < 0.8 else aligned)

    def stable_sub(self):
        """A subscript of ia that nothing inside the outermost block defines."""
        lo, hi = self.arrays['ia'][0]
        cands = [v for v in self.outer_loops if v != 'w' and self.loop_range[v][0] >= lo and self.loop_range[v][1] <= hi]
        if cands and self.rng.random() < 0.5:
            return V(self.rng.choice(cands))
        return N(self.rng.randint(lo, hi))

    def assoc_stmt(self, d):
        rng = self.rng
        if self.assoc_depth == 0:
            self.outer_loops = list(self.active_loops)
        names, targets = [], []
        lvl = dict(scal=[], ro=[], arr=[], wr=[], sec={})
        shadowed = []
        parent = self.levels[-1] if self.levels else None
        npairs = rng.choice([1, 2, 2, 3])
        want_dep = self.dependent and parent is not None
        for i in range(npairs):
            if self.unique:
                self.counter += 1
                nm = f'z{self.counter}'
            else:
                nm = f'z{self.assoc_depth * 3 + i + 1}'
            r = rng.random()
            writable = [v for v in self.int_writable if v not in self.active_loops]
            kind = 'arr' if self.whole and r < 0.2 else 'var' if r < 0.45 else 'elem' if r < 0.75 else 'expr' if self.expr else 'rovar'
            if self.sections != 'none' and rng.random() < 0.4:
                kind = 'sec'
            if self.shadow and self.assoc_names and i == npairs - 1 and rng.random() < 0.7:
                # rebind a name of an enclosing block to a scalar entity
                cand = [x for x in dict.fromkeys(self.assoc_names) if x not in names]
                if cand:
                    nm = rng.choice(cand)
                    kind = rng.choice(['var', 'elem', 'rovar'])
                    shadowed.append(nm)
            if want_dep and i == 0:
                # a selector that mentions a name of the parent block
                opts = []
                if parent['wr']:
                    opts.append('var')
                if parent['ro']:
                    opts.append('rovar')
                    if self.expr:
                        opts.append('expr')
                    if self.subdep:
                        opts += ['sub', 'sub']
                if parent['arr']:
                    opts += ['arr', 'elem']
                if parent['sec']:
                    opts += ['secelem']
                if opts:
                    kind = rng.choice(opts)
                    if kind == 'var':
                        t = V(rng.choice(parent['wr']))
                        lvl['wr'].append(nm)
                        lvl['scal'].append(nm)
                    elif kind == 'rovar':
                        t = V(rng.choice(parent['ro']))
                        lvl['ro'].append(nm)
                        lvl['scal'].append(nm)
                    elif kind == 'expr':
                        t = op('sum', V(rng.choice(parent['ro'])), N(rng.choice([1, 2])))
                        lvl['ro'].append(nm)
                        lvl['scal'].append(nm)
                    elif kind == 'sub':
                        t = el('ia', call('mod', call('abs', V(rng.choice(parent['ro']))), N(5)))
                        lvl['wr'].append(nm)
                        lvl['scal'].append(nm)
                    elif kind == 'arr':
                        t = V(rng.choice(parent['arr']))
                        lvl['arr'].append(nm)
                    elif kind == 'secelem':
                        z = rng.choice(sorted(parent['sec']))
                        t = el(z, N(rng.randint(1, parent['sec'][z])))
                        lvl['wr'].append(nm)
                        lvl['scal'].append(nm)
                    else:
                        t = el(rng.choice(parent['arr']), self.stable_sub())
                        lvl['wr'].append(nm)
                        lvl['scal'].append(nm)
                    names.append(nm)
                    targets.append(t)
                    continue
            if kind == 'sec':
                t, ext = self.section_selector()
                lvl['sec'][nm] = ext
            elif kind == 'arr':
                t = V('ia') if not self.arr_alias or rng.random() < 0.5 else V(rng.choice(self.arr_alias))
                lvl['arr'].append(nm)
            elif kind == 'var':
                if rng.random() < 0.3:
                    t = V(rng.choice(['n', 'm']))          # a read-only entity
                    lvl['ro'].append(nm)
                else:
                    t = V(rng.choice(writable))
                    lvl['wr'].append(nm)
                lvl['scal'].append(nm)
            elif kind == 'rovar':
                t = V(rng.choice(['n', 'm']))
                lvl['ro'].append(nm)
                lvl['scal'].append(nm)
            elif kind == 'elem':
                if self.volatile:
                    t = el('ia', self.index('ia', 0, self.int_scalars, simple=rng.random() < 0.6))
                elif self.subdep and self.levels and any(l['ro'] for l in self.levels) and rng.random() < 0.5:
                    t = el('ia', call('mod', call('abs', V(rng.choice([x for l in self.levels for x in l['ro']]))), N(5)))
                else:
                    t = el('ia', self.stable_sub())
                lvl['wr'].append(nm)
                lvl['scal'].append(nm)
            else:
                if not self.volatile:
                    pool = ['n', 'm'] + [v for v in self.outer_loops if v != 'w'] + [x for l in self.levels for x in l['ro']]
                    a = V(rng.choice(pool))
                    b = V(rng.choice(pool)) if rng.random() < 0.5 else N(rng.choice([1, 2, 3]))
                    t = rng.choice([op('sum', a, b), op('prod', a, N(rng.choice([2, 3]))), op('sum', a, op('neg', b)),
                                    call('mod', op('sum', a, N(7)), N(3)), op('par', op('sum', a, b)), N(rng.randint(0, 4))])
                    lvl['ro'].append(nm)
                else:
                    t = op('sum', self.int_expr(1, self.int_scalars), N(1))
                lvl['scal'].append(nm)
            names.append(nm)
            targets.append(t)
        saved = (list(self.int_writable), list(self.int_scalars), list(self.arr_alias), dict(self.sec_alias), copy.deepcopy(self.levels),
                 list(self.var_alias))
        if shadowed:      # the enclosing bindings of these names are invisible inside the block
            self.int_writable = [x for x in self.int_writable if x not in shadowed]
            self.int_scalars = [x for x in self.int_scalars if x not in shadowed]
            self.arr_alias = [x for x in self.arr_alias if x not in shadowed]
            self.var_alias = [x for x in self.var_alias if x not in shadowed]
            self.sec_alias = {k: v for k, v in self.sec_alias.items() if k not in shadowed}
            for l in self.levels:
                for key in ('scal', 'ro', 'arr', 'wr'):
                    l[key] = [x for x in l[key] if x not in shadowed]
                l['sec'] = {k: v for k, v in l['sec'].items() if k not in shadowed}
        self.assoc_names += names
        self.int_writable = self.int_writable + lvl['wr'] * 2     # twice: bias towards using the names
        self.int_scalars = self.int_scalars + lvl['scal'] * 3
        self.arr_alias = self.arr_alias + lvl['arr']
        self.sec_alias = dict(self.sec_alias, **lvl['sec'])
        self.var_alias = self.var_alias + [nm_ for nm_, t_ in zip(names, targets)
                                           if t_['k'] == 'var' and nm_ in lvl['wr'] and (t_['name'] in ('k', 't1', 't2') or t_['name'] in self.var_alias)]
        self.levels.append(lvl)
        self.assoc_depth += 1
        body = self.block(d - 1, rng.randint(1, 3))
        if self.print_names and lvl['scal'] and rng.random() < 0.6:
            body.append({'s': 'print', 'items': [V(rng.choice(lvl['scal'])), self.int_expr(1, self.int_scalars)]})
        self.assoc_depth -= 1
        self.int_writable, self.int_scalars, self.arr_alias, self.sec_alias, self.levels, self.var_alias = saved
        for _ in names:
            self.assoc_names.pop()
        return [{'s': 'assoc', 'names': names, 'targets': targets, 'body': body}]


def mentions(e, names):
    """Does the expression (tree / list of trees) mention one of the names?"""
    if isinstance(e, list):
        return any(mentions(c, names) for c in e)
    if isinstance(e, dict):
        if e.get('k') in ('var', 'arr') and e.get('name') in names:
            return True
        return any(mentions(v, names) for v in e.values() if isinstance(v, (dict, list)))
    return False


def assoc_depth(prog):
    """Deepest ASSOCIATE nesting in the program."""
    def depth(ss):
        best = 0
        for s in ss:
            inner = 0
            for key in ('body', 'els', 'default'):
                if isinstance(s.get(key), list):
                    inner = max(inner, depth(s[key]))
            for b in s.get('bodies', []):
                inner = max(inner, depth(b))
            for c in s.get('cases', []):
                inner = max(inner, depth(c['body']))
            best = max(best, inner + (1 if s['s'] == 'assoc' else 0))
        return best
    return max(depth(u['body']) for u in prog['units'])


# ----------------------------------------------------------------------------- C30: array sections
def _m(e, k=None):
    return call('mod', e, N(k or 17))


class SecGen(F.Gen):
    """Array-section assignments; every section assignment of a program is an instance of ONE form of one
    `family` (so a violation key can name the form):
      disjoint   the right-hand side reads no element the statement defines (other array, disjoint section,
                 or the same section element by element); explicit bounds, unit strides
      overlap    the right-hand side reads elements the statement defines at other positions (shifts in both
                 directions, reversal, a scalar element of the target, 2-d shifts, row <- column)
      stride     strides / directions that differ between the two sides (no overlap)
      open       whole arrays (also with different lower bounds), `:` subscripts, zero-size sections, variable bounds
      partial    one-sided bounds `:hi`, `lo:`, `::st`
      intrinsic  sections as arguments of elemental intrinsics (no overlap; explicit bounds or whole arrays)
      masked     WHERE / ELSEWHERE constructs (mask over whole arrays, sections, 2-d; mask operands redefined by the
                 body; several assignments per part; one form with a masked ELSEWHERE)
    Further knobs (classes of the surrounding code):
      print_elems  PRINT items mention array elements (default: scalars and whole arrays only)
      nested_subs  subscripts mention array elements (default: scalars only)
      loopmatch    a section assignment sits inside a DO loop with the same bounds as its range
                   (default: programs with such a coincidence are not generated, see nested_loop_match)
    Arrays: ia(0:4), ic(2:6) local, ib(1:3,-1:1), ra(1:4)."""

    FAMILIES = ('disjoint', 'overlap', 'stride', 'open', 'partial', 'intrinsic', 'masked')

    def __init__(self, rng, features=(), family='disjoint', form=None, print_elems=False, nested_subs=False, loopmatch=False):
        super().__init__(rng, tuple(features) + ('section', 'twod'))
        self.family = family
        self.form = form          # index into the family's list; one form per program (None: drawn in program())
        self.print_elems = print_elems
        self.nested_subs = nested_subs
        self.loopmatch = loopmatch
        self.in_index = 0

    # ---- the section statements: every one in a program is an instance of the same form
    def section_stmt(self):
        forms = getattr(self, 'fam_' + self.family)()
        return [forms[self.form % len(forms)]]

    def index(self, arr, dim, scalars, simple=None):
        self.in_index += 1
        try:
            return super().index(arr, dim, scalars, simple)
        finally:
            self.in_index -= 1

    def int_leaf(self, scalars):
        if self.in_index and not self.nested_subs:
            return V(self.rng.choice(scalars)) if self.rng.random() < 0.7 else N(self.rng.choice([0, 1, 2, 3, 5, 7]))
        return super().int_leaf(scalars)

    def stmt(self, d):
        out = super().stmt(d)
        if not self.print_elems:
            for s in out:
                if s['s'] == 'print':
                    s['items'] = [V(self.rng.choice(self.int_scalars_noarr)) if has_kind(it, 'arr') else it for it in s['items']]
        return out

    def sc(self):
        return self.int_leaf(self.int_scalars_noarr)

    def fam_disjoint(self):
        rng = self.rng
        j, j2 = rng.sample([-1, 0, 1], 2)
        i1 = rng.randint(1, 3)
        return [
            assign(el('ia', rng_(N(0), N(1))), _m(op('sum', el('ia', rng_(N(3), N(4))), self.sc()))),
            assign(el('ia', rng_(N(3), N(4))), el('ia', rng_(N(0), N(1)))),
            assign(el('ia', rng_(N(1), N(3))), _m(op('sum', el('ia', rng_(N(1), N(3))), V('m')))),
            assign(el('ia', rng_(N(0), N(4))), _m(op('prod', el('ic', rng_(N(2), N(6))), N(2)))),
            assign(el('ic', rng_(N(3), N(5))), _m(op('sum', el('ia', rng_(N(0), N(2))), el('ia', rng_(N(2), N(4)))))),
            assign(el('ia', rng_(N(1), N(3))), V(rng.choice(['t1', 't2', 'n']))),
            assign(el('ia', rng_(N(2), N(4))), _m(op('sum', el('ic', rng_(N(2), N(4))), el('ic', N(6))))),
            assign(el('ib', rng_(N(1), N(3)), N(j)), _m(op('sum', el('ib', rng_(N(1), N(3)), N(j2)), el('ia', rng_(N(0), N(2)))))),
            assign(el('ib', N(i1), rng_(N(-1), N(1))), el('ic', rng_(N(4), N(6)))),
            assign(el('ib', rng_(N(1), N(2)), rng_(N(-1), N(0))), _m(op('sum', el('ib', rng_(N(1), N(2)), rng_(N(-1), N(0))), N(3)))),
            assign(el('ib', rng_(N(1), N(3)), rng_(N(-1), N(-1))), el('ib', rng_(N(1), N(3)), rng_(N(1), N(1)))),
            assign(el('ia', rng_(N(0), N(2))), _m(el('ib', N(i1), rng_(N(-1), N(1))))),
            assign(el('ra', rng_(N(1), N(2))), op('prod', el('ra', rng_(N(3), N(4))), R(1, 2))),
            assign(el('ra', rng_(N(2), N(4))), op('sum', el('ra', rng_(N(2), N(4))), R(1, 4))),
        ]

    def fam_overlap(self):
        rng = self.rng
        k = rng.choice([1, 2])
        e = rng.randint(0, 4)
        return [
            assign(el('ia', rng_(N(k), N(4))), _m(op('sum', el('ia', rng_(N(0), N(4 - k))), N(1)))),
            assign(el('ia', rng_(N(0), N(4 - k))), _m(op('prod', el('ia', rng_(N(k), N(4))), N(2)))),
            assign(el('ia', rng_(N(0), N(4))), el('ia', rng_(N(4), N(0), N(-1)))),
            assign(el('ia', rng_(N(0), N(4))), _m(op('sum', el('ia', rng_(N(0), N(4))), el('ia', N(e))))),
            assign(el('ia', rng_(N(1), N(3))), _m(op('sum', el('ia', rng_(N(0), N(2))), el('ia', rng_(N(2), N(4)))))),
            assign(el('ic', rng_(N(3), N(6))), el('ic', rng_(N(2), N(5)))),
            assign(el('ib', rng_(N(2), N(3)), rng_(N(-1), N(1))), _m(op('sum', el('ib', rng_(N(1), N(2)), rng_(N(-1), N(1))), N(1)))),
            assign(el('ib', rng_(N(1), N(3)), rng_(N(0), N(1))), el('ib', rng_(N(1), N(3)), rng_(N(-1), N(0)))),
            assign(el('ib', rng_(N(1), N(2)), rng_(N(-1), N(0))), el('ib', rng_(N(2), N(3)), rng_(N(0), N(1)))),
            assign(el('ib', N(2), rng_(N(-1), N(1))), el('ib', rng_(N(1), N(3)), N(0))),
            assign(el('ib', rng_(N(1), N(3)), N(0)), _m(op('sum', el('ib', N(1), rng_(N(-1), N(1))), N(1)))),
            assign(el('ra', rng_(N(2), N(4))), op('sum', el('ra', rng_(N(1), N(3))), R(1, 4))),
            assign(el('ra', rng_(N(1), N(4))), op('prod', el('ra', rng_(N(4), N(1), N(-1))), R(1, 2))),
        ]

    def fam_stride(self):
        return [
            assign(el('ia', rng_(N(0), N(4), N(2))), _m(op('sum', el('ia', rng_(N(0), N(4), N(2))), V('m')))),
            assign(el('ia', rng_(N(0), N(4), N(2))), el('ic', rng_(N(2), N(4)))),
            assign(el('ic', rng_(N(2), N(4))), _m(op('sum', el('ia', rng_(N(0), N(4), N(2))), N(1)))),
            assign(el('ia', rng_(N(4), N(0), N(-2))), el('ic', rng_(N(2), N(6), N(2)))),
            assign(el('ia', rng_(N(0), N(4))), el('ic', rng_(N(6), N(2), N(-1)))),
            assign(el('ia', rng_(N(3), N(1), N(-1))), _m(op('prod', el('ic', rng_(N(2), N(4))), N(3)))),
            assign(el('ic', rng_(N(2), N(6), N(2))), _m(op('sum', el('ic', rng_(N(3), N(5))), N(1)))),   # 3 <- 3..5: ic(4) both sides
            assign(el('ib', rng_(N(1), N(3), N(2)), N(0)), el('ia', rng_(N(1), N(2)))),
            assign(el('ib', N(2), rng_(N(-1), N(1), N(2))), el('ib', N(1), rng_(N(0), N(1)))),
            assign(el('ia', rng_(N(1), N(4), N(3))), el('ib', rng_(N(1), N(3), N(2)), N(1))),
            assign(el('ra', rng_(N(1), N(3), N(2))), op('prod', el('ra', rng_(N(2), N(4), N(2))), R(2))),
        ]

    def fam_open(self):
        rng = self.rng
        j = rng.choice([-1, 0, 1])
        nb = call('min', call('max', V('n'), N(0)), N(4))
        return [
            assign(V('ia'), _m(op('sum', op('prod', V('ia'), N(2)), V('m')))),
            assign(V('ia'), V('ic')),
            assign(V('ic'), _m(op('sum', V('ia'), V('ic')))),
            assign(V('ia'), _m(op('sum', V('ia'), el('ic', rng_(N(2), N(6)))))),
            assign(V('ib'), _m(op('sum', op('prod', V('ib'), N(3)), N(1)))),
            assign(V('ra'), op('prod', V('ra'), R(1, 2))),
            assign(V('ia'), N(rng.randint(0, 5))),
            assign(el('ia', rng_()), _m(op('sum', el('ic', rng_()), N(1)))),
            assign(el('ib', rng_(), N(j)), el('ia', rng_(N(0), N(2)))),
            assign(el('ib', rng_(), N(j)), _m(op('sum', el('ib', rng_(), N(j)), el('ia', rng_(N(2), N(4)))))),
            assign(el('ib', N(2), rng_()), el('ic', rng_(N(3), N(5)))),
            assign(el('ib', rng_(), rng_()), _m(op('sum', V('ib'), N(2)))),
            assign(el('ia', rng_(N(3), N(2))), N(7)),                                   # zero-size
            assign(el('ia', rng_(N(0), nb)), _m(op('sum', el('ic', rng_(N(2), op('sum', nb, N(2)))), N(1)))),
            assign(el('ia', rng_(N(1), call('min', V('n'), N(4)))), N(rng.randint(1, 5))),   # possibly zero-size
        ]

    def fam_partial(self):
        rng = self.rng
        return [
            assign(el('ia', rng_(NONE, N(2))), el('ic', rng_(N(4), NONE))),
            assign(el('ia', rng_(N(2), NONE)), _m(op('sum', el('ic', rng_(NONE, N(4))), V('t1')))),
            assign(el('ia', rng_(NONE, NONE, N(2))), el('ic', rng_(N(2), N(4)))),
            assign(el('ia', rng_(NONE, N(1))), N(rng.randint(0, 5))),
            assign(el('ib', rng_(NONE, N(2)), rng_(N(0), NONE)), N(rng.randint(0, 4))),
            assign(el('ib', rng_(), N(0)), _m(op('sum', el('ib', rng_(), N(0)), el('ia', rng_(N(2), NONE))))),
            assign(el('ra', rng_(N(3), NONE)), op('prod', el('ra', rng_(NONE, N(2))), R(1, 2))),
        ]

    def fam_masked(self):
        rng = self.rng
        j, j2 = rng.sample([-1, 0, 1], 2)
        c = rng.randint(0, 4)

        def W(mask, body, els=()):
            return {'s': 'where', 'conds': [mask], 'bodies': [list(body)], 'els': list(els)}
        return [
            W(F.cmp_('>', V('ia'), N(c)), [assign(V('ia'), _m(op('sum', V('ia'), N(10))))]),
            W(F.cmp_('>', V('ia'), N(c)), [assign(V('ia'), _m(op('sum', V('ia'), N(10))))], [assign(V('ia'), op('neg', V('ia')))]),
            W(F.cmp_('>', el('ia', rng_(N(0), N(3))), N(0)), [assign(el('ia', rng_(N(1), N(4))), _m(op('sum', el('ia', rng_(N(0), N(3))), N(1)))),
                                                            assign(el('ia', rng_(N(1), N(4))), _m(op('prod', el('ia', rng_(N(1), N(4))), N(2))))]),
            W(F.cmp_('==', call('mod', el('ib', rng_(N(1), N(3)), N(j)), N(2)), N(0)), [assign(el('ib', rng_(N(1), N(3)), N(j2)), el('ib', rng_(N(1), N(3)), N(j)))],
              [assign(el('ib', rng_(N(1), N(3)), N(j2)), N(0))]),
            W(op('and', F.cmp_('>', V('ib'), N(c)), F.cmp_('<', V('ib'), N(c + 4))), [assign(V('ib'), N(1))]),
            W(F.cmp_('/=', el('ic', rng_(N(2), N(4))), el('ia', rng_(N(0), N(2)))), [assign(el('ia', rng_(N(0), N(2))), el('ic', rng_(N(2), N(4))))],
              [assign(el('ia', rng_(N(0), N(2))), N(c))]),
            W(F.cmp_('>', V('ra'), R(1)), [assign(V('ra'), op('prod', V('ra'), R(1, 2)))], [assign(V('ra'), op('sum', V('ra'), R(1, 4)))]),
            W(F.cmp_('<', V('ic'), N(3)), [assign(V('ic'), _m(op('sum', V('ic'), V('m')))), assign(V('ia'), V('ic'))]),
            W(F.cmp_('>=', el('ia', rng_(N(1), N(3))), N(1)), [assign(el('ic', rng_(N(2), N(4))), N(0))]),
            {'s': 'where', 'conds': [F.cmp_('>', V('ia'), N(c + 1)), F.cmp_('<', V('ia'), N(0))],
             'bodies': [[assign(V('ia'), N(-3))], [assign(V('ia'), _m(op('sum', V('ia'), N(100))))]], 'els': [assign(V('ia'), N(7))]},
        ]

    def fam_intrinsic(self):
        rng = self.rng
        j = rng.choice([-1, 0, 1])
        return [
            assign(el('ia', rng_(N(0), N(2))), call('abs', op('sum', el('ic', rng_(N(2), N(4))), N(-3)))),
            assign(el('ia', rng_(N(0), N(2))), call('max', el('ic', rng_(N(2), N(4))), el('ic', rng_(N(4), N(6))))),
            assign(el('ic', rng_(N(2), N(4))), call('min', el('ia', rng_(N(2), N(4))), V('m'))),
            assign(V('ia'), call('mod', V('ic'), N(3))),
            assign(V('ia'), call('max', call('min', V('ia'), N(4)), V('ic'))),
            assign(el('ia', rng_(N(1), N(3))), call('sign', el('ic', rng_(N(2), N(4))), op('sum', el('ic', rng_(N(4), N(6))), N(-2)))),
            assign(el('ib', rng_(N(1), N(3)), N(j)), call('modulo', el('ia', rng_(N(1), N(3))), N(4))),
            assign(el('ia', rng_(N(0), N(2))), call('abs', el('ib', N(rng.randint(1, 3)), rng_(N(-1), N(1))))),
            assign(el('ra', rng_(N(1), N(3))), call('abs', op('sum', el('ra', rng_(N(1), N(3))), R(-1)))),
            assign(el('ra', rng_(N(1), N(3))), call('real', el('ia', rng_(N(0), N(2))))),
            assign(el('ia', rng_(N(0), N(3))), call('int', op('prod', V('ra'), R(2)))),
            assign(el('ia', rng_(N(0), N(2))), call('merge', el('ic', rng_(N(2), N(4))), el('ic', rng_(N(4), N(6))), F.cmp_('>', el('ic', rng_(N(3), N(5))), N(2)))),
        ]

    # ---- whole programs: the base kernel plus a local integer array ic(2:6)
    def program(self, nstmts=6, depth=2):
        rng = self.rng
        self.arrays = {'ia': self.IA[1], 'ra': self.RA[1], 'ib': self.IB[1]}
        self.active_loops = []
        self.loop_range = {}
        self.int_writable = ['k', 't1', 't2']
        self.int_scalars = ['n', 'm', 'k', 't1', 't2']
        self.int_scalars_noarr = list(self.int_scalars)
        self.real_scalars = ['x', 'y']
        self.real_writable = ['x', 'y']
        self.helpers = []
        self.functions = []
        self.assoc_names = []
        self.assoc_depth = 0
        units = []
        if 'call' in self.f:
            units += self.make_helpers()
        decls = [decl('n', 'int', 'in'), decl('m', 'int', 'in'), decl('flag', 'log', 'in'),
                 decl('ia', 'int', 'inout', self.arrays['ia']), decl('ra', 'real', 'inout', self.arrays['ra']),
                 decl('ib', 'int', 'inout', self.arrays['ib']), decl('k', 'int', 'out'), decl('x', 'real', 'out')]
        args = ['n', 'm', 'flag', 'ia', 'ra', 'ib', 'k', 'x']
        decls += [decl(v, 'int') for v in ('i', 'j', 'l', 'w', 't1', 't2')] + [decl('y', 'real'), decl('ic', 'int', 'local', [(2, 6)])]
        init = [assign(V('k'), N(0)), assign(V('x'), R(0)), assign(V('t1'), V('m')), assign(V('t2'), N(1)), assign(V('y'), R(1, 2)),
                {'s': 'do', 'var': 'i', 'lo': N(2), 'hi': N(6), 'st': NONE, 'body': [
                    assign(el('ic', V('i')), call('mod', op('sum', op('prod', V('i'), N(3)), V('n')), N(7)))]}]
        if self.form is None:
            self.form = rng.randrange(64)
        main = self.block(depth, nstmts)
        main.insert(rng.randint(0, len(main)), self.section_stmt()[0])     # the form occurs at least once, at top level
        body = init + main
        if self.print_elems:
            body += [{'s': 'print', 'items': [el('ia', N(rng.randint(0, 4))), el('ib', N(rng.randint(1, 3)), N(rng.randint(-1, 1))), el('ic', N(rng.randint(2, 6)))]}]
        if self.nested_subs:
            body += [assign(V('k'), _m(op('sum', el('ia', call('mod', call('abs', el('ib', N(2), N(rng.randint(-1, 1)))), N(5))), V('k')))),
                     assign(el('ib', op('sum', N(1), call('mod', call('abs', el('ic', N(rng.randint(2, 6)))), N(3))), N(0)), _m(op('sum', V('t1'), N(1))))]
        if self.loopmatch:
            body += [{'s': 'do', 'var': 'i', 'lo': N(1), 'hi': N(3), 'st': NONE, 'body': [
                assign(el('ia', rng_(N(1), N(3))), _m(op('sum', el('ic', rng_(N(2), N(4))), V('i'))))]}]
        # the local array is observable through the result k
        body += [{'s': 'do', 'var': 'i', 'lo': N(2), 'hi': N(6), 'st': NONE, 'body': [
            assign(V('k'), call('mod', op('sum', op('prod', V('k'), N(3)), el('ic', V('i'))), N(101)))]}]
        prog = {'units': [unit('kernel', args, decls, body)] + units}
        st = self.section_stmt()
        prog['form'] = (f"where{len(st[0]['conds'])}:" if st[0]['s'] == 'where' else '') + sec_forms({'units': [unit('kernel', args, decls, st)]})
        return prog


def has_kind(e, kind):
    if isinstance(e, list):
        return any(has_kind(c, kind) for c in e)
    if isinstance(e, dict):
        return e.get('k') == kind or any(has_kind(v, kind) for v in e.values() if isinstance(v, (dict, list)))
    return False


def nested_loop_match(prog):
    """Is there an array-valued assignment inside a DO loop over v whose target range equals the bounds (lo, hi,
    step as written) of SOME loop over the same variable v in the routine?  (whole arrays and `:` count with
    their declared bounds).  resolve_vector_notation would then pick v as index of the new loop."""
    def ranges(u, lhs):
        d = next((x for x in u['decls'] if x['name'] == lhs['name']), None)
        if d is None or not d['dims']:
            return []
        if lhs['k'] == 'var':
            return [(str(lo), str(hi), '') for lo, hi in d['dims']]
        out = []
        for c, (lo, hi) in zip(lhs['c'], d['dims']):
            if c['k'] == 'range':
                out.append((str(lo) if c['lo'] == NONE else F.rx(c['lo']), str(hi) if c['hi'] == NONE else F.rx(c['hi']),
                            '' if c['st'] == NONE else F.rx(c['st'])))
        return out

    def walk(u, ss, active, loops):
        for s in ss:
            if s['s'] == 'assign' and any((v, r) in loops for r in ranges(u, s['lhs']) for v in active):
                return True
            inner = active + [s['var']] if s['s'] == 'do' else active
            for key in ('body', 'els', 'default'):
                if isinstance(s.get(key), list) and walk(u, s[key], inner, loops):
                    return True
            if any(walk(u, b, inner, loops) for b in s.get('bodies', [])) or any(walk(u, c['body'], inner, loops) for c in s.get('cases', [])):
                return True
        return False
    for u in prog['units']:
        loops = {(s['var'], (F.rx(s['lo']), F.rx(s['hi']), '' if s['st'] == NONE else F.rx(s['st'])))
                 for s in F._flat(u['body']) if s['s'] == 'do'}
        if walk(u, u['body'], [], loops):
            return True
    return False


def sec_forms(prog):
    """Normal-form descriptors of the array-valued assignments of a (shrunk) program, used in violation
    keys only: rank of the target, how the right-hand side refers to the target array, strides, bounds."""
    out = set()

    def refs(e, acc):
        if isinstance(e, dict):
            if e.get('k') in ('var', 'arr'):
                acc.append(e)
            for c in e.get('c', []):
                refs(c, acc)
            for key in ('lo', 'hi', 'st'):
                if isinstance(e.get(key), dict):
                    refs(e[key], acc)
        return acc
    arrays = set()
    for u in prog['units']:
        arrays |= {d['name'] for d in u['decls'] if d['dims']}
    for u in prog['units']:
        for s in F._flat(u['body']):
            if s['s'] != 'assign':
                continue
            lhs = s['lhs']
            if lhs['name'] not in arrays:
                continue
            ranges = [c for c in lhs.get('c', []) if c['k'] == 'range']
            if lhs['k'] == 'arr' and not ranges:
                continue
            rank = 'whole' if lhs['k'] == 'var' else f'r{len(ranges)}of{len(lhs["c"])}'
            same = [r for r in refs(s['rhs'], []) if r['name'] == lhs['name']]
            if not same:
                ovl = 'none'
            elif all(r == lhs for r in same):
                ovl = 'same'
            elif any(r['k'] == 'arr' and not any(c['k'] == 'range' for c in r['c']) for r in same):
                ovl = 'elem'
            else:
                ovl = 'shift'
            allr = [lhs] + [r for r in refs(s['rhs'], []) if r['name'] in arrays]
            rr = [c for r in allr for c in r.get('c', []) if c['k'] == 'range']
            steps = {F.rx(c['st']) if c['st'] != NONE else '1' for c in rr}
            stride = 'unit' if steps <= {'1'} else 'neg' if any(x.startswith(('-', '(-')) for x in steps) else 'same' if len(steps) == 1 else 'mixed'
            opn = 'open' if any(r['k'] == 'var' for r in allr) or any(c['lo'] == NONE or c['hi'] == NONE for c in rr) else 'closed'
            out.add(f'{rank}/{ovl}/{stride}/{opn}')
    return '+'.join(sorted(out)) or 'no-section'


# ----------------------------------------------------------------------------- reporting
def report(ctx, label, cases, results, fails, recheck=None, deadline=None, rounds=6):
    """One violation per (label, failure signature).  The key is `label:signature` - the label carries the
    option set and the generator population, so keys do not depend on how far shrinking got.  Shrinking
    (statement deletion, re-running the whole check on the candidates) only serves the reproducer shown in
    the report and stops at `deadline` (time.time() value)."""
    import time
    groups = {}
    for idx, kind, msg in fails:
        groups.setdefault(F.failure_signature(kind, msg), []).append((idx, kind, msg))
    ctx.cover.setdefault('failure_groups', {})[label] = {k: len(v) for k, v in groups.items()}
    for sig, members in sorted(groups.items()):
        idx, kind, msg = min(members, key=lambda m: len(results[m[0]]['text']))
        prog, inputs = cases[idx]
        small = prog
        if recheck is not None:
            for _ in range(rounds):
                if deadline is not None and time.time() > deadline:
                    break
                cands = F.removal_candidates(small, limit=24)
                if not cands:
                    break
                outcome = recheck([(c, inputs) for c in cands])
                nxt = next((c for c, (f, sg) in zip(cands, outcome) if f and sg == sig), None)
                if nxt is None:
                    break
                small = nxt
        ctx.violation(f'{label}:{sig}',
                      f'{label}: {len(members)} program(s); transformed program '
                      f'{"output differs" if kind == "output" else kind}: {msg[:700]}\n'
                      f'--- original{" (shrunk)" if small is not prog else ""} ---\n{F.render(small)}'
                      f'--- transformed (unshrunk case) ---\n{results[idx].get("newtext", "")[:3000]}',
                      {'prog': prog, 'inputs': inputs})


def split_lines(text):
    return text.split('\n')


# ----------------------------------------------------------------------------- C40: corpora for the normalisers
def _T(b):
    return {'k': 'log', 'v': b}


def const_conds():
    """Conditions that are decidable at compile time (and a few that only look like it)."""
    return [_T(True), _T(False), F.cmp_('>', N(1), N(2)), F.cmp_('==', N(3), N(3)), op('and', _T(False), V('flag')),
            op('or', _T(True), V('flag')), op('not', _T(False)), F.cmp_('==', op('sum', N(2), N(1)), N(3)),
            op('and', _T(True), op('not', _T(True))), F.cmp_('==', V('n'), V('n')),
            op('and', F.cmp_('<', N(1), N(2)), F.cmp_('>', V('m'), N(0))), op('or', V('flag'), op('not', V('flag')))]


def add_constant_conditionals(prog, rng, p=0.35):
    """Wrap some statements of the kernel into IF constructs whose condition is decidable at compile time
    (text-only `raw` conditions are not needed: the conditions are ordinary expressions)."""
    prog = copy.deepcopy(prog)

    def cc():
        return copy.deepcopy(rng.choice(const_conds()))

    def wrap(ss, depth):
        out = []
        for s in ss:
            for key in ('body', 'els', 'default'):
                if isinstance(s.get(key), list) and s[key]:
                    s[key] = wrap(s[key], depth + 1)
            if 'bodies' in s:
                s['bodies'] = [wrap(b, depth + 1) for b in s['bodies']]
            if rng.random() < p and depth < 4 and s['s'] not in ('exit', 'cycle'):
                n = rng.choice([1, 1, 2])
                w = {'s': 'if', 'conds': [cc() for _ in range(n)], 'bodies': [[s]] + [[copy.deepcopy(s)] for _ in range(n - 1)],
                     'els': [copy.deepcopy(s)] if rng.random() < 0.4 else []}
                if rng.random() < 0.3:
                    w = {'s': 'if', 'conds': [cc()], 'bodies': [[w]], 'els': []}
                out.append(w)
            else:
                out.append(s)
        return out
    u = prog['units'][0]
    u['body'] = u['body'][:5] + wrap(u['body'][5:], 0)
    return prog


_IDENT = re.compile(r'(?<![\w.])[a-z][a-z0-9_]*')


def mixed_case(text, rng):
    """Respell identifiers and keywords in random case (Fortran is case-insensitive outside character
    literals - there are none - and kind suffixes / dotted operators are left alone)."""
    def f(m):
        w = m.group(0)
        r = rng.random()
        return w if r < 0.4 else w.upper() if r < 0.75 else w.capitalize()
    return '\n'.join(_IDENT.sub(f, line) for line in text.split('\n'))


def group_declarations(text):
    """Merge consecutive one-entity declarations with the same type/attribute prefix into one statement."""
    out = []
    for line in text.split('\n'):
        m = re.match(r'^(\s*)([^!]*?)\s*::\s*(.+)$', line)
        if m and out:
            pm = re.match(r'^(\s*)([^!]*?)\s*::\s*(.+)$', out[-1])
            if pm and pm.group(2).lower() == m.group(2).lower() and 'parameter' not in m.group(2).lower():
                out[-1] = out[-1] + ', ' + m.group(3)
                continue
        out.append(line)
    return '\n'.join(out)


CMOD = """module cmod
  implicit none
  integer, parameter :: jpim = selected_int_kind(9)
  integer, parameter :: jprb = selected_real_kind(13, 300)
  integer, parameter :: c1 = 3, c2 = 5, c3 = 2
  integer :: g1, g2(4)
  real(kind=jprb) :: gx
contains
  subroutine csub(a, n)
    integer, intent(in) :: n
    integer, intent(inout) :: a(n)
    a(1) = a(1) + n
  end subroutine csub
  function cfun(i) result(r)
    integer, intent(in) :: i
    integer :: r
    r = i + c1
  end function cfun
end module cmod
"""
CSYMS = ['jpim', 'jprb', 'c1', 'c2', 'c3', 'g1', 'g2', 'gx', 'csub', 'cfun']


def import_snippet(rng):
    """kmod imports a random subset of cmod's symbols at module and routine level (with renames, with and
    without ONLY lists, used as kind / dimension / in expressions / in calls / in a member procedure / in a
    second routine / not at all)."""
    mod_imp = rng.sample(CSYMS, rng.randint(0, 5))
    r_imp = [s for s in rng.sample(CSYMS, rng.randint(1, 6)) if s not in mod_imp]
    avail = mod_imp + r_imp
    renames = {}
    if r_imp and rng.random() < 0.4:
        s = rng.choice([x for x in r_imp if x not in ('jprb', 'jpim')] or r_imp)
        if s not in ('jprb', 'jpim'):
            renames[s] = 'my_' + s

    def nm(s):
        return renames.get(s, s)
    used = [s for s in avail if rng.random() < 0.55]
    L = ['module kmod']
    if mod_imp:
        L.append('  use cmod, only: ' + ', '.join(mod_imp))
    elif rng.random() < 0.3:
        L.append('  use cmod')
    L += ['  implicit none', 'contains', '  subroutine kernel(n, ia, x)']
    if r_imp:
        if rng.random() < 0.7:
            L.append('    use cmod, only: ' + ', '.join(f'{renames[s]} => {s}' if s in renames else s for s in r_imp))
        else:       # two USE statements for the same module
            h = max(1, len(r_imp) // 2)
            for part in (r_imp[:h], r_imp[h:]):
                if part:
                    L.append('    use cmod, only: ' + ', '.join(f'{renames[s]} => {s}' if s in renames else s for s in part))
    kind_r = f'(kind={nm("jprb")})' if 'jprb' in used else ''
    kind_i = f'(kind={nm("jpim")})' if 'jpim' in used else ''
    L += ['    integer, intent(in) :: n', f'    integer{kind_i}, intent(inout) :: ia(4)', f'    real{kind_r}, intent(inout) :: x']
    if 'c2' in used:
        L.append(f'    integer :: loc({nm("c2")})')
    L.append('    integer :: i')
    body = ['    i = n + 1']
    if 'c1' in used:
        body.append(f'    i = i + {nm("c1")}')
    if 'c3' in used:
        body.append(f'    ia({nm("c3")}) = ia({nm("c3")}) + 1')
    if 'c2' in used:
        body.append(f'    loc = {nm("c2")}')
        body.append('    ia(1) = loc(2)')
    if 'g1' in used:
        body.append(f'    {nm("g1")} = i')
    if 'g2' in used:
        body.append(f'    ia(1) = {nm("g2")}(2) + ia(1)')
    if 'gx' in used:
        body.append(f'    x = x + {nm("gx")}')
    if 'csub' in used:
        body.append(f'    call {nm("csub")}(ia, 4)')
    if 'cfun' in used:
        body.append(f'    ia(3) = {nm("cfun")}(i)')
    member = rng.random() < 0.4
    if member:
        body.append('    call inner(i)')
    L += body
    if member:
        muse = [s for s in avail if s in ('c1', 'g1', 'c3') and rng.random() < 0.7]
        L += ['  contains', '    subroutine inner(j)', '      integer, intent(inout) :: j', '      j = j + 1']
        L += [f'      j = j + {nm(s)}' for s in muse]
        L += ['    end subroutine inner']
    L.append('  end subroutine kernel')
    if rng.random() < 0.5:
        ouse = [s for s in mod_imp if s in ('c1', 'c2', 'c3', 'g1') and rng.random() < 0.7]
        L += ['  subroutine other(j)', '    integer, intent(inout) :: j', '    j = j*2'] + [f'    j = j + {s}' for s in ouse] + ['  end subroutine other']
    L.append('end module kmod')
    return '\n'.join(L) + '\n'


def seqassoc_snippet(rng):
    """Calls that pass an array ELEMENT to an array dummy (sequence association), next to calls that pass
    sections / whole arrays / scalars; callees are module procedures and an internal procedure."""
    n1, n2 = rng.choice([(4, 3), (5, 2), (3, 3)])
    lb = rng.choice([1, 0, 2])
    L = ['module kmod', '  implicit none', '  integer, parameter :: jprb = selected_real_kind(13, 300)', 'contains',
         '  subroutine callee1(x, n)', '    integer, intent(in) :: n', '    real(kind=jprb), intent(inout) :: x(n)', '    x(1) = x(1) + 1.0_jprb',
         '  end subroutine callee1',
         '  subroutine callee2(y, n, m)', '    integer, intent(in) :: n, m', '    real(kind=jprb), intent(inout) :: y(n, m)', '    y(1, 1) = y(1, 1)*2.0_jprb',
         '  end subroutine callee2',
         '  subroutine kernel(a, b, c, v, n, m, i, j)',
         '    integer, intent(in) :: n, m, i, j',
         f'    real(kind=jprb), intent(inout) :: a({n1}, {n2}), b({lb}:{lb + n1 - 1}, {n2}), c(n, m, 2), v(6)',
         '    real(kind=jprb) :: s']
    calls = [f'call callee1(a(1, {rng.randint(1, n2)}), {n1})', 'call callee1(a(i, j), 2)', f'call callee1(b({lb}, 1), {n1})',
             'call callee1(b(i + 1, j), 2)', 'call callee1(c(1, 1, 2), n)', 'call callee1(c(i, j, 1), n - i + 1)',
             f'call callee1(v({rng.randint(1, 4)}), 2)', 'call callee1(v(i), 2)', f'call callee1(a(:, {rng.randint(1, n2)}), {n1})',
             'call callee1(v, 6)', 'call callee1(v(2:4), 3)', 'call callee2(c(1, 1, 1), n, m)', 'call callee2(c(1, 1, i), n, m)',
             f'call callee2(a(1, 1), {n1}, {n2})', f'call callee2(a, {n1}, {n2})', 'call callee2(c(:, :, 2), n, m)', 'call local1(a(2, 1), s)',
             'call local1(v(j), s)']
    L += ['    ' + c for c in rng.sample(calls, rng.randint(2, 7))]
    L += ['  contains', '    subroutine local1(z, r)', '      real(kind=jprb), intent(in) :: z(2)', '      real(kind=jprb), intent(out) :: r',
          '      r = z(1) + z(2)', '    end subroutine local1', '  end subroutine kernel', 'end module kmod']
    return '\n'.join(L) + '\n'


def deep_snippet(rng):
    """Deeply nested subscript / intrinsic expressions in mixed case (depth 3..9)."""
    def sp(w):
        return rng.choice([w.lower(), w.upper(), w.capitalize()])
    lines = []
    for v in ('k', 't'):
        e = sp('n')
        for _ in range(rng.randint(3, 9)):
            e = rng.choice([f"{sp('ia')}({sp('mod')}({sp('abs')}({e}), 5))", f"{sp('ia')}({sp('min')}({sp('max')}({e} + {sp('m')}, 0), 4))"])
        lines.append(f'    {sp(v)} = {e}')
    return ('module kmod\n  implicit none\ncontains\n  subroutine kernel(n, m, ia, k)\n    integer, intent(in) :: n, m\n'
            '    integer, intent(inout) :: ia(0:4)\n    integer, intent(out) :: k\n    integer :: t\n' + '\n'.join(lines) +
            '\n    k = k + t\n  end subroutine kernel\nend module kmod\n')


# ----------------------------------------------------------------------------- C30: partially resolved dimensions
ASSUMED = {'k': 'assumed'}


def xdecl(name, ty, intent, xdims):
    """Array dummy with expression bounds / assumed shape (decl field "xdims", see FMachine.HasX)."""
    d = decl(name, ty, intent, [(1, 1)] * len(xdims))
    d['xdims'] = [[lo or NONE, hi] for lo, hi in xdims]
    return d


class DimGen(F.Gen):
    """Section assignments of rank 2 and 3 in which only SOME range dimensions get resolved by one call, and the
    resolved ones are not a prefix of the range dimensions:
      * the "horizontal" dimension `ks:ke` (ks, ke scalar variables computed from the inputs, loop index jl) is a
        trailing / middle dimension of ig(1:3,1:4), ih(1:3,1:4), it(1:2,1:3,1:4) - the two-step pipeline
        resolve_vector_dimension(horizontal) + resolve_vector_notation resolves it first;
      * the helper `hx(c, d, nn, ks, ke)` has ASSUMED-SHAPE dummies c(:,:), d(:,:): a bare `:` (shape unknown) stays
        while `1:nn` / `ks:ke` behind it is resolved, also with resolve_implicit_rhs_ranges=False.
    Every program uses one `form` (index into forms()); statements never overlap (same element or other array)."""

    NFORMS = 10

    def __init__(self, rng, features=(), form=0, always_call=False):
        super().__init__(rng, tuple(features))
        self.form = form
        self.always_call = always_call      # every program also calls the assumed-shape helper

    def forms(self):
        r = lambda: rng_(V('ks'), V('ke'))
        c = self.rng.randint(1, 3)
        return [
            [assign(el('ig', rng_(), r()), op('prod', N(2), el('ih', rng_(), r())))],
            [assign(el('ig', rng_(), r()), _m(op('sum', el('ih', rng_(), r()), el('ig', rng_(), r()))))],
            [assign(el('ig', rng_(N(1), N(3)), r()), _m(op('sum', el('ih', rng_(N(1), N(3)), r()), V('m'))))],
            [assign(el('ig', rng_(N(1), N(2)), r()), el('ih', rng_(N(2), N(3)), r()))],
            [assign(el('ig', rng_(), r()), op('prod', N(2), el('ih', rng_(), r()))),
             assign(el('ig', N(c), r()), _m(op('sum', el('ig', N(c), r()), el('iv', r()))))],
            [assign(el('it', rng_(), rng_(), r()), _m(op('sum', el('it', rng_(), rng_(), r()), N(c))))],
            [assign(el('it', N(1), rng_(), r()), el('ih', rng_(), r()))],
            [assign(el('ig', rng_(), r()), _m(op('sum', el('it', N(2), rng_(), r()), el('ih', rng_(), r()))))],
            [{'s': 'call', 'name': 'hx', 'args': [V('ig'), V('ih'), N(self.rng.randint(2, 4)), V('ks'), V('ke')]}],
            [{'s': 'call', 'name': 'hx', 'args': [el('it', N(c % 2 + 1), rng_(), rng_()), V('ih'), N(self.rng.randint(2, 4)), V('ks'), V('ke')]},
             assign(el('ig', rng_(), r()), el('it', N(c % 2 + 1), rng_(), r()))],
        ]

    def section_stmt(self):
        fs = self.forms()
        return fs[self.form % len(fs)]

    def helper(self):
        body = [assign(el('c', rng_(), rng_(N(1), V('nn'))), op('sum', el('d', rng_(), rng_(N(1), V('nn'))), N(1))),
                assign(el('c', rng_(), rng_(V('ks'), V('ke'))),
                       _m(op('sum', op('prod', el('c', rng_(), rng_(V('ks'), V('ke'))), N(2)), el('d', rng_(), rng_(V('ks'), V('ke'))))))]
        return unit('hx', ['c', 'd', 'nn', 'ks', 'ke'],
                    [xdecl('c', 'int', 'inout', [(None, ASSUMED), (None, ASSUMED)]), xdecl('d', 'int', 'in', [(None, ASSUMED), (None, ASSUMED)]),
                     decl('nn', 'int', 'in'), decl('ks', 'int', 'in'), decl('ke', 'int', 'in')], body)

    def program(self, nstmts=4, depth=1):
        rng = self.rng
        self.arrays = {'ia': self.IA[1], 'ra': self.RA[1]}
        self.active_loops = []
        self.loop_range = {}
        self.int_writable = ['k', 't1', 't2']
        self.int_scalars = ['n', 'm', 'k', 't1', 't2']
        self.int_scalars_noarr = list(self.int_scalars)
        self.real_scalars = ['x', 'y']
        self.real_writable = ['x', 'y']
        self.helpers = []
        self.functions = []
        self.assoc_names = []
        self.assoc_depth = 0
        decls = [decl('n', 'int', 'in'), decl('m', 'int', 'in'), decl('flag', 'log', 'in'),
                 decl('ia', 'int', 'inout', self.arrays['ia']), decl('ra', 'real', 'inout', self.arrays['ra']),
                 decl('ig', 'int', 'inout', [(1, 3), (1, 4)]), decl('ih', 'int', 'in', [(1, 3), (1, 4)]), decl('iv', 'int', 'in', [(1, 4)]),
                 decl('k', 'int', 'out'), decl('x', 'real', 'out')]
        args = ['n', 'm', 'flag', 'ia', 'ra', 'ig', 'ih', 'iv', 'k', 'x']
        decls += [decl(v, 'int') for v in ('i', 'j', 'l', 'w', 't1', 't2', 'ks', 'ke', 'jl')] + [decl('y', 'real'), decl('it', 'int', 'local', [(1, 2), (1, 3), (1, 4)])]
        loop = lambda v, lo, hi, body: {'s': 'do', 'var': v, 'lo': N(lo), 'hi': N(hi), 'st': NONE, 'body': body}
        init = [assign(V('k'), N(0)), assign(V('x'), R(0)), assign(V('t1'), V('m')), assign(V('t2'), N(1)), assign(V('y'), R(1, 2)),
                assign(V('ks'), op('sum', N(1), call('mod', call('abs', V('n')), N(2)))),
                assign(V('ke'), op('sum', N(3), call('mod', call('abs', V('m')), N(2)))),
                loop('l', 1, 4, [loop('j', 1, 3, [loop('i', 1, 2, [
                    assign(el('it', V('i'), V('j'), V('l')), call('mod', op('sum', op('sum', op('prod', V('i'), N(5)), op('prod', V('j'), N(3))), op('sum', V('l'), V('n'))), N(11)))])])])]
        main = self.block(depth, nstmts)
        main[rng.randint(0, len(main)):0] = self.section_stmt()
        if rng.random() < 0.5:
            main += self.section_stmt()
        if self.always_call and self.form % self.NFORMS < 8:
            main += self.forms()[8 + rng.randrange(2)]
        body = init + main
        body += [loop('l', 1, 4, [loop('j', 1, 3, [loop('i', 1, 2, [
            assign(V('k'), call('mod', op('sum', op('prod', V('k'), N(3)), el('it', V('i'), V('j'), V('l'))), N(101)))])])])]
        prog = {'units': [unit('kernel', args, decls, body), self.helper()]}
        prog['form'] = f'f{self.form % self.NFORMS}'
        return prog

    def inputs(self, prog, count=4):
        out = super().inputs(prog, count)
        return out


# ----------------------------------------------------------------------------- C40: nested targets of a normaliser
def const_selectors(v):
    """Selector expressions with the compile-time value v (literal, or simplifiable arithmetic)."""
    return [N(v), op('sum', N(v - 1), N(1)), op('sum', N(v + 2), op('neg', N(2))), op('prod', N(1), N(v)), op('par', N(v))]


def add_decidable_selects(prog, rng, depth=None):
    """Wrap statements of the kernel into constructs that dead-code removal decides statically and whose SELECTED
    part again contains prunable code: SELECT CASE on a literal / simplifiable selector whose chosen CASE (or the
    CASE DEFAULT) holds IFs with constant conditions and further decidable SELECT CASEs, nesting depth 2..3, and
    IF (.true.) bodies that contain decidable SELECTs.  Returns (program, number of nested constructs)."""
    prog = copy.deepcopy(prog)
    count = [0]

    def dead_if(s):
        c = rng.choice([_T(False), F.cmp_('>', N(1), N(2)), op('and', _T(False), V('flag')), op('not', _T(True))])
        return {'s': 'if', 'conds': [c], 'bodies': [[copy.deepcopy(s)]], 'els': [copy.deepcopy(s)] if rng.random() < 0.5 else []}

    def live_if(inner):
        c = rng.choice([_T(True), F.cmp_('==', N(3), N(3)), op('or', _T(True), V('flag')), op('not', _T(False))])
        return {'s': 'if', 'conds': [c], 'bodies': [inner], 'els': []}

    def select(inner, s, default_selected=False):
        v = rng.randint(1, 4)
        sel = copy.deepcopy(rng.choice(const_selectors(v)))
        other = [{'lo': v + 1, 'hi': v + 1, 'body': [copy.deepcopy(s)]}]
        if rng.random() < 0.4:
            other.append({'lo': v + 2, 'hi': v + 3, 'body': [copy.deepcopy(s), dead_if(s)]})
        if default_selected:     # no case value equals the selector: CASE DEFAULT runs
            return {'s': 'select', 'e': sel, 'cases': other, 'default': inner}
        cases = [{'lo': v, 'hi': v, 'body': inner}] + other
        if rng.random() < 0.5:
            cases = cases[1:] + cases[:1]
        return {'s': 'select', 'e': sel, 'cases': cases, 'default': [copy.deepcopy(s)] if rng.random() < 0.6 else []}

    def nest(s, d):
        if d == 0:
            return [copy.deepcopy(s), dead_if(s)] if rng.random() < 0.7 else [dead_if(s), copy.deepcopy(s)]
        count[0] += 1
        inner = nest(s, d - 1)
        if rng.random() < 0.5 and d > 1:
            inner = inner + [dead_if(s)]
        r = rng.random()
        if r < 0.6:
            return [select(inner, s)]
        if r < 0.75:
            return [select(inner, s, default_selected=True)]
        return [live_if([select(inner, s)])]

    u = prog['units'][0]
    head, tail = u['body'][:5], u['body'][5:]
    simple = [i for i, s in enumerate(tail) if s['s'] in ('assign', 'print', 'call')]
    chosen = rng.sample(simple, min(len(simple), rng.randint(2, 3))) if simple else []
    out = []
    for i, s in enumerate(tail):
        out += nest(s, depth or rng.choice([2, 2, 3])) if i in chosen else [s]
    if not chosen:
        out += nest(assign(V('k'), op('sum', V('k'), N(1))), depth or 2)
    u['body'] = head + out
    return prog, count[0]


def nested_vector_snippet(rng):
    """Array sections nested inside the subscripts of arrays of a section assignment (vector subscripts), one and
    two levels deep, and inside WHERE - occurrences of resolve_vector_notation's target inside what it rewrites."""
    j = rng.choice([-1, 0, 1])
    stmts = [f'ia(0:2) = ic(2 + mod(abs(ib(1:3, {j})), 5))',
             f'ib(1:3, {j}) = ia(mod(abs(ic(2:4)), 5))',
             'ic(2:4) = ia(mod(abs(ic(2 + mod(abs(ia(0:2)), 5))), 5))',
             'ia(:) = ic(2 + mod(abs(ia(:)), 5))',
             f'ib(:, {j}) = ib(1 + mod(abs(ia(0:2)), 3), 0) + ia(mod(abs(ib(:, 1)), 5))',
             'where (ia(0:2) > 1) ia(0:2) = ic(2 + mod(abs(ia(2:4)), 5))',
             'ia(1:3) = ic(ia(1:3)/2 + 2) + ic(6 - mod(abs(ia(0:2)), 3))']
    body = rng.sample(stmts, rng.randint(2, 4))
    return ('module kmod\n  implicit none\ncontains\n  subroutine kernel(ia, ib, ic)\n    integer, intent(inout) :: ia(0:4), ib(1:3, -1:1), ic(2:6)\n' +
            '\n'.join('    ' + b for b in body) + '\n  end subroutine kernel\nend module kmod\n')
