"""Generators and reporting helpers for the sanitising / normalising transformations
(C29 associates, C30 array notation and index normalisation, C40 idempotence).

Nothing here decides a verdict: programs are derived in the JSON grammar of spec/FMachine.tla, rendered by
lib_fm, and judged by TLC (Trace_FMachine for behaviour, Trace_Idempotent for text pairs)."""
import copy
import re

from . import lib_fm as F
from .lib_fm import V, N, R, op, call, el, rng_, assign, decl, unit, NONE


# ----------------------------------------------------------------------------- C29: ASSOCIATE programs
class AssocGen(F.Gen):
    """Nested ASSOCIATE blocks (up to `max_depth` deep) over scalar variables, array elements, whole arrays
    and expressions.  The knobs select a *population* (a syntactic class of programs), so that a defect
    of one class cannot hide the behaviour on the others:

    volatile     False: whatever a selector mentions (operands of an expression selector, subscripts of an
                 element selector) is defined nowhere inside the OUTERMOST enclosing associate block
                 (intent(in) dummies, literals, loop variables of loops around that block), so binding on
                 entry (Fortran), at every use (textual replacement) and on entry of an enclosing block
                 (merging) cannot be told apart.  True: selectors mention anything.
    expr         expression selectors are generated
    unique       associate names are unique in the routine (False: sibling blocks reuse names)
    dependent    every nested block has at least one selector that mentions a name of its parent block
    subdep       element selectors whose SUBSCRIPT mentions a name of an enclosing block
    print_names  PRINT statements may mention associate names
    whole        whole-array selectors (`z => ia`, used as z(i) / z(lo:hi) / z inside the block)"""

    def __init__(self, rng, features=(), volatile=False, expr=True, unique=True, dependent=True, subdep=False,
                 print_names=False, whole=True, max_depth=3):
        super().__init__(rng, features)
        self.volatile = volatile
        self.expr = expr
        self.unique = unique
        self.dependent = dependent
        self.subdep = subdep
        self.print_names = print_names
        self.whole = whole
        self.max_depth = max_depth
        self.arr_alias = []          # associate names currently bound to the whole array ia
        self.counter = 0
        self.levels = []             # per open block: dict(scal=[names usable as integer scalars], ro=[read-only stable ones], arr=[..])
        self.outer_loops = []

    def stmt(self, d):
        if 'assoc' in self.f and self.assoc_depth < self.max_depth and self.rng.random() < (0.35 if self.assoc_depth else 0.2):
            return self.assoc_stmt(d)
        out = super().stmt(d)
        if not self.print_names and self.assoc_names:
            for s in out:
                if s['s'] == 'print' and mentions(s['items'], set(self.assoc_names)):
                    s['items'] = [self.int_expr(1, ['n', 'm', 'k', 't1', 't2'])]
                    if mentions(s['items'], set(self.assoc_names)):      # through ia_elem of an array alias
                        s['items'] = [V('k'), V('t1')]
        return out

    def ia_elem(self, scalars):
        if self.arr_alias and self.rng.random() < 0.6:
            return el(self.rng.choice(self.arr_alias), self.index('ia', 0, scalars))
        return super().ia_elem(scalars)

    def section_stmt(self):
        if self.arr_alias and self.rng.random() < 0.7:
            z = self.rng.choice(self.arr_alias)
            lo, hi = self.arrays['ia'][0]
            r = self.rng.random()
            if r < 0.4:
                return [assign(V(z), _m(op('sum', V(z), self.int_leaf(self.int_scalars_noarr))))]
            if r < 0.7:
                return [assign(el(z, rng_(N(lo), N(hi - 1))), _m(op('prod', el(z, rng_(N(lo + 1), N(hi))), N(2))))]
            return [assign(el(z, rng_(N(lo + 1), N(hi))), call('mod', op('sum', el('ia', rng_(N(lo + 1), N(hi))), N(1)), N(7)))]
        return super().section_stmt()

    def stable_sub(self):
        """A subscript of ia that nothing inside the outermost block defines."""
        lo, hi = self.arrays['ia'][0]
        cands = [v for v in self.outer_loops if v != 'w' and self.loop_range[v][0] >= lo and self.loop_range[v][1] <= hi]
        if cands and self.rng.random() < 0.5:
            return V(self.rng.choice(cands))
        return N(self.rng.randint(lo, hi))

    def assoc_stmt(self, d):
        rng = self.rng
        if self.assoc_depth == 0:
            self.outer_loops = list(self.active_loops)
        names, targets = [], []
        lvl = dict(scal=[], ro=[], arr=[], wr=[])
        parent = self.levels[-1] if self.levels else None
        npairs = rng.choice([1, 2, 2, 3])
        want_dep = self.dependent and parent is not None
        for i in range(npairs):
            if self.unique:
                self.counter += 1
                nm = f'z{self.counter}'
            else:
                nm = f'z{self.assoc_depth * 3 + i + 1}'
            r = rng.random()
            writable = [v for v in self.int_writable if v not in self.active_loops]
            kind = 'arr' if self.whole and r < 0.2 else 'var' if r < 0.45 else 'elem' if r < 0.75 else 'expr' if self.expr else 'rovar'
            if want_dep and i == 0:
                # a selector that mentions a name of the parent block
                opts = []
                if parent['wr']:
                    opts.append('var')
                if parent['ro']:
                    opts.append('rovar')
                    if self.expr:
                        opts.append('expr')
                    if self.subdep:
                        opts += ['sub', 'sub']
                if parent['arr']:
                    opts += ['arr', 'elem']
                if not opts:
                    kind = 'none'
                else:
                    kind = rng.choice(opts)
                    if kind == 'var':
                        t = V(rng.choice(parent['wr']))
                        lvl['wr'].append(nm)
                        lvl['scal'].append(nm)
                    elif kind == 'rovar':
                        t = V(rng.choice(parent['ro']))
                        lvl['ro'].append(nm)
                        lvl['scal'].append(nm)
                    elif kind == 'expr':
                        t = op('sum', V(rng.choice(parent['ro'])), N(rng.choice([1, 2])))
                        lvl['ro'].append(nm)
                        lvl['scal'].append(nm)
                    elif kind == 'sub':
                        t = el('ia', call('mod', call('abs', V(rng.choice(parent['ro']))), N(5)))
                        lvl['wr'].append(nm)
                        lvl['scal'].append(nm)
                    elif kind == 'arr':
                        t = V(rng.choice(parent['arr']))
                        lvl['arr'].append(nm)
                    else:
                        t = el(rng.choice(parent['arr']), self.stable_sub())
                        lvl['wr'].append(nm)
                        lvl['scal'].append(nm)
                    names.append(nm)
                    targets.append(t)
                    continue
            if kind == 'arr':
                t = V('ia') if not self.arr_alias or rng.random() < 0.5 else V(rng.choice(self.arr_alias))
                lvl['arr'].append(nm)
            elif kind == 'var':
                if rng.random() < 0.3:
                    t = V(rng.choice(['n', 'm']))          # a read-only entity
                    lvl['ro'].append(nm)
                else:
                    t = V(rng.choice(writable))
                    lvl['wr'].append(nm)
                lvl['scal'].append(nm)
            elif kind == 'rovar':
                t = V(rng.choice(['n', 'm']))
                lvl['ro'].append(nm)
                lvl['scal'].append(nm)
            elif kind == 'elem':
                if self.volatile:
                    t = el('ia', self.index('ia', 0, self.int_scalars, simple=rng.random() < 0.6))
                elif self.subdep and self.levels and any(l['ro'] for l in self.levels) and rng.random() < 0.5:
                    t = el('ia', call('mod', call('abs', V(rng.choice([x for l in self.levels for x in l['ro']]))), N(5)))
                else:
                    t = el('ia', self.stable_sub())
                lvl['wr'].append(nm)
                lvl['scal'].append(nm)
            else:
                if not self.volatile:
                    pool = ['n', 'm'] + [v for v in self.outer_loops if v != 'w'] + [x for l in self.levels for x in l['ro']]
                    a = V(rng.choice(pool))
                    b = V(rng.choice(pool)) if rng.random() < 0.5 else N(rng.choice([1, 2, 3]))
                    t = rng.choice([op('sum', a, b), op('prod', a, N(rng.choice([2, 3]))), op('sum', a, op('neg', b)),
                                    call('mod', op('sum', a, N(7)), N(3)), op('par', op('sum', a, b)), N(rng.randint(0, 4))])
                    lvl['ro'].append(nm)
                else:
                    t = op('sum', self.int_expr(1, self.int_scalars), N(1))
                lvl['scal'].append(nm)
            names.append(nm)
            targets.append(t)
        saved = (list(self.int_writable), list(self.int_scalars), list(self.arr_alias))
        self.assoc_names += names
        self.int_writable = self.int_writable + lvl['wr'] * 2     # twice: bias towards using the names
        self.int_scalars = self.int_scalars + lvl['scal'] * 3
        self.arr_alias = self.arr_alias + lvl['arr']
        self.levels.append(lvl)
        self.assoc_depth += 1
        body = self.block(d - 1, rng.randint(1, 3))
        self.assoc_depth -= 1
        self.levels.pop()
        self.int_writable, self.int_scalars, self.arr_alias = saved
        for _ in names:
            self.assoc_names.pop()
        return [{'s': 'assoc', 'names': names, 'targets': targets, 'body': body}]


def mentions(e, names):
    """Does the expression (tree / list of trees) mention one of the names?"""
    if isinstance(e, list):
        return any(mentions(c, names) for c in e)
    if isinstance(e, dict):
        if e.get('k') in ('var', 'arr') and e.get('name') in names:
            return True
        return any(mentions(v, names) for v in e.values() if isinstance(v, (dict, list)))
    return False


def assoc_depth(prog):
    """Deepest ASSOCIATE nesting in the program."""
    def depth(ss):
        best = 0
        for s in ss:
            inner = 0
            for key in ('body', 'els', 'default'):
                if isinstance(s.get(key), list):
                    inner = max(inner, depth(s[key]))
            for b in s.get('bodies', []):
                inner = max(inner, depth(b))
            for c in s.get('cases', []):
                inner = max(inner, depth(c['body']))
            best = max(best, inner + (1 if s['s'] == 'assoc' else 0))
        return best
    return max(depth(u['body']) for u in prog['units'])


# ----------------------------------------------------------------------------- C30: array sections
def _m(e, k=None):
    return call('mod', e, N(k or 17))


class SecGen(F.Gen):
    """Array-section assignments of one `family`:
      disjoint   the right-hand side reads no element the statement defines (other array, disjoint section,
                 or the same section element by element)
      overlap    the right-hand side reads elements the statement defines at other positions (shifts in both
                 directions, reversal, a scalar element of the target, 2-d shifts, row <- column)
      stride     strides / directions that differ between the two sides (no overlap)
      open       omitted bounds, whole arrays with different lower bounds, zero-size sections, variable bounds
      intrinsic  sections as arguments of elemental intrinsics (no overlap)
    Arrays: ia(0:4), ic(2:6) local, ib(1:3,-1:1), ra(1:4)."""

    FAMILIES = ('disjoint', 'overlap', 'stride', 'open', 'intrinsic')

    def __init__(self, rng, features=(), family='disjoint', form=None):
        super().__init__(rng, tuple(features) + ('section', 'twod'))
        self.family = family
        self.form = form          # index into the family's list; one form per program (None: drawn in program())

    # ---- the section statements: every one in a program is an instance of the same form
    def section_stmt(self):
        forms = getattr(self, 'fam_' + self.family)()
        return [forms[self.form % len(forms)]]

    def sc(self):
        return self.int_leaf(self.int_scalars_noarr)

    def fam_disjoint(self):
        rng = self.rng
        j, j2 = rng.sample([-1, 0, 1], 2)
        i1 = rng.randint(1, 3)
        return [
            assign(el('ia', rng_(N(0), N(1))), _m(op('sum', el('ia', rng_(N(3), N(4))), self.sc()))),
            assign(el('ia', rng_(N(3), N(4))), el('ia', rng_(N(0), N(1)))),
            assign(el('ia', rng_(N(1), N(3))), _m(op('sum', el('ia', rng_(N(1), N(3))), V('m')))),
            assign(el('ia', rng_(N(0), N(4))), _m(op('prod', el('ic', rng_(N(2), N(6))), N(2)))),
            assign(el('ic', rng_(N(3), N(5))), _m(op('sum', el('ia', rng_(N(0), N(2))), el('ia', rng_(N(2), N(4)))))),
            assign(el('ia', rng_(N(1), N(3))), V(rng.choice(['t1', 't2', 'n']))),
            assign(el('ia', rng_(N(2), N(4))), _m(op('sum', el('ic', rng_(N(2), N(4))), el('ic', N(6))))),
            assign(el('ib', rng_(N(1), N(3)), N(j)), _m(op('sum', el('ib', rng_(N(1), N(3)), N(j2)), el('ia', rng_(N(0), N(2)))))),
            assign(el('ib', N(i1), rng_(N(-1), N(1))), el('ic', rng_(N(4), N(6)))),
            assign(el('ib', rng_(N(1), N(2)), rng_(N(-1), N(0))), _m(op('sum', el('ib', rng_(N(1), N(2)), rng_(N(-1), N(0))), N(3)))),
            assign(el('ib', rng_(N(1), N(3)), rng_(N(-1), N(-1))), el('ib', rng_(N(1), N(3)), rng_(N(1), N(1)))),
            assign(el('ia', rng_(N(0), N(2))), _m(el('ib', N(i1), rng_(N(-1), N(1))))),
            assign(el('ra', rng_(N(1), N(2))), op('prod', el('ra', rng_(N(3), N(4))), R(1, 2))),
            assign(el('ra', rng_(N(2), N(4))), op('sum', el('ra', rng_(N(2), N(4))), R(1, 4))),
        ]

    def fam_overlap(self):
        rng = self.rng
        k = rng.choice([1, 2])
        e = rng.randint(0, 4)
        return [
            assign(el('ia', rng_(N(k), N(4))), _m(op('sum', el('ia', rng_(N(0), N(4 - k))), N(1)))),
            assign(el('ia', rng_(N(0), N(4 - k))), _m(op('prod', el('ia', rng_(N(k), N(4))), N(2)))),
            assign(el('ia', rng_(N(0), N(4))), el('ia', rng_(N(4), N(0), N(-1)))),
            assign(el('ia', rng_(N(0), N(4))), _m(op('sum', el('ia', rng_(N(0), N(4))), el('ia', N(e))))),
            assign(el('ia', rng_(N(1), N(3))), _m(op('sum', el('ia', rng_(N(0), N(2))), el('ia', rng_(N(2), N(4)))))),
            assign(el('ic', rng_(N(3), N(6))), el('ic', rng_(N(2), N(5)))),
            assign(el('ib', rng_(N(2), N(3)), rng_(N(-1), N(1))), _m(op('sum', el('ib', rng_(N(1), N(2)), rng_(N(-1), N(1))), N(1)))),
            assign(el('ib', rng_(N(1), N(3)), rng_(N(0), N(1))), el('ib', rng_(N(1), N(3)), rng_(N(-1), N(0)))),
            assign(el('ib', rng_(N(1), N(2)), rng_(N(-1), N(0))), el('ib', rng_(N(2), N(3)), rng_(N(0), N(1)))),
            assign(el('ib', N(2), rng_(N(-1), N(1))), el('ib', rng_(N(1), N(3)), N(0))),
            assign(el('ib', rng_(N(1), N(3)), N(0)), _m(op('sum', el('ib', N(1), rng_(N(-1), N(1))), N(1)))),
            assign(el('ra', rng_(N(2), N(4))), op('sum', el('ra', rng_(N(1), N(3))), R(1, 4))),
            assign(el('ra', rng_(N(1), N(4))), op('prod', el('ra', rng_(N(4), N(1), N(-1))), R(1, 2))),
        ]

    def fam_stride(self):
        return [
            assign(el('ia', rng_(N(0), N(4), N(2))), _m(op('sum', el('ia', rng_(N(0), N(4), N(2))), V('m')))),
            assign(el('ia', rng_(N(0), N(4), N(2))), el('ic', rng_(N(2), N(4)))),
            assign(el('ic', rng_(N(2), N(4))), _m(op('sum', el('ia', rng_(N(0), N(4), N(2))), N(1)))),
            assign(el('ia', rng_(N(4), N(0), N(-2))), el('ic', rng_(N(2), N(6), N(2)))),
            assign(el('ia', rng_(N(0), N(4))), el('ic', rng_(N(6), N(2), N(-1)))),
            assign(el('ia', rng_(N(3), N(1), N(-1))), _m(op('prod', el('ic', rng_(N(2), N(4))), N(3)))),
            assign(el('ic', rng_(N(2), N(6), N(2))), _m(op('sum', el('ic', rng_(N(3), N(5))), N(1)))),   # 3 <- 3..5: ic(4) both sides
            assign(el('ib', rng_(N(1), N(3), N(2)), N(0)), el('ia', rng_(N(1), N(2)))),
            assign(el('ib', N(2), rng_(N(-1), N(1), N(2))), el('ib', N(1), rng_(N(0), N(1)))),
            assign(el('ia', rng_(N(1), N(4), N(3))), el('ib', rng_(N(1), N(3), N(2)), N(1))),
            assign(el('ra', rng_(N(1), N(3), N(2))), op('prod', el('ra', rng_(N(2), N(4), N(2))), R(2))),
        ]

    def fam_open(self):
        rng = self.rng
        j = rng.choice([-1, 0, 1])
        nb = call('min', call('max', V('n'), N(0)), N(4))
        return [
            assign(V('ia'), _m(op('sum', op('prod', V('ia'), N(2)), V('m')))),
            assign(V('ia'), V('ic')),
            assign(V('ic'), _m(op('sum', V('ia'), V('ic')))),
            assign(V('ia'), _m(op('sum', V('ia'), el('ic', rng_(N(2), N(6)))))),
            assign(V('ib'), _m(op('sum', op('prod', V('ib'), N(3)), N(1)))),
            assign(V('ra'), op('prod', V('ra'), R(1, 2))),
            assign(V('ia'), N(rng.randint(0, 5))),
            assign(el('ia', rng_()), _m(op('sum', el('ic', rng_()), N(1)))),
            assign(el('ia', rng_(NONE, N(2))), el('ic', rng_(N(4), NONE))),
            assign(el('ia', rng_(N(2), NONE)), _m(op('sum', el('ic', rng_(NONE, N(4))), V('t1')))),
            assign(el('ia', rng_(NONE, NONE, N(2))), el('ic', rng_(N(2), N(4)))),
            assign(el('ib', rng_(), N(j)), el('ia', rng_(N(0), N(2)))),
            assign(el('ib', rng_(), N(j)), _m(op('sum', el('ib', rng_(), N(j)), el('ia', rng_(N(2), NONE))))),
            assign(el('ib', N(2), rng_()), el('ic', rng_(N(3), N(5)))),
            assign(el('ib', rng_(), rng_()), _m(op('sum', V('ib'), N(2)))),
            assign(el('ib', rng_(NONE, N(2)), rng_(N(0), NONE)), N(rng.randint(0, 4))),
            assign(el('ia', rng_(N(3), N(2))), N(7)),                                   # zero-size
            assign(el('ia', rng_(N(0), nb)), _m(op('sum', el('ic', rng_(N(2), op('sum', nb, N(2)))), N(1)))),
            assign(el('ia', rng_(N(1), call('min', V('n'), N(4)))), N(rng.randint(1, 5))),   # possibly zero-size
        ]

    def fam_intrinsic(self):
        rng = self.rng
        j = rng.choice([-1, 0, 1])
        return [
            assign(el('ia', rng_(N(0), N(2))), call('abs', op('sum', el('ic', rng_(N(2), N(4))), N(-3)))),
            assign(el('ia', rng_(N(0), N(2))), call('max', el('ic', rng_(N(2), N(4))), el('ic', rng_(N(4), N(6))))),
            assign(el('ic', rng_(N(2), N(4))), call('min', el('ia', rng_(N(2), N(4))), V('m'))),
            assign(V('ia'), call('mod', V('ic'), N(3))),
            assign(V('ia'), call('max', call('min', V('ia'), N(4)), V('ic'))),
            assign(el('ia', rng_(N(1), N(3))), call('sign', el('ic', rng_(N(2), N(4))), op('sum', el('ic', rng_(N(4), N(6))), N(-2)))),
            assign(el('ib', rng_(), N(j)), call('modulo', el('ia', rng_(N(1), N(3))), N(4))),
            assign(el('ia', rng_(N(0), N(2))), call('abs', el('ib', N(rng.randint(1, 3)), rng_()))),
            assign(el('ra', rng_(N(1), N(3))), call('abs', op('sum', el('ra', rng_(N(1), N(3))), R(-1)))),
            assign(el('ra', rng_(N(1), N(3))), call('real', el('ia', rng_(N(0), N(2))))),
            assign(el('ia', rng_(N(0), N(3))), call('int', op('prod', V('ra'), R(2)))),
            assign(el('ia', rng_(N(0), N(2))), call('merge', el('ic', rng_(N(2), N(4))), el('ic', rng_(N(4), N(6))), F.cmp_('>', el('ic', rng_(N(3), N(5))), N(2)))),
        ]

    # ---- whole programs: the base kernel plus a local integer array ic(2:6)
    def program(self, nstmts=6, depth=2):
        rng = self.rng
        self.arrays = {'ia': self.IA[1], 'ra': self.RA[1], 'ib': self.IB[1]}
        self.active_loops = []
        self.loop_range = {}
        self.int_writable = ['k', 't1', 't2']
        self.int_scalars = ['n', 'm', 'k', 't1', 't2']
        self.int_scalars_noarr = list(self.int_scalars)
        self.real_scalars = ['x', 'y']
        self.real_writable = ['x', 'y']
        self.helpers = []
        self.functions = []
        self.assoc_names = []
        self.assoc_depth = 0
        units = []
        if 'call' in self.f:
            units += self.make_helpers()
        decls = [decl('n', 'int', 'in'), decl('m', 'int', 'in'), decl('flag', 'log', 'in'),
                 decl('ia', 'int', 'inout', self.arrays['ia']), decl('ra', 'real', 'inout', self.arrays['ra']),
                 decl('ib', 'int', 'inout', self.arrays['ib']), decl('k', 'int', 'out'), decl('x', 'real', 'out')]
        args = ['n', 'm', 'flag', 'ia', 'ra', 'ib', 'k', 'x']
        decls += [decl(v, 'int') for v in ('i', 'j', 'l', 'w', 't1', 't2')] + [decl('y', 'real'), decl('ic', 'int', 'local', [(2, 6)])]
        init = [assign(V('k'), N(0)), assign(V('x'), R(0)), assign(V('t1'), V('m')), assign(V('t2'), N(1)), assign(V('y'), R(1, 2)),
                {'s': 'do', 'var': 'i', 'lo': N(2), 'hi': N(6), 'st': NONE, 'body': [
                    assign(el('ic', V('i')), call('mod', op('sum', op('prod', V('i'), N(3)), V('n')), N(7)))]}]
        if self.form is None:
            self.form = rng.randrange(64)
        body = init + self.block(depth, nstmts)
        if not any(x['s'] == 'assign' and x['lhs']['name'] in ('ia', 'ib', 'ic', 'ra') and (x['lhs']['k'] == 'var' or any(c['k'] == 'range' for c in x['lhs']['c']))
                   for x in F._flat(body)):
            body += self.section_stmt()
        # the local array is observable through the result k
        body += [{'s': 'do', 'var': 'i', 'lo': N(2), 'hi': N(6), 'st': NONE, 'body': [
            assign(V('k'), call('mod', op('sum', op('prod', V('k'), N(3)), el('ic', V('i'))), N(101)))]}]
        prog = {'units': [unit('kernel', args, decls, body)] + units}
        prog['form'] = sec_forms({'units': [unit('kernel', args, decls, self.section_stmt())]})
        return prog


def sec_forms(prog):
    """Normal-form descriptors of the array-valued assignments of a (shrunk) program, used in violation
    keys only: rank of the target, how the right-hand side refers to the target array, strides, bounds."""
    out = set()

    def refs(e, acc):
        if isinstance(e, dict):
            if e.get('k') in ('var', 'arr'):
                acc.append(e)
            for c in e.get('c', []):
                refs(c, acc)
            for key in ('lo', 'hi', 'st'):
                if isinstance(e.get(key), dict):
                    refs(e[key], acc)
        return acc
    arrays = set()
    for u in prog['units']:
        arrays |= {d['name'] for d in u['decls'] if d['dims']}
    for u in prog['units']:
        for s in F._flat(u['body']):
            if s['s'] != 'assign':
                continue
            lhs = s['lhs']
            if lhs['name'] not in arrays:
                continue
            ranges = [c for c in lhs.get('c', []) if c['k'] == 'range']
            if lhs['k'] == 'arr' and not ranges:
                continue
            rank = 'whole' if lhs['k'] == 'var' else f'r{len(ranges)}of{len(lhs["c"])}'
            same = [r for r in refs(s['rhs'], []) if r['name'] == lhs['name']]
            if not same:
                ovl = 'none'
            elif all(r == lhs for r in same):
                ovl = 'same'
            elif any(r['k'] == 'arr' and not any(c['k'] == 'range' for c in r['c']) for r in same):
                ovl = 'elem'
            else:
                ovl = 'shift'
            allr = [lhs] + [r for r in refs(s['rhs'], []) if r['name'] in arrays]
            rr = [c for r in allr for c in r.get('c', []) if c['k'] == 'range']
            steps = {F.rx(c['st']) if c['st'] != NONE else '1' for c in rr}
            stride = 'unit' if steps <= {'1'} else 'neg' if any(x.startswith(('-', '(-')) for x in steps) else 'same' if len(steps) == 1 else 'mixed'
            opn = 'open' if any(r['k'] == 'var' for r in allr) or any(c['lo'] == NONE or c['hi'] == NONE for c in rr) else 'closed'
            out.add(f'{rank}/{ovl}/{stride}/{opn}')
    return '+'.join(sorted(out)) or 'no-section'


# ----------------------------------------------------------------------------- reporting
def report(ctx, label, cases, results, fails, recheck=None, deadline=None, rounds=6):
    """One violation per (label, failure signature).  The key is `label:signature` - the label carries the
    option set and the generator population, so keys do not depend on how far shrinking got.  Shrinking
    (statement deletion, re-running the whole check on the candidates) only serves the reproducer shown in
    the report and stops at `deadline` (time.time() value)."""
    import time
    groups = {}
    for idx, kind, msg in fails:
        groups.setdefault(F.failure_signature(kind, msg), []).append((idx, kind, msg))
    ctx.cover.setdefault('failure_groups', {})[label] = {k: len(v) for k, v in groups.items()}
    for sig, members in sorted(groups.items()):
        idx, kind, msg = min(members, key=lambda m: len(results[m[0]]['text']))
        prog, inputs = cases[idx]
        small = prog
        if recheck is not None:
            for _ in range(rounds):
                if deadline is not None and time.time() > deadline:
                    break
                cands = F.removal_candidates(small, limit=24)
                if not cands:
                    break
                outcome = recheck([(c, inputs) for c in cands])
                nxt = next((c for c, (f, sg) in zip(cands, outcome) if f and sg == sig), None)
                if nxt is None:
                    break
                small = nxt
        ctx.violation(f'{label}:{sig}',
                      f'{label}: {len(members)} program(s); transformed program '
                      f'{"output differs" if kind == "output" else kind}: {msg[:700]}\n'
                      f'--- original{" (shrunk)" if small is not prog else ""} ---\n{F.render(small)}'
                      f'--- transformed (unshrunk case) ---\n{results[idx].get("newtext", "")[:3000]}',
                      {'prog': prog, 'inputs': inputs})


def split_lines(text):
    return text.split('\n')
