"""Program generators and Loki drivers for the loop / constant-propagation / code-removal behaviour checks
(C31, C32).  Everything here only GENERATES MiniFortran programs (JSON grammar of spec/FMachine.tla) and
DRIVES Loki; the expected behaviour is decided by TLC (Trace_FMachine) through lib_fm.behaviour_check.

Each program carries prog['meta'] = {'family': ..., <options>}: the family selects the Loki entry point in
`transform_c31` / `transform_c32` and is the first component of the violation key.
"""
import copy
import os
import re

from . import lib_fm as F
from .lib_fm import V, N, R, op, call, el, cmp_, assign, decl, unit, NONE
from .core import MachineryError


def raw(text):
    return {'s': 'raw', 'text': text}


def do_(var, lo, hi, body, st=None):
    return {'s': 'do', 'var': var, 'lo': lo, 'hi': hi, 'st': st or NONE, 'body': body}


def if_(cond, body, els=(), inline=False):
    s = {'s': 'if', 'conds': [cond], 'bodies': [list(body)], 'els': list(els)}
    if inline:
        s['inline'] = True
    return s


def do_values(lo, hi, st):
    """The values a DO variable takes (generator side only: used to keep subscripts in bounds)."""
    st = st or 1
    return list(range(lo, hi + 1, st)) if st > 0 else list(range(lo, hi - 1, st))


def mentions(e, names):
    """Does the expression reference one of the variables?"""
    if not isinstance(e, dict):
        return False
    if e.get('k') in ('var', 'arr') and e.get('name') in names:
        return True
    return any(mentions(c, names) for c in e.get('c', [])) or any(mentions(e.get(x), names) for x in ('lo', 'hi', 'st'))


def map_expr(x, fn):
    """Bottom-up rewrite of every expression node (dicts with a 'k' field) inside statements/expressions."""
    if isinstance(x, list):
        return [map_expr(y, fn) for y in x]
    if isinstance(x, dict):
        y = {k: map_expr(v, fn) for k, v in x.items()}
        return fn(y) if 'k' in y else y
    return x


def strip_intdiv(prog):
    """Replace integer quotients `a / c` (c an integer literal) by `a - c`: simplify() treats integer division
    as exact (known finding of C08), so programs with integer division form families of their own."""
    def fn(e):
        if e.get('k') == 'quot' and e['c'][1].get('k') == 'int':
            return op('sum', e['c'][0], op('neg', e['c'][1]))
        return e
    for u in prog['units']:
        u['body'] = map_expr(u['body'], fn)


def has_pragma(prog, word):
    return any(s['s'] == 'raw' and word in s['text'] for u in prog['units'] for s in F._flat(u['body']))


# ============================================================================= general programs with
# constant-bound loops (unroll, split_loop) --------------------------------------------------------
class LoopGen(F.Gen):
    """lib_fm.Gen plus DO loops whose (start, stop, step) are literal constants drawn from a small range
    (negative steps, zero-trip, nesting), optionally preceded by a `!$loki` pragma line."""

    STEPS = [None, None, None, 1, 2, 3, -1, -1, -2, -3]

    def __init__(self, rng, features=(), family='unroll', pragma='loop-unroll', p_const=0.45, max_trip=4):
        super().__init__(rng, features)
        self.family = family
        self.pragma = pragma
        self.p_const = p_const
        self.max_trip = max_trip
        self.nconst = 0
        self.zero_trip_wanted = False

    def pragma_line(self, toplevel):
        r = self.rng.random()
        if self.pragma == 'loop-unroll':
            if r < 0.5:
                return [raw('!$loki loop-unroll')]
            if r < 0.8:
                return [raw(f'!$loki loop-unroll depth({self.rng.choice([1, 1, 2, 3])})')]
            return []
        if self.pragma == 'driver-loop':
            return [raw('!$loki driver-loop')] if toplevel and r < 0.8 else []
        return []

    def const_do(self, d):
        rng = self.rng
        free = [v for v in self.loopvars if v not in self.active_loops]
        if not free:
            return super().stmt(0)
        v = free[0]
        st = rng.choice(self.STEPS)
        want_trunc = self.family == 'split-steptrunc' and not self.active_loops
        if want_trunc:
            st = rng.choice([2, 3, -2, -3])
        for _ in range(200 if want_trunc else 40):
            lo, hi = rng.randint(-2, 5), rng.randint(-3, 6)
            vals = do_values(lo, hi, st)
            # zero-trip loop whose (stop - start) / step truncates to 0: LoopRange.num_iterations says 1
            trunc = st is not None and not vals and abs(hi - lo) < abs(st)
            if (self.family == 'split' and trunc) or (want_trunc and not trunc):
                continue
            if self.family == 'unroll-negpow' and not (vals and min(vals) < 0):
                continue
            if self.zero_trip_wanted and vals:
                continue
            if len(vals) <= self.max_trip and (vals or rng.random() < 0.25):
                break
        else:
            lo, hi, st, vals = 1, 2, None, [1, 2]
        toplevel = not self.active_loops
        self.active_loops.append(v)
        self.loop_range[v] = (min(vals), max(vals)) if vals else (0, -1)
        saved = self.int_scalars
        self.int_scalars = saved + [v]                # the DO variable is readable inside the body
        body = self.block(d - 1, rng.randint(1, 3))
        self.int_scalars = saved
        self.active_loops.pop()
        self.nconst += 1
        if self.family == 'unroll-exitcycle' and rng.random() < 0.8:
            body.insert(rng.randint(0, len(body)), if_(self.cond(self.int_scalars), [{'s': rng.choice(['exit', 'cycle'])}], inline=True))
        if self.family == 'unroll-print' and rng.random() < 0.8:
            body.insert(rng.randint(0, len(body)), {'s': 'print', 'items': [op('sum', V(v), N(rng.randint(0, 3)))]})
        if self.family == 'unroll-negpow':
            if vals and min(vals) < 0:
                t = rng.choice(['t1', 't2', 'k'])
                body.append(assign(V(t), self.bounded(op('sum', op('pow', V(v), N(2)), V(t)))))
        else:
            # a negative value substituted for the DO variable under `**` is a class of its own (unroll-negpow)
            body = map_expr(body, lambda e: op('prod', e['c'][0], e['c'][0])
                            if e.get('k') == 'pow' and e['c'][0] == V(v) else e)
        out = self.pragma_line(toplevel) + [do_(v, N(lo), N(hi), body, None if st is None else N(st))]
        if self.family.endswith('loopvar') and toplevel and rng.random() < 0.8:
            # Fortran defines the value of the DO variable after the loop (also for zero-trip loops)
            t = rng.choice(['t1', 't2', 'k'])
            out.append(assign(V(t), self.bounded(op('sum', V(t), V(v)))))
        return out

    def select_of_loops(self, d):
        """SELECT CASE whose branches consist of one constant-bound loop each (some of them zero-trip)."""
        rng = self.rng
        cases, lo = [], 0
        for _ in range(rng.randint(2, 3)):
            hi = lo + rng.choice([0, 0, 1])
            self.zero_trip_wanted = rng.random() < 0.5
            cases.append({'lo': lo, 'hi': hi, 'body': self.const_do(d - 1)})
            self.zero_trip_wanted = False
            lo = hi + 1
        return [{'s': 'select', 'e': call('mod', call('abs', self.int_expr(1, self.int_scalars)), N(lo + 1)), 'cases': cases,
                 'default': self.block(d - 1, 1) if rng.random() < 0.7 else []}]

    def stmt(self, d):
        if d > 0 and self.family == 'unroll-select' and not self.active_loops and self.rng.random() < 0.35:
            return self.select_of_loops(d)
        if d > 0 and self.rng.random() < self.p_const:
            return self.const_do(d)
        toplevel = not self.active_loops
        out = super().stmt(d)
        if out and out[0]['s'] == 'do' and self.rng.random() < 0.5:
            out = self.pragma_line(toplevel) + out
        if out and out[0]['s'] == 'print' and self.active_loops and not self.family.endswith('print'):
            # PRINT is an opaque text node for Loki: DO variables inside it are a class of their own
            # (family unroll-print); elsewhere PRINT items never mention a DO variable
            if any(mentions(it, self.active_loops) for it in out[0]['items']):
                out[0]['items'] = [op('sum', V(self.rng.choice(self.int_scalars_noarr)), N(self.rng.randint(0, 3)))]
        return out


def gen_general(rng, family, quickness=1):
    """One (prog, inputs) of the families built on general statement lists."""
    feats = {'unroll': ('call', 'twod'),
             'unroll-select': ('twod', 'select'),
             'unroll-negpow': ('twod',),
             'unroll-exitcycle': ('exitcycle', 'twod'),
             'unroll-loopvar': ('twod',),
             'unroll-print': ('twod',),
             'split': ('call', 'twod', 'select', 'while'),
             'split-steptrunc': ('twod',)}[family]
    pragma = 'driver-loop' if family.startswith('split') else 'loop-unroll'
    for _ in range(50):
        g = LoopGen(rng, feats, family=family, pragma=pragma, p_const=0.35 if family == 'split' else 0.5)
        prog = g.program(nstmts=rng.randint(3, 6), depth=3 if rng.random() < 0.4 else 2)
        if has_pragma(prog, pragma):
            break
    else:
        raise MachineryError(f'generator: no {pragma} pragma generated for {family}')
    prog['meta'] = {'family': family}
    if family.startswith('split'):
        prog['meta']['block_size'] = rng.choice([1, 2, 3, 5])
    return prog, g.inputs(prog, 3)


# ============================================================================= loop nests that are legal BY
# CONSTRUCTION for fusion / fission / interchange / blocking ----------------------------------------------
class NestGen(F.Gen):
    """Kernels whose marked loops have independent iterations: inside a loop group every array of the
    group's element-wise set E is accessed ONLY at the loop indices (element i in iteration i), all other
    data the group reads (scalars, the remaining arrays at arbitrary subscripts) is written nowhere in the
    group, and scalar temporaries are written before they are read in every iteration and are dead after
    the group.  Reordering iterations / splitting / merging such loops is legal."""

    D1 = {'ia': [(0, 4)], 'ja': [(0, 4)], 'ra': [(1, 4)]}
    D2 = {'ib': [(1, 3), (-1, 1)], 'jb': [(1, 3), (-1, 1)]}
    D3 = {'ic': [(1, 2), (0, 2), (1, 2)]}
    TYPE = {'ia': 'int', 'ja': 'int', 'ra': 'real', 'ib': 'int', 'jb': 'int', 'ic': 'int',
            'ka': 'int', 'kb': 'int', 'kc': 'int'}
    LOOPVAR = ['i', 'j', 'l']           # loop variable of array dimension 1, 2, 3

    def __init__(self, rng, family):
        super().__init__(rng, ())
        self.family = family
        self.dims = {}
        self.dims.update(self.D1)
        self.dims.update(self.D2)
        if family.startswith('interchange') or family == 'fusion-permute':
            self.dims.update(self.D3)
        self.temps = ['t1', 't2', 't3']
        self.ro_scalars = ['n', 'm']

    # ---- expressions over one iteration
    def ro_index(self, arr, dim, env):
        lo, hi = self.dims[arr][dim]
        r = self.rng.random()
        if r < 0.4:
            return N(self.rng.randint(lo, hi))
        inner = call('mod', call('abs', self.i_leaf(env, noarr=True)), N(hi - lo + 1))
        return inner if lo == 0 else op('sum', N(lo), inner)

    def i_leaf(self, env, noarr=False):
        rng = self.rng
        r = rng.random()
        ew = [a for a in env['E'] if self.TYPE[a] == 'int']
        ro = [a for a in env['RO'] if self.TYPE[a] == 'int']
        if not noarr and r < 0.35 and ew:
            a = rng.choice(ew)
            return el(a, *[V(v) for v in env['idx'][a]])
        if not noarr and r < 0.5 and ro:
            a = rng.choice(ro)
            return el(a, *[self.ro_index(a, d, env) for d in range(len(self.dims[a]))])
        if r < 0.75:
            return V(rng.choice(env['scalars'] + env['loopvars'] + env['temps']))
        return N(rng.choice([0, 1, 2, 3, 5, 7]))

    def i_expr(self, d, env):
        rng = self.rng
        if d <= 0 or rng.random() < 0.25:
            return self.i_leaf(env)
        a, b = self.i_expr(d - 1, env), self.i_expr(d - 1, env)
        r = rng.random()
        if r < 0.35:
            return op('sum', a, b)
        if r < 0.5:
            return op('sum', a, op('neg', b))
        if r < 0.65:
            return op('prod', a, self.i_leaf(env, noarr=True))
        if r < 0.75:
            return op('quot', a, N(rng.choice([2, 3])))
        if r < 0.85:
            return call(rng.choice(['max', 'min']), a, b)
        return call('mod', a, N(rng.choice([3, 5, 7])))

    def r_expr(self, env):
        rng = self.rng
        base = el('ra', V(env['idx']['ra'][0])) if 'ra' in env['E'] else \
            (el('ra', self.ro_index('ra', 0, env)) if 'ra' in env['RO'] else R(1, 2))
        r = rng.random()
        if r < 0.3:
            return op('sum', op('prod', base, rng.choice([R(1, 2), R(1, 4)])), call('real', self.i_leaf(env)))
        if r < 0.6:
            return op('sum', base, rng.choice([R(1), R(1, 2), R(3, 2)]))
        if r < 0.8:
            return op('prod', call('real', self.i_leaf(env)), rng.choice([R(1, 2), R(2)]))
        return call('abs', op('sum', base, op('neg', R(1))))

    def cond(self, env, ro_only=False):
        rng = self.rng
        e2 = dict(env, E=[] if ro_only else env['E'], temps=[] if ro_only else env['temps'])
        c = cmp_(rng.choice(['==', '/=', '<', '<=', '>', '>=']), self.i_expr(1, e2), self.i_expr(1, e2))
        r = rng.random()
        if r < 0.15:
            return V('flag')
        if r < 0.3:
            return op('or', c, V('flag'))
        if r < 0.4:
            return op('not', c)
        return c

    # ---- statements of one iteration
    def ew_stmt(self, env, d=1, temps_ok=True, out_first=()):
        rng = self.rng
        r = rng.random()
        if r < 0.15 and temps_ok and len(env['temps']) < len(self.temps):
            t = self.temps[len(env['temps'])]
            s = assign(V(t), self.bounded(self.i_expr(2, env)))
            env['temps'].append(t)
            return [s]
        if r < 0.3 and d > 0:
            body = self.ew_block(env, rng.randint(1, 2), d - 1, temps_ok=False)
            els = self.ew_block(env, 1, d - 1, temps_ok=False) if rng.random() < 0.4 else []
            return [if_(self.cond(env), body, els)]
        a = rng.choice(env['E'])
        lhs = el(a, *[V(v) for v in env['idx'][a]])
        if self.TYPE[a] == 'real':
            return [assign(lhs, self.r_expr(env))]
        return [assign(lhs, self.bounded(self.i_expr(2, env)))]

    def ew_block(self, env, n, d=1, temps_ok=True):
        out = []
        for _ in range(n):
            out += self.ew_stmt(env, d, temps_ok)
        return out

    # ---- ranges
    def range_for(self, arrs, dim, kind):
        """(lo_expr, hi_expr, lo_min, hi_max) of a loop over dimension `dim` of every array in arrs.
        Inputs guarantee 0 <= m <= 4 and -1 <= n <= 4."""
        rng = self.rng
        lo = max(self.dims[a][dim][0] for a in arrs)
        hi = min(self.dims[a][dim][1] for a in arrs)
        if kind == 'full':
            return N(lo), N(hi)
        if kind == 'const':
            a = rng.randint(lo, hi)
            b = rng.randint(lo - 1, hi)
            return N(a), N(b)
        # symbolic (affine in the inputs): lower bound m + c >= lo, upper bound n + c <= hi
        lo_e = N(lo) if rng.random() < 0.5 else _affine('m', lo)          # m + lo   (m >= 0)
        hi_e = N(hi) if rng.random() < 0.4 else _affine('n', hi - 4)      # n + hi-4 (n <= 4)
        return lo_e, hi_e

    def env_for(self, E, rank):
        idx = {a: self.LOOPVAR[:len(self.dims[a])] for a in E}
        allarr = list(self.dims)
        return {'E': list(E), 'RO': [a for a in allarr if a not in E], 'idx': idx,
                'scalars': list(self.ro_scalars), 'loopvars': self.LOOPVAR[:rank], 'temps': []}

    # ---- whole kernels
    def kernel(self, body, extra_decls=()):
        decls = [decl('n', 'int', 'in'), decl('m', 'int', 'in'), decl('flag', 'log', 'in')]
        args = ['n', 'm', 'flag']
        for a, dims in self.dims.items():
            decls.append(decl(a, self.TYPE[a], 'inout', dims))
            args.append(a)
        for d in extra_decls:
            decls.append(d)
            args.append(d['name'])
        decls += [decl('k', 'int', 'out'), decl('x', 'real', 'out')]
        args += ['k', 'x']
        decls += [decl(v, 'int') for v in ('i', 'j', 'l', 'i2', 'j2', 't1', 't2', 't3')] + [decl('y', 'real')]
        init = [assign(V('k'), N(0)), assign(V('x'), R(0)), assign(V('t1'), V('m')), assign(V('t2'), N(1)), assign(V('y'), R(1, 2))]
        return {'units': [unit('kernel', args, decls, init + body)]}

    def side_stmt(self):
        """A statement that touches only k / x (never referenced by the loop groups)."""
        rng = self.rng
        if rng.random() < 0.7:
            return assign(V('k'), call('mod', op('sum', V('k'), rng.choice([V('n'), V('m'), N(3)])), N(7)))
        return assign(V('x'), op('sum', V('x'), R(1, 2)))

    def inputs(self, prog, count=4):
        out = super().inputs(prog, count)
        for c, inp in enumerate(out):
            inp['n'] = F.val_int(self.rng.choice([4, 4, 3, 2, 1, 0, -1]))
            inp['m'] = F.val_int(self.rng.choice([0, 0, 1, 1, 2, 3, 4]))
        return out

    # ---- fusion
    def fusion(self):
        rng = self.rng
        fam = self.family
        body = [self.side_stmt()]
        ngroups = 1 if rng.random() < 0.75 else 2
        meta = {'family': fam}
        for g in range(ngroups):
            collapse = fam == 'fusion-collapse'
            rank = 2 if collapse else 1
            pool = list(self.D2 if collapse else self.D1)
            nloops = rng.choice([2, 2, 3])
            gname = rng.choice(['', f'group(g{g + 1})', f'group({g + 1})']) if ngroups == 1 else f'group(g{g + 1})'
            # element-wise set of the whole group (RO data of one loop must not be written by another loop
            # of the group: the group shares one E / RO split)
            E = rng.sample(pool, rng.randint(1, len(pool)))
            kind = 'full'
            if fam != 'fusion-mismatch':
                kind = rng.choice(['full', 'const', 'sym'])
                rngs = [self.range_for(E, d, kind) for d in range(rank)]
            for li in range(nloops):
                Eloop = [a for a in E if rng.random() < 0.7] or [rng.choice(E)]
                env = self.env_for(E, rank)
                env['E'] = Eloop                      # this loop touches a subset; the others stay untouched (not RO!)
                env['RO'] = [a for a in self.dims if a not in E]
                if fam == 'fusion-mismatch':
                    rngs = [self.range_for(Eloop, d, rng.choice(['full', 'const', 'const', 'sym'])) for d in range(rank)]
                names = self.LOOPVAR[:rank]
                if rng.random() < 0.4:                # different spelling of the loop variables in this loop
                    names = ['i2', 'j2'][:rank]
                env['idx'] = {a: names[:len(self.dims[a])] for a in Eloop}
                env['loopvars'] = names
                inner = self.ew_block(env, rng.randint(1, 3), 1)
                opts = ' '.join(x for x in [gname, 'collapse(2)' if collapse else ''] if x)
                nest = do_(names[0], rngs[0][0], rngs[0][1], inner)
                if collapse:
                    nest = do_(names[1], rngs[1][0], rngs[1][1], [nest])
                body += [raw(('!$loki loop-fusion ' + opts).strip()), nest]
                if rng.random() < 0.4:
                    body.append(self.side_stmt())
        prog = self.kernel(body)
        prog['meta'] = meta
        return prog

    # ---- fusion of collapse(2|3) nests whose loop variables are named differently / permuted per nest
    VARPOOL = ['i', 'j', 'l', 'i2', 'j2']

    def fusion_permute(self):
        """One fusion group of 2-3 perfect nests of depth 2 or 3 over the SAME iteration space (identical bounds
        per level, so fusing is legal), element-wise on the 2-d / 3-d arrays.  Every nest picks its own
        loop-variable names; at least one later nest uses a non-identity permutation of the first nest's
        names (e.g. nest 1 `do j / do i`, nest 2 `do i / do j`), others mix fresh names with names the first
        nest uses at another level.  Each body stores an expression that is asymmetric in the loop variables
        (100*outer + inner) into element (v1, v2[, v3]), so a wrong renaming is visible."""
        rng = self.rng
        rank = rng.choice([2, 2, 3])
        pool = ['ic'] if rank == 3 else list(self.D2)
        E = rng.sample(pool, rng.randint(1, len(pool)))
        kind = rng.choice(['full', 'full', 'const', 'sym'])
        rngs = [self.range_for(E, d, kind) for d in range(rank)]
        nloops = rng.choice([2, 2, 3])
        gname = rng.choice(['', 'group(g1)'])
        first = rng.sample(self.VARPOOL, rank)          # names[d] = loop variable of array dimension d
        forced = rng.randrange(1, nloops)               # this nest permutes the first nest's names
        body = [self.side_stmt()]
        all_names = []
        for li in range(nloops):
            if li == 0:
                names = list(first)
            elif li == forced:
                names = list(first)
                while names == first:
                    rng.shuffle(names)
            else:
                r = rng.random()
                if r < 0.3:
                    names = list(first)
                elif r < 0.6:
                    names = rng.sample(first, rank)
                else:
                    names = rng.sample(self.VARPOOL, rank)
            all_names.append(names)
            Eloop = [a for a in E if rng.random() < 0.7] or [rng.choice(E)]
            env = self.env_for(E, rank)
            env['E'] = Eloop
            env['RO'] = [a for a in self.dims if a not in E]
            env['idx'] = {a: names[:len(self.dims[a])] for a in Eloop}
            env['loopvars'] = list(names)
            a = rng.choice(Eloop)
            lhs = el(a, *[V(v) for v in env['idx'][a]])
            asym = op('sum', op('prod', N(100), V(names[rank - 1])), V(names[0]))
            if rank == 3:
                asym = op('sum', asym, op('prod', N(10), V(names[1])))
            pre = [assign(lhs, asym)]
            inner = pre + self.ew_block(env, rng.randint(0, 2), 1)
            if rng.random() < 0.5:
                inner.append(assign(lhs, op('sum', call('mod', lhs, N(7)), asym)))
            nest = inner
            for d in range(rank):
                nest = [do_(names[d], rngs[d][0], rngs[d][1], nest)]
            opts = ' '.join(x for x in [gname, f'collapse({rank})'] if x)
            body += [raw('!$loki loop-fusion ' + opts)] + nest
            if rng.random() < 0.3:
                body.append(self.side_stmt())
        prog = self.kernel(body)
        prog['meta'] = {'family': 'fusion-permute', 'collapse': rank,
                        'permuted_nests': sum(1 for nm in all_names[1:] if nm != first and sorted(nm) == sorted(first)),
                        'shifted_nests': sum(1 for nm in all_names[1:] if any(nm[d] in first and first.index(nm[d]) != d for d in range(rank)))}
        return prog

    # ---- fission
    def fission(self):
        rng = self.rng
        fam = self.family
        promote = fam.startswith('fission-promote')
        body = [self.side_stmt()]
        rank = rng.choice([1, 1, 2])
        pool = list(self.D2 if rank == 2 else self.D1)
        E = rng.sample(pool, rng.randint(1, len(pool)))
        if promote:
            E = rng.sample(pool, len(pool))
        env = self.env_for(E, rank)
        kind = rng.choice(['full', 'const', 'sym'])
        if fam == 'fission-promote':
            # promoted temporaries are dimensioned by the loop's upper bound and indexed by the loop variable:
            # loops start at 1 here (other lower bounds: family fission-promote-lb)
            rngs = [(N(1), self.range_for(E, d, rng.choice(['full', 'sym']))[1]) for d in range(rank)]
        else:
            rngs = [self.range_for(E, d, kind) for d in range(rank)]
        nseg = rng.choice([2, 2, 3])
        if promote:
            # every segment works on its own arrays: only the scalar temporaries carry values across a
            # fission point (an ARRAY written before and read after the pragma is the fission-autopromote class)
            nseg = min(nseg, len(E))
            segE = [[a] for a in E[:nseg]]
        collapse = rank == 2 and rng.random() < 0.5
        inner = []
        opts = []
        for sgi in range(nseg):
            if sgi:
                o = 'collapse(2)' if collapse else ''
                if promote and env['temps'] and rng.random() < 0.3:
                    o = (o + f" promote({rng.choice(env['temps'])})").strip()
                inner.append(raw(('!$loki loop-fission ' + o).strip()))
            if promote:
                env['E'] = segE[sgi]
                env['RO'] = [a for a in self.dims if a not in E]
            seg = self.ew_block(env, rng.randint(1, 2), 1, temps_ok=promote)
            if promote and sgi == 0 and not env['temps']:
                seg = [assign(V('t1'), self.bounded(self.i_expr(2, env)))] + seg
                env['temps'].append('t1')
            if promote and sgi > 0:
                a = segE[sgi][0]
                t = rng.choice(env['temps'])
                lhs = el(a, *[V(v) for v in env['idx'][a]])
                seg.append(assign(lhs, op('sum', lhs, call('real', V(t))) if self.TYPE[a] == 'real'
                                  else self.bounded(op('sum', lhs, V(t)))))
            inner += seg
        if not promote and rng.random() < 0.25:
            # fission point inside a conditional whose condition nothing in the loop changes
            c = self.cond(env, ro_only=True)
            env2 = dict(env, temps=[])
            inner = inner[:1] + [if_(c, self.ew_block(env2, 1, 0, False) + [raw('!$loki loop-fission')] + self.ew_block(env2, 1, 0, False))] + inner[1:]
        nest = do_(self.LOOPVAR[0], rngs[0][0], rngs[0][1], inner)
        if rank == 2:
            nest = do_(self.LOOPVAR[1], rngs[1][0], rngs[1][1], [nest])
        body += [nest, self.side_stmt()]
        # the temporaries are dead after the loop: redefine before anything could read them
        body += [assign(V(t), N(0)) for t in env['temps']]
        prog = self.kernel(body)
        prog['meta'] = {'family': fam, 'auto': 0 if fam == 'fission' else 1}
        if promote and rng.random() < 0.4:
            # explicit promote(..) lists on every pragma instead of the automatic detection
            prog['meta']['auto'] = 0
            seen = []
            for s_ in inner:
                if s_['s'] == 'assign' and s_['lhs']['k'] == 'var' and s_['lhs']['name'] not in seen:
                    seen.append(s_['lhs']['name'])
                if s_['s'] == 'raw' and seen:
                    s_['text'] = re.sub(r'\s*promote\([^)]*\)', '', s_['text']) + f" promote({', '.join(seen)})"
        return prog

    # ---- interchange
    def interchange(self):
        rng = self.rng
        fam = self.family
        project = fam == 'interchange-project'
        rank = rng.choice([2, 2, 3])
        E = ['ic'] if rank == 3 else rng.sample(list(self.D2), rng.randint(1, 2))
        env = self.env_for(E, rank)
        order = list(range(rank))
        rng.shuffle(order)                       # nesting order, outermost first (dimension numbers)
        loops = []
        for d in order:
            lo, hi = self.range_for(E, d, rng.choice(['full', 'const', 'sym']))
            st = None
            if not project and rng.random() < 0.3:
                st = rng.choice([2, -1, -2])
                if st < 0:
                    lo, hi = hi, lo
            loops.append((self.LOOPVAR[d], lo, hi, st))
        inner = self.ew_block(env, rng.randint(1, 3), 1)
        nest = inner
        for (v, lo, hi, st) in reversed(loops):
            nest = [do_(v, lo, hi, nest, None if st is None else N(st))]
        names = [lp[0] for lp in loops]
        r = rng.random()
        if r < 0.45:
            prag = '!$loki loop-interchange'
        else:
            perm = names[:]
            rng.shuffle(perm)
            if rank == 3 and rng.random() < 0.3:
                perm = names[:2][::-1]            # only the two outer loops are listed
            prag = f"!$loki loop-interchange ({', '.join(perm)})"
        body = [self.side_stmt(), raw(prag)] + nest + [self.side_stmt()] + [assign(V(t), N(0)) for t in env['temps']]
        prog = self.kernel(body)
        prog['meta'] = {'family': fam, 'project': 1 if project else 0}
        return prog

    # ---- blocking (split_loop + block_loop_arrays): arrays with lower bound 1 indexed by the loop variable of
    # a loop 1..n, dummy arguments with an intent (the copy-in / copy-out of the blocks is driven by the intent)
    def block(self):
        rng = self.rng
        self.dims = {'ra': [(1, 4)], 'ka': [(1, 4)]}
        extra = [decl('kb', 'int', 'in', [(1, 4)]), decl('kc', 'int', 'out', [(1, 4)])]
        self.dims_all = dict(self.dims, kb=[(1, 4)], kc=[(1, 4)])
        E = rng.sample(['ra', 'ka', 'kc'], rng.randint(1, 3))
        saved = self.dims
        self.dims = self.dims_all
        env = self.env_for(E + ['kb'], 1)
        env['RO'] = []
        hi = rng.choice([N(4), V('n'), N(3), N(2)])
        inner = []
        if 'kc' in E:
            inner.append(assign(el('kc', V('i')), self.bounded(self.i_expr(1, dict(env, E=[a for a in E if a != 'kc'] + ['kb'])))))
        env_w = dict(env)
        stmts = []
        for _ in range(rng.randint(1, 3)):
            a = rng.choice(E)
            lhs = el(a, V('i'))
            stmts.append(assign(lhs, self.r_expr(env) if self.TYPE[a] == 'real' else self.bounded(self.i_expr(2, env_w))))
        inner += stmts
        self.dims = saved
        body = [{'s': 'do', 'var': 'j', 'lo': N(1), 'hi': N(4), 'st': NONE, 'body': [assign(el('kc', V('j')), N(0))]},
                raw('!$loki driver-loop'), do_('i', N(1), hi, inner), self.side_stmt()]
        prog = self.kernel(body, extra_decls=extra)
        prog['meta'] = {'family': 'block', 'block_size': rng.choice([1, 2, 3, 5])}
        return prog


def _affine(name, c):
    if c == 0:
        return V(name)
    return op('sum', V(name), N(c)) if c > 0 else op('sum', V(name), op('neg', N(-c)))


def gen_nest(rng, family):
    g = NestGen(rng, family)
    if family == 'fusion-permute':
        prog = g.fusion_permute()
    elif family.startswith('fusion'):
        prog = g.fusion()
    elif family.startswith('fission'):
        prog = g.fission()
    elif family.startswith('interchange'):
        prog = g.interchange()
    elif family == 'block':
        prog = g.block()
    else:
        raise MachineryError(f'unknown family {family}')
    return prog, g.inputs(prog, 3)


C31_GENERAL = ('unroll', 'unroll-select', 'unroll-negpow', 'unroll-exitcycle', 'unroll-loopvar', 'unroll-print', 'split', 'split-steptrunc')
C31_NEST = ('fusion', 'fusion-mismatch', 'fusion-collapse', 'fusion-permute', 'fission', 'fission-autopromote', 'fission-promote', 'fission-promote-lb',
            'interchange', 'interchange-project', 'block')


def gen_c31(rng, family):
    if family in C31_GENERAL:
        return gen_general(rng, family)
    return gen_nest(rng, family)


# ============================================================================= Loki drivers (C31)
def _routines(src):
    return list(src.all_subroutines)


def _marked_loops(routine, word):
    from loki.ir import nodes as ir, FindNodes, pragmas_attached, is_loki_pragma
    with pragmas_attached(routine, ir.Loop):
        return [l for l in FindNodes(ir.Loop).visit(routine.body) if is_loki_pragma(l.pragma, starts_with=word)]


def transform_c31(text, prog, workdir):
    from loki import Sourcefile
    from loki.ir import nodes as ir, FindNodes, pragmas_attached, is_loki_pragma
    from loki.transformations.transform_loop import do_loop_unroll, do_loop_fusion, do_loop_fission, do_loop_interchange
    from loki.transformations.loop_blocking import split_loop, block_loop_arrays
    meta = prog.get('meta') or {}
    fam = meta.get('family', 'unroll')
    word = {'unroll': 'loop-unroll', 'fusion': 'loop-fusion', 'fission': 'loop-fission',
            'interchange': 'loop-interchange', 'split': 'driver-loop', 'block': 'driver-loop'}[fam.split('-')[0]]
    if not has_pragma(prog, word):
        raise F.NotApplicable(f'no {word} pragma in the program')
    src = Sourcefile.from_source(text)
    for routine in _routines(src):
        if fam.startswith('unroll'):
            do_loop_unroll(routine, warn_iterations_length=False)
        elif fam.startswith('fusion'):
            do_loop_fusion(routine)
        elif fam.startswith('fission'):
            do_loop_fission(routine, promote=bool(meta.get('auto', 1)), warn_loop_carries=True)
        elif fam.startswith('interchange'):
            do_loop_interchange(routine, project_bounds=bool(meta.get('project')))
        elif fam in ('split', 'split-steptrunc', 'block'):
            with pragmas_attached(routine, ir.Loop):
                loops = [l for l in FindNodes(ir.Loop).visit(routine.body)
                         if is_loki_pragma(l.pragma, starts_with='driver-loop')]
                # only outermost marked loops (a marked loop nested in a marked loop is left alone)
                inner = {id(x) for l in loops for x in FindNodes(ir.Loop).visit(l.body)}
                loops = [l for l in loops if id(l) not in inner]
                for loop in loops:
                    sv, inner_loop, outer_loop = split_loop(routine, loop, int(meta.get('block_size', 2)))
                    if fam == 'block':
                        block_loop_arrays(routine, sv, inner_loop, outer_loop, [str(loop.variable)])
    return [('kmod.f90', src.to_fortran())]


# ============================================================================= run-time checked builds
def compile_run_checked(workdir, tag, sources, timeout=20):
    """lib_fm.compile_run with gfortran's run-time checks switched on for the TRANSFORMED build (`-new`
    tags): code emitted by a transformation that indexes outside an array must not go unnoticed (the
    original programs are in-bounds by construction, and the machine rejects those that are not)."""
    import subprocess
    d = os.path.join(workdir, tag)
    os.makedirs(d, exist_ok=True)
    files = []
    for name, text in sources:
        with open(os.path.join(d, name), 'w') as fh:
            fh.write(text)
        files.append(name)
    flags = ['-O0', '-w', '-fno-range-check', '-ffree-line-length-none']
    if tag.endswith('-new'):
        flags += ['-fcheck=bounds,do', '-finit-integer=-99999', '-finit-real=snan']
    try:
        c = subprocess.run(['gfortran'] + flags + ['-o', 'a.out'] + files, cwd=d, capture_output=True, text=True, timeout=120)
    except subprocess.TimeoutExpired:
        return 'timeout', '', 'compile timeout'
    if c.returncode != 0:
        return 'compile-error', '', c.stderr[-3000:]
    try:
        r = subprocess.run(['./a.out'], cwd=d, capture_output=True, text=True, timeout=timeout)
    except subprocess.TimeoutExpired:
        # the programs run for milliseconds; on an overloaded box (load > 2 x cores) a time-out may be the
        # scheduler's fault: try once more with a generous limit before calling it non-termination
        if os.getloadavg()[0] <= 2 * (os.cpu_count() or 4):
            return 'timeout', '', 'run timeout'
        try:
            r = subprocess.run(['./a.out'], cwd=d, capture_output=True, text=True, timeout=120)
        except subprocess.TimeoutExpired:
            return 'timeout', '', 'run timeout'
    if r.returncode != 0:
        return 'runtime-error', r.stdout, r.stderr[-2000:]
    out = r.stdout
    if os.environ.get('VERIF_CORRUPT') and tag.endswith('-new'):
        # development aid (binding demonstration): corrupt one recorded value of the transformed run
        out = re.sub(r'^I (-?\d+)$', lambda m: f'I {int(m.group(1)) + 1}', out, count=1, flags=re.M)
    return 'ok', out, r.stderr


class checked_builds:
    """Context manager: behaviour_check builds the transformed programs with run-time checks."""
    def __enter__(self):
        self.saved = F.compile_run
        F.compile_run = compile_run_checked
        return self

    def __exit__(self, *exc):
        F.compile_run = self.saved
        return False


# ============================================================================= reporting
def family_of(prog):
    return (prog.get('meta') or {}).get('family', 'none')


def normal_form(prog):
    """Statement kinds of the (shrunk) program plus the features the loop transformations are sensitive to."""
    kinds = F.stmt_kinds(prog)
    feats = set()
    for u in prog['units']:
        for s in F._flat(u['body']):
            if s['s'] == 'do' and s['st'] != NONE:
                feats.add('negstep' if s['st']['k'] == 'neg' else 'step')
            if s['s'] == 'do' and _lit(s['lo']) is not None and _lit(s['hi']) is not None \
                    and (s['st'] == NONE or _lit(s['st'])) and not do_values(_lit(s['lo']), _lit(s['hi']), None if s['st'] == NONE else _lit(s['st'])):
                feats.add('zerotrip')
            if s['s'] == 'raw':
                m = re.match(r'!\$loki\s+(\S+)(.*)', s['text'])
                if m:
                    for w in re.findall(r'(depth|collapse|range|promote|group)\(', m.group(2)):
                        feats.add(w)
    return kinds + ('+' + ','.join(sorted(feats)) if feats else '')


def signature(kind, msg):
    """Failure class: kind + first diagnostic with names, numbers and paths abstracted."""
    def norm(t):
        t = re.sub(r"[‘'`][^’']*[’']", 'V', t)
        t = re.sub(r'/[\w/.\-]+', '<path>', t)
        t = re.sub(r'-?\d+', 'N', t)
        return t.strip()[:100]
    if kind == 'output':
        return 'output:output-differs'
    if kind == 'runtime-error':
        m = re.search(r'Fortran runtime error: (.*)', msg)
        if m:
            return 'runtime-error:' + norm(m.group(1))
        m = re.search(r'Program received signal (\w+)', msg)
        return 'runtime-error:' + (m.group(1) if m else 'crash')
    if kind == 'compile-error':
        m = re.search(r'Error: (.*)', msg)
        return 'compile-error:' + norm(re.sub(r'; did you mean.*', '', m.group(1)) if m else 'unknown')
    if kind == 'transform-raised':
        first = msg.splitlines()[0] if msg else ''
        return 'transform-raised:' + norm(first)
    return f'{kind}:'


def shrink_candidates(prog, limit):
    """Smaller programs, most aggressive first: keep ONE top-level statement of the kernel (with its pragma
    line), drop the first / second half, then lib_fm's single-statement deletions and unwrappings."""
    out = []
    body = prog['units'][0]['body']
    init, tail = body[:5], body[5:]
    groups, i = [], 0
    while i < len(tail):
        j = i + 1
        if tail[i]['s'] == 'raw' and j < len(tail):
            j += 1
        groups.append((i, j))
        i = j

    def with_tail(t):
        p2 = copy.deepcopy(prog)
        p2['units'][0]['body'] = copy.deepcopy(init) + copy.deepcopy(t)
        prune_unreachable(p2)
        return p2
    if len(groups) > 1:
        for a, b in groups[:10]:
            out.append(with_tail(tail[a:b]))
        h = groups[len(groups) // 2][0]
        out += [with_tail(tail[:h]), with_tail(tail[h:])]
    out += F.removal_candidates(prog, limit=limit)
    return out[:limit]


def nstmts(prog):
    return sum(1 for u in prog['units'] for _ in F._flat(u['body']))


def _lit(e):
    if e.get('k') == 'int':
        return e['v']
    if e.get('k') == 'neg' and e['c'][0].get('k') == 'int':
        return -e['c'][0]['v']
    return None


def report_by_family(ctx, cases, results, fails, transform, rounds=None, reps=None, cands_per=None, max_states=None):
    """Group the failing programs by (family, failure signature), shrink representatives of every group (all
    candidates of one round are checked in ONE behaviour_check batch, i.e. by TLC against the machine) and
    report one violation per distinct key  family:signature:normal-form-of-the-shrunk-program."""
    quick = ctx.quick
    rounds = rounds if rounds is not None else (1 if quick else 3)
    reps = reps or (1 if quick else 2)
    cands_per = cands_per or (14 if quick else 20)
    max_states = max_states or (8 if quick else 16)
    groups = {}
    for idx, kind, msg in fails:
        groups.setdefault((family_of(cases[idx][0]), signature(kind, msg)), []).append((idx, kind, msg))
    ctx.cover['failure_groups'] = {f'{fam}:{sig}': len(v) for (fam, sig), v in sorted(groups.items())}
    states = []
    for (fam, sig), members in sorted(groups.items()):
        members = sorted(members, key=lambda m: len(results[m[0]]['text']))
        for idx, kind, msg in members[:reps]:
            states.append({'fam': fam, 'sig': sig, 'idx': idx, 'kind': kind, 'msg': msg, 'n': len(members),
                           'small': cases[idx][0], 'inputs': cases[idx][1], 'done': False})
    # one representative of every group first; the budget goes to the groups in order
    states.sort(key=lambda st: (st['idx'] != min(m[0] for m in groups[(st['fam'], st['sig'])]), st['fam'], st['sig']))
    for si, st in enumerate(states):
        st['done'] = si >= max_states or bool(ctx.replay and False)
    for _ in range(rounds):
        batch, owner = [], []
        for si, st in enumerate(states):
            if st['done'] or nstmts(st['small']) <= 7:
                st['done'] = True
                continue
            for c in shrink_candidates(st['small'], cands_per):
                batch.append((c, st['inputs']))
                owner.append(si)
        if not batch:
            break
        _, fl, _ = F.behaviour_check(ctx, 'shrink', batch, transform)
        failed = {}
        for idx, kind, msg in fl:
            failed.setdefault(idx, signature(kind, msg))
        for si, st in enumerate(states):
            if st['done']:
                continue
            nxt = next((b for b, o in enumerate(owner) if o == si and failed.get(b) == st['sig']), None)
            if nxt is None:
                st['done'] = True
            else:
                st['small'] = batch[nxt][0]
    seen = set()
    for st in states:
        key = f"{st['fam']}:{st['sig']}:{normal_form(st['small'])}"
        if key in seen:
            continue
        seen.add(key)
        idx = st['idx']
        what = (f"{st['fam']}: {st['n']} program(s) in this class; transformed program "
                f"{'output differs from the machine' if st['kind'] == 'output' else st['kind']}: {st['msg'][:700]}\n"
                f"--- original (shrunk) ---\n{F.render(st['small'])}--- transformed (unshrunk case) ---\n"
                f"{results[idx].get('newtext', '')[:3000]}")
        ctx.violation(key, what, {'prog': cases[idx][0], 'inputs': cases[idx][1]})


def family_cover(ctx, cases, results, legal):
    fams = {}
    for r in results:
        fam = family_of(cases[r['idx']][0])
        c = fams.setdefault(fam, {'programs': 0, 'judged_programs': 0, 'not_applicable': 0, 'transform_changed_text': 0})
        c['programs'] += 1
        st = r.get('new', ('none',))[0]
        if st == 'not-applicable':
            c['not_applicable'] += 1
        elif r['idx'] in legal and st == 'ok':
            c['judged_programs'] += 1
        if 'newtext' in r and _squash(r['newtext']) != _squash(r['text']):
            c['transform_changed_text'] += 1
    ctx.cover['families'] = fams


def _squash(t):
    return re.sub(r'\s+', '', t).lower()


# ============================================================================= C32: constant propagation and
# code removal ---------------------------------------------------------------------------------------------
def LG(b):
    return {'k': 'log', 'v': bool(b)}


class CPGen(LoopGen):
    """General programs enriched with what constant propagation / dead-code elimination look for: variables
    holding literal constants next to input-dependent ones, IFs whose condition is decidable (`.true.`,
    `1 > 2`, a comparison of propagated constants) or not, constant array elements, loops with literal
    bounds, SELECT CASE on a literal, unused locals and - for the `args` families - helper procedures with
    unused dummy arguments (scalars and arrays, first / middle / last position, passed on to a callee that
    does not use them either)."""

    def __init__(self, rng, features=(), family='cp/base', unused=False):
        super().__init__(rng, features, family=family, pragma='none', p_const=0.15, max_trip=3)
        self.unused = unused
        self.straight = family.endswith('/straight')

    def cexpr(self):
        rng = self.rng
        r = rng.random()
        a, b = N(rng.randint(0, 6)), N(rng.randint(1, 4))
        if r < 0.35:
            return a
        if r < 0.5:
            return op('sum', a, b)
        if r < 0.6:
            return op('prod', a, b)
        if r < 0.7:
            return op('quot', op('sum', a, N(5)), b)
        if r < 0.85:
            return op('sum', V(rng.choice(['k', 't1', 't2'])), b)
        return op('sum', a, op('neg', b))

    def dcond(self):
        rng = self.rng
        c = rng.choice([
            LG(True), LG(False), cmp_('>', N(1), N(2)), cmp_('==', N(2), N(2)), cmp_('<=', N(3), N(3)),
            cmp_('/=', N(1), N(1)), op('not', cmp_('>', N(1), N(2))), op('or', cmp_('<', N(3), N(2)), V('flag')),
            op('and', cmp_('<', N(1), N(2)), V('flag')), op('and', LG(True), cmp_('>', V('n'), N(1))),
            cmp_('>', op('sum', N(1), N(2)), N(2)), op('or', LG(True), V('flag')), op('and', LG(False), V('flag')),
            cmp_('>', V('t1'), N(2)), cmp_('==', V('t2'), N(1)), cmp_('<', V('k'), op('sum', V('t2'), N(1))),
            op('not', LG(False)), cmp_('>=', op('prod', N(2), N(2)), N(4)),
        ])
        return copy.deepcopy(c)

    def const_stmt(self, d):
        rng = self.rng
        r = rng.random()
        writable = [v for v in self.int_writable if v not in self.active_loops]
        if r < 0.35:
            return [assign(V(rng.choice(writable)), self.cexpr())]
        if r < 0.5:
            c = rng.randint(0, 4)
            out = [assign(el('ia', N(c)), N(rng.randint(0, 9)))]
            if rng.random() < 0.7:
                out.append(assign(V(rng.choice(writable)), op('sum', el('ia', N(rng.choice([c, c, rng.randint(0, 4)]))), N(1))))
            return out
        if r < 0.6:
            return [assign(V('y'), rng.choice([R(3, 2), R(1, 4), R(2)])),
                    assign(V('x'), op('sum', op('prod', V('y'), R(2)), R(1, 2)))]
        if r < 0.9 and d > 0:
            n = rng.choice([1, 1, 2])
            s = {'s': 'if', 'conds': [self.dcond() for _ in range(n)],
                 'bodies': [self.block(d - 1, rng.randint(1, 2)) for _ in range(n)],
                 'els': self.block(d - 1, 1) if rng.random() < 0.6 else []}
            return [s]
        if 'select' in self.f and d > 0:
            cases, lo = [], 0
            for _ in range(rng.randint(1, 3)):
                hi = lo + rng.choice([0, 0, 1])
                cases.append({'lo': lo, 'hi': hi, 'body': self.block(d - 1, 1)})
                lo = hi + 1 + rng.choice([0, 1])
            return [{'s': 'select', 'e': rng.choice([N(rng.randint(0, 4)), op('sum', N(1), N(rng.randint(0, 2)))]),
                     'cases': cases, 'default': self.block(d - 1, 1) if rng.random() < 0.6 else []}]
        return [assign(V(rng.choice(writable)), self.cexpr())]

    def stmt(self, d):
        if self.rng.random() < 0.4:
            return self.const_stmt(d)
        if self.straight:
            # loop-free programs: the region in which the forward propagation has no known defect
            for _ in range(50):
                out = F.Gen.stmt(self, d)
                if not any(x['s'] in ('do', 'while') for x in F._flat(out)):
                    return out
            return [assign(V('k'), self.bounded(op('sum', V('k'), V('n'))))]
        return super().stmt(d)

    # ---- helpers with unused dummy arguments
    def make_helpers(self):
        if not self.unused:
            return super().make_helpers()
        rng = self.rng
        hs = []
        zin = lambda n: decl(n, 'int', 'in')
        # h1(a, s, z1, r): z1 unused (middle)
        b1 = [assign(V('r'), N(0)),
              do_('q', N(0), N(4), [assign(el('a', V('q')), call('mod', op('sum', el('a', V('q')), V('s')), N(11))),
                                    assign(V('r'), op('sum', V('r'), el('a', V('q'))))])]
        u1 = unit('h1', ['a', 's', 'z1', 'r'], [decl('a', 'int', 'inout', [(0, 4)]), zin('s'), zin('z1'), decl('r', 'int', 'out'),
                                                decl('q', 'int'), decl('u9', 'int'), decl('ub', 'int', dims=[(1, 2)])], b1)

        def call1(g):
            return [{'s': 'call', 'name': 'h1', 'args': [V('ia'), op('sum', g.int_expr(1, g.int_scalars_noarr), N(1)),
                                                         g.int_expr(1, g.int_scalars_noarr), V(g.rng.choice(['t1', 't2', 'k']))]}]
        hs.append({'unit': u1, 'mkcall': call1})
        # h2(z0, p, q, za): z0 (first) and za (array, last) unused
        u2 = unit('h2', ['z0', 'p', 'q', 'za'], [zin('z0'), decl('p', 'int', 'inout'), zin('q'), decl('za', 'int', 'in', [(0, 4)])],
                  [assign(V('p'), call('mod', op('sum', op('prod', V('p'), N(2)), V('q')), N(23)))])

        def call2(g):
            tgt = V(g.rng.choice(['t1', 't2', 'k']))
            others = [v for v in ['n', 'm', 't1', 't2', 'k'] if v != tgt['name']]
            return [{'s': 'call', 'name': 'h2', 'args': [g.rng.choice([N(3), V('n'), op('sum', V('m'), N(1))]), tgt,
                                                         op('sum', V(g.rng.choice(others)), N(1)), V('ia')]}]
        hs.append({'unit': u2, 'mkcall': call2})
        # h3(p, zb, q, zi): passes zb / zi on to h2's unused dummies only; zi is an unused INOUT scalar
        u3 = unit('h3', ['p', 'zb', 'q', 'zi'], [decl('p', 'int', 'inout'), decl('zb', 'int', 'in', [(0, 4)]), zin('q'), decl('zi', 'int', 'inout')],
                  [{'s': 'call', 'name': 'h2', 'args': [V('zi'), V('p'), op('sum', V('q'), N(2)), V('zb')]},
                   assign(V('p'), call('mod', op('sum', V('p'), V('q')), N(19)))])

        def call3(g):
            tgt, other = g.rng.sample(['t1', 't2', 'k'], 2)
            return [{'s': 'call', 'name': 'h3', 'args': [V(tgt), V('ia'), op('sum', V(g.rng.choice(['n', 'm'])), N(1)), V(other)]}]
        hs.append({'unit': u3, 'mkcall': call3})
        self.helpers = hs
        return [h['unit'] for h in hs]

    def make_functions(self):
        if not self.unused:
            return super().make_functions()
        f1 = unit('f1', ['u', 'zu', 'v'], [decl('u', 'int', 'in'), decl('zu', 'int', 'in'), decl('v', 'int', 'in'), decl('res', 'int')],
                  [assign(V('res'), call('mod', op('sum', op('prod', V('u'), N(3)), op('neg', V('v'))), N(7))),
                   if_(cmp_('>', V('u'), V('v')), [assign(V('res'), op('sum', V('res'), N(1)))])],
                  kind='function', result='res')
        self.functions = [f1]
        return [f1]

    def scenario(self):
        """A short top-level statement sequence in which a variable holds a literal constant and is then (maybe)
        redefined in one of the ways a forward propagation has to respect."""
        rng = self.rng
        t, u = rng.sample(['t1', 't2', 'k'], 2)
        c1, c2 = rng.randint(0, 6), rng.randint(0, 6)
        use = assign(V(u), self.bounded(op('sum', V(t), V(u))))
        kinds = ['zerotrip', 'carried', 'condassign', 'dynindex', 'loopkill', 'nested-if']
        if self.straight:
            # joins of the constant maps of the branches of a conditional: a branch that kills the constant
            # (input-dependent value), both branches agreeing / disagreeing, ELSE IF chains, nesting
            kinds = ['condassign', 'nested-if', 'else-kill', 'then-kill', 'elseif-kill', 'both-const', 'else-kill', 'elseif-kill']
        elif not self.family.endswith(('/base', '/intdiv')) and not self.family.startswith('all-'):
            kinds = ['condassign']       # feature families: their own scenarios (plus one neutral kind)
        if 'call' in self.f and self.helpers:
            kinds += ['call', 'call']
        if 'while' in self.f:
            kinds += ['while', 'while']
        if 'exitcycle' in self.f:
            kinds += ['exit', 'cycle']
        if 'assoc' in self.f:
            kinds += ['assoc', 'assoc']
        if 'section' in self.f:
            kinds += ['section', 'section']
        if 'select' in self.f:
            kinds += ['select', 'select']
        kind = rng.choice(kinds)
        head = [assign(V(t), N(c1))]
        if kind == 'call':
            names = [h['unit']['name'] for h in self.helpers]
            if 'h2' in names and not self.unused:
                mid = [{'s': 'call', 'name': 'h2', 'args': [V(t), op('sum', V('n'), N(1))]}]
            elif 'h1' in names and not self.unused:
                mid = [{'s': 'call', 'name': 'h1', 'args': [V('ia'), op('sum', V('m'), N(1)), V(t)]}]
            else:
                mid = []
        elif kind == 'zerotrip':
            lo = rng.randint(1, 3)
            mid = [do_('i', N(lo), N(lo - rng.randint(1, 2)), [assign(V(t), N(c2))])]
        elif kind == 'carried':
            mid = [do_('i', N(1), N(rng.randint(2, 3)), [rng.choice([use, assign(el('ia', V('i')), V(t))]),
                                                         assign(V(t), rng.choice([N(c2), op('sum', V(t), N(1))]))])]
        elif kind == 'loopkill':
            mid = [do_('i', N(1), rng.choice([N(2), call('min', V('n'), N(3))]), [assign(V(t), op('sum', V('i'), N(c2)))])]
        elif kind == 'condassign':
            mid = [if_(self.cond(self.int_scalars_noarr), [assign(V(t), N(c2))], inline=rng.random() < 0.5)]
        elif kind in ('else-kill', 'then-kill'):
            dyn = [assign(V(t), self.bounded(op('sum', V(rng.choice(['n', 'm'])), N(c2))))]
            keep = rng.choice([[assign(V(t), N(c2))], [assign(V(t), N(c1))], [assign(V(u), N(c2))]])
            mid = [if_(self.cond(['n', 'm']), keep if kind == 'else-kill' else dyn, dyn if kind == 'else-kill' else keep)]
        elif kind == 'elseif-kill':
            dyn = [assign(V(t), self.bounded(op('sum', V(rng.choice(['n', 'm'])), N(c2))))]
            bodies = [[assign(V(t), N(c2))], rng.choice([[assign(V(t), N(c2))], [assign(V(u), N(c1))]])]
            els = dyn
            if rng.random() < 0.4:
                bodies[1], els = dyn, rng.choice([[assign(V(t), N(c2))], []])
            mid = [{'s': 'if', 'conds': [cmp_('>', V('n'), N(rng.randint(0, 2))), cmp_('<', V('m'), N(rng.randint(0, 2)))],
                    'bodies': bodies, 'els': els}]
        elif kind == 'both-const':
            mid = [if_(self.cond(['n', 'm']), [assign(V(t), N(c2))], [assign(V(t), N(rng.choice([c2, c2 + 1])))])]
        elif kind == 'nested-if':
            mid = [if_(V('flag'), [if_(cmp_('>', V('n'), N(1)), [assign(V(t), N(c2))])], [assign(V(u), N(c2))])]
        elif kind == 'dynindex':
            e = rng.randint(0, 4)
            return [assign(el('ia', N(e)), N(c1)), assign(el('ia', call('mod', call('abs', V('n')), N(5))), N(c2)),
                    assign(V(u), self.bounded(op('sum', el('ia', N(e)), V(u))))]
        elif kind == 'while':
            mid = [assign(V('w'), N(0)), {'s': 'while', 'cond': cmp_('<', V('w'), N(rng.randint(1, 3))),
                                          'body': [use, assign(V(t), N(c2)), assign(V('w'), op('sum', V('w'), N(1)))]}]
        elif kind in ('exit', 'cycle'):
            mid = [do_('i', N(1), N(3), [if_(cmp_('>', op('sum', V('i'), V('n')), N(2)), [{'s': kind}], inline=True), assign(V(t), N(c2))])]
        elif kind == 'assoc':
            mid = [{'s': 'assoc', 'names': ['z9'], 'targets': [V(t)], 'body': [assign(V('z9'), op('sum', V('z9'), N(c2 + 1)))]}]
        elif kind == 'section':
            e = rng.randint(0, 4)
            return [assign(el('ia', N(e)), N(c1)), assign(V('ia'), op('sum', V('ia'), N(c2 + 1))),
                    assign(V(u), self.bounded(op('sum', el('ia', N(e)), V(u))))]
        else:   # select
            mid = [{'s': 'select', 'e': call('mod', call('abs', V('n')), N(3)),
                    'cases': [{'lo': 0, 'hi': 0, 'body': [assign(V(t), N(c2))]}, {'lo': 1, 'hi': 1, 'body': [assign(V(u), N(c2))]}],
                    'default': [assign(V(t), N(c2 + 1))] if rng.random() < 0.5 else []}]
        return head + mid + [use]

    def program(self, nstmts=6, depth=2):
        prog = super().program(nstmts, depth)
        if self.family.startswith(('cp', 'all-')):
            body = prog['units'][0]['body']
            for _ in range(self.rng.choice([1, 1, 2])):
                pos = self.rng.randint(5, len(body))
                body[pos:pos] = self.scenario()
        if self.unused:
            k = prog['units'][0]
            # unused locals (scalar, array, real) and a local array that IS used
            k['decls'] += [decl('u1', 'int'), decl('ua', 'int', dims=[(1, 3)]), decl('ur', 'real'), decl('la', 'int', dims=[(0, 2)])]
            k['body'] += [do_('w', N(0), N(2), [assign(el('la', V('w')), op('sum', V('w'), V('k')))]),
                          assign(V('k'), call('mod', op('sum', el('la', N(1)), el('la', N(2))), N(17)))]
        return prog


C32_FAMILIES = {
    # family: (mode, features, unused)
    'cp/base': ('cp', ('twod',), False),
    'cp/straight': ('cp', ('twod',), False),               # loop-free: assignments, IF / ELSE IF / ELSE, array elements
    'cp-dce/straight': ('cp-dce', ('twod',), False),
    'cp/intdiv': ('cp', ('twod',), False),                 # integer division kept (simplify treats it as exact)
    'cp/call': ('cp', ('twod', 'call', 'fcall'), False),
    'cp/while': ('cp', ('twod', 'while'), False),
    'cp/select': ('cp', ('twod', 'select'), False),
    'cp/exitcycle': ('cp', ('twod', 'exitcycle'), False),
    'cp/section': ('cp', ('twod', 'section'), False),
    'cp/assoc': ('cp', ('twod', 'assoc'), False),
    'cp-unroll/base': ('cp-unroll', ('twod',), False),
    'cp-dce/base': ('cp-dce', ('twod',), False),
    'dce/base': ('dce', ('twod', 'select', 'call', 'while'), False),
    'dce/intdiv': ('dce', ('twod',), False),
    'vars-arrays/base': ('vars', ('twod', 'call', 'fcall', 'select'), True),      # remove_only_arrays=True
    'vars-all/base': ('vars', ('twod', 'call', 'fcall', 'select'), True),         # remove_only_arrays=False
    'args-manual/call': ('args-manual', ('twod', 'call', 'fcall'), True),
    'args-sched/call': ('args-sched', ('twod', 'call', 'fcall'), True),
    'all-sched-arrays/call': ('all-sched', ('twod', 'call', 'fcall'), True),
    'all-sched-all/call': ('all-sched', ('twod', 'call', 'fcall'), True),
}


def gen_c32(rng, family):
    mode, feats, unused = C32_FAMILIES[family]
    g = CPGen(rng, feats, family=family, unused=unused)
    prog = g.program(nstmts=rng.randint(4, 7), depth=2)
    prog['meta'] = {'family': family, 'mode': mode, 'simplify': rng.choice([1, 1, 0]),
                    'only_arrays': 1 if '-arrays' in family else 0}
    prune_unreachable(prog)
    if not family.endswith('/intdiv'):
        strip_intdiv(prog)
    return prog, g.inputs(prog, 3)


def called_names(ss):
    out = set()

    def ex(e):
        if isinstance(e, dict):
            if e.get('k') == 'call':
                out.add(e['f'])
            for v in e.values():
                ex(v)
        elif isinstance(e, list):
            for v in e:
                ex(v)
    for s in F._flat(ss):
        if s['s'] == 'call':
            out.add(s['name'])
        ex({k: v for k, v in s.items() if k not in ('body', 'bodies', 'els', 'default', 'cases')})
        for c in s.get('cases', []):
            pass
    return out


def prune_unreachable(prog):
    """Drop helper units the kernel cannot reach: a signature-changing transformation driven over the call
    tree legitimately leaves procedures outside the tree alone."""
    units = {u['name']: u for u in prog['units']}
    reach, todo = set(), ['kernel']
    while todo:
        n = todo.pop()
        if n in reach or n not in units:
            continue
        reach.add(n)
        todo += list(called_names(units[n]['body']))
    prog['units'] = [u for u in prog['units'] if u['name'] in reach]


def _reverse_call_order(src):
    """Routines of the file, callees before callers."""
    from loki.ir import nodes as ir, FindNodes, FindInlineCalls
    routines = {r.name.lower(): r for r in src.all_subroutines}
    deps = {}
    for name, r in routines.items():
        called = {str(c.name).lower() for c in FindNodes(ir.CallStatement).visit(r.body)}
        called |= {str(c.function).lower() for c in FindInlineCalls().visit(r.body)}
        deps[name] = {c for c in called if c in routines and c != name}
    order, done = [], set()
    while len(order) < len(routines):
        ready = sorted(n for n in routines if n not in done and deps[n] <= done)
        if not ready:
            raise MachineryError('recursive helper procedures')
        for n in ready:
            order.append(routines[n])
            done.add(n)
    return order


def transform_c32(text, prog, workdir):
    from loki import Sourcefile
    from loki.transformations.constant_propagation import do_constant_propagation
    from loki.transformations.remove_code import (
        do_remove_dead_code, do_remove_unused_vars, do_remove_unused_dummy_args, do_remove_unused_call_args,
        find_unused_dummy_args_and_vars, RemoveCodeTransformation)
    meta = prog.get('meta') or {}
    mode = meta.get('mode', 'cp')
    if mode.endswith('-sched'):
        from loki.batch import Scheduler, SchedulerConfig
        os.makedirs(workdir, exist_ok=True)
        with open(os.path.join(workdir, 'kmod.F90'), 'w') as fh:
            fh.write(text)
        config = SchedulerConfig.from_dict({
            'default': {'role': 'kernel', 'expand': True, 'strict': False, 'enable_imports': True},
            'routines': {'kernel': {'role': 'driver'}}})
        sched = Scheduler(paths=[workdir], config=config, xmods=[workdir])
        if mode == 'args-sched':
            trafo = RemoveCodeTransformation(remove_unused_args=True)
        else:
            trafo = RemoveCodeTransformation(remove_dead_code=True, use_simplify=bool(meta.get('simplify', 1)),
                                             remove_unused_args=True, remove_unused_vars=True,
                                             remove_only_arrays=bool(meta.get('only_arrays', 0)))
        sched.process(transformation=trafo)
        item = next((it for it in sched.items if it.name.lower() == 'kmod#kernel'), None)
        if item is None:
            raise MachineryError(f'scheduler did not discover kmod#kernel: {[it.name for it in sched.items]}')
        return [('kmod.f90', item.source.to_fortran())]
    src = Sourcefile.from_source(text)
    if mode == 'args-manual':
        unused_map = {}
        for routine in _reverse_call_order(src):
            do_remove_unused_call_args(routine, unused_map)
            if routine.name.lower() != 'kernel':
                unused_args, _ = find_unused_dummy_args_and_vars(routine)
                do_remove_unused_dummy_args(routine, unused_args)
                # keyed AFTER the routine was changed: Subroutine hashes by content
                unused_map[routine] = unused_args
        return [('kmod.f90', src.to_fortran())]
    for routine in src.all_subroutines:
        if mode in ('cp', 'cp-unroll', 'cp-dce'):
            do_constant_propagation(routine, unroll_loops=mode == 'cp-unroll')
        if mode in ('dce', 'cp-dce'):
            do_remove_dead_code(routine, use_simplify=bool(meta.get('simplify', 1)))
        if mode == 'vars':
            do_remove_unused_vars(routine, remove_only_arrays=bool(meta.get('only_arrays', 0)))
    return [('kmod.f90', src.to_fortran())]
