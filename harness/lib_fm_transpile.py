"""C35 / C36: plumbing for the transpilation behaviour checks (Fortran -> C with ISO-C wrapper, Fortran -> Python).

   TGen               generator of kernels in the transpilable subset, organised in *pools*: the `core` pool uses
                      only constructs both back ends are expected to translate; every other pool adds exactly one
                      further construct (integer division, MOD, SIGN, lower bounds /= 1, strides, ...), so that a
                      defect of the transpiler in that construct gets its own stable violation key and cannot mask
                      the rest
   render_standalone  program JSON -> stand-alone SUBROUTINE text (what the repo tests feed to the transformations)
   f2c_transform / f2c_execute     FortranCTransformation + FortranISOCWrapperTransformation; gcc -c + gfortran link;
                      the harness-owned PROGRAM calls <name>_fc from <NAME>_FC_MOD
   f2py_transform / f2py_execute   FortranPythonTransformation; the generated function runs in a subprocess
   check / report     pre-flight (gfortran on the original), execution of the transpiled code, ONE TLC evaluation of
                      spec/FMachine.tla per (program, input) through spec/Trace_Transpile.tla, classification
   The expected behaviour is never computed here: TLC evaluates the reference machine."""
import concurrent.futures as cf
import copy
import json
import os
import re
import subprocess
import sys
import traceback
from fractions import Fraction

from . import lib_fm as F
from .core import MachineryError
from .lib_fm import NONE, N, R, V, assign, call, cmp_, decl, el, op, rng_, unit

KIND = 'real64'
MAXINT = 20          # invariant of the generated programs: every integer variable / element holds |v| <= MAXINT
CPU_LIMIT = 5         # seconds of CPU time after which transpiled code counts as non-terminating
NINIT = 7             # initialisation statements at the head of every kernel (kept by the shrinker)
NODE_LIMIT = 25000   # static bound on every integer sub-expression (the machine's magnitude limit is 30000)


# ----------------------------------------------------------------------------- rendering
def render_standalone(prog, entry='kernel'):
    """Stand-alone subroutine with the kind imported from iso_fortran_env, like the repository's transpile tests."""
    u = next(x for x in prog['units'] if x['name'] == entry)
    lines = F.render_unit(u, prog, ind=0)
    lines[1:1] = [f'  use iso_fortran_env, only: {KIND}', '  implicit none']
    text = '\n'.join(lines) + '\n'
    text = text.replace('kind=jprb', f'kind={KIND}').replace('_jprb', f'_{KIND}')
    # lib_fm brackets a power that is the right operand of "/": x / (y**2).  Fortran's "**" binds tighter than "/", so
    # the brackets are redundant; drop them (x / y**2) because back ends may treat the two spellings differently
    return UNBRACKET.sub(r'/ \1**\2', text)


def driver_for(prog, inputs, entry='kernel', wrapper=False):
    """The harness-owned PROGRAM.  Original: the stand-alone subroutine is an external procedure (explicit-shape
    dummies only, so an implicit interface is sufficient).  Transpiled: call <entry>_fc of <ENTRY>_FC_MOD."""
    t = F.driver_text(prog, entry, inputs).replace('kind=jprb', f'kind={KIND}').replace('_jprb', f'_{KIND}')
    use = f'  use {entry}_fc_mod, only: {entry}_fc\n  use iso_fortran_env, only: {KIND}\n' if wrapper else f'  use iso_fortran_env, only: {KIND}\n'
    if '  use kmod\n' not in t:
        raise MachineryError('driver_text layout changed (use kmod line)')
    t = t.replace('  use kmod\n', use, 1)
    if wrapper:
        t = t.replace(f'  call {entry}(', f'  call {entry}_fc(')
    return t


# ----------------------------------------------------------------------------- generator
#   features (pool = core features of the target + one of the others)
#     lb        array lower bounds other than 1
#     step      DO strides that do not hit the final bound exactly (|step| in 2,3)
#     lvafter   the DO variable is read after the loop
#     boundmod  a variable used as DO bound is redefined inside the loop (trip count is fixed on entry in Fortran)
#     idiv      integer division of plain integer operands
#     mod       MOD of plain integer operands
#     intfn     integer MIN/MAX/ABS as operands of + - *, comparisons, assignments, DO bounds
#     sign      integer SIGN (same contexts)
#     ipow      integer ** 2|3 (same contexts)
#     fndiv     integer MIN/MAX/ABS/SIGN/** results as operands of "/" and MOD, and as array subscripts
#     conv      implicit real -> integer conversion in a scalar assignment (and integer -> real)
#     intcast   INT(real expression)
#     while, select, exitcycle, section   the statements of these names
#     selneg    SELECT CASE with negative case values / ranges
#     idxdiv    integer division inside array subscripts
#     rpow      real ** 2|3 as numerator, factor and (unbracketed) DENOMINATOR of divisions; the divisors are powers of two
#               (literals and the elements of the intent(in) array rp), so every result stays dyadic
#     varstep   DO strides that are the integer input d (or -d, abs(d)); d takes positive and negative values at run time
ALL_FEATURES = ('lb', 'step', 'lvafter', 'boundmod', 'idiv', 'mod', 'intfn', 'sign', 'ipow', 'fndiv', 'conv', 'intcast',
                'while', 'select', 'exitcycle', 'section')


UNBRACKET = re.compile(r'/ \(([A-Za-z_]\w*(?:\([^()]*\))?|\d+\.\d+_\w+)\*\*(\d)\)')


class Retry(Exception):
    pass


class TGen(F.Gen):
    def __init__(self, rng, features, focus=None):
        super().__init__(rng, features)
        self.focus = focus          # the pool's extra feature: must occur at least once
        self.used = set()

    # ---- static magnitude bound of an integer expression (all variables / elements are within MAXINT)
    def bound(self, e):
        k = e['k']
        if k == 'int':
            return e['v']
        if k in ('var', 'arr'):
            if k == 'var' and e['name'] in self.loop_range:
                lo, hi = self.loop_range[e['name']]
                return max(abs(lo), abs(hi)) + 3
            return MAXINT
        if k in ('neg', 'par'):
            return self.bound(e['c'][0])
        if k == 'sum':
            b = sum(self.bound(c) for c in e['c'])
        elif k == 'prod':
            b = 1
            for c in e['c']:
                b *= self.bound(c)
        elif k == 'quot':
            b = self.bound(e['c'][0])
        elif k == 'pow':
            b = self.bound(e['c'][0]) ** e['c'][1]['v']
        elif k == 'call':
            f = e['f']
            if f == 'mod':
                b = max(0, self.bound(e['c'][1]) - 1)
            elif f in ('min', 'max'):
                b = max(self.bound(c) for c in e['c'])
            elif f in ('abs',):
                b = self.bound(e['c'][0])
            elif f == 'sign':
                b = self.bound(e['c'][0])
            elif f == 'int':
                b = 200
            else:
                raise MachineryError(f'bound: {f}')
        else:
            raise MachineryError(f'bound: {k}')
        if b > NODE_LIMIT:
            raise Retry()
        return b

    def clamp(self, e, lo=-MAXINT, hi=MAXINT):
        return call('min', call('max', e, N(lo)), N(hi))

    def fit(self, e):
        """Make an integer right-hand side respect the MAXINT invariant."""
        try:
            b = self.bound(e)
        except Retry:
            return None
        if b <= MAXINT:
            return e
        return self.clamp(e)

    # ---- expressions
    def int_vars(self):
        return self.int_scalars + [v for v in self.active_loops if v != 'w']

    def index(self, arr, dim, scalars=None, simple=None):
        lo, hi = self.arrays[arr][dim]
        rng = self.rng
        cands = []
        for v in self.active_loops:
            a, b = self.loop_range.get(v, (0, -1))
            if a > b:
                continue
            if a >= lo and b <= hi:
                cands.append(V(v))
                cands.append(op('sum', N(lo + hi), op('neg', V(v))))         # mirrored
            for o in (1, -1, 2):
                if a + o >= lo and b + o <= hi:
                    cands.append(op('sum', V(v), N(o)) if o > 0 else op('sum', V(v), op('neg', N(-o))))
        if 'idxdiv' in self.f and rng.random() < 0.7:
            # integer division inside a subscript: (v + c) / q with v + c >= 0 on the whole loop range
            dc = []
            for v in self.active_loops:
                a, b = self.loop_range.get(v, (0, -1))
                if a > b:
                    continue
                for q in (2, 3):
                    for c in range(-a, -a + 7):
                        if c % q != 0 and (a + c) // q >= lo and (b + c) // q <= hi and (b + c) // q > (a + c) // q:
                            num = V(v) if c == 0 else op('par', op('sum', V(v), N(c)))
                            dc.append(op('quot', num, N(q)))
            if dc:
                self.used.add('idxdiv')
                return rng.choice(dc)
        if cands and rng.random() < 0.75:
            return rng.choice(cands)
        if 'fndiv' in self.f and rng.random() < 0.5:
            self.used.add('fndiv')
            return self.clamp(self.int_leaf(), lo, hi)                       # intrinsic result as subscript
        return N(rng.randint(lo, hi))

    def elem(self, arr):
        return el(arr, *[self.index(arr, d) for d in range(len(self.arrays[arr]))])

    def int_leaf(self, scalars=None):
        r = self.rng.random()
        if r < 0.45:
            return V(self.rng.choice(self.int_vars()))
        if r < 0.62:
            return self.elem('ia')
        if r < 0.7 and 'ib' in self.arrays:
            return self.elem('ib')
        return N(self.rng.choice([0, 1, 2, 3, 5, 7]))

    def small_leaf(self):
        """Leaf with a small magnitude (bases of powers)."""
        c = [V('n'), V('m')] + [V(v) for v in self.active_loops if v != 'w'] + [N(2), N(3)]
        return self.rng.choice(c)

    def int_expr(self, d, plain=False):
        """plain: no intrinsic / power results (operands of "/" and MOD in pools without `fndiv`)."""
        rng = self.rng
        f = self.f
        if d <= 0 or rng.random() < 0.25:
            return self.int_leaf()
        kinds = ['sum', 'sum', 'diff', 'diff', 'prod', 'neg', 'par']
        if 'idiv' in f:
            kinds += ['quot'] * (4 if self.focus == 'idiv' else 2)
        if 'mod' in f:
            kinds += ['mod'] * (4 if self.focus == 'mod' else 2)
        if not plain or 'fndiv' in f:
            if 'intfn' in f:
                kinds += ['minmax', 'abs']
            if 'sign' in f:
                kinds += ['sign'] * (4 if self.focus == 'sign' else 1)
            if 'ipow' in f:
                kinds += ['pow']
            if 'intcast' in f:
                kinds += ['intcast'] * 4
        if 'fndiv' in f:
            kinds += ['fndiv'] * 5
        k = rng.choice(kinds)
        sub = lambda: self.int_expr(d - 1, plain)       # noqa: E731
        if k == 'sum':
            return op('sum', sub(), sub())
        if k == 'diff':
            return op('sum', sub(), op('neg', sub()))
        if k == 'prod':
            return op('prod', sub(), self.int_leaf())
        if k == 'neg':
            return op('neg', sub())
        if k == 'par':
            return op('par', op('sum', sub(), sub()))
        if k == 'quot':
            self.used.add('idiv')
            den = rng.choice([N(2), N(3), N(4), N(-2), N(-3)]) if rng.random() < 0.8 else op('sum', call('abs', V('m')), N(1)) if 'fndiv' in f else N(2)
            return op('quot', self.int_expr(d - 1, plain='fndiv' not in f), den)
        if k == 'mod':
            self.used.add('mod')
            return call('mod', self.int_expr(d - 1, plain='fndiv' not in f), N(rng.choice([2, 3, 5, 7, -3])))
        if k == 'minmax':
            return call(rng.choice(['max', 'min']), sub(), sub())
        if k == 'abs':
            return call('abs', sub())
        if k == 'sign':
            self.used.add('sign')
            return call('sign', sub(), sub())
        if k == 'pow':
            self.used.add('ipow')
            return op('pow', self.small_leaf(), N(rng.choice([2, 2, 3])))
        if k == 'intcast':
            self.used.add('intcast')
            return call('int', self.real_fresh())
        if k == 'fndiv':
            self.used.add('fndiv')
            inner = rng.choice([lambda: call(rng.choice(['max', 'min']), sub(), sub()), lambda: call('abs', sub()),
                                lambda: op('pow', self.small_leaf(), N(2))] + ([lambda: call('sign', sub(), sub())] if 'sign' in f else []))()
            if rng.random() < 0.6:
                return op('quot', inner, N(rng.choice([2, 3, 4])))
            return call('mod', inner, N(rng.choice([3, 5, 7])))
        raise MachineryError(k)

    RLITS = [R(1, 2), R(2), R(3, 2), R(1), R(1, 4), R(5, 2)]

    def real_leaf(self, scalars=True):
        r = self.rng.random()
        if r < 0.35 and scalars:
            return V(self.rng.choice(self.real_scalars))
        if r < 0.7:
            return self.elem('ra')
        return self.rng.choice(self.RLITS)

    def real_fresh(self):
        """Real expression that does not read the real scalars (bounded denominators)."""
        rng = self.rng
        r = rng.random()
        a = self.real_leaf(False)
        if r < 0.25:
            return op('sum', a, self.real_leaf(False))
        if r < 0.4:
            return op('sum', a, op('neg', self.real_leaf(False)))
        if r < 0.55:
            return op('prod', a, rng.choice([R(1, 2), R(2), R(3, 2)]))
        if r < 0.65:
            return op('quot', a, rng.choice([R(2), R(4)]))
        if r < 0.8:
            return op('prod', call('real', self.int_expr(1)), rng.choice([R(1, 2), R(1, 4), R(1)]))
        if r < 0.9:
            return op('sum', a, self.int_leaf())                      # mixed-mode arithmetic
        return call(rng.choice(['min', 'max']), a, self.real_leaf(False))

    def pow2_leaf(self):
        """Real leaf whose value is +-2**k (k in -1..2): dividing by it (or by its square / cube) is exact."""
        return self.elem('rp') if self.rng.random() < 0.75 else self.rng.choice([R(2), R(1, 2), R(4)])

    def rpow_expr(self):
        rng = self.rng
        self.used.add('rpow')
        a, b, p = self.real_leaf(False), self.real_leaf(False), self.pow2_leaf()
        k = rng.choice([2, 2, 2, 3])
        form = rng.choice(['den', 'den', 'den', 'den_sum', 'den_prod', 'num', 'fac_l', 'fac_r', 'both', 'sumsq'])
        if form in ('den', 'den_sum', 'den_prod', 'both'):
            self.used.add('rpow_den')
        if form == 'den':
            return op('quot', a, op('pow', p, N(k)))                                     # a / p**2
        if form == 'den_sum':
            return op('sum', op('quot', a, op('pow', p, N(k))), b)                       # a / p**2 + b
        if form == 'den_prod':
            return op('quot', op('prod', a, rng.choice([R(2), R(1, 2), R(3, 2)])), op('pow', p, N(2)))   # a*c / p**2
        if form == 'num':
            return op('quot', op('pow', a, N(2)), rng.choice([R(2), R(4), self.pow2_leaf()]))             # a**2 / p
        if form == 'fac_l':
            return op('prod', op('pow', p, N(k)), a)                                     # p**2*a
        if form == 'fac_r':
            return op('prod', a, op('pow', p, N(k)))
        if form == 'both':
            return op('quot', op('pow', a, N(2)), op('pow', self.pow2_leaf(), N(2)))     # a**2 / p**2
        return op('pow', op('par', op('sum', a, b)), N(2))                               # (a + b)**2

    def real_stmt(self):
        rng = self.rng
        tgt = V(rng.choice(self.real_writable)) if rng.random() < 0.6 else self.elem('ra')
        inloop = bool(self.active_loops)
        if 'rpow' in self.f and rng.random() < 0.35:
            return [assign(tgt, self.rpow_expr())]
        r = rng.random()
        if r < 0.3:
            rhs = op('sum', copy.deepcopy(tgt), self.real_fresh()) if rng.random() < 0.6 else op('sum', copy.deepcopy(tgt), op('neg', self.real_fresh()))
        elif r < 0.6:
            rhs = self.real_fresh()
        elif r < 0.72 and not inloop:
            rhs = op('prod', copy.deepcopy(tgt), rng.choice([R(1, 2), R(2), R(1, 4)])) if rng.random() < 0.6 else op('quot', copy.deepcopy(tgt), rng.choice([R(2), R(4)]))
        elif r < 0.84:
            rhs = call(rng.choice(['min', 'max']), self.real_leaf(), self.real_leaf()) if rng.random() < 0.6 else call('abs', op('sum', self.real_leaf(), op('neg', self.real_leaf())))
        elif r < 0.92 and not inloop:
            base = self.real_leaf(False)
            rhs = op('pow', base if base['k'] != 'neg' else op('par', base), N(rng.choice([2, 2, 3])))
        elif r < 0.96:
            rhs = op('sum', self.real_fresh(), op('pow', R(2), op('par', N(-rng.choice([1, 2])))))
        else:
            rhs = op('sum', op('neg', self.real_leaf(False)), op('par', op('neg', self.real_leaf(False))))
        return [assign(tgt, rhs)]

    def cond(self, scalars=None):
        rng = self.rng
        r = rng.random()
        c = cmp_(rng.choice(['==', '/=', '<', '<=', '>', '>=']), self.int_expr(1), self.int_expr(1))
        if r < 0.1:
            return V(rng.choice(['flag', 'b']))
        if r < 0.25:
            return op('and', c, cmp_(rng.choice(['<', '>']), self.int_leaf(), N(2)))
        if r < 0.35:
            return op('or', c, V(rng.choice(['flag', 'b'])))
        if r < 0.45:
            return op('not', c if rng.random() < 0.5 else op('par', op('or', c, V('flag'))))
        if r < 0.55:
            return cmp_(rng.choice(['<', '>', '<=', '>=']), self.real_leaf(), self.real_leaf())
        if r < 0.6:
            return op('and', op('not', V('flag')), c)
        return c

    # ---- statements
    def int_assign(self, tgt, d=2):
        for _ in range(8):
            try:
                e = self.fit(self.int_expr(d))
            except Retry:
                e = None
            if e is not None:
                return [assign(tgt, e)]
            d = 1
        return [assign(tgt, self.int_leaf())]

    def stmt(self, d):
        rng = self.rng
        f = self.f
        kinds = ['assign', 'assign', 'aelem', 'aelem', 'real', 'real', 'logical', 'if', 'do', 'do']
        if 'ib' in self.arrays:
            kinds.append('belem')
        if self.focus in self.EXPR_FEATURES or self.focus == 'fndiv':
            kinds += ['assign'] * 5           # scalar dummies: the construct's value reaches the outputs unconverted
        for feat, w in (('while', 1), ('select', 1), ('selneg', 4), ('section', 2), ('conv', 2)):
            if feat in f:
                kinds += [feat] * (w * (3 if self.focus == feat else 1))
        if 'exitcycle' in f and self.active_loops and self.active_loops[-1] != 'w':
            kinds += ['exitcycle'] * 4
        if 'lvafter' in f or 'boundmod' in f or 'step' in f or 'exitcycle' in f:
            kinds += ['do', 'do']
        if d <= 0:
            kinds = [k for k in kinds if k not in ('if', 'do', 'select', 'selneg', 'while')] or ['assign']
        k = rng.choice(kinds)
        writable = [v for v in self.int_writable if v not in self.active_loops and v not in self.frozen]
        if k == 'assign':
            return self.int_assign(V(rng.choice(writable)))
        if k == 'aelem':
            return self.int_assign(self.elem('ia'))
        if k == 'belem':
            return self.int_assign(self.elem('ib'))
        if k == 'real':
            return self.real_stmt()
        if k == 'logical':
            return [assign(V(rng.choice(['b', 'lo'])), self.cond())]
        if k == 'conv':
            self.used.add('conv')
            if rng.random() < 0.7:
                # real -> integer: truncation toward zero; the value stays small
                return [assign(V(rng.choice(writable)), op('sum', self.elem('ra'), rng.choice([R(1, 2), R(3, 2), op('neg', R(5, 2))])))]
            return [assign(V(rng.choice(self.real_writable)), self.int_expr(1))]
        if k == 'if':
            n = rng.choice([1, 1, 2, 3])
            s = {'s': 'if', 'conds': [self.cond() for _ in range(n)], 'bodies': [self.block(d - 1, rng.randint(1, 2)) for _ in range(n)],
                 'els': self.block(d - 1, 1) if rng.random() < 0.5 else []}
            if n == 1 and not s['els'] and len(s['bodies'][0]) == 1 and s['bodies'][0][0]['s'] == 'assign' and rng.random() < 0.5:
                s['inline'] = True
            return [s]
        if k == 'do':
            return self.do_stmt(d, writable)
        if k == 'while':
            if 'w' in self.active_loops:
                return []
            self.used.add('while')
            self.active_loops.append('w')
            body = self.block(d - 1, rng.randint(1, 2)) + [assign(V('w'), op('sum', V('w'), N(1)))]
            self.active_loops.pop()
            return [assign(V('w'), N(0)), {'s': 'while', 'cond': cmp_('<', V('w'), N(rng.randint(1, 3))), 'body': body}]
        if k in ('select', 'selneg'):
            self.used.add('select')
            cases, lo = [], rng.choice([0, 0, 1])
            if 'selneg' in f:
                self.used.add('selneg')
                lo = rng.choice([-3, -2, -1])
            for _ in range(rng.randint(1, 3)):
                hi = lo + rng.choice([0, 0, 1])
                cases.append({'lo': lo, 'hi': hi, 'body': self.block(d - 1, 1)})
                lo = hi + 1 + rng.choice([0, 1])
            sel = rng.choice([V('n'), V('m'), op('sum', V('n'), op('neg', V('m'))), V(rng.choice(self.int_writable))])
            return [{'s': 'select', 'e': sel, 'cases': cases, 'default': self.block(d - 1, 1) if rng.random() < 0.6 else []}]
        if k == 'exitcycle':
            self.used.add('exitcycle')
            return [{'s': 'if', 'conds': [self.cond()], 'bodies': [[{'s': rng.choice(['exit', 'cycle'])}]], 'els': [], 'inline': True}]
        if k == 'section':
            return self.section_stmt()
        return []

    def do_stmt(self, d, writable):
        rng = self.rng
        f = self.f
        free = [v for v in self.loopvars if v not in self.active_loops]
        if not free:
            return self.int_assign(V(rng.choice(writable)), 1)
        v = free[0]
        arr = rng.choice(list(self.arrays))
        dim = rng.randrange(len(self.arrays[arr]))
        lo, hi = self.arrays[arr][dim]
        st = NONE
        pre, post = [], []
        frozen = None
        shapes = ['up', 'up', 'up', 'down', 'partial', 'minbound', 'zero', 'exact2']
        if 'step' in f:
            shapes += ['stride'] * 8
        if 'boundmod' in f:
            shapes += ['boundmod'] * 8
        if 'varstep' in f:
            shapes += ['varstep'] * (10 if self.focus == 'varstep' else 5)
        shape = rng.choice(shapes)
        if shape == 'up':
            lo_e, hi_e = N(lo), N(hi)
        elif shape == 'down':
            lo_e, hi_e, st = N(hi), N(lo), N(-1)
        elif shape == 'partial':
            lo_e, hi_e = N(lo + 1), N(hi)
        elif shape == 'minbound':
            lo_e, hi_e = N(lo), call('min', op('sum', V('n'), N(lo)), N(hi))          # possibly zero-trip
        elif shape == 'zero':
            if rng.random() < 0.5:
                lo_e, hi_e = N(lo + 1), N(lo)
            else:
                lo_e, hi_e, st = N(lo), N(hi), N(-1)
        elif shape == 'exact2':
            span = (hi - lo) // 2 * 2
            if rng.random() < 0.5:
                lo_e, hi_e, st = N(lo), N(lo + span), N(2)
            else:
                lo_e, hi_e, st = N(lo + span), N(lo), N(-2)
        elif shape == 'stride':
            self.used.add('step')
            s = rng.choice([2, 3, -2, -3])
            # choose bounds inside lo..hi such that (last - first) is not a multiple of the stride
            pairs = [(a, b) for a in range(lo, hi + 1) for b in range(lo, hi + 1) if b > a and (b - a) % abs(s) != 0]
            a, b = rng.choice(pairs)
            lo_e, hi_e, st = (N(a), N(b), N(s)) if s > 0 else (N(b), N(a), N(s))
        elif shape == 'varstep':
            # stride = the input d in {-2,-1,1,2} (or -d, abs(d)); the loop runs over the range of ia (extent 5)
            self.used.add('varstep')
            arr, dim = 'ia', 0
            lo, hi = self.arrays['ia'][0]
            mid = lo + 2
            D = V('d')
            form = rng.choice(['sym', 'sym', 'symneg', 'up', 'down', 'downneg', 'upneg', 'abs'])
            if form == 'sym':        # 3 trips for either sign
                lo_e, hi_e, st = op('sum', N(mid), op('neg', D)), op('sum', N(mid), D), D
            elif form == 'symneg':   # 3 trips for either sign, stride spelled with a leading minus
                lo_e, hi_e, st = op('sum', N(mid), D), op('sum', N(mid), op('neg', D)), op('neg', D)
            elif form == 'up':       # trips iff d > 0
                lo_e, hi_e, st = N(lo), N(hi), D
            elif form == 'down':     # trips iff d < 0
                lo_e, hi_e, st = N(hi), N(lo), D
            elif form == 'downneg':  # trips iff d > 0
                lo_e, hi_e, st = N(hi), N(lo), op('neg', D)
            elif form == 'upneg':    # trips iff d < 0 (a positive stride spelled with a minus)
                lo_e, hi_e, st = N(lo), N(hi), op('neg', D)
            else:
                lo_e, hi_e, st = N(lo), N(hi), call('abs', D)
        else:  # boundmod: the upper bound is a variable the body redefines
            self.used.add('boundmod')
            bv = rng.choice([x for x in ('t1', 't2') if x not in self.frozen] or ['t1'])
            if bv in self.frozen:
                return self.int_assign(V(rng.choice(writable)), 1)
            pre = [assign(V(bv), N(hi))]
            lo_e, hi_e = N(lo), V(bv)
            frozen = bv
        self.active_loops.append(v)
        self.loop_range[v] = (lo, hi)
        if frozen:
            self.frozen.add(frozen)
        body = self.block(d - 1, rng.randint(1, 3))
        if frozen:
            self.frozen.discard(frozen)
            body.insert(rng.randint(0, len(body)), assign(V(frozen), op('sum', V(frozen), op('neg', N(1)))))
        self.active_loops.pop()
        del self.loop_range[v]
        if 'lvafter' in f and rng.random() < 0.8:
            self.used.add('lvafter')
            tgt = V(rng.choice([x for x in writable if x != frozen]))
            post = [assign(tgt, V(v))] if rng.random() < 0.5 else self.int_assign_with(tgt, V(v))
        return pre + [{'s': 'do', 'var': v, 'lo': lo_e, 'hi': hi_e, 'st': st, 'body': body}] + post

    def int_assign_with(self, tgt, leaf):
        e = op('sum', self.int_leaf(), leaf)
        return [assign(tgt, self.fit(e) or leaf)]

    def section_stmt(self):
        rng = self.rng
        self.used.add('section')
        lo, hi = self.arrays['ia'][0]
        r = rng.random()
        if r < 0.2:
            return [assign(V('ia'), self.clamp(op('sum', V('ia'), V(rng.choice(['n', 'm'])))))]
        if r < 0.4:
            k = rng.choice([1, 2])
            if rng.random() < 0.5:    # overlapping shifts: RHS is read before any element is stored
                return [assign(el('ia', rng_(N(lo + k), N(hi))), self.clamp(op('sum', el('ia', rng_(N(lo), N(hi - k))), N(1))))]
            return [assign(el('ia', rng_(N(lo), N(hi - k))), self.clamp(op('sum', el('ia', rng_(N(lo + k), N(hi))), N(1))))]
        if r < 0.55:
            return [assign(V('ra'), op('prod', V('ra'), rng.choice([R(2), R(1, 2)])))]
        if r < 0.7:
            l2, h2 = self.arrays['ra'][0]
            return [assign(el('ra', rng_(N(l2), N(l2 + 1))), op('sum', el('ra', rng_(N(l2 + 2), N(l2 + 3))), R(1, 2)))]
        if r < 0.85 and 'ib' in self.arrays:
            (l1, h1), (l2, h2) = self.arrays['ib']
            return [assign(el('ib', rng_(), N(rng.randint(l2, h2))), self.clamp(op('sum', el('ib', rng_(), N(rng.randint(l2, h2))), el('ia', rng_(N(lo), N(lo + h1 - l1))))))]
        return [assign(el('ia', rng_(NONE, N(lo + 1))), N(rng.randint(0, 5)))]

    def block(self, d, n):
        out = []
        for _ in range(n):
            out += self.stmt(d)
        return out or [assign(V('t2'), N(1))]

    # ---- whole programs
    EXPR_FEATURES = {'idiv': lambda e: e['k'] == 'quot' and e['c'][1]['k'] in ('int', 'neg') and e['c'][1].get('v', 1) != 0 and _is_intlit(e['c'][1]),
                     'mod': lambda e: e['k'] == 'call' and e['f'] == 'mod',
                     'sign': lambda e: e['k'] == 'call' and e['f'] == 'sign',
                     'intcast': lambda e: e['k'] == 'call' and e['f'] == 'int'}

    def program(self, nstmts=6, depth=2, need=None):
        for _ in range(400):
            prog = self._program(nstmts, depth)
            if need is not None and need not in self.used:
                continue
            if self.focus in self.EXPR_FEATURES:
                # the construct must really occur (twice) in the emitted program
                if sum(1 for e in _exprs(prog) if self.EXPR_FEATURES[self.focus](e)) >= 2:
                    return prog
            elif self.focus is None or self.focus in self.used or self.focus in ('lb', 'intfn'):
                return prog
        raise MachineryError(f'generator: feature {self.focus or need} never produced')

    def _program(self, nstmts, depth):
        rng = self.rng
        self.used = set()
        if 'lb' in self.f:
            a = rng.choice([0, -1, 2, -3])
            b1, b2 = rng.choice([(1, -1), (0, 2), (-2, 0), (0, 0)])
            c = rng.choice([0, 3, -1, 1])
        else:
            a = b1 = b2 = c = 1
        c2 = rng.choice([0, 2, -1]) if 'lb' in self.f else 1
        self.arrays = {'ia': [(a, a + 4)], 'ra': [(c, c + 3)], 'rp': [(c2, c2 + 3)]}
        if rng.random() < 0.6:
            self.arrays['ib'] = [(b1, b1 + 2), (b2, b2 + 2)]
        self.active_loops = []
        self.loop_range = {}
        self.frozen = set()
        # pools that test an expression-level construct assign to dummies only, so that the construct reaches the outputs
        self.int_writable = ['k', 's'] if self.focus in ('idiv', 'mod', 'sign', 'intcast', 'fndiv', 'conv', 'idxdiv') else ['k', 't1', 't2', 's']
        self.int_scalars = ['n', 'm', 'd', 'k', 't1', 't2', 's']
        self.int_scalars_noarr = list(self.int_scalars)
        self.real_scalars = ['x', 'y']
        self.real_writable = ['x', 'y']
        decls = [decl('n', 'int', 'in'), decl('m', 'int', 'in'), decl('d', 'int', 'in'), decl('flag', 'log', 'in'),
                 decl('ia', 'int', 'inout', self.arrays['ia']), decl('ra', 'real', 'inout', self.arrays['ra']),
                 decl('rp', 'real', 'in', self.arrays['rp'])]
        args = ['n', 'm', 'd', 'flag', 'ia', 'ra', 'rp']
        if 'ib' in self.arrays:
            decls.append(decl('ib', 'int', 'inout', self.arrays['ib']))
            args.append('ib')
        decls += [decl('s', 'int', 'inout'), decl('k', 'int', 'out'), decl('x', 'real', 'out'), decl('lo', 'log', 'out')]
        args += ['s', 'k', 'x', 'lo']
        decls += [decl(v, 'int') for v in ('i', 'j', 'l', 'w', 't1', 't2')] + [decl('y', 'real'), decl('b', 'log')]
        init = [assign(V('k'), N(0)), assign(V('x'), R(0)), assign(V('lo'), {'k': 'log', 'v': False}), assign(V('t1'), V('m')),
                assign(V('t2'), N(1)), assign(V('y'), R(1, 2)), assign(V('b'), op('not', V('flag')))]
        body = init + self.block(depth, nstmts)
        return {'units': [unit('kernel', args, decls, body)]}

    def inputs(self, prog, count=3):
        rng = self.rng
        self.dphase = rng.randrange(4)
        u = prog['units'][0]
        out = []
        for c in range(count):
            inp = {}
            for d in u['decls']:
                if d['name'] not in u['args'] or d['intent'] == 'out':
                    continue
                if d['dims']:
                    size = 1
                    for lo, hi in d['dims']:
                        size *= hi - lo + 1
                    if d['name'] == 'rp':      # +-2**k: exact divisors
                        els = [F.val_real(rng.choice([Fraction(1, 2), Fraction(1), Fraction(2), Fraction(-1, 2), Fraction(-1), Fraction(-2)])) for _ in range(size)]
                    elif d['type'] == 'int':
                        els = [F.val_int(rng.randint(-4, 7)) for _ in range(size)]
                    else:
                        els = [F.val_real(Fraction(rng.randint(-6, 9), 2)) for _ in range(size)]
                    inp[d['name']] = F.val_arr(d['dims'], els)
                elif d['name'] == 'd':         # stride input: never 0, both signs among the inputs of every program
                    inp['d'] = F.val_int([[2, -1, 1], [-2, 1, -1], [1, -2, 2], [-1, 2, -2]][self.dphase][c % 3])
                elif d['type'] == 'int':
                    inp[d['name']] = F.val_int([0, 1, 3, 5, -2, 2, -3, 4][(c * 3 + len(inp)) % 8] if rng.random() < 0.6 else rng.randint(-3, 6))
                elif d['type'] == 'log':
                    inp[d['name']] = F.val_log((c + rng.randint(0, 1)) % 2 == 0)
                else:
                    inp[d['name']] = F.val_real(Fraction(rng.randint(-3, 5), 2))
            out.append(inp)
        return out


def _is_intlit(e):
    return e['k'] == 'int' or (e['k'] == 'neg' and e['c'][0]['k'] == 'int')


def _exprs(prog):
    def walk(e):
        if isinstance(e, dict):
            if 'k' in e:
                yield e
            for v in e.values():
                yield from walk(v)
        elif isinstance(e, list):
            for v in e:
                yield from walk(v)
    for u in prog['units']:
        yield from walk(u['body'])


def gen_cases(rng, pools, core, counts, ninputs=3):
    """pools: list of pool names ('core' or a feature); returns [{'prog','inputs','pool'}]."""
    cases = []
    for pool in pools:
        for _ in range(counts(pool)):
            feats = set(core) | ({pool} if pool != 'core' else set())
            if pool == 'fndiv':
                feats |= {'idiv', 'mod', 'intfn', 'ipow'}
            if pool == 'selneg':
                feats |= {'select'}
            g = TGen(rng, feats, None if pool == 'core' else pool)
            if pool == 'core':
                # every third core program contains a power as the denominator of a division / a run-time stride
                needs = [x for x in ('rpow_den', 'varstep') if x.split('_')[0] in feats] + [None]
                prog = g.program(nstmts=rng.randint(3, 7), depth=2, need=needs[len(cases) % len(needs)])
            else:
                prog = g.program(nstmts=rng.randint(2, 4), depth=2 if pool in ('step', 'lvafter', 'boundmod', 'exitcycle', 'lb', 'select', 'selneg', 'idxdiv', 'varstep') else 1)
            cases.append({'prog': prog, 'inputs': g.inputs(prog, ninputs if pool == 'core' else 2), 'pool': pool, 'used': sorted(g.used)})
    return cases


# ----------------------------------------------------------------------------- Loki: Fortran -> C
def _root_cause(ex):
    chain = []
    while ex is not None and len(chain) < 6:
        chain.append(f'{type(ex).__name__}: {str(ex)[:300]}')
        ex = ex.__cause__ or ex.__context__
    return ' <- '.join(chain)


def f2c_transform(text, prog, workdir, entry='kernel'):
    from pathlib import Path
    from loki import Subroutine
    from loki.transformations.transpile import FortranCTransformation, FortranISOCWrapperTransformation
    os.makedirs(workdir, exist_ok=True)
    path = Path(workdir)
    routine = Subroutine.from_source(text)
    FortranCTransformation().apply(source=routine, path=path)
    FortranISOCWrapperTransformation().apply(source=routine, path=path)
    out = []
    for name in (f'{entry}_c.c', f'{entry}_c.h', f'{entry}_fc.F90'):
        p = path / name
        if not p.exists():
            raise RuntimeError(f'transpilation did not write {name}')
        out.append((name, p.read_text()))
    return out


def _run(cmd, cwd, timeout):
    try:
        p = subprocess.run(cmd, cwd=cwd, capture_output=True, text=True, timeout=timeout, errors='replace',
                           env=dict(os.environ, LC_ALL='C', LANG='C'))
    except subprocess.TimeoutExpired:
        return None, '', 'timeout'
    return p.returncode, p.stdout, p.stderr


def f2c_execute(workdir, tag, srcs, prog, inputs, entry='kernel'):
    """gcc -c the C kernel, gfortran the generated wrapper module + the harness-owned driver, link, run.
    Non-termination is detected through a CPU-time limit (robust on a loaded machine); a wall-clock timeout of a
    tool is `inconclusive` (the program is dropped), never a violation."""
    d = os.path.join(workdir, tag)
    os.makedirs(d, exist_ok=True)
    for name, text in list(srcs) + [('drv.f90', driver_for(prog, inputs, entry, wrapper=True))]:
        with open(os.path.join(d, name), 'w') as fh:
            fh.write(text)
    rc, _, err = _run(['gcc', '-std=gnu11', '-O0', '-w', '-c', f'{entry}_c.c', '-o', f'{entry}_c.o'], d, 300)
    if rc is None:
        return 'inconclusive', None, 'gcc wall timeout'
    if rc != 0:
        return 'compile-error', None, 'gcc: ' + err[-3000:]
    rc, _, err = _run(['gfortran', '-O0', '-w', '-ffree-line-length-none', '-o', 'a.out', f'{entry}_fc.F90', 'drv.f90', f'{entry}_c.o', '-lm'], d, 300)
    if rc is None:
        return 'inconclusive', None, 'gfortran wall timeout'
    if rc != 0:
        return 'compile-error', None, 'gfortran: ' + err[-3000:]
    rc, out, err = _run(['sh', '-c', f'ulimit -t {CPU_LIMIT}; exec ./a.out'], d, 300)
    if rc is None:
        return 'inconclusive', None, 'run wall timeout'
    if rc in (-24, 152, -9, 137):
        return 'timeout', None, f'CPU time limit of {CPU_LIMIT} s exceeded (transpiled kernel does not terminate)'
    if rc != 0:
        return 'runtime-error', None, f'exit status {rc}: ' + err[-1500:]
    return 'ok', sanitize_runs(F.parse_output(out, len(inputs))), err


def f2c_execute_batch(workdir, items, entry='kernel'):
    with cf.ThreadPoolExecutor(max_workers=8) as ex:
        return list(ex.map(lambda it: f2c_execute(workdir, it['tag'], it['srcs'], it['prog'], it['inputs'], entry), items))


# ----------------------------------------------------------------------------- Loki: Fortran -> Python
def f2py_transform(text, prog, workdir, entry='kernel'):
    from pathlib import Path
    from loki import Subroutine
    from loki.transformations.transpile import FortranPythonTransformation
    os.makedirs(workdir, exist_ok=True)
    routine = Subroutine.from_source(text)
    f2p = FortranPythonTransformation()
    f2p.apply(source=routine, path=Path(workdir))
    return [(f'{entry}.py', Path(f2p.py_path).read_text())]


PY_RUNNER = r'''
import importlib.util, json, os, signal, sys
import numpy as np
CPU_LIMIT = float(sys.argv[2])
class CpuTimeout(BaseException):
    pass
def on_alarm(signum, frame):
    raise CpuTimeout()
signal.signal(signal.SIGVTALRM, on_alarm)
def mk(v, ty):
    if v['t'] == 'arr':
        shape = [u - l + 1 for l, u in zip(v['lb'], v['ub'])]
        dt = np.int32 if ty == 'int' else np.float64
        flat = [e['v'] if e['t'] == 'int' else e['n'] / e['d'] for e in v['els']]
        return np.array(flat, dtype=dt).reshape(shape, order='F')
    if v['t'] == 'int':
        return np.int32(v['v'])
    if v['t'] == 'real':
        return np.float64(v['n'] / v['d'])
    return bool(v['v'])
def show(val, ty):
    # numeric VALUE of the result; the representation (python int / float / numpy scalar) is not compared
    if isinstance(val, np.ndarray) and val.shape == ():
        val = val[()]
    if isinstance(val, (bool, np.bool_)):
        return 'L ' + ('T' if val else 'F')
    if isinstance(val, (int, np.integer)):
        return ('I %d' % int(val)) if ty == 'int' else ('R %r' % float(int(val)))
    if isinstance(val, (float, np.floating)):
        fv = float(val)
        if ty == 'int' and fv == fv and abs(fv) < 1e15 and fv == int(fv):
            return 'I %d' % int(fv)
        return 'R ' + repr(fv)
    return 'X ' + type(val).__name__
def one(d, k):
    spec = json.load(open(os.path.join(d, 'spec.json')))
    out = []
    try:
        sp = importlib.util.spec_from_file_location('k%d_%s' % (k, spec['entry']), os.path.join(d, spec['entry'] + '.py'))
        mod = importlib.util.module_from_spec(sp)
        sp.loader.exec_module(mod)
        fn = getattr(mod, spec['entry'])
    except BaseException as ex:
        return ['@@LOADFAIL ' + type(ex).__name__ + ': ' + str(ex).replace('\n', ' ')[:300]]
    passed = [a for a in spec['args'] if not (a['intent'] == 'out' and not a['dims'])]
    scal = [a for a in spec['args'] if not a['dims'] and a['intent'] in ('out', 'inout')]
    for r, inp in enumerate(spec['inputs']):
        out.append('@@RUN %d' % r)
        args = [mk(inp[a['name']], a['type']) for a in passed]
        holders = {a['name']: v for a, v in zip(passed, args)}
        try:
            signal.setitimer(signal.ITIMER_VIRTUAL, CPU_LIMIT)
            try:
                ret = fn(*args)
            finally:
                signal.setitimer(signal.ITIMER_VIRTUAL, 0)
        except CpuTimeout:
            out.append('@@CPUTIMEOUT')
            break
        except BaseException as ex:
            out.append('@@EXC ' + type(ex).__name__ + ': ' + str(ex).replace('\n', ' ')[:300])
            continue
        if len(scal) == 0:
            rets = []
        elif len(scal) == 1:
            rets = [ret]
        else:
            rets = list(ret) if isinstance(ret, tuple) else None
        if rets is None or len(rets) != len(scal):
            out.append('@@EXC ReturnShape: expected %d scalar results' % len(scal))
            continue
        byname = {a['name']: v for a, v in zip(scal, rets)}
        out.append('@@OUT')
        try:
            for a in spec['args']:
                if a['intent'] not in ('out', 'inout'):
                    continue
                if a['dims']:
                    for val in holders[a['name']].flatten(order='F'):
                        out.append(show(val, a['type']))
                else:
                    out.append(show(byname[a['name']], a['type']))
        except BaseException as ex:
            out.append('@@EXC ' + type(ex).__name__ + ': ' + str(ex).replace('\n', ' ')[:300])
    out.append('@@END')
    return out
for k, d in enumerate(json.load(open(sys.argv[1]))):
    lines = one(d, k)
    with open(os.path.join(d, 'out.txt.tmp'), 'w') as fh:
        fh.write('\n'.join(lines) + '\n')
    os.replace(os.path.join(d, 'out.txt.tmp'), os.path.join(d, 'out.txt'))
'''


def f2py_execute_batch(workdir, items, entry='kernel'):
    """Run the generated functions in a few worker interpreters (one numpy import per worker).  Calling
    convention as in the repository tests: all dummies except scalar intent(out) are passed (arrays as
    Fortran-ordered numpy arrays, scalars with the annotated numpy types); scalar inout/out dummies come back as
    the returned tuple.  Non-termination is detected through a CPU-time timer around each call."""
    dirs = []
    for it in items:
        d = os.path.join(workdir, it['tag'])
        os.makedirs(d, exist_ok=True)
        for name, text in it['srcs']:
            with open(os.path.join(d, name), 'w') as fh:
                fh.write(text)
        u = next(x for x in it['prog']['units'] if x['name'] == entry)
        args = [dict(name=n, **{k: next(x for x in u['decls'] if x['name'] == n)[k] for k in ('type', 'intent', 'dims')}) for n in u['args']]
        with open(os.path.join(d, 'spec.json'), 'w') as fh:
            json.dump({'entry': entry, 'args': args, 'inputs': it['inputs']}, fh)
        dirs.append(d)
    if not dirs:
        return []
    runner = os.path.join(workdir, f'py_runner_{os.getpid()}.py')
    with open(runner, 'w') as fh:
        fh.write(PY_RUNNER)
    nworkers = max(1, min(6, len(dirs) // 4 or 1))
    env = dict(os.environ)
    env['PYTHONPATH'] = ''
    env['PYTHONDONTWRITEBYTECODE'] = '1'

    def worker(w):
        mine = dirs[w::nworkers]
        lst = os.path.join(workdir, f'py_batch_{os.getpid()}_{w}_{abs(hash(mine[0])) % 10**8}.json')
        with open(lst, 'w') as fh:
            json.dump(mine, fh)
        try:
            subprocess.run([sys.executable, '-W', 'ignore', runner, lst, str(CPU_LIMIT)], cwd=workdir, capture_output=True, text=True,
                           timeout=240 + 30 * len(mine), env=env, errors='replace')
        except subprocess.TimeoutExpired:
            pass
    with cf.ThreadPoolExecutor(max_workers=nworkers) as ex:
        list(ex.map(worker, range(nworkers)))
    res = []
    for it, d in zip(items, dirs):
        p = os.path.join(d, 'out.txt')
        if not os.path.exists(p):
            res.append(('inconclusive', None, 'python worker did not deliver (wall timeout or crash)'))
            continue
        out = open(p).read()
        m = re.search(r'@@LOADFAIL (.*)', out)
        if m:
            res.append(('compile-error', None, 'python import: ' + m.group(1)))
        elif '@@CPUTIMEOUT' in out:
            res.append(('timeout', None, f'CPU time limit of {CPU_LIMIT} s exceeded in one call (transpiled function does not terminate)'))
        elif '@@EXC' in out:
            res.append(('runtime-error', None, 'python: ' + re.search(r'@@EXC (.*)', out).group(1)))
        else:
            res.append(('ok', sanitize_runs(py_parse(out, len(it['inputs']))), ''))
    return res


def py_parse(text, nruns):
    runs = [None] * nruns
    cur, vals, mode = None, [], None
    for line in text.splitlines():
        line = line.strip()
        if line.startswith('@@RUN'):
            cur, vals, mode = int(line.split()[1]), [], None
        elif line == '@@OUT':
            mode = 'out'
            runs[cur] = vals
        elif line == '@@END':
            break
        elif mode == 'out' and line:
            tag, _, rest = line.partition(' ')
            if tag == 'I':
                vals.append(['int', int(rest), 1])
            elif tag == 'R':
                try:
                    fr = Fraction(float(rest))
                    vals.append(['real', fr.numerator, fr.denominator])
                except (ValueError, OverflowError):
                    vals.append(['nan', 0, 1])
            elif tag == 'L':
                vals.append(['log', 1 if rest == 'T' else 0, 1])
            else:
                vals.append(['other', 0, 1])
    return runs


def sanitize_runs(runs):
    """TLC's JSON reader mangles integers >= 2^31: such observed values are replaced by a `big` image (which can
    never equal an image the machine produces: its magnitudes are bounded by 30000)."""
    out = []
    for r in runs:
        if r is None:
            out.append(None)
            continue
        out.append([v if abs(v[1]) < 2 ** 30 and abs(v[2]) < 2 ** 30 else ['big', 0, 1] for v in r])
    return out


# ----------------------------------------------------------------------------- the check
def signature(kind, msg):
    """Failure class: kind + first diagnostic with positions, paths and numbers abstracted."""
    if kind == 'output':
        return 'output:differs'
    lines = [ln.strip() for ln in msg.splitlines() if ln.strip()]
    sig = re.search(r'Program received signal \w+', msg)
    if sig:
        return f'{kind}:{sig.group(0)}'
    pick = next((ln for ln in lines if re.search(r'\berror\b|Error', ln) and not ln.startswith('Traceback')), lines[0] if lines else '')
    if kind == 'transform-raised':
        pick = lines[0] if lines else ''
        parts = pick.split(' <- ')
        pick = parts[-1] if parts else pick          # root cause
    pick = re.sub(r'^[\w./-]+:\d+:\d+:\s*', '', pick)
    pick = re.sub(r'/[\w/.\-]+', '<path>', pick)
    pick = re.sub(r'\d+', 'N', pick)
    pick = re.sub(r"local variable '\w+'", "local variable 'V'", pick)
    pick = re.sub(r'\s+', ' ', pick)
    return f'{kind}:{pick[:90]}'


def check(ctx, label, cases, transform, execute, *, entry='kernel', max_disagree=0.03, shards=None):
    """cases: [{'prog','inputs','pool'}].  Returns (results, fails, stats): fails = [(idx, kind, msg)]."""
    def build_orig(idx):
        c = cases[idx]
        text = render_standalone(c['prog'], entry)
        res = {'idx': idx, 'text': text}
        st, out, err = F.compile_run(ctx.work, f'{label}-{idx}-orig', [('kernel.f90', text), ('drv.f90', driver_for(c['prog'], c['inputs'], entry))])
        res['orig'] = (st, sanitize_runs(F.parse_output(out, len(c['inputs']))) if st == 'ok' else None, err)
        return res

    import time
    t0 = time.time()
    with cf.ThreadPoolExecutor(max_workers=8) as ex:
        results = list(ex.map(build_orig, range(len(cases))))
    t1 = time.time()
    for res in results:                       # Loki is not thread-safe: serial
        if res['orig'][0] != 'ok':
            res['new'] = ('skipped', None, '')
            continue
        try:
            res['srcs'] = transform(res['text'], cases[res['idx']]['prog'], os.path.join(ctx.work, f"{label}-{res['idx']}-tr"), entry)
            res['newtext'] = '\n'.join(f'--- {n} ---\n{t}' for n, t in res['srcs'] if not n.endswith('.h'))
        except MachineryError:
            raise
        except Exception as ex:  # pylint: disable=broad-except
            res['new'] = ('transform-raised', None, _root_cause(ex) + '\n' + traceback.format_exc()[-1200:])
    t2 = time.time()
    todo = [r for r in results if 'srcs' in r]
    outs = execute(ctx.work, [dict(tag=f"{label}-{r['idx']}-new", srcs=r['srcs'], prog=cases[r['idx']]['prog'], inputs=cases[r['idx']]['inputs'])
                              for r in todo], entry)
    for r, o in zip(todo, outs):
        r['new'] = o
    t3 = time.time()
    tm = ctx.cover.setdefault('phase_wall_s', {'gfortran_original': 0, 'loki_transform': 0, 'build_run_transpiled': 0})
    for kk, vv in (('gfortran_original', t1 - t0), ('loki_transform', t2 - t1), ('build_run_transpiled', t3 - t2)):
        tm[kk] = round(tm[kk] + vv, 1)

    tcases, tmeta = [], []
    stats = dict(programs=len(cases), orig_failed=0, inconclusive=sum(r['new'][0] == 'inconclusive' for r in results), illegal_runs=0, oracle_disagreement=0, judged_runs=0, judged_programs=0)
    for r in results:
        c = cases[r['idx']]
        if r['orig'][0] != 'ok':
            stats['orig_failed'] += 1
            r['drop'] = f"original does not build/run: {r['orig'][0]} {r['orig'][2][:400]}"
            continue
        for k, inp in enumerate(c['inputs']):
            ref = r['orig'][1][k]
            if ref is None:
                continue
            obs = r['new'][1][k] if r['new'][0] == 'ok' and r['new'][1] is not None else None
            tcases.append({'prog': c['prog'], 'entry': entry, 'input': F.input_json(inp), 'reference': ref,
                           'hasobs': obs is not None, 'observed': obs or []})
            tmeta.append((r['idx'], k, obs is not None))
    if stats['orig_failed'] > max(2, 0.05 * len(cases)):
        bad = next(r for r in results if 'drop' in r)
        raise MachineryError(f"{stats['orig_failed']} generated programs do not build/run with gfortran, e.g. {bad['drop']}\n{bad['text']}")
    kw = dict(env_name='TCASES', timeout=2400, per_shard_min=8)
    if shards:
        kw['shards'] = max(1, min(shards, len(tcases) // 8))
    verdicts = ctx.validate('Trace_Transpile', 'Trace_Transpile', tcases, **kw) if tcases else {}
    bad, legal, judged = {}, {}, set()
    for i, (idx, k, hasobs) in enumerate(tmeta):
        ok, clause, _pos = verdicts[i]
        if clause.startswith('illegal'):
            stats['illegal_runs'] += 1
            ctx.cover.setdefault('illegal_reasons', {})
            ctx.cover['illegal_reasons'][clause] = ctx.cover['illegal_reasons'].get(clause, 0) + 1
            continue
        if clause.startswith('preflight'):
            stats['oracle_disagreement'] += 1
            exs = ctx.cover.setdefault('oracle_disagreement_examples', [])
            if len(exs) < 3:
                exs.append({'clause': clause, 'program': results[idx]['text'], 'input': cases[idx]['inputs'][k]})
            continue
        legal.setdefault(idx, []).append(k)
        if hasobs:
            stats['judged_runs'] += 1
            judged.add(idx)
            if not ok:
                bad.setdefault(idx, (k, clause))
    total = max(1, len(tmeta))
    if stats['oracle_disagreement'] / total > max_disagree:
        e0 = ctx.cover['oracle_disagreement_examples'][0]
        raise MachineryError(f"oracle disagreement (gfortran on the ORIGINAL routine vs FMachine) on {stats['oracle_disagreement']} of {total} runs, "
                             f"e.g. {e0['clause']}\n{e0['program']}\ninput={e0['input']}")
    fails = [(idx, 'output', f'input #{bad[idx][0]}: {bad[idx][1]}') for idx in sorted(bad)]
    for r in results:
        idx = r['idx']
        if 'drop' in r or idx not in legal:
            continue
        if r['new'][0] in ('compile-error', 'runtime-error', 'timeout', 'transform-raised'):
            fails.append((idx, r['new'][0], r['new'][2]))
            judged.add(idx)
    stats['judged_programs'] = len(judged)
    stats['legal_programs'] = len(legal)
    return results, fails, stats


# Textual marks of the KNOWN defect of a pool in the transpiled code.  They make the violation key specific: a failure
# in a known-finding pool whose transpiled code does not show the known defect's mark gets `w=none` and is therefore not
# matched by a known-finding regex that names the mark.
_CFN = r'\b(?:fmin|fmax|fabs|copysign|pow)\('
WITNESS = {
    'f2c': {
        'fndiv': [('fn-in-division', lambda t, c: any(re.search(_CFN, ln) and re.search(r' / |%', ln) for ln in t.splitlines())),
                  ('fn-in-subscript', lambda t, c: re.search(r'\[[^\]]*' + _CFN, t))],
        'boundmod': [('variable-bound', lambda t, c: re.search(r'for \(\w+ = [^;]*; \w+ [<>]= t[12];', t))],
        'idxdiv': [('literal-quotient-in-subscript', lambda t, c: re.search(r'\[[^\]]*\b\d+ / \d+\b[^\]]*\]', t))],
        'section': [('none-bound', lambda t, c: re.search(r'= None;', t)), ('section-loop', lambda t, c: re.search(r'for \(i_\w+_\d+ =', t))],
        'exitcycle': [('none-stmt', lambda t, c: re.search(r'^\s*None\s*$', t, re.M)), ('empty-block', lambda t, c: re.search(r'\{\n\s*\n\s*\}', t))],
    },
    'f2py': {
        'lb': [('shift-1-on-lb', lambda t, c: re.search(r'- 1[\],:]', t) and any(d['dims'] and d['dims'][0][0] != 1 for d in c['prog']['units'][0]['decls']))],
        'lvafter': [('loopvar-read-after-loop', lambda t, c: 'lvafter' in c.get('used', ['lvafter']))],
        'idiv': [('int-true-division', lambda t, c: re.search(r' / \(?-?\d+\)?(?![\d.])', t))],
        'sign': [('np.sign-product', lambda t, c: re.search(r'\*np\.sign\(', t)), ('sign-verbatim', lambda t, c: re.search(r'(?<![\w.])sign\(', t))],
        'conv': [('float-into-int-scalar', lambda t, c: re.search(r'^\s*(?:k|s) = .*\d\.\d', t, re.M))],
        'select': [('multiconditional-repr', lambda t, c: '<MultiConditional' in t)],
        'section': [('array-rebind', lambda t, c: re.search(r'^\s*(?:ia|ra|ib) = ', t, re.M)), ('slice', lambda t, c: re.search(r'\[[^\]]*:[^\]]*\]', t))],
    },
}


def witness(label, case, res):
    text = res.get('newtext', '')
    if not text:
        return 'n/a'                     # the transformation raised: the signature is the diagnostic
    text = text.split('--- kernel_fc.F90 ---')[0]
    names = [n for n, fn in WITNESS.get(label, {}).get(case['pool'], []) if fn(text, case)]
    return '+'.join(names) or 'none'


def report(ctx, label, cases, results, fails, recheck=None, shrink_pools=('core',), max_shrink=4, rounds=4):
    """One violation per (pool, failure signature, witness).  key = <label>:<pool>:<signature>:w=<witness>.  Failures of the pools in
    `shrink_pools` are shrunk by statement deletion (the whole check is re-run on the candidates)."""
    groups = {}
    for idx, kind, msg in fails:
        groups.setdefault((cases[idx]['pool'], signature(kind, msg), witness(label, cases[idx], results[idx])), []).append((idx, kind, msg))
    ctx.cover[f'{label}_failure_groups'] = {f'{p}:{s}:w={w}': len(v) for (p, s, w), v in sorted(groups.items())}
    nshrunk = 0
    for (pool, sig, wit), members in sorted(groups.items()):
        idx, kind, msg = min(members, key=lambda m: len(results[m[0]]['text']))
        c = cases[idx]
        small = c['prog']
        if recheck is not None and pool in shrink_pools and nshrunk < max_shrink:
            nshrunk += 1
            for _ in range(rounds):
                init = small['units'][0]['body'][:NINIT]
                cands = [p for p in F.removal_candidates(small, limit=60) if p['units'][0]['body'][:NINIT] == init]
                cands.sort(key=lambda p: len(json.dumps(p)))
                cands = cands[:20]
                if not cands:
                    break
                outcome = recheck([{'prog': p, 'inputs': c['inputs'], 'pool': pool} for p in cands])
                nxt = next((p for p, (f, sg) in zip(cands, outcome) if f and sg == sig), None)
                if nxt is None:
                    break
                small = nxt
        key = f'{label}:{pool}:{sig}:w={wit}'
        what = (f'{label} pool={pool}: {len(members)} program(s); transpiled code '
                f'{"computes different results (clause output-differs of Trace_Transpile)" if kind == "output" else kind}: {msg[:600]}\n'
                f'--- original{" (shrunk)" if small is not c["prog"] else ""} ---\n{render_standalone(small)}'
                f'--- transpiled (of the unshrunk case) ---\n{results[idx].get("newtext", "")[:2500]}')
        ctx.violation(key, what, {'prog': c['prog'], 'inputs': c['inputs'], 'pool': pool})


def make_recheck(ctx, label, transform, execute):
    def recheck(cs):
        _res, fl, _st = check(ctx, label + '-shrink', cs, transform, execute, max_disagree=1.0)
        failed = {idx: signature(kind, msg) for idx, kind, msg in fl}
        return [(i in failed, failed.get(i)) for i in range(len(cs))]
    return recheck


def run_property(ctx, label, transform, execute, core, pools, quick_counts, thorough_counts, assumptions):
    if ctx.replay:
        c = ctx.replay['case']
        cases = [{'prog': c['prog'], 'inputs': c['inputs'], 'pool': c.get('pool', 'core')}]
    else:
        counts = quick_counts if ctx.quick else thorough_counts
        only = os.environ.get('VERIF_TRANSPILE_POOLS')          # development aid: restrict the pools
        if only:
            pools = [p for p in pools if p in only.split(',')]
        cases = gen_cases(ctx.rng, pools, core, lambda p: counts.get(p, counts['*']))
    results, fails, stats = check(ctx, label, cases, transform, execute, shards=8 if ctx.quick else None)
    report(ctx, label, cases, results, fails, make_recheck(ctx, label, transform, execute),
           max_shrink=1 if ctx.quick else 6, rounds=3 if ctx.quick else 6)
    for k, v in stats.items():
        ctx.cover[f'{label}_{k}'] = v
    per_pool = {}
    failed_idx = {i for i, _, _ in fails}
    for i, c in enumerate(cases):
        pp = per_pool.setdefault(c['pool'], {'programs': 0, 'failing': 0})
        pp['programs'] += 1
        pp['failing'] += i in failed_idx
    ctx.cover[f'{label}_pools'] = per_pool
    kinds = {}
    for c in cases:
        for s in F._flat(c['prog']['units'][0]['body']):
            kinds[s['s']] = kinds.get(s['s'], 0) + 1
    ctx.cover[f'{label}_statement_kinds'] = kinds
    if results:
        ctx.sample({'pool': cases[0]['pool'], 'program': results[0]['text'], 'transpiled': results[0].get('newtext', '')[:3000], 'inputs': cases[0]['inputs'][:1]})
    judged_ok = {r['idx'] for r in results if r.get('new', ('',))[0] == 'ok'}
    for feat in ('rpow_den', 'varstep'):
        if feat.split('_')[0] in core:
            nfeat = sum(1 for i, c in enumerate(cases) if c['pool'] == 'core' and feat in c.get('used', []) and i in judged_ok)
            ctx.cover[f'{label}_core_programs_with_{feat}'] = nfeat
            if not ctx.replay and 'core' in pools and nfeat < 3:
                raise MachineryError(f'vacuity: only {nfeat} executed core programs contain {feat}')
    if not ctx.replay and stats['judged_programs'] < 0.5 * len(cases):
        raise MachineryError(f'vacuity: only {stats["judged_programs"]} of {len(cases)} programs were judged ({stats})')
    ctx.assumptions += assumptions
    return results, fails, stats
