"""Helpers for C19 (and program generation for C20): rendering of abstract source files
(spec/RegexDiscovery.tla) to free-form Fortran under layout variations, and the projection of a
Loki IR (either frontend) to the observable of the specification.

Nothing in here decides anything: the renderer is the *input generator* (its output is cross-checked
against the full parser by the trace spec) and `project_*` only walks the IR and records.
"""
import random
import re

KNOBS = ['upper', 'title', 'cont', 'semi', 'comments', 'strings', 'labels', 'decoy', 'endshort',
         'endbare', 'prefix', 'usecolon', 'typeattr', 'blank', 'inlcomplex']

CLASS_NAMES = ['ProgramUnit', 'Interface', 'Import', 'TypeDef', 'Declaration', 'Call', 'Pragma']
CLASS_LETTER = dict(zip(CLASS_NAMES, 'UFITDCG'))


# ----------------------------------------------------------------------------------------------
# rendering

class Stmt:
    """One logical statement. `parts` may be broken (continuation) between parts."""

    def __init__(self, parts, kind='other', joinable=False, labelable=False, indent=0):
        self.parts = [parts] if isinstance(parts, str) else list(parts)
        self.kind = kind            # 'use', 'call', 'assign', 'decl', 'block', 'comment', 'string', ...
        self.joinable = joinable    # may share a line with a neighbour via ';'
        self.labelable = labelable
        self.indent = indent

    @property
    def text(self):
        return ''.join(self.parts)


_STR_OR_COMMENT = re.compile(r"('(?:[^']|'')*'|\"(?:[^\"]|\"\")*\")")


def _recase(text, mode):
    """Change the case of everything outside string literals (Fortran is case-insensitive)."""
    if mode is None:
        return text
    out = []
    for i, chunk in enumerate(_STR_OR_COMMENT.split(text)):
        if i % 2:
            out.append(chunk)
        elif mode == 'upper':
            out.append(chunk.upper())
        else:
            out.append(re.sub(r'[A-Za-z_]\w*', lambda m: m.group(0)[0].upper() + m.group(0)[1:], chunk))
    return ''.join(out)


class Renderer:
    def __init__(self, knobs, seed=0):
        self.k = set(knobs)
        unknown = self.k - set(KNOBS)
        assert not unknown, unknown
        self.rng = random.Random(seed)
        self.label = 100

    def on(self, knob):
        return knob in self.k

    # -- pieces
    def imports(self, imps, ind):
        out = []
        for im in imps:
            head = 'use :: ' if self.on('usecolon') else 'use '
            parts = [head + im['module']]
            if im['only']:
                parts[0] += ', only: '
            elif im['syms']:
                parts[0] += ', '
            items = []
            for loc, rem in im['syms']:
                items.append(loc if loc == rem else f'{loc} => {rem}')
            for i, it in enumerate(items):
                parts.append(it + (', ' if i + 1 < len(items) else ''))
            out.append(Stmt(parts, 'use', joinable=True, indent=ind))
        return out

    def typedefs(self, tds, ind, in_module):
        out = []
        for n, td in enumerate(tds):
            if self.on('typeattr'):
                head = ['type, public :: ', 'type ', 'type,public::'][n % 3] if in_module else ['type ', 'type::'][n % 2]
                if not in_module and head == 'type::':
                    head = 'type :: '
            else:
                head = 'type :: '
            out.append(Stmt(head + td['name'], 'block', indent=ind))
            out.append(Stmt(f'integer :: comp_{td["name"]}', 'decl', joinable=True, indent=ind + 2))
            if td['binds'] or td['generics']:
                out.append(Stmt('contains', 'block', indent=ind))
                for j, (nm, tgt) in enumerate(td['binds']):
                    attr = ', pass' if (self.on('typeattr') and j % 2) else ''
                    sep = ' ' if (self.on('typeattr') and not attr and nm == tgt) else ' :: '   # (`::` is mandatory with `=>`)
                    txt = f'procedure{attr}{sep}{nm}' + ('' if nm == tgt else f' => {tgt}')
                    out.append(Stmt(txt, 'bind', indent=ind + 2))
                for g in td['generics']:
                    parts = [f'generic :: {g["name"]} => '] + [t + (', ' if i + 1 < len(g['targets']) else '')
                                                              for i, t in enumerate(g['targets'])]
                    out.append(Stmt(parts, 'bind', indent=ind + 2))
            out.append(Stmt(self.end('type', td['name'], allow_bare=False), 'block', indent=ind))
        return out

    def interfaces(self, itfs, ind):
        out = []
        for itf in itfs:
            head = ('abstract ' if itf['abstract'] else '') + 'interface' + (f' {itf["name"]}' if itf['name'] else '')
            out.append(Stmt(head, 'block', indent=ind))
            for b in itf['bodies']:
                if b.startswith('absf') or b.endswith('f'):
                    out.append(Stmt(f'function {b}(a)', 'block', indent=ind + 2))
                    out.append(Stmt('integer, intent(in) :: a', 'decl', indent=ind + 4))
                    out.append(Stmt(f'integer :: {b}', 'decl', indent=ind + 4))
                    out.append(Stmt(self.end('function', b), 'block', indent=ind + 2))
                else:
                    out.append(Stmt(f'subroutine {b}(a)', 'block', indent=ind + 2))
                    out.append(Stmt('integer, intent(in) :: a', 'decl', indent=ind + 4))
                    out.append(Stmt(self.end('subroutine', b), 'block', indent=ind + 2))
            if itf['procs']:
                parts = ['module procedure '] + [p + (', ' if i + 1 < len(itf['procs']) else '')
                                                 for i, p in enumerate(itf['procs'])]
                out.append(Stmt(parts, 'modproc', indent=ind + 2))
            out.append(Stmt('end interface' + (f' {itf["name"]}' if itf['name'] and not self.on('endshort') else ''),
                            'block', indent=ind))
        return out

    def end(self, kw, name, allow_bare=True):
        if self.on('endbare') and allow_bare:
            return 'end'
        if self.on('endshort'):
            return self.rng.choice([f'end {kw}', f'end{kw} {name}', f'end{kw}'])
        return f'end {kw} {name}'

    def call(self, c, ind):
        args = ['x', 'x + 1'] if '%' not in c['name'] else ['x']
        parts = [f'call {c["name"]}('] + [a + (', ' if i + 1 < len(args) else '') for i, a in enumerate(args)] + [')']
        if c['inl']:
            if self.on('inlcomplex'):
                cond = self.rng.choice(["if (max(x, (1)) > (0)) ", "if (msg(1:1) /= ')' .and. x > 0) ",
                                        "if (msg /= 'call ghost(') ", "if(x>0)"])
            else:
                cond = 'if (x > 0) '
            parts = [cond] + parts
        return Stmt(parts, 'call', joinable=True, labelable=True, indent=ind)

    COMMENTS = ['! call ghost(x)', '!call ghost(x)', '! use modz, only: q', '! end subroutine', '! contains',
                '! type :: faket', '! interface faki', '! end module', "! it's a comment with 'quote", '! if (x > 0) call ghost(x)']
    STRINGS = ["print *, 'call ghost(x)'", 'msg = "use modz"', 'print *, "end subroutine"', "msg = 'contains'",
               "print *, 'it''s ! call ghost(x)'", 'msg = "a ! b"', "print *, 'x; call ghost(x)'",
               'msg = "if (x > 0) call ghost(x)"']

    def noise(self, ind, spec=False, first=False):
        """Noise statements for the enabled knobs.  `first`: the guaranteed occurrence (every enabled knob
        shows at least once per routine, with its most provoking variant), otherwise random extras."""
        out = []
        if self.on('comments') and (first or self.rng.random() < 0.5):
            out.append(Stmt(self.COMMENTS[0] if first else self.rng.choice(self.COMMENTS), 'comment', indent=ind))
        if not spec and self.on('strings') and (first or self.rng.random() < 0.5):
            out.append(Stmt(self.STRINGS[0] if first else self.rng.choice(self.STRINGS), 'string', joinable=True,
                            labelable=True, indent=ind))
        if not spec and self.on('decoy') and (first or self.rng.random() < 0.5):
            decoys = ['callback = 1', 'call_count = call_count + 1', 'used = 2', 'interfacex = 3', 'typed = 4', 'endx = 5']
            out.append(Stmt(decoys[0] if first else self.rng.choice(decoys), 'assign', joinable=True, labelable=True,
                            indent=ind))
        return out

    # -- units
    def unit(self, u, ind, parent=None, index=0):
        kind = u['kind']
        out = []
        if kind == 'module':
            out.append(Stmt(f'module {u["name"]}', 'block', indent=ind))
            out += self.imports(u['imports'], ind + 2)
            out.append(Stmt('implicit none', 'other', indent=ind + 2))
            out += self.noise(ind + 2, spec=True, first=True)
            if self.on('decoy'):
                out.append(Stmt('integer :: used_count, typed, interfacex, call_total', 'decl', indent=ind + 2))
            if self.on('strings'):
                out.append(Stmt("character(len=*), parameter :: cs = 'use modz, only: q'", 'decl', indent=ind + 2))
            out += self.typedefs(u['typedefs'], ind + 2, True)
            out += self.noise(ind + 2, spec=True)
            out += self.interfaces(u['interfaces'], ind + 2)
            if u['children']:
                out.append(Stmt('contains', 'block', indent=ind))
                for i, c in enumerate(u['children']):
                    out += self.unit(c, ind + 2, parent=u, index=i)
            out.append(Stmt(self.end('module', u['name']), 'block', indent=ind))
            return out

        # routines
        bound_type = None
        if parent is not None and parent['kind'] == 'module':
            for td in parent['typedefs']:
                if any(t == u['name'] for _, t in td['binds']):
                    bound_type = td['name']
        obj_type = None
        if any(c['name'].startswith('obj%') for c in u['calls']):
            host = parent
            for td in (host or {}).get('typedefs', []):
                if td['binds']:
                    obj_type = td['name']
        args = (['this'] if bound_type else []) + ['x'] + [f'y{j}' for j in range(index if parent is not None and parent['kind'] == 'module' else 0)]
        prefix = ''
        result = None
        if kind == 'function':
            if self.on('prefix'):
                style = self.rng.choice(['typed', 'result', 'pure', 'kind'])
            else:
                style = 'plain'
            if style == 'typed':
                prefix = 'integer '
            elif style == 'kind':
                prefix = 'integer(kind=4) '
            elif style == 'pure':
                prefix = 'recursive '
            if style == 'result':
                result = 'res'
            head = [f'{prefix}function {u["name"]}('] + [a + (', ' if i + 1 < len(args) else '') for i, a in enumerate(args)] + [')']
            if result:
                head.append(f' result({result})')
        else:
            if self.on('prefix'):
                prefix = self.rng.choice(['recursive ', '', 'recursive '])
            head = [f'{prefix}subroutine {u["name"]}('] + [a + (', ' if i + 1 < len(args) else '') for i, a in enumerate(args)] + [')']
        out.append(Stmt(head, 'block', indent=ind))
        b = ind + 2
        out += self.imports(u['imports'], b)
        out.append(Stmt('implicit none', 'other', indent=b))
        if bound_type:
            out.append(Stmt(f'class({bound_type}) :: this', 'decl', indent=b))
        out.append(Stmt('integer :: x' if kind == 'function' or True else '', 'decl', joinable=True, indent=b))
        for a in args:
            if a.startswith('y'):
                out.append(Stmt(f'integer :: {a}', 'decl', joinable=True, indent=b))
        if kind == 'function':
            if result:
                out.append(Stmt(f'integer :: {result}', 'decl', indent=b))
            elif not prefix.startswith('integer'):
                out.append(Stmt(f'integer :: {u["name"]}', 'decl', indent=b))
        out.append(Stmt('character(len=64) :: msg', 'decl', indent=b))
        if self.on('decoy'):
            out.append(Stmt('integer :: callback, call_count, used, interfacex, typed, endx', 'decl', indent=b))
        if obj_type:
            out.append(Stmt(f'type({obj_type}) :: obj', 'decl', indent=b))
        out += self.noise(b, spec=True, first=True)
        out += self.typedefs(u['typedefs'], b, False)
        out += self.interfaces(u['interfaces'], b)
        # executable part
        out.append(Stmt("msg = 'm'", 'assign', joinable=True, indent=b))
        out.append(Stmt('x = x + 1', 'assign', joinable=True, labelable=True, indent=b))
        out += self.noise(b, first=True)
        for c in u['calls']:
            out += self.noise(b)
            out.append(self.call(c, b))
        out += self.noise(b)
        if kind == 'function':
            out.append(Stmt(f'{result or u["name"]} = x', 'assign', joinable=True, indent=b))
        if self.on('labels'):
            out.append(Stmt('continue', 'other', labelable=True, indent=b))
        if u['children']:
            out.append(Stmt('contains', 'block', indent=ind))
            for i, c in enumerate(u['children']):
                out += self.unit(c, ind + 2, parent=u, index=0)
        out.append(Stmt(self.end(kind, u['name']), 'block', indent=ind))
        return out

    # -- layout pass
    def layout(self, stmts):
        lines = []
        mode = 'upper' if self.on('upper') else ('title' if self.on('title') else None)
        if self.on('blank'):
            lines += ['', '   ', '! header comment: module fake; call ghost(x)', '']
        i = 0
        while i < len(stmts):
            s = stmts[i]
            ind = ' ' * s.indent
            if s.kind == 'comment':
                lines.append(ind + s.text)
                i += 1
                continue
            label = ''
            if self.on('labels') and s.labelable and self.rng.random() < 0.6:
                self.label += 10
                label = f'{self.label} '
            # join with following joinable statements by ';'
            group = [s]
            if self.on('semi') and s.joinable:
                while (i + len(group) < len(stmts) and stmts[i + len(group)].joinable and len(group) < 3
                       and stmts[i + len(group)].kind != 'comment' and self.rng.random() < 0.6):
                    group.append(stmts[i + len(group)])
            i += len(group)
            if len(group) > 1:
                text = self.rng.choice(['; ', ';', ' ; ']).join(_recase(g.text, mode) for g in group)
                lines.append(label + ind + text)
                continue
            parts = [_recase(p, mode) for p in s.parts]
            if self.on('cont') and len(parts) > 1 and self.rng.random() < 0.8:
                cur = label + ind + parts[0]
                for p in parts[1:]:
                    if self.rng.random() < 0.6:
                        style = self.rng.choice(['plain', 'amp', 'comment', 'inline'])
                        if style == 'inline':
                            lines.append(cur + ' &  ! call ghost(x)')
                        else:
                            lines.append(cur + ' &')
                        if style == 'comment':
                            lines.append(ind + '! use modz ; call ghost(x)')
                        cur = ind + '    ' + ('& ' if style == 'amp' else '') + p
                    else:
                        cur += p
                lines.append(cur)
            elif self.on('cont') and s.kind == 'string' and "'" in s.text and s.text.endswith("'") and 'it' not in s.text:
                # continuation inside a character context
                t = _recase(s.text, mode)
                cut = t.index("'") + 3
                lines.append(label + ind + t[:cut] + '&')
                lines.append(ind + '   &' + t[cut:])
            else:
                text = ''.join(parts)
                if self.on('comments') and self.rng.random() < 0.3 and s.kind != 'block':
                    text += '  ' + self.rng.choice(self.COMMENTS)
                lines.append(label + ind + text)
            if self.on('blank') and self.rng.random() < 0.3:
                lines.append(self.rng.choice(['', '  ']))
        return '\n'.join(lines) + '\n'

    def render(self, file):
        stmts = []
        for u in file:
            stmts += self.unit(u, 0)
            if self.on('comments'):
                stmts.append(Stmt('! between units: subroutine ghost', 'comment'))
        return self.layout(stmts)


def render(file, knobs=(), seed=0):
    return Renderer(knobs, seed).render(file)


STUBS = """module moda
  integer :: sa, sc, rb, q1, q2
end module moda
module modb
  integer :: sx, q3
end module modb
module modp
contains
  subroutine rp(a, b)
    integer :: a, b
  end subroutine rp
  subroutine rp1(a, b)
    integer :: a, b
  end subroutine rp1
  subroutine rp2(a, b)
    integer :: a, b
  end subroutine rp2
end module modp
"""


def externals(file):
    """Fortran text defining the external routines called by `file` is not needed (implicit
    interfaces); only the imported modules need stubs for a compiler legality check."""
    return STUBS


# ----------------------------------------------------------------------------------------------
# projection of a Loki IR to the observable of RegexDiscovery.tla

def _fold(s):
    return str(s).lower().replace(' ', '')


def _walk(node, visit):
    """Generic walk over IR nodes / tuples / lists that does not enter program units, type
    definitions or interfaces (those are handled by the callers)."""
    from loki import ProgramUnit, ir
    if node is None:
        return
    if isinstance(node, (tuple, list)):
        for c in node:
            _walk(c, visit)
        return
    if isinstance(node, ProgramUnit):
        return
    if not isinstance(node, ir.Node):
        return
    if visit(node):
        return
    for c in node.children:
        _walk(c, visit)


def project_unit(u):
    from loki import Module, ProgramUnit, ir
    from loki.function import Function
    kind = 'module' if isinstance(u, Module) else ('function' if isinstance(u, Function) else 'subroutine')
    imports, typedefs, interfaces, calls = [], [], [], []

    def visit(n):
        if isinstance(n, ir.Import):
            if n.c_import or n.f_include:
                return True
            syms = []
            for s in n.symbols or ():
                un = getattr(getattr(s, 'type', None), 'use_name', None)
                syms.append([_fold(s.name), _fold(un or s.name)])
            for rem, loc in n.rename_list or ():
                syms.append([_fold(loc.name), _fold(rem)])
            imports.append({'module': _fold(n.module), 'only': bool(n.symbols), 'syms': syms})
            return True
        if isinstance(n, ir.TypeDef):
            binds, generics = [], []
            for d in n.body:
                if isinstance(d, ir.ProcedureDeclaration):
                    if getattr(d, 'final', False):
                        continue
                    for s in d.symbols:
                        bn = getattr(s.type, 'bind_names', None)
                        if d.generic:
                            generics.append({'name': _fold(s.name), 'targets': [_fold(getattr(b, 'name', b)) for b in bn or ()]})
                        else:
                            tgt = _fold(getattr(bn[0], 'name', bn[0])) if bn else _fold(s.name)
                            binds.append([_fold(s.name), tgt])
            typedefs.append({'name': _fold(n.name), 'binds': binds, 'generics': generics})
            return True
        if isinstance(n, ir.Interface):
            procs, bodies = [], []
            for b in n.body:
                if isinstance(b, ProgramUnit):
                    bodies.append(_fold(b.name))
                elif isinstance(b, ir.ProcedureDeclaration):
                    procs += [_fold(s.name) for s in b.symbols]
            interfaces.append({'name': _fold(n.spec.name) if n.spec is not None else '', 'abstract': bool(n.abstract),
                               'procs': procs, 'bodies': bodies})
            return True
        if isinstance(n, ir.CallStatement):
            calls.append(_fold(n.name))
            return True
        return False

    _walk(u.spec, visit)
    if not isinstance(u, Module):
        _walk(u.body, visit)
    children = []
    if u.contains is not None:
        for c in u.contains.body:
            if isinstance(c, ProgramUnit):
                children.append(project_unit(c))
    return {'kind': kind, 'name': _fold(u.name), 'imports': imports, 'typedefs': typedefs,
            'interfaces': interfaces, 'calls': calls, 'children': children}


def project_sourcefile(sf):
    from loki import ProgramUnit
    out = []
    for n in sf.ir.body:
        if isinstance(n, ProgramUnit):
            out.append(project_unit(n))
    return out


def parser_classes(names):
    from loki.frontend import RegexParserClass
    c = RegexParserClass.EmptyClass
    for n in names:
        c |= getattr(RegexParserClass, n + 'Class')
    return c
