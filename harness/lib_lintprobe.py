"""C42 helpers: a lint *rule module* and a report *handler* of our own (both are plug-in points of
loki.lint), a generator for file sets with planted rule violations, and the child-process entry
that lints a file set through the REAL loki.lint.lint_files for a list of (max_workers, seed) runs.

Observation (no source hooks):
  * A0BeginRule.check_file logs `begin <file> <pid> <seq>` then sleeps a seed-derived time,
    Z9EndRule.check_file sleeps and logs `end <file> <pid> <seq>` (Linter sorts rules by name, so the
    two bracket the marker rules M1AssignRule / M2RoutineRule);
  * ProbeHandler.handle (called by Reporter.add_file_report in the process that checked the file,
    also for files that fail to parse) logs `report <file> <pid> <seq>` and returns the picklable
    per-file report [(rule, line, message)] (wrapped in SlowItem: pickling it for the Manager takes a
    seed-derived time); ProbeHandler.output (main process) logs `collect` and writes everything it was
    handed to a JSON file.
All log lines go to one O_APPEND file; `seq` is a per-process counter. Only the order of lines in
the log and (pid, seq) are used, never wall-clock time.

Run as `python -m harness.lib_lintprobe job.json`.
"""
import hashlib
import json
import os
import sys
import time

from loki.lint import GenericRule, RuleType, GenericHandler

__all__ = ['A0BeginRule', 'M1AssignRule', 'M2RoutineRule', 'Z9EndRule']

_seq = [0]


def _log(path, *a):
    _seq[0] += 1
    fd = os.open(path, os.O_WRONLY | os.O_APPEND | os.O_CREAT)
    os.write(fd, (' '.join(str(x) for x in a) + f' {os.getpid()} {_seq[0]}\n').encode())
    os.close(fd)


def _jitter(seed, what, name, scale):
    h = int(hashlib.sha1(f'{seed}:{what}:{name}'.encode()).hexdigest()[:8], 16)
    return (0, 0, 1, 2, 3, 5, 8, 13)[h % 8] * scale


class A0BeginRule(GenericRule):
    type = RuleType.INFO
    docs = {'title': 'C42 probe: logs the begin of the rule checks of a file and delays'}
    config = {'log': None, 'seed': 0, 'scale': 0.0}

    @classmethod
    def check_file(cls, sourcefile, rule_report, config):
        name = sourcefile.path.name
        _log(config['log'], 'begin', name)
        time.sleep(_jitter(config['seed'], 'begin', name, config['scale']))


class Z9EndRule(GenericRule):
    type = RuleType.INFO
    docs = {'title': 'C42 probe: delays and logs the end of the rule checks of a file'}
    config = {'log': None, 'seed': 0, 'scale': 0.0}

    @classmethod
    def check_file(cls, sourcefile, rule_report, config):
        name = sourcefile.path.name
        time.sleep(_jitter(config['seed'], 'end', name, config['scale']))
        _log(config['log'], 'end', name)


class M1AssignRule(GenericRule):
    type = RuleType.WARN
    docs = {'id': 'M1', 'title': 'Marker rule: assignments to variables named viol_* are violations'}

    @classmethod
    def check_subroutine(cls, subroutine, rule_report, config, **kwargs):
        from loki import FindNodes, Assignment
        for a in FindNodes(Assignment).visit(subroutine.body):
            if str(a.lhs).lower().startswith('viol_'):
                rule_report.add(f'assignment to {str(a.lhs).lower()}', a)


class M2RoutineRule(GenericRule):
    type = RuleType.SERIOUS
    docs = {'id': 'M2', 'title': 'Marker rule: routines named bad_* are violations'}

    @classmethod
    def check_subroutine(cls, subroutine, rule_report, config, **kwargs):
        if subroutine.name.lower().startswith('bad_'):
            rule_report.add(f'routine name {subroutine.name.lower()}', subroutine)


class SlowItem:
    """Return value of ProbeHandler.handle: a plain list once unpickled, but pickling it takes a seed-derived
    time. The value is pickled when the worker sends `reports.append(item)` to the Manager process, i.e.
    this delays the linearisation point of the append relative to everything the worker did before
    (a read-modify-write of the shared list would get a wide race window; an atomic append does not care)."""

    def __init__(self, data, delay):
        self.data = data
        self.delay = delay

    def __reduce__(self):
        time.sleep(self.delay)
        return (list, (self.data,))

    def __iter__(self):          # serial runs never pickle: behave like the list
        return iter(self.data)


class ProbeHandler(GenericHandler):
    """Report handler of the harness: returns/collects the raw per-file reports."""

    def __init__(self, basedir, log, out, seed=0, scale=0.0):
        super().__init__(basedir)
        self.log = log
        self.out = out
        self.seed = seed
        self.scale = scale

    def handle(self, file_report):
        name = os.path.basename(str(file_report.filename))
        items = []
        for rr in file_report.reports:
            for p in rr.problem_reports:
                src = getattr(p.location, '_source', getattr(p.location, 'source', None))
                items.append([rr.rule.__name__, int(src.lines[0]) if src is not None else 0, str(p.msg)])
        time.sleep(_jitter(self.seed, 'handle', name, self.scale))
        _log(self.log, 'report', name)
        return SlowItem([name, items, os.getpid(), _seq[0]], _jitter(self.seed, 'pickle', name, self.scale))

    def output(self, handler_reports):
        reports = [list(r) for r in handler_reports]
        _log(self.log, 'collect', '-')
        with open(self.out, 'w') as fh:
            json.dump(reports, fh)


# ------------------------------------------------------------------------------------------------
# generator of file sets with planted violations

BROKEN = [
    'subroutine broken_{i}(a\n  integer :: a\n  a = 1\nend subroutine broken_{i}\n',
    'subroutine broken_{i}(a)\n  integer :: a\n  a = = 1\nend subroutine broken_{i}\n',
    'this is not fortran at all (((\n',
    'module broken_{i}\n  integer :: x\ncontains\n  subroutine s(\n  end subroutine s\nend module broken_{i}\n',
    'subroutine broken_{i}(a)\n  integer :: a\n  if (a > 1 then\n    a = 2\n  end if\nend subroutine broken_{i}\n',
]


def gen_routine(rng, name, lines, rep):
    """Append a subroutine to `lines`; record planted violations [rule, line, msg] in `rep`."""
    nviol = rng.choice([0, 0, 1, 1, 2, 3])
    bad = rng.random() < 0.3
    rname = ('bad_' if bad else 'ok_') + name
    lines.append(f'subroutine {rname}(a, b)')
    if bad:
        rep.append(['M2RoutineRule', len(lines), f'routine name {rname}'])
    lines.append('  implicit none')
    lines.append('  integer, intent(inout) :: a')
    lines.append('  real, intent(in) :: b')
    names = [f'viol_{k}' for k in range(nviol)] + [f'fine_{k}' for k in range(rng.randint(1, 3))]
    lines.append('  integer :: ' + ', '.join(names))
    if rng.random() < 0.5:
        lines.append('  ! a comment mentioning viol_9 = 1 that is no assignment')
    rng.shuffle(names)
    for v in names:
        if rng.random() < 0.3:
            lines.append(f'  {v} = a + &')
            if v.startswith('viol_'):
                rep.append(['M1AssignRule', len(lines), f'assignment to {v}'])
            lines.append('    & 2')
        else:
            lines.append(f'  {v} = {rng.randint(1, 9)}')
            if v.startswith('viol_'):
                rep.append(['M1AssignRule', len(lines), f'assignment to {v}'])
    if rng.random() < 0.4:
        lines.append('  if (b > 0.) then')
        lines.append(f'    a = a + {names[0]}')
        lines.append('  end if')
    lines.append('  a = a + ' + ' + '.join(names))
    lines.append(f'end subroutine {rname}')


def gen_fileset(rng, d, nmin=3, nmax=8):
    """Write a file set into directory d. Returns the list of file descriptions
    {name, kind: ok|fail|excluded|other, rep: [[rule, line, msg]...]} (all files, selected or not)."""
    os.makedirs(os.path.join(d, 'sub'), exist_ok=True)
    n = rng.randint(nmin, nmax)
    out = []
    for i in range(n):
        r = rng.random()
        sub = 'sub/' if rng.random() < 0.3 else ''
        if r < 0.2:
            name = f'{sub}brk_{i}.F90'
            txt = rng.choice(BROKEN).format(i=i)
            out.append({'name': name, 'kind': 'fail', 'rep': []})
        elif r < 0.27:
            name = f'{sub}empty_{i}.F90'
            txt = rng.choice(['', '! only a comment\n'])
            out.append({'name': name, 'kind': 'ok', 'rep': []})
        else:
            name = f'{sub}src_{i}.F90'
            lines, rep = [], []
            if rng.random() < 0.4:
                lines += [f'module mod_{i}', '  implicit none', f'  integer :: viol_modvar_{i} = 0', 'contains']
                for k in range(rng.randint(1, 2)):
                    gen_routine(rng, f'r{i}_{k}', lines, rep)
                lines.append(f'end module mod_{i}')
            else:
                for k in range(rng.randint(1, 2)):
                    gen_routine(rng, f'r{i}_{k}', lines, rep)
            txt = '\n'.join(lines) + '\n'
            out.append({'name': name, 'kind': 'ok', 'rep': rep})
        with open(os.path.join(d, name), 'w') as fh:
            fh.write(txt)
    # files that are not selected: excluded by pattern, or not matching the include pattern
    with open(os.path.join(d, 'skip_me.F90'), 'w') as fh:
        fh.write('subroutine bad_skipped(a)\n  integer :: a, viol_0\n  viol_0 = 1\n  a = viol_0\nend subroutine bad_skipped\n')
    out.append({'name': 'skip_me.F90', 'kind': 'excluded', 'rep': []})
    with open(os.path.join(d, 'notes.txt'), 'w') as fh:
        fh.write('viol_0 = 1\n')
    out.append({'name': 'notes.txt', 'kind': 'other', 'rep': []})
    return out


# ------------------------------------------------------------------------------------------------
# child process: lint a file set with the real lint_files

def read_events(path):
    ev = []
    if not os.path.exists(path):
        return ev
    with open(path) as fh:
        for line in fh:
            p = line.split()
            ev.append({'a': p[0], 'file': p[1], 'pid': int(p[2]), 'seq': int(p[3])})
    return ev


def read_junit(path):
    """[[file, [items]]] from a JUnit XML file (time attributes dropped: they are timings, not results)."""
    import xml.etree.ElementTree as ET
    if not os.path.exists(path) or os.path.getsize(path) == 0:
        return []
    root = ET.parse(path).getroot()
    out = []
    for ts in root.iter('testsuite'):
        items = []
        for tc in ts.iter('testcase'):
            fails = sorted((f.get('message') or '') for f in tc.iter('failure'))
            items.append(f"{tc.get('name')}|{tc.get('classname')}|" + '|'.join(fails))
        out.append([ts.get('name'), sorted(items)])
    return sorted(out)


def read_violations(path):
    import yaml
    if not os.path.exists(path) or os.path.getsize(path) == 0:
        return []
    with open(path) as fh:
        text = fh.read()
    out = []
    # one YAML document block per file, joined by newlines (a file may legitimately occur twice
    # if it was reported twice: keep blocks separate instead of loading one mapping)
    for block in text.split('\n\n'):
        if not block.strip():
            continue
        for k, v in (yaml.safe_load(block) or {}).items():
            out.append([str(k), sorted(json.dumps(x, sort_keys=True) for x in v.get('rules', [])) + [f"hash={v.get('filehash')}"]])
    return sorted(out)


def child_main(jobfile):
    import logging
    with open(jobfile) as fh:
        job = json.load(fh)
    mod = sys.modules[__name__]     # this module is the rule module handed to lint_files
    from loki import Sourcefile
    from loki.lint import lint_files
    from loki.logging import logger
    from loki.tools import find_paths

    class ListHandler(logging.Handler):
        def __init__(self):
            super().__init__(level=logging.WARNING)
            self.records = []

        def emit(self, record):
            self.records.append(record.getMessage())

    Sourcefile.from_source('subroutine warm_up\nend subroutine warm_up\n')   # build the parser before forking
    capture = ListHandler()
    logger.addHandler(capture)
    results = []
    for ri, run in enumerate(job['runs']):
        if job.get('deadline') and ri > 0 and time.time() > job['deadline']:
            break
        W, seed = run['W'], run['seed']
        tag = f'{ri}'
        log = os.path.join(job['dir'], f'events{tag}.log')
        for f in (log,):
            if os.path.exists(f):
                os.remove(f)
        probe_out = os.path.join(job['dir'], f'probe{tag}.json')
        cfg = {'basedir': job['src'], 'include': job['include'], 'exclude': job['exclude'], 'max_workers': W}
        probe_cfg = {'log': log, 'seed': seed, 'scale': job['scale']}
        cfg['A0BeginRule'] = dict(probe_cfg)
        cfg['Z9EndRule'] = dict(probe_cfg)
        outs = {}
        if 'junit' in job['outputs']:
            cfg['junitxml_file'] = outs['junit'] = os.path.join(job['dir'], f'junit{tag}.xml')
        if 'violations' in job['outputs']:
            cfg['violations_file'] = outs['violations'] = os.path.join(job['dir'], f'viol{tag}.yml')
            cfg['use_violations_file_line_hashes'] = bool(run.get('line_hashes', False))
        capture.records = []
        order = [str(p.relative_to(job['src'])) for p in find_paths(job['src'], job['include'], ignore=job['exclude'])]
        err = ''
        count = -1
        try:
            count = lint_files(mod, cfg, handlers=[ProbeHandler(job['src'], log, probe_out, seed, job['scale'])])
        except Exception as e:  # pylint: disable=broad-except
            err = f'{type(e).__name__}: {str(e)[:300]}'
        # what the caller of lint_files can see when it returns
        at_return = {'junit': read_junit(outs['junit']) if 'junit' in outs else [],
                     'violations': read_violations(outs['violations']) if 'violations' in outs else []}
        # Hygiene between the runs of this process (after at_return was read): in a parallel run lint_files
        # leaves the last handler's LazyTextfile copy behind, open and unflushed, in cyclic garbage (see
        # notes/C42.md). Close such leftovers deterministically -- as the most favourable interpreter exit would --
        # so that (a) the `final` outputs do not depend on the order in which the garbage collector finalises
        # the io objects and (b) worker processes forked by the NEXT run cannot inherit and re-flush the buffer.
        import gc
        from loki.lint.reporter import LazyTextfile
        for o in gc.get_objects():
            if isinstance(o, LazyTextfile) and o.file_handle:
                o.file_handle.close()
                o.file_handle = None
        gc.collect()
        probe = []
        if os.path.exists(probe_out):
            with open(probe_out) as fh:
                probe = json.load(fh)
        results.append({'W': W, 'seed': seed, 'count': count, 'err': err, 'order': order,
                        'events': read_events(log), 'probe': probe, 'default': sorted(capture.records),
                        'at_return': at_return, 'outs': outs, 'mainpid': os.getpid()})
    with open(job['out'], 'w') as fh:
        json.dump(results, fh)


if __name__ == '__main__':
    # run through the importable module (not the __main__ copy): rule classes are pickled by reference
    from harness import lib_lintprobe as _real
    _real.child_main(sys.argv[1])
