"""Shared helpers for C17 (clone) and C18 (pickle): generated program-unit fixtures, modification
operations on real Loki objects and the projection of the real object graph into the small abstract
views that the TLA+ modules CloneAlias / PickleRT talk about.

Nothing in here decides anything: the functions build inputs, drive Loki and record what they see
(identities are recorded as tags such as "self" / "other" / "own", types as "int" / "real").
"""
import hashlib
import random
import re

KINDS = ('sub', 'member', 'func', 'mod', 'modproc', 'file')
# tracked names inside the nested scopes: n1 / n2 = component or associate name, xn = a symbol declared later
NESTNAME = {'td': {'n1': 'cn', 'n2': 'cf', 'xn': 'xn_extra'}, 'as': {'n1': 'y', 'n2': 'z', 'xn': 'xn_extra'}}
PARENTED = {'member': True, 'modproc': True}
REALNAME = {'n1': 'renamed_one', 'n2': 'renamed_two'}
BODYSTMT = {'e1': 101, 'e2': 102}
ADDED_MEMBER = {'m3': 'added_member'}

OTHER_MOD = """
module other_mod
  implicit none
  integer, parameter :: k = 4
  type ot
    real :: w
    integer :: cnt
  end type ot
contains
  subroutine ext_sub(p)
    integer, intent(inout) :: p
    p = p + k
  end subroutine ext_sub
end module other_mod
"""


def _sha(text):
    return hashlib.sha1(text.encode()).hexdigest()[:12]


# ------------------------------------------------------------------------------------------------
# generated sources

def _body_lines(rng, ind, feat, use_type, calls=(), nested=False):
    """Statements over the tracked variables v1 (integer) and v2 (real); the first one is an assignment."""
    pool = [
        ['v2 = v2*2.0 + real(v1)'],
        ['do i = 1, %d' % rng.randint(2, 5), '  v1 = v1 + i', 'end do'],
        ['if (v1 > %d) then' % rng.randint(0, 9), '  v2 = v2 - 1.0', 'else', '  v2 = 0.5', '  v1 = v1 - 1', 'end if'],
        ['associate (z => v2, y => v1)', '  z = z + real(y)', 'end associate'],
        ['do i = 1, 3', '  if (w(i) > v2) then', '    w(i) = v2', '  end if', 'end do'],
        ['w(1) = v2 + w(2)'],
        ['v1 = max(v1, %d)' % rng.randint(1, 7)],
    ]
    must = []
    if feat.get('imp_k'):
        must.append(['v1 = v1 + k'])
    if feat.get('imp_ot'):
        must.append(['otv%w = v2', 'v1 = v1 + otv%cnt'])
    if feat.get('imp_proc'):
        must.append(['call ext_sub(v1)'])
    if use_type:
        pool.append(['tv%n = v1', 'v2 = v2 + tv%r(1)'])
    lines = ['v1 = %d' % rng.randint(1, 9), 'v2 = v2 + real(v1)']
    for _ in range(rng.randint(1, 4)):
        lines += rng.choice(pool)
    for m in must:
        lines += m
    if nested:    # a nested scope in the body: ASSOCIATE block with the tracked associate names y, z
        lines[2:2] = ['associate (y => v1, z => v2)', '  z = z + real(y)', '  ntv%cn = y', 'end associate']
    for c in calls:
        lines.insert(rng.randint(2, len(lines)), c)
    return [ind + l for l in lines]


def _only(feat):
    names = [n for f, n in (('imp_k', 'k'), ('imp_ot', 'ot'), ('imp_proc', 'ext_sub')) if feat.get(f)]
    return f'use other_mod, only: {", ".join(names)}' if names else None


NESTED_TYPE = ['integer, parameter :: nd = 4', 'type nt', '  integer :: cn', '  real :: cf(nd)', 'end type nt', 'type(nt) :: ntv']


def _routine(rng, name, ind='', members=(), function=False, feat=None, use_type=False, calls=(),
             host_tracked=False, host_import=False, nested=False):
    """A subroutine/function declaring (unless host_tracked) the tracked variables v1, v2.
    feat: imported names used in the body; host_import: they are imported by the host, not here."""
    feat = feat or {}
    i2 = ind + '  '
    if function:
        head = f'{ind}function {name}(a1) result(res)'
        decl = [f'{i2}integer, intent(in) :: a1', f'{i2}real :: res']
        tail = [f'{i2}res = v2 + real(a1)']
        end = f'{ind}end function {name}'
    else:
        head = f'{ind}subroutine {name}(a1, a2)'
        decl = [f'{i2}integer, intent(inout) :: a1', f'{i2}real, intent(out) :: a2']
        tail = [f'{i2}a2 = v2 + real(a1)']
        end = f'{ind}end subroutine {name}'
    lines = [head]
    if _only(feat) and not host_import:
        lines.append(i2 + _only(feat))
    lines.append(f'{i2}implicit none')
    lines += decl
    if not host_tracked:
        lines += [f'{i2}integer :: v1', f'{i2}real :: v2']
        if nested:   # a nested scope in the spec: derived type whose component shape uses a variable of the unit
            lines += [i2 + l for l in NESTED_TYPE]
    lines += [f'{i2}integer :: i', f'{i2}real :: w(4)']
    if feat.get('imp_ot') and not host_import:
        lines.append(f'{i2}type(ot) :: otv')
    for j in range(rng.randint(0, 2)):
        lines.append(f'{i2}{rng.choice(["integer", "real", "logical"])} :: extra{j}')
    lines += _body_lines(rng, i2, feat, use_type, calls, nested) + tail
    if members:
        lines.append(f'{ind}contains')
        for m in members:
            lines += m
    lines.append(end)
    return lines


def _small_member(name, ind, kind, callee=None):
    """Internal procedures that use host-associated tracked variables."""
    i2 = ind + '  '
    if kind == 'shadow':     # declares its own v1, uses the host's v2
        lines = [f'{ind}subroutine {name}(p)', f'{i2}integer, intent(inout) :: p', f'{i2}integer :: v1',
                 f'{i2}v1 = p', f'{i2}v2 = v2 + real(v1)']
    else:                    # uses the host's v1
        lines = [f'{ind}subroutine {name}(p)', f'{i2}integer, intent(inout) :: p', f'{i2}p = p + v1']
    if callee:
        lines.append(f'{i2}call {callee}(p)')
    lines.append(f'{ind}end subroutine {name}')
    return lines


FEATURES = ('imp_k', 'imp_ot', 'imp_proc', 'defs', 'members', 'typedef', 'cast')


def gen_fixture(kind, rng, feat=None, seed=None, nested=True):
    """Return {'kind', 'main': source text, 'focus': name of the unit under test, 'feat', 'use_import'}.
    feat (all optional, drawn when None): imp_k / imp_ot / imp_proc = import a parameter / derived type /
    procedure from other_mod; defs = parse with definitions (enriched imports); members = contained
    procedures (sub, file); typedef = own derived type (mod); cast = `real(x)` conversions in expressions."""
    seed = rng.getrandbits(32) if seed is None else seed     # the content is a function of (kind, seed, feat)
    rng = random.Random(seed)
    focus = rng.choice(['work', 'kernel', 'phys_step', 'calc'])
    imp, impp = rng.random() < 0.5, rng.random() < 0.4      # (always drawn: the content must not depend on `feat is None`)
    if feat is None:
        feat = {'imp_k': imp, 'imp_ot': imp, 'imp_proc': imp and impp, 'defs': imp, 'members': True, 'typedef': True, 'cast': True}
    feat = {f: bool(feat.get(f, f == 'cast')) for f in FEATURES}
    if kind in ('member', 'modproc'):
        feat.update(imp_k=False, imp_ot=False, imp_proc=False, defs=False)
    # switches that do not apply to the kind are normalised to False
    if kind not in ('sub', 'file'):
        feat['members'] = False
    if kind != 'mod':
        feat['typedef'] = False
    if not (feat['imp_k'] or feat['imp_ot'] or feat['imp_proc']):
        feat['defs'] = False
    if kind in ('sub', 'file'):
        members = [_small_member('inner_a', '  ', 'shadow', callee='inner_b'), _small_member('inner_b', '  ', 'host')] \
            if feat['members'] else []
        lines = _routine(rng, focus, members=members, feat=feat, calls=['call inner_a(v1)'] if members else [], nested=nested)
        if kind == 'file':
            mod = ['module file_mod', '  implicit none', '  integer :: counter', '  type ft', '    integer :: n', '  end type ft',
                   '  type(ft) :: fv', 'contains', '  subroutine bump(p)', '    integer, intent(inout) :: p',
                   '    p = p + counter + fv%n', '  end subroutine bump', 'end module file_mod', '']
            lines = mod + lines
    elif kind == 'func':
        lines = _routine(rng, focus, function=True, feat=feat, nested=nested)
    elif kind == 'member':
        sib = ['  subroutine sibling(p)', '    integer, intent(inout) :: p', '    real :: t', f'    call {focus}(p, t)',
               '    p = p + v1', '  end subroutine sibling']
        foc = _routine(rng, focus, ind='  ', nested=nested)
        lines = ['subroutine outer(b1)', '  implicit none', '  integer, intent(inout) :: b1', '  integer :: v1', '  real :: v2',
                 '  v1 = b1', '  call sibling(v1)', f'  call {focus}(v1, v2)', '  b1 = v1', 'contains'] + sib + foc + \
                ['end subroutine outer']
    elif kind in ('mod', 'modproc'):
        head = ['module host_mod' if kind == 'modproc' else f'module {focus}']
        if _only(feat):
            head.append('  ' + _only(feat))
        head += ['  implicit none']
        td = feat['typedef'] or kind == 'modproc'
        if td:
            head += ['  type t', '    integer :: n', '    real :: r(3)', '  end type t']
        if kind == 'mod':
            head += ['  integer :: v1', '  real :: v2'] + (['  type(t) :: tv'] if td else []) + \
                (['  ' + l for l in NESTED_TYPE] if nested else [])
            if feat['imp_ot']:
                head.append('  type(ot) :: otv')
            a = _routine(rng, 'proc_a', ind='  ', feat=feat, use_type=td, calls=['call proc_b(v1, v2)'], host_tracked=True,
                         host_import=True, nested=nested)
            b = ['  subroutine proc_b(p, q)', '    integer, intent(inout) :: p', '    real, intent(inout) :: q'] + \
                (['    type(t) :: lt', '    lt%n = p', '    q = q + real(lt%n) + real(v1)'] if td else ['    q = q + real(p) + real(v1)']) + \
                ['  end subroutine proc_b']
            lines = head + ['contains'] + a + b + [f'end module {focus}']
        else:
            head += ['  integer :: hv', '  type(t) :: tv']
            sib = ['  subroutine sibling(p)', '    integer, intent(inout) :: p', '    real :: t', f'    call {focus}(p, t)',
                   '    hv = p', '  end subroutine sibling']
            foc = _routine(rng, focus, ind='  ', use_type=True, nested=nested)
            lines = head + ['contains'] + sib + foc + ['end module host_mod']
    else:
        raise ValueError(kind)
    main = '\n'.join(lines) + '\n'
    if not feat['cast']:
        main = re.sub(r'\breal\(([a-z0-9_%]+)\)', r'\1', main)
    return {'kind': kind, 'main': main, 'focus': focus, 'feat': feat, 'seed': seed, 'nested': nested,
            'use_import': feat['defs'] and (feat['imp_k'] or feat['imp_ot'] or feat['imp_proc'])}


# ------------------------------------------------------------------------------------------------
# real objects

class Copy:
    """One copy (original or clone / unpickled) of the unit under test."""

    def __init__(self, kind, root, focus_path):
        self.kind = kind
        self.root = root                  # the cloned object (Sourcefile / Module / Subroutine)
        self.focus_path = focus_path      # how to reach the unit the operations act on

    @property
    def focus(self):
        u = self.root
        for step in self.focus_path:
            if step[0] == 'routine':
                u = [r for r in _top_units(u) if _is_sub(r)][step[1]]
            elif step[0] == 'member':
                u = u.members[step[1]] if _is_sub(u) else u.subroutines[step[1]]
        return u

    @property
    def bodyunit(self):
        f = self.focus
        return f.subroutines[0] if self.kind == 'mod' else f

    def nested(self, nid):
        """The tracked nested scope node: 'td' = derived type `nt` in the focus' spec, 'as' = first ASSOCIATE in the body."""
        from loki.ir import FindNodes, Associate
        if nid == 'td':
            tds = [t for t in self.focus.typedefs if t.name.lower() == 'nt']
            return tds[0] if tds else None
        blocks = FindNodes(Associate).visit(self.bodyunit.body)
        return blocks[0] if blocks else None


def _is_sub(u):
    from loki import Subroutine
    return isinstance(u, Subroutine)


def _top_units(sf):
    from loki import ProgramUnit
    return [n for n in sf.ir.body if isinstance(n, ProgramUnit)]


def _children(u):
    return list(u.members) if _is_sub(u) else list(u.subroutines)


def all_units(u):
    out = [u]
    for m in _children(u):
        out += all_units(m)
    return out


_OTHER = {}


def other_module():
    from loki import Module
    if 'm' not in _OTHER:
        _OTHER['m'] = Module.from_source(OTHER_MOD)
    return _OTHER['m']


def build(fx):
    """Parse the fixture; returns (Copy original, parent scope P or None)."""
    from loki import Subroutine, Module, Sourcefile
    kind = fx['kind']
    defs = [other_module()] if fx['use_import'] else None
    src = fx['main']
    if kind in ('sub', 'func'):
        return Copy(kind, Subroutine.from_source(src, definitions=defs), ()), None
    if kind == 'member':
        outer = Subroutine.from_source(src, definitions=defs)
        idx = [m.name for m in outer.members].index(fx['focus'])
        return Copy(kind, outer.members[idx], ()), outer
    if kind == 'mod':
        return Copy(kind, Module.from_source(src, definitions=defs), ()), None
    if kind == 'modproc':
        mod = Module.from_source(src, definitions=defs)
        idx = [m.name for m in mod.subroutines].index(fx['focus'])
        return Copy(kind, mod.subroutines[idx], ()), mod
    if kind == 'file':
        sf = Sourcefile.from_source(src, definitions=defs)
        return Copy(kind, sf, (('routine', 0),)), None
    raise ValueError(kind)


class Tokens:
    """String <-> token tables of one fixture (statement texts, names)."""

    def __init__(self, orig):
        f = orig.focus
        self.name = {f.name.lower(): 'n0'}
        for t, r in REALNAME.items():
            self.name[r] = t
        self.stmt = {}
        for i, n in enumerate(orig.bodyunit.body.body, 1):
            self.stmt.setdefault(node_text(n), f's{i}')
        for t, v in BODYSTMT.items():
            self.stmt[f'v1 = {v}'] = t
        self.member = {}
        for i, m in enumerate(_children(f), 1):
            self.member[m.name.lower()] = f'm{i}'
        for t, r in ADDED_MEMBER.items():
            self.member[r] = t

    def realname(self, tok, orig_name):
        return orig_name if tok == 'n0' else REALNAME[tok]


def dtok(dtype):
    from loki import BasicType
    if dtype is None:
        return 'none'
    if dtype == BasicType.INTEGER:
        return 'int'
    if dtype == BasicType.REAL:
        return 'real'
    return str(dtype).lower()


def _dt(tok):
    from loki import BasicType
    return BasicType.INTEGER if tok == 'int' else BasicType.REAL


_CACHE = {}


def _visitor(name):
    """Loki visitors are stateless between visits but expensive to construct: build each one once."""
    if name not in _CACHE:
        from loki.ir import FindTypedSymbols, FindNodes, CallStatement, Comment
        from loki.backend.fgen import FortranCodegen
        from loki.backend.style import FortranStyle
        _CACHE['vars'] = FindTypedSymbols(unique=False)   # variables, procedure and derived-type symbols
        _CACHE['calls'] = FindNodes(CallStatement)
        _CACHE['comments'] = FindNodes(Comment)
        _CACHE['fgen'] = FortranCodegen(style=FortranStyle(), depth=0)
    return _CACHE[name]


def node_text(node):
    """fgen text of one IR node (used to tokenise statements; whole units go through the public fgen)."""
    cg = _visitor('fgen')
    cg.depth = 0
    return (cg.visit(node) or '').strip()


_MEMO = {'on': False, 'sym': {}}


def _symbols(node):
    """All typed symbols below an IR section (memoised during one projection: the tree is not modified then)."""
    if _MEMO['on'] and id(node) in _MEMO['sym']:
        return _MEMO['sym'][id(node)][1]
    res = [v for v in _visitor('vars').visit(node) if hasattr(v, 'scope')]
    if _MEMO['on']:
        _MEMO['sym'][id(node)] = (node, res)
    return res


def _symbols_expr(expr):
    """Typed symbols inside one expression (e.g. a shape dimension stored in a symbol-table entry)."""
    return [v for v in _visitor('vars').visit(expr) if hasattr(v, 'scope')]


def _unit_sections(u):
    """(section, ...) of one unit incl. derived-type bodies (which the finders do not descend into)."""
    secs = [u.spec]
    if getattr(u, 'body', None) is not None:
        secs.append(u.body)
    for td in u.typedefs:
        secs.append(td.body)
    return [s for s in secs if s is not None]


def _chain_tag(scope, mine, theirs, parent):
    """Which copy owns the scope chain starting at `scope` (identity walk through .parent)."""
    if scope is None:
        return 'none'
    s = scope
    n = 0
    while s is not None and n < 50:
        if any(s is r for r in mine):
            return 'self'
        if any(s is r for r in theirs):
            return 'other'
        if parent is not None and s is parent:
            return 'parent'
        s = s.parent
        n += 1
    return 'foreign'


def _roots(copy):
    """Scope roots of a copy: the program units directly cloned."""
    if copy is None:
        return []
    if copy.kind == 'file':
        return _top_units(copy.root)
    return [copy.root]


def project(copy, other, parent, tok):
    """Abstract view of one copy (see CloneAlias!View). `other` is the other copy (or None)."""
    _MEMO['on'] = True
    _MEMO['sym'] = {}
    try:
        return _project(copy, other, parent, tok)
    finally:
        _MEMO['on'] = False
        _MEMO['sym'] = {}


def _project(copy, other, parent, tok):
    from loki import fgen, ProcedureType, DerivedType, BasicType
    f = copy.focus
    bu = copy.bodyunit
    mine, theirs = _roots(copy), _roots(other)
    view = {}
    view['name'] = tok.name.get(f.name.lower(), f.name.lower())
    vmap = {v.name.lower(): v for v in f.variables}
    view['decl'] = {v: dtok(vmap[v].type.dtype) if v in vmap else 'none' for v in ('v1', 'v2', 'v3')}
    tab = {}
    for n in ('v1', 'v2', 'v3', 'x1'):
        a = f.symbol_attrs.lookup(n, recursive=False)
        tab[n] = dtok(a.dtype) if a is not None else 'none'
    view['tab'] = tab
    occ = {v: set() for v in ('v1', 'v2', 'v3')}
    secs = [(f.spec, set())]
    if getattr(f, 'body', None) is not None:
        secs.append((f.body, set()))
    if bu is not f:   # module: the first contained procedure uses the module's variables by host association
        shadow = {x.name.lower() for x in bu.variables}
        secs += [(bu.spec, shadow), (bu.body, shadow)]
    for sec, shadow in secs:
        if sec is None:
            continue
        for s in _symbols(sec):
            n = s.name.lower()
            if n in occ and n not in shadow:
                occ[n].add(dtok(s.type.dtype) if s.type is not None else 'untyped')
    view['occ'] = {k: sorted(v) for k, v in occ.items()}
    # host-associated uses of the tracked variables inside member units
    mocc = {'v1': set(), 'v2': set()}
    members = _children(f)
    for m in members:
        if copy.kind == 'mod' and m is bu:
            continue   # counted under occ
        for u in all_units(m):
            local = {x.name.lower() for x in u.variables}
            for sec in _unit_sections(u):
                for s in _symbols(sec):
                    n = s.name.lower()
                    if n in mocc and n not in local:
                        mocc[n].add(dtok(s.type.dtype) if s.type is not None else 'untyped')
    view['mocc'] = {k: sorted(v) for k, v in mocc.items()}
    view['body'] = [tok.stmt.get(t, t) for t in (node_text(n) for n in bu.body.body)]
    view['spec'] = [c.text.strip()[2:] for c in _visitor('comments').visit(f.spec) if c.text.strip() in ('! c1', '! c2')]
    view['members'] = [tok.member.get(m.name.lower(), m.name.lower()) for m in members]
    # scope ownership of every symbol in every unit of the copy
    owners = set()
    for root in mine:
        for u in all_units(root):
            for sec in _unit_sections(u):
                for s in _symbols(sec):
                    owners.add(_chain_tag(s.scope, mine, theirs, parent))
    view['owners'] = sorted(owners)
    memparent = set()
    for root in mine:
        for u in all_units(root):
            for m in _children(u):
                memparent.add('self' if m.parent is u else _chain_tag(m.parent, mine, theirs, parent) + '-wrong')
            for td in u.typedefs:
                memparent.add('self' if td.parent is u else _chain_tag(td.parent, mine, theirs, parent) + '-wrong')
    view['memparent'] = sorted(memparent)
    # symbol-table entries for contained procedures must refer to this copy's procedure objects
    their_units = [x for r in theirs for x in all_units(r)]
    memtab = set()
    for root in mine:
        for u in all_units(root):
            for m in _children(u):
                a = u.symbol_attrs.lookup(m.name, recursive=False)
                if a is None:
                    memtab.add('none')
                elif isinstance(a.dtype, ProcedureType) and a.dtype.procedure is m:
                    memtab.add('own')
                elif isinstance(a.dtype, ProcedureType) and any(a.dtype.procedure is x for x in their_units):
                    memtab.add('other')
                else:
                    memtab.add('stale')
    view['memtab'] = sorted(memtab)
    # calls to procedures contained in this copy must resolve to this copy's procedure objects
    calls = set()
    my_units = [x for r in mine for x in all_units(r)]
    my_names = {x.name.lower() for x in my_units if _is_sub(x) and not any(x is r for r in mine if copy.kind != 'file')}
    for u in my_units:
        if getattr(u, 'body', None) is None:
            continue
        for c in _visitor('calls').visit(u.body):
            if str(c.name).lower() not in my_names:
                continue
            r = c.routine
            if r is BasicType.DEFERRED:
                calls.add('deferred')
            elif any(r is x for x in my_units):
                calls.add('own')
            elif any(r is x for x in their_units):
                calls.add('other')
            else:
                calls.add('foreign')
    view['calls'] = sorted(calls)
    # derived types defined inside the copy: variables of that type must link to this copy's TypeDef
    tdef = set()
    my_tds = {td.name.lower(): td for u in my_units for td in u.typedefs}
    their_tds = [td for u in their_units for td in u.typedefs]
    for u in my_units:
        for sec in _unit_sections(u):
            for s in _symbols(sec):
                t = s.type
                if t is None or not isinstance(t.dtype, DerivedType) or t.dtype.name.lower() not in my_tds:
                    continue
                td = t.dtype.typedef
                if td is my_tds[t.dtype.name.lower()]:
                    tdef.add('own')
                elif any(td is x for x in their_tds):
                    tdef.add('other')
                elif td is BasicType.DEFERRED:
                    tdef.add('deferred')
                else:
                    tdef.add('foreign')
    view['tdef'] = sorted(tdef)
    # nested scopes (TypeDef in the spec, ASSOCIATE in the body): table contents, types at the occurrences of the
    # tracked nested names, parent link of the nested table, scope ownership of nested symbols incl. shape symbols
    ntab, nocc, nparent, nown = {}, {}, set(), set()
    my_tables = [(x.symbol_attrs, 'self') for x in my_units] + [(x.symbol_attrs, 'other') for x in their_units]
    for nid, names in NESTNAME.items():
        node = copy.nested(nid)
        ntab[nid] = {t: 'none' for t in names}
        nocc[nid] = {t: [] for t in names}
        if node is None:
            continue
        for t, real in names.items():
            a = node.symbol_attrs.lookup(real, recursive=False)
            ntab[nid][t] = dtok(a.dtype) if a is not None else 'none'
        rev = {v: k for k, v in names.items()}
        seen = {t: set() for t in names}
        syms = _symbols(node.body) if nid == 'td' else _symbols(node)
        for s in syms:
            if s.name.lower() in rev:
                seen[rev[s.name.lower()]].add(dtok(s.type.dtype) if s.type is not None else 'untyped')
                nown.add(_chain_tag(s.scope, mine, theirs, parent))
        nocc[nid] = {t: sorted(v) for t, v in seen.items()}
        ptab = node.symbol_attrs.parent
        nparent.add(next((tag for tab, tag in my_tables if tab is ptab), 'none' if ptab is None else 'foreign'))
        nparent.add(_chain_tag(node.parent, mine, theirs, parent) + '-node' if _chain_tag(node.parent, mine, theirs, parent) != 'self' else 'self')
        for key in list(dict.keys(node.symbol_attrs)):
            attrs = dict.__getitem__(node.symbol_attrs, key)
            for dim in (getattr(attrs, 'shape', None) or ()):
                for s in _symbols_expr(dim):
                    nown.add(_chain_tag(s.scope, mine, theirs, parent))
    view['ntab'], view['nocc'] = ntab, nocc
    view['nparent'], view['nown'] = sorted(nparent), sorted(nown)
    text = fgen(copy.root) if copy.kind != 'file' else copy.root.to_fortran()
    view['text'] = _sha(text)
    view['ntext'] = _sha(re.sub(r'\b' + re.escape(f.name) + r'\b', '@', text, flags=re.I))
    return view


def project_parent(parent, orig, clone, tok, orig_name):
    """Image of the original's parent scope: which copy its entries / sibling calls refer to."""
    from loki import ProcedureType, BasicType
    if parent is None:
        return {'reg': {'n0': 'none', 'n1': 'none', 'n2': 'none'}, 'sibcalls': [], 'pmembers': [], 'nkeys': 0}
    o = orig.focus
    c = clone.focus if clone is not None else None

    def ident(x):
        if x is o:
            return 'o'
        if c is not None and x is c:
            return 'c'
        return 'foreign'
    reg = {}
    for t in ('n0', 'n1', 'n2'):
        a = parent.symbol_attrs.lookup(tok.realname(t, orig_name), recursive=False)
        if a is None:
            reg[t] = 'none'
        elif isinstance(a.dtype, ProcedureType):
            reg[t] = ident(a.dtype.procedure)
        else:
            reg[t] = 'nonproc'
    names = {orig_name.lower()} | set(REALNAME.values())
    sib = set()
    units = [parent] + [m for m in _children(parent) if m is not o and m is not c]
    for u in units:
        if getattr(u, 'body', None) is None:
            continue
        for call in _visitor('calls').visit(u.body):
            if str(call.name).lower() in names:
                r = call.routine
                sib.add('deferred' if r is BasicType.DEFERRED else ident(r))
    pm = [ident(m) if (m is o or m is c) else 'sib' for m in _children(parent)]
    return {'reg': reg, 'sibcalls': sorted(sib), 'pmembers': pm, 'nkeys': len(list(parent.symbol_attrs.keys()))}


# ------------------------------------------------------------------------------------------------
# operations (CloneAlias!Events) on the real objects

def do_clone(orig, newname_tok):
    from loki import Sourcefile
    kw = {}
    if newname_tok:
        kw['name'] = REALNAME[newname_tok]
    if isinstance(orig.root, Sourcefile):
        assert not kw
        return Copy(orig.kind, orig.root.clone(), orig.focus_path)
    return Copy(orig.kind, orig.root.clone(**kw), orig.focus_path)


def apply_op(copy, e):
    """Perform one modification event on the given copy."""
    from loki import Subroutine, SymbolAttributes
    from loki.expression import symbols as sym
    from loki.ir import nodes as ir, Transformer
    op, a1, a2, how = e['op'], e['a1'], e['a2'], e['how']
    f = copy.focus
    bu = copy.bodyunit
    if op == 'rename':
        f.name = REALNAME[a1]
    elif op == 'retype':
        if how == 'symtab':
            f.symbol_attrs[a1] = f.symbol_attrs[a1].clone(dtype=_dt(a2))
        else:
            f.variables = tuple(v.clone(type=v.type.clone(dtype=_dt(a2))) if v.name.lower() == a1 else v for v in f.variables)
    elif op == 'symtab':
        f.symbol_attrs[a1] = SymbolAttributes(_dt(a2))
    elif op == 'editbody':
        # (a symbol is created in the scope that declares it, as the frontends do for host-associated variables;
        #  Variable(scope=x) without a type would cache the looked-up type in x's own table)
        stmt = ir.Assignment(lhs=sym.Variable(name='v1', scope=bu.get_symbol_scope('v1')), rhs=sym.IntLiteral(BODYSTMT[a1]))
        first = bu.body.body[0]
        if how == 'append':
            bu.body.append(stmt)
        elif how == 'prepend':
            bu.body.prepend(stmt)
        elif how == 'replace':
            bu.body = Transformer({first: stmt}).visit(bu.body)
        elif how == 'inplace':
            first._update(lhs=stmt.lhs, rhs=stmt.rhs)   # pylint: disable=protected-access
        else:
            raise ValueError(how)
    elif op == 'editspec':
        if how == 'addvar':
            f.variables += (sym.Variable(name=a1, type=SymbolAttributes(_dt(a2)), scope=f),)
        else:
            f.spec.append(ir.Comment(text=f'! {a1}'))
    elif op in ('nretype', 'ndeclare'):
        node = copy.nested(how)
        real = NESTNAME[how][a1]
        if op == 'nretype':
            node.symbol_attrs[real] = node.symbol_attrs[real].clone(dtype=_dt(a2))
        else:
            node.symbol_attrs[real] = SymbolAttributes(_dt(a2))
    elif op == 'addmember':
        new = Subroutine(name=ADDED_MEMBER[a1], parent=f, spec=ir.Section(body=()), args=())
        new.body = ir.Section(body=(ir.Assignment(lhs=sym.Variable(name='v1', scope=new.get_symbol_scope('v1')), rhs=sym.IntLiteral(7)),))
        if f.contains is None:
            f.contains = ir.Section(body=(ir.ContainsStmt(), new))
        else:
            f.contains.append(new)
    else:
        raise ValueError(op)
