"""development aid (not part of the check): gfortran(original) vs gfortran(transformed), no TLC"""
import sys, random, os, collections, traceback
sys.path.insert(0, '/verif')
from harness import lib_fm as F, lib_fm_loops as L
which = sys.argv[1]; fams = sys.argv[2].split(','); n = int(sys.argv[3]); seed = int(sys.argv[4]) if len(sys.argv) > 4 else 1
rng = random.Random(seed)
work = f'/verif/.work/probe-loops/w{os.getpid()}'
os.makedirs(work, exist_ok=True)
gen = L.gen_c31 if which == 'c31' else L.gen_c32
tr = L.transform_c31 if which == 'c31' else L.transform_c32
stats = collections.Counter(); shown = collections.Counter()
for fam in fams:
    for c in range(n):
        prog, inputs = gen(rng, fam)
        text = F.render(prog); drv = F.driver_text(prog, 'kernel', inputs)
        st, out, err = F.compile_run(work, 'o', [('kmod.f90', text), ('drv.f90', drv)])
        if st != 'ok':
            stats[fam, 'orig-' + st] += 1
            if shown[fam, 'orig'] < 1:
                shown[fam, 'orig'] += 1; print('ORIG FAIL', fam, st, err[:500]); print(text)
            continue
        try:
            srcs = tr(text, prog, work + '/tr')
        except F.NotApplicable as e:
            stats[fam, 'n/a'] += 1; continue
        except Exception as e:
            sig = f'raised {type(e).__name__}: {str(e)[:80]}'
            stats[fam, sig] += 1
            if shown[fam, sig] < 1:
                shown[fam, sig] += 1; print('=' * 30, fam, sig); print(text); traceback.print_exc()
            continue
        st2, out2, err2 = L.compile_run_checked(work, 'x-new', list(srcs) + [('drv.f90', drv)])
        if st2 != 'ok':
            sig = F.failure_signature(st2, err2)
        elif out2 != out:
            sig = 'output-differs'
        else:
            stats[fam, 'same'] += 1; continue
        stats[fam, sig] += 1
        if shown[fam, sig] < int(os.environ.get('SHOW', 1)):
            shown[fam, sig] += 1
            print('=' * 30, fam, sig, prog.get('meta')); print(text); print('-' * 10); print(srcs[0][1]); print(err2[:600])
            if st2 == 'ok':
                a, b = out.splitlines(), out2.splitlines()
                for i, (x, y) in enumerate(zip(a, b)):
                    if x != y: print('first diff line', i, repr(x), repr(y)); break
for k, v in sorted(stats.items()): print(k, v)
