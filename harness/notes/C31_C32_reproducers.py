"""Minimal reproducers (against the real Loki in /repo) for the defect classes found by C31 / C32.
Run:  cd /verif && /venv/bin/python harness/notes/C31_C32_reproducers.py [name ...]
Every case prints the transformed routine; the comment says what is wrong with it."""
import sys
from loki import Sourcefile
from loki.transformations.transform_loop import do_loop_unroll, do_loop_fusion, do_loop_fission, do_loop_interchange
from loki.transformations.constant_propagation import do_constant_propagation
from loki.transformations.remove_code import do_remove_dead_code, do_remove_unused_vars

HEAD = "subroutine s(n, m, flag, a, b, k)\n integer, intent(in) :: n, m\n logical, intent(in) :: flag\n integer, intent(inout) :: a(0:4), b(3, -1:1)\n integer, intent(out) :: k\n integer :: i, j, l, t\n"
CASES = {
    # ---- C31
    'unroll-exitcycle': (do_loop_unroll, "!$loki loop-unroll\n do i = 1, 3\n  if (a(i) > n) exit\n  k = k + i\n end do\n",
                         'EXIT statements are copied out of their loop (does not compile, or leaves an enclosing loop)'),
    'unroll-loopvar': (do_loop_unroll, "!$loki loop-unroll\n do i = 1, 3\n  k = k + i\n end do\n k = k + i\n",
                       'i is 4 after the loop; the unrolled code never assigns i'),
    'unroll-print': (do_loop_unroll, "!$loki loop-unroll\n do i = 1, 2\n  print *, i\n end do\n",
                     'PrintStmt.values is not traversed: PRINT *, i keeps the (now undefined) loop variable'),
    'unroll-negpow': (do_loop_unroll, "!$loki loop-unroll\n do i = -3, -3\n  k = i**2\n end do\n",
                      'fgen prints Power(IntLiteral(-3), 2) as -3**2 = -9 instead of 9'),
    'unroll-select': (do_loop_unroll, "select case (n)\n case (0)\n  !$loki loop-unroll\n  do i = 1, 0\n   k = 1\n  end do\n case (1)\n  k = 2\n case default\n  k = 3\n end select\n",
                      'Transformer.visit_tuple strips the emptied body: CASE (0) gets k = 2, CASE (1) gets k = 3, the default vanishes'),
    'fusion-mismatch': (do_loop_fusion, "!$loki loop-fusion\n do i = 1, n\n  a(i) = 1\n end do\n!$loki loop-fusion\n do i = 1, 4\n  a(i) = a(i) + 2\n end do\n",
                        'fused range is 1..n (the constant upper bound 4 is dropped): iterations n+1..4 of the second loop are lost'),
    'fission-autopromote': (do_loop_fission, "do i = 1, 4\n  a(i) = a(i) + 1\n  !$loki loop-fission\n  k = k + a(i)\n end do\n",
                            'the dummy array a(0:4), already indexed by i, is "promoted" to a(0:4, 4) and accessed as a(i, i)'),
    'fission-promote-lb': (do_loop_fission, "do i = 0, 4\n  t = a(i) + 1\n  !$loki loop-fission\n  a(i) = t\n end do\n",
                           't is promoted to t(4) and indexed t(i) with i = 0: out of bounds'),
    'interchange-project': (lambda r: do_loop_interchange(r, project_bounds=True),
                            "!$loki loop-interchange (l, i, j)\n do j = 1, 2\n  do l = 1, 2\n   do i = 1, 2\n    k = k + 1\n   end do\n  end do\n end do\n",
                            'generate_loop_bounds raises TypeError (index_map entry None - 1) for this order of three loops'),
    'split-steptrunc': ('split', "do i = 4, 5, -2\n  k = k + 1\n end do\n",
                        'zero-trip loop, but LoopRange.num_iterations = (5 - 4) / (-2) + 1 = 1: the split loops execute the body once'),
    # ---- C32
    'cp-zerotrip': (do_constant_propagation, "t = 1\n do i = 2, 1\n  t = 5\n end do\n k = t\n", 'k = 5: the body of a zero-trip loop is propagated'),
    'cp-carried': (do_constant_propagation, "t = 1\n do i = 1, 3\n  a(i) = t\n  t = 2\n end do\n", 'a(i) = 1 in every iteration although t is 2 from the second iteration on'),
    'cp-call': ("call", "t = 1\n call h(t)\n k = t\n", 'k = 1 although h defines t'),
    'cp-while': (do_constant_propagation, "i = 0\n do while (i < 2)\n  k = k + 1\n  i = i + 1\n end do\n", 'i = 0 + 1 = 1 inside the loop: the loop never ends'),
    'cp-select': (do_constant_propagation, "t = 5\n select case (n)\n case (0)\n  t = 4\n end select\n k = t\n", 'k = 5 or k = 4 chosen statically'),
    'cp-exit': (do_constant_propagation, "t = 1\n do i = 1, 3\n  if (a(i) > n) exit\n  t = 2\n end do\n k = t\n", 'k = 2 although the loop may exit before t = 2'),
    'cp-assoc': (do_constant_propagation, "t = 3\n associate (z => t)\n  z = z + 5\n end associate\n k = t\n", 'k = 3'),
    'cp-unroll-kind': ('kind', "x = 0.0_jprb\n do i = 3, 2, -1\n  ra(i) = abs(x)\n end do\n",
                       'AssertionError: Missing type information for variable symbol "jprb" (raises, no wrong code)'),
    'dce-elseif': (do_remove_dead_code, "if (flag) then\n  k = 1\n else if (1 > 2) then\n  k = 2\n end if\n", 'pydantic ValidationError: has_elseif becomes an empty tuple'),
    'vars-loopvar': (lambda r: do_remove_unused_vars(r, remove_only_arrays=False), "do i = 1, 3\n  a(i) = 0\n end do\n", 'the declaration of the loop variable i is removed (also j, l, t: fine)'),
}


def run(name):
    trafo, body, what = CASES[name]
    text = HEAD + " k = 0\n " + body + "end subroutine s\n"
    if trafo == 'call':
        text = "module md\ncontains\n" + text + "subroutine h(x)\n integer, intent(inout) :: x\n x = x + 1\nend subroutine h\nend module md\n"
        trafo = do_constant_propagation
    if trafo == 'kind':
        text = ("module md\n integer, parameter :: jprb = selected_real_kind(13, 300)\ncontains\nsubroutine s(ra, x)\n"
                " real(kind=jprb), intent(inout) :: ra(1:4)\n real(kind=jprb), intent(out) :: x\n integer :: i\n " + body + "end subroutine s\nend module md\n")
        trafo = lambda r: do_constant_propagation(r, unroll_loops=True)
    if trafo == 'split':
        def trafo(r):
            from loki.ir import nodes as ir, FindNodes
            from loki.transformations.loop_blocking import split_loop
            split_loop(r, FindNodes(ir.Loop).visit(r.body)[0], 2)
    src = Sourcefile.from_source(text)
    r = src['s']
    print(f'==== {name}: {what}')
    try:
        trafo(r)
        print(r.to_fortran())
    except Exception as ex:  # pylint: disable=broad-except
        print(f'raised {type(ex).__name__}: {str(ex)[:200]}')


if __name__ == '__main__':
    for n in (sys.argv[1:] or CASES):
        run(n)
