! do_resolve_associates(kernel) raises RecursionError on this (gfortran-accepted) module
module kmod
  implicit none
  integer, parameter :: jprb = selected_real_kind(13, 300)
contains
  subroutine kernel(n, m, flag, ia, ra, ib, k, x)
    integer, intent(in) :: n
    integer, intent(in) :: m
    logical, intent(in) :: flag
    integer, intent(inout) :: ia(0:4)
    real(kind=jprb), intent(inout) :: ra(1:4)
    integer, intent(inout) :: ib(1:3, -1:1)
    integer, intent(out) :: k
    real(kind=jprb), intent(out) :: x
    integer :: i
    integer :: j
    integer :: l
    integer :: w
    integer :: t1
    integer :: t2
    real(kind=jprb) :: y
    k = 0
    x = 0.0_jprb
    t1 = m
    t2 = 1
    y = 0.5_jprb
    associate (z1 => ia(0) + t2 + 1, z2 => ia)
      select case (mod(abs(t1 - z2(mod(abs(z2(4) - z2(mod(abs(ib(1, 0) - z1), 5))), 5))), 6))
      case (0)
        ia(0) = mod(ib(3, (-1) + mod(abs(mod(z1, 3)), 3)) + t2 + z1, 13)
      case (2)
        associate (z3 => n + z1 + 1, z4 => ia(mod(abs(5 / 2), 5)))
          t2 = mod((2 - 2 + 5), 17)
          t2 = mod((z4*5 + abs(t1)), 17)
        end associate
      case default
        print *, mod(k, 5)
      end select
      select case (mod(abs(1), 6))
      case (0)
        associate (z5 => m + k + 1, z6 => (7 + z2(1)) + 1, z7 => ia(0))
          associate (z8 => ia(mod(abs(-z6), 5)), z9 => z7**2 + 1)
            call h1(z2, n*n + 1, k)
            call h2(z8, z6 + 1)
          end associate
          associate (z10 => ia(mod(abs(z7 + z7), 5)))
            z2(1:4) = mod(ia(1:4) + 1, 7)
          end associate
          z2(mod(abs(z7 - z2(2)), 5)) = mod(min(ia(mod(abs(3*z2(2)), 5)), -t1), 19)
        end associate
      case (2)
        t2 = mod(t2 + (z2(mod(abs(ia(mod(abs(-z2(0)), 5)) - ia(mod(abs(ib(1 + mod(abs(z1), 3), 0)**2), 5))), 5)) - 7), 13)
      case (3)
        associate (z11 => z1 + ib(1 + mod(abs(ia(3) - t1), 3), (-1) + mod(abs(-0), 3)) + 1, z12 => z2, z13 => m + z1 + 1)
          x = ra(1 + mod(abs(z13 / 3), 4))*0.25_jprb
          ia(0:4:2) = ia(0:4:2) + m
        end associate
      case default
        z2 = mod(z2 + m, 17)
      end select
      ib(:, -1) = ib(:, 0) + ia(0:2)
    end associate
    ib(1, 1) = mod(-(n + n), 13)
    call h1(ia, t1**2 + 1, k)
    associate (z14 => ia(4), z15 => 7 + 0 + 1)
      associate (z16 => z14 / 4 + 1, z17 => t2)
        associate (z18 => 0*3 + 1, z19 => z14 - z16 + 1)
          k = mod(abs(2*1), 17)
          call h1(ia, ia(mod(abs(z19 - 2), 5))**2 + 1, k)
          call h1(ia, ia(0) + 1, t2)
        end associate
        ib(3, -1) = mod(1 + ib(2, (-1) + mod(abs(z14 + 0), 3))*3, 13)
      end associate
    end associate
    ia(3) = mod(mod(3*k, 3), 13)
    call h1(ia, 0 - n + 1, k)
  end subroutine kernel
  subroutine h1(a, s, r)
    integer, intent(inout) :: a(0:4)
    integer, intent(in) :: s
    integer, intent(out) :: r
    integer :: q
    r = 0
    if (s < 0) then
      return
    end if
    do q = 0, 4
      a(q) = mod(a(q) + s, 11)
      r = r + a(q)
    end do
  end subroutine h1
  subroutine h2(p, q)
    integer, intent(inout) :: p
    integer, intent(in) :: q
    p = mod(p*2 + q, 23)
  end subroutine h2
end module kmod
