from loki import Sourcefile, FindNodes, ir
from loki.analyse import dataflow_analysis_attached, read_after_write_vars, loop_carried_dependencies
def N(s): return sorted(str(x).lower() for x in s)
KEEP = []
def mod(body, decl='', extra=''):
    KEEP.append(Sourcefile.from_source(f"""module m
contains
subroutine s(n, flag, t, a, k)
  integer, intent(in) :: n
  logical, intent(in) :: flag
  integer, intent(inout) :: t, a(0:4)
  integer, intent(out) :: k
  integer :: i, u, c(0:4)
{decl}{body}end subroutine s
{extra}end module m
"""))
    return KEEP[-1]
H = "subroutine h(p, q)\n  integer :: p, q\n  p = p + q\nend subroutine h\n"
# 1 call argument of a dummy without intent
r = mod("  call h(t, n)\n  k = t\n", extra=H)['s']
with dataflow_analysis_attached(r):
    c = FindNodes(ir.CallStatement).visit(r.body)[0]
    print('1 call h(t, n) [dummies without intent]: defines', N(c.defines_symbols), 'uses', N(c.uses_symbols), '| raw before k=t:', N(read_after_write_vars(r.body, r.body.body[-1])))
# 2 live at entry of a routine with dummies without intent
src = mod("  k = t\n", extra=H)
with dataflow_analysis_attached(src['h']):
    print('2 h(p, q) without intents: live at first statement', N(src['h'].body.body[0].live_symbols))
# 3 conditional definition kills a later read
for name, body in [('if', "  if (flag) t = 1\n  k = t\n"), ('zero-trip do', "  do i = 1, n\n    t = i\n  end do\n  k = t\n"),
                   ('select', "  select case (n)\n  case (1)\n    t = 3\n  end select\n  k = t\n"),
                   ('where', "  where (c > 1)\n    a = 0\n  end where\n  k = a(1)\n"),
                   ('element', "  a(1) = 0\n  k = a(2)\n")]:
    r = mod("  c = n\n" + body)['s']
    with dataflow_analysis_attached(r):
        print(f'3 {name}: body uses', N(r.body.uses_symbols), '(t/a is read with its value from before the routine body)')
# 4 masked elsewhere
r = mod("  c = n\n  where (c > 3)\n    a = 7\n  elsewhere (c < n)\n    c = a\n  end where\n")['s']
with dataflow_analysis_attached(r):
    w = FindNodes(ir.MaskedStatement).visit(r.body)[0]
    print('4 where (c>3) a=7 elsewhere (c<n) c=a: uses of the WHERE construct', N(w.uses_symbols))
# 5 print
r = mod("  print *, t\n")['s']
with dataflow_analysis_attached(r):
    print('5 print *, t: uses', N(r.body.body[0].uses_symbols), 'body uses', N(r.body.uses_symbols))
# 6 live inside a loop: value from the previous iteration
r = mod("  do i = 0, 3\n    if (i > 0) k = u\n    u = i\n  end do\n")['s']
with dataflow_analysis_attached(r):
    l = FindNodes(ir.Loop).visit(r.body)[0]
    print('6 do; if (i>0) k = u; u = i; end do: live at the IF', N(l.body[0].live_symbols))
# 7 loop carried: array element written before another element is read / conditional def
r = mod("  c = 0\n  do i = 1, 4\n    c(i) = i\n    k = k + c(i-1)\n  end do\n")['s']
with dataflow_analysis_attached(r):
    l = FindNodes(ir.Loop).visit(r.body)[0]
    print('7 do; c(i) = i; k = k + c(i-1): loop_carried_dependencies', N(loop_carried_dependencies(l)))
r = mod("  do i = 0, 3\n    if (i == n) t = 9\n    k = k + t\n    t = i\n  end do\n")['s']
with dataflow_analysis_attached(r):
    l = FindNodes(ir.Loop).visit(r.body)[0]
    print('7b do; if (i==n) t = 9; k = k + t; t = i: loop_carried_dependencies', N(loop_carried_dependencies(l)))
# 8 read_after_write_vars across a zero-trip loop / select / associate
for name, body in [('zero-trip do', "  t = 3\n  do i = 1, n\n    t = i\n  end do\n  k = t\n"), ('select', "  t = 3\n  select case (n)\n  case (1)\n    t = 5\n  end select\n  k = t\n"),
                   ('associate', "  associate (z => t)\n    z = 2\n  end associate\n  k = t\n")]:
    r = mod(body)['s']
    with dataflow_analysis_attached(r):
        print(f'8 {name}: read_after_write_vars(body, inspection_node=<the construct before k = t>)', N(read_after_write_vars(r.body, r.body.body[-2])))
# 9 nested associate with expression selector
r = mod("  associate (z => t)\n    associate (y => n + 1)\n      z = y\n    end associate\n  end associate\n")['s']
try:
    with dataflow_analysis_attached(r):
        pass
    print('9 ok')
except Exception as e:
    print('9 nested associate with expression selector:', type(e).__name__, e)
# 10 associate selector unused
r = mod("  associate (z => t, y => u + 1)\n    z = 2\n  end associate\n")['s']
with dataflow_analysis_attached(r):
    print('10 associate (z => t, y => u + 1); z = 2: uses of the construct', N(r.body.body[0].uses_symbols))
