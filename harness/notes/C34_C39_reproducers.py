"""Minimal reproducers of the Loki defects found by C39 / C34 (run: cd /verif && /venv/bin/python harness/notes/C34_C39_reproducers.py).
Each prints the rewritten module; the defect is visible in the text (see notes/C39.md, notes/C34.md)."""
import os
import pathlib
import shutil
import tempfile

from loki import Scheduler
from loki.transformations.parametrise import ParametriseTransformation
from loki.transformations.sanitise import SequenceAssociationTransformation
from loki.transformations.routine_signatures import RemoveDuplicateArgs
from loki.transformations.argument_shape import ArgumentArrayShapeAnalysis, ExplicitArgumentArrayShapeTransformation
from loki.transformations.transform_derived_types import DerivedTypeArgumentsTransformation

CFG = {'default': {'mode': 'idem', 'role': 'kernel', 'expand': True, 'strict': True}, 'routines': {'drv': {'role': 'driver'}}}
WORK = os.path.join(os.path.dirname(os.path.dirname(os.path.dirname(os.path.abspath(__file__)))), '.work')


def run(title, src, *trafos):
    os.makedirs(WORK, exist_ok=True)
    d = pathlib.Path(tempfile.mkdtemp(dir=WORK))
    (d/'m.f90').write_text(src)
    s = Scheduler(paths=[d], config=CFG, seed_routines=['drv'])
    for t in trafos:
        s.process(transformation=t)
    print(f'----- {title}\n{s.items[0].source.to_fortran()}')
    shutil.rmtree(d, ignore_errors=True)


P = """module m
contains
subroutine drv(a, c, r)
  integer, intent(in) :: a, c
  integer, intent(inout) :: r
  CALLS
end subroutine
subroutine k1(a, b, r)
  integer, intent(in) :: a, b
  integer, intent(inout) :: r
  r = r + a - b
end subroutine
end module
"""
run('C39 dup: k1(a, a, r) -> CALL k1(r) but k1 keeps dummy a', P.replace('CALLS', 'call k1(a, a, r)'), ParametriseTransformation(dic2p={'a': 3}))
run('C39 mixed (positions): both calls lose a, k1 = (a, r) with b = 3: the first call now binds 2 to a',
    P.replace('CALLS', 'call k1(a, 2, r)\n  call k1(1, a, r)'), ParametriseTransformation(dic2p={'a': 3}))
run('C39 mixed (values): k1(a, 1, r); k1(c, 1, r) -> one PARAMETER a = 4 for both calls',
    P.replace('CALLS', 'call k1(a, 1, r)\n  call k1(c, 1, r)'), ParametriseTransformation(dic2p={'a': 3, 'c': 4}))
run('C39 prt+rbv: PRINT keeps the name whose declaration is gone',
    P.replace('CALLS', 'call k1(a, 1, r)').replace('r = r + a - b', 'r = r + a - b\n  print *, a'),
    ParametriseTransformation(dic2p={'a': 3}, replace_by_value=True))

run('C34 seq: b(2,1) -> b(2:3, 1) (2 elements for v(4)) and b(2:3, 1:3) (w(1,2) is b(2,2), was b(1,2))', """module m
contains
subroutine drv(b, r)
  integer, intent(inout) :: b(3, 3)
  integer, intent(out) :: r
  call k1(b(2, 1), 4, r)
  call k2(b(2, 1), r)
end subroutine
subroutine k1(v, n, r)
  integer, intent(in) :: n
  integer, intent(in) :: v(n)
  integer, intent(out) :: r
  r = sum(v)
end subroutine
subroutine k2(w, r)
  integer, intent(in) :: w(2, 2)
  integer, intent(out) :: r
  r = w(1, 2)
end subroutine
end module
""", SequenceAssociationTransformation())

run('C34 dup: tmp(n2) and a(n2) keep the removed dummy n2', """module m
contains
subroutine drv(n, a, r)
  integer, intent(in) :: n, a(5)
  integer, intent(out) :: r
  call k1(n, n, a, a, r)
end subroutine
subroutine k1(n1, n2, a, b, r)
  integer, intent(in) :: n1, n2, a(5), b(5)
  integer, intent(out) :: r
  integer :: tmp(n2)
  tmp(1) = a(1) + b(n2)
  r = tmp(1) + n1
end subroutine
end module
""", RemoveDuplicateArgs())

run('C34 shape: x(:) becomes x(0:4) (x(1) is another element; the section b(2:4) has 3 elements); local nv captured', """module m
contains
subroutine drv(nv, a, b, r)
  integer, intent(in) :: nv
  integer, intent(inout) :: a(0:4), b(5)
  integer, intent(out) :: r
  integer :: w(nv)
  w = 1
  call k1(a, r)
  call k1(b(2:4), r)
  call k2(w, r)
end subroutine
subroutine k1(x, r)
  integer, intent(inout) :: x(:)
  integer, intent(out) :: r
  r = x(1) + size(x)
end subroutine
subroutine k2(x, r)
  integer, intent(inout) :: x(:)
  integer, intent(out) :: r
  integer :: nv
  nv = 2
  r = x(1) + size(x) + nv
end subroutine
end module
""", ArgumentArrayShapeAnalysis(), ExplicitArgumentArrayShapeTransformation())

run('C34 dtype: d%v(0:4) becomes d_v(:) (lower bound 1) but the body still reads d_v(0)', """module m
  type t
    integer :: v(0:4)
  end type
contains
subroutine drv(s, r)
  type(t), intent(inout) :: s
  integer, intent(out) :: r
  call k1(s, r)
end subroutine
subroutine k1(d, r)
  type(t), intent(inout) :: d
  integer, intent(out) :: r
  r = d%v(0)
end subroutine
end module
""", DerivedTypeArgumentsTransformation(all_derived_types=True))

run('C34 shape: explicit range inside a rank-reducing section: x(:,:) becomes x(4) (rank 1)', """module m
contains
subroutine drv(a, r)
  integer, intent(inout) :: a(2, 3, 4)
  integer, intent(out) :: r
  call k1(a(1:2, 2, :), r)
end subroutine
subroutine k1(x, r)
  integer, intent(inout) :: x(:, :)
  integer, intent(out) :: r
  r = size(x, 2)
end subroutine
end module
""", ArgumentArrayShapeAnalysis(), ExplicitArgumentArrayShapeTransformation())

run('C34 shape: call sites with different extents: the shape of the FIRST call is made explicit (x(3)), the second call passes 4 elements', """module m
contains
subroutine drv(a, r)
  integer, intent(inout) :: a(2, 3, 4)
  integer, intent(out) :: r
  call k1(a(1, :, 2), r)
  call k1(a(1, 1, :), r)
end subroutine
subroutine k1(x, r)
  integer, intent(inout) :: x(:)
  integer, intent(out) :: r
  r = size(x)
end subroutine
end module
""", ArgumentArrayShapeAnalysis(), ExplicitArgumentArrayShapeTransformation())
