"""Minimal reproducers for the C23/C24/C25 findings.
   /venv/bin/python /verif/harness/notes/C23_C24_C25_reproducers.py [c23a c23b c24a c24b c25a .. c25k]   (cwd anywhere but /tmp)"""
import shutil, sys, re
from pathlib import Path
from loki import FindNodes, ir
from loki.batch import Scheduler, SchedulerConfig, ProcessingStrategy, Pipeline, ProcedureItem
from loki.transformations.dependency import DuplicateKernel, RemoveKernel
from loki.transformations.build_system import FileWriteTransformation, DependencyTransformation, ModuleWrapTransformation
import logging; logging.disable(logging.CRITICAL)

SUB = "subroutine {n}(a)\n{u}  integer, intent(inout) :: a\n{i}  a = a + 1\n{c}end subroutine {n}\n"
def sub(n, calls=(), uses=(), ifaces=()):
    return SUB.format(n=n, u=''.join(f'  use {m}, only: {s}\n' for m, s in uses),
                      i=''.join(f'  interface\n    subroutine {x}(a)\n      integer, intent(inout) :: a\n    end subroutine {x}\n  end interface\n' for x in ifaces),
                      c=''.join(f'  call {c}(a)\n' for c in calls))
def mod(n, subs, vars_=()):
    return f"module {n}\n" + ''.join(f'  integer :: {v} = 1\n' for v in vars_) + "contains\n" + ''.join(subs) + f"end module {n}\n"
def sched(files, seeds, drivers=(), **default):
    root = Path(__import__('os').environ.get('REPRO_DIR', '/verif/.work/repro-c23-c25'))/'src'; shutil.rmtree(root, ignore_errors=True); root.mkdir(parents=True)
    for f, t in files.items():
        (root/f).write_text(t)
    cfg = {'default': {'mode': 'idem', 'role': 'kernel', 'expand': True, 'strict': True, 'enable_imports': True, **default},
           'routines': {d: {'role': 'driver'} for d in drivers}}
    return Scheduler(paths=[root], config=SchedulerConfig.from_dict(cfg), seed_routines=list(seeds)), root
def show(s):
    return sorted(i.name for i in s.items)
def attempt(tag, fn):
    try:
        print(tag, '->', fn())
    except Exception as e:
        print(tag, '-> RAISED', type(e.__cause__ or e).__name__, str(e)[:150])

which = sys.argv[1:] or ['all']
def on(x): return 'all' in which or x in which

if on('c23a'):
    a, b = ProcedureItem('m#k', source=None), ProcedureItem('M#K', source=None)
    print('c23a', a == b, hash(a) == hash(b), len({a, b}), b in {a})
if on('c23b'):
    for sfx in ('_d', '_D'):
        s, _ = sched({'d.f90': sub('d', ['k']), 'k.f90': sub('k')}, ['d'], ['d'])
        attempt(f'c23b suffix {sfx}', lambda: (s.process(DuplicateKernel(duplicate_kernels=('k',), duplicate_suffix=sfx)), show(s))[1])
if on('c25a'):   # dup of a module procedure that a sibling calls
    s, _ = sched({'m.f90': mod('m', [sub('d', ['k']), sub('k')])}, ['d'], ['d'])          # plain seed: the clone m_d#d becomes a seed too
    attempt('c25a plain seed, sibling caller', lambda: (s.process(DuplicateKernel(duplicate_kernels=('k',), duplicate_suffix='_d')), show(s))[1])
    s, _ = sched({'d.f90': sub('d', ['k'], [('m', 'k')]), 'm.f90': mod('m', [sub('k', ['l']), sub('l')])}, ['d'], ['d'])
    attempt('c25a subgraph with a sibling', lambda: (s.process(DuplicateKernel(duplicate_kernels=('k',), duplicate_suffix='_d', duplicate_subgraph=True)), show(s))[1])
if on('c25b'):   # plain seed in the module that is cloned
    s, _ = sched({'m.f90': mod('m', [sub('s'), sub('k')]), 'd.f90': sub('d', ['k'], [('m', 'k')])}, ['d', 's'], ['d'])
    attempt('c25b', lambda: (s.process(DuplicateKernel(duplicate_kernels=('k',), duplicate_suffix='_d')), show(s))[1])
if on('c25c'):   # bystander in a driver module, module-level import
    s, root = sched({'m.f90': "module m\n  use n, only: k\ncontains\n" + sub('d', ['k']) + sub('u', ['k']) + "end module m\n", 'n.f90': mod('n', [sub('k')])}, ['m#d'], ['d'])
    def f():
        s.process(DependencyTransformation(suffix='_x'))
        out = root.parent/'out'; shutil.rmtree(out, ignore_errors=True); out.mkdir(); s.build_args['output_dir'] = out
        s.process(FileWriteTransformation())
        return show(s), re.findall(r'(?:USE|CALL) .*', (out/'m.idem.f90').read_text())
    attempt('c25c', f)
if on('c25d'):   # module variable import + dep + file write with module items
    s, root = sched({'d.f90': sub('d', ['k'], [('m', 'k'), ('m', 'v')]), 'm.f90': mod('m', [sub('k')], ['v'])}, ['d'], ['d'])
    def f():
        s.process(DependencyTransformation(suffix='_x'))
        out = root.parent/'out'; shutil.rmtree(out, ignore_errors=True); out.mkdir(); s.build_args['output_dir'] = out
        s.process(FileWriteTransformation(include_module_var_imports=True))
        return show(s), sorted(p.name for p in out.glob('*')), re.findall(r'MODULE \w+', (out/'m.idem.f90').read_text())
    attempt('c25d', f)
if on('c25e'):   # recursive driver
    s, _ = sched({'d.f90': "recursive " + sub('d', []).replace('  a = a + 1\n', '  a = a + 1\n  if (a < 0) call d(a)\n')}, ['d'], ['d'])
    attempt('c25e', lambda: (s.process(DependencyTransformation(suffix='_x')), show(s))[1])
if on('c25f'):   # two units in the file of a duplicated kernel
    s, _ = sched({'d.f90': sub('d', ['k'], [('m', 'k'), ('v', 'w')]), 'mv.f90': mod('m', [sub('k')]) + "module v\n  integer :: w = 1\nend module v\n"}, ['d'], ['d'])
    def f():
        s.process(DuplicateKernel(duplicate_kernels=('k',), duplicate_suffix='_d'))
        return show(s), [(k, [m.name for m in i.source.modules]) for k, i in s.item_factory.item_cache.items() if k.endswith('.f90')]
    attempt('c25f', f)
if on('c25g'):   # wrap: unused free routine in a wrapped file keeps a stale cache entry
    s, _ = sched({'d.f90': sub('d', ['k'], ifaces=['k']), 'ku.f90': sub('k') + sub('u')}, ['d'], ['d'])
    def f():
        s.process(ModuleWrapTransformation(module_suffix='_mod'))
        it = s.item_factory.item_cache['#u']
        return show(s), it.name, it.ir.parent.name if it.ir is not None and it.ir.parent is not None else None
    attempt('c25g', f)
if on('c25h'):   # wrap of two routines of one file, the first calls the second: module used before its definition
    s, root = sched({'d.f90': sub('d', ['a1'], ifaces=['a1']), 'ab.f90': sub('a1', ['b1'], ifaces=['b1']) + sub('b1')}, ['d'], ['d'])
    def f():
        s.process(ModuleWrapTransformation(module_suffix='_mod'))
        out = root.parent/'out'; shutil.rmtree(out, ignore_errors=True); out.mkdir(); s.build_args['output_dir'] = out
        s.process(FileWriteTransformation())
        return re.findall(r'^(?:MODULE|  *USE) .*', (out/'ab.idem.f90').read_text(), flags=re.M)
    attempt('c25h', f)
if on('c25i'):   # dup then wrap: the duplicated call has no interface block
    s, _ = sched({'d.f90': sub('d', ['k'], ifaces=['k']), 'k.f90': sub('k')}, ['d'], ['d'])
    def f():
        s.process(DuplicateKernel(duplicate_kernels=('k',), duplicate_suffix='_d'))
        s.process(ModuleWrapTransformation(module_suffix='_mod'))
        return show(s)
    attempt('c25i', f)
if on('c25j'):   # rm leaves the interface block; wrap turns it into a USE of a module that is never written
    s, root = sched({'d.f90': sub('d', ['k'], ifaces=['k']), 'k.f90': sub('k')}, ['d'], ['d'])
    def f():
        s.process(RemoveKernel(remove_kernels=('k',)))
        g1 = show(s)
        s.process(ModuleWrapTransformation(module_suffix='_mod'))
        out = root.parent/'out'; shutil.rmtree(out, ignore_errors=True); out.mkdir(); s.build_args['output_dir'] = out
        s.process(FileWriteTransformation())
        return g1, show(s), sorted(p.name for p in out.glob('*')), re.findall(r'USE .*', (out/'d.idem.f90').read_text())
    attempt('c25j', f)
if on('c25k'):   # dup with subgraph and a module-level import
    s, _ = sched({'d.f90': sub('d', ['k'], [('m', 'k')]), 'm.f90': "module m\n  use n, only: l\ncontains\n" + sub('k', ['l']) + "end module m\n", 'n.f90': mod('n', [sub('l')])}, ['d'], ['d'])
    def f():
        s.process(DuplicateKernel(duplicate_kernels=('k',), duplicate_suffix='_d', duplicate_subgraph=True))
        r = s['m_d#k_d'].ir
        return show(s), [str(c.name) for c in FindNodes(ir.CallStatement).visit(r.body)], [(str(i.module), [str(x) for x in i.symbols]) for i in r.parent.imports]
    attempt('c25k', f)
if on('c25l'):   # dup then dep: the interface declaration shared by the routine and its clone is renamed twice
    s, _ = sched({'d.f90': sub('d', ['k'], ifaces=['k']), 'k.f90': sub('k', ['l'], ifaces=['l']), 'l.f90': sub('l')}, ['d'], ['d'])
    def f():
        s.process(DuplicateKernel(duplicate_kernels=('k',), duplicate_suffix='_d'))
        s.process(DependencyTransformation(suffix='_x'))
        return show(s)
    attempt('c25l', f)
if on('c25m'):   # wrap: the interface of a routine that is NOT wrapped (its file also holds a driver) is replaced by a USE
    s, _ = sched({'du.f90': sub('d', ['u'], ifaces=['u']) + sub('u')}, ['d'], ['d'])
    def f():
        s.process(ModuleWrapTransformation(module_suffix='_mod'))
        return [(i.name, type(i).__name__) for i in s.items]
    attempt('c25m', f)
if on('c24a'):   # plan vs convert: dep before a name-valued rm
    res = {}
    for strategy in (ProcessingStrategy.PLAN, ProcessingStrategy.DEFAULT):
        s, root = sched({'d.f90': sub('d', ['k']), 'k.f90': sub('k')}, ['d'], ['d'])
        out = root.parent/'out'; shutil.rmtree(out, ignore_errors=True); out.mkdir(); s.build_args['output_dir'] = out
        for t in (DependencyTransformation(suffix='_x'), RemoveKernel(remove_kernels=('k',)), FileWriteTransformation()):
            s.process(t, proc_strategy=strategy)
        if strategy == ProcessingStrategy.PLAN:
            s.write_cmake_plan(root.parent/'plan.cmake', rootpath=root)
            res['plan append'] = re.findall(r'(\w+\.idem\.f90)', (root.parent/'plan.cmake').read_text().split('APPEND')[1].split(')')[0])
        else:
            res['written'] = sorted(p.name for p in out.glob('*'))
    print('c24a', res)
if on('c24b'):   # duplicating a recursive kernel: plan passes, conversion raises
    for strategy in (ProcessingStrategy.PLAN, ProcessingStrategy.DEFAULT):
        s, _ = sched({'d.f90': sub('d', ['k']), 'k.f90': "recursive " + sub('k', []).replace('  a = a + 1\n', '  a = a + 1\n  if (a < 0) call k(a)\n')}, ['d'], ['d'])
        attempt(f'c24b {strategy.name}', lambda: (s.process(DuplicateKernel(duplicate_kernels=('k',), duplicate_suffix='_d'), proc_strategy=strategy), show(s))[1])
