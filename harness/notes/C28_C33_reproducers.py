"""Minimal reproducers of the Loki defects found by the C28 (inlining) and C33 (outlining / extraction)
behaviour checks.  Run:  cd /verif/.work && /venv/bin/python /verif/harness/notes/C28_C33_reproducers.py [ID ...]
Each case prints what Loki produces (or the exception it raises) for a few lines of legal Fortran."""
import sys
import traceback

from loki import Sourcefile
from loki.transformations.inline import (
    inline_marked_subroutines, inline_internal_procedures, inline_functions, inline_statement_functions,
    inline_constant_parameters)
from loki.transformations.extract import outline_pragma_regions, extract_internal_procedures

CASES = {}


def case(fn):
    CASES[fn.__name__] = fn
    return fn


def show(title, fn):
    print(f'=== {title}')
    try:
        print(fn())
    except Exception as ex:  # pylint: disable=broad-except
        tb = traceback.extract_tb(ex.__traceback__)[-1]
        print(f'RAISED {type(ex).__name__}: {str(ex)[:300]}   [{tb.filename.split("/repo/")[-1]}:{tb.lineno}]')


MARKED = '''
module m
contains
  subroutine caller(%(args)s)
    %(decls)s
    %(pre)s
    !$loki inline
    call callee(%(actuals)s)
    %(post)s
  end subroutine caller
  subroutine callee(%(dummies)s)
    %(cdecls)s
    %(cbody)s
  end subroutine callee
end module m
'''


def marked(**kw):
    kw.setdefault('pre', '')
    kw.setdefault('post', '')
    src = Sourcefile.from_source(MARKED % kw)
    inline_marked_subroutines(src['caller'])
    return src['caller'].to_fortran()


@case
def C28_return():
    """RETURN in an inlined callee returns from the caller: `k = 99` is skipped for s > 0."""
    return marked(args='s, k', decls='integer, intent(in) :: s\n    integer, intent(out) :: k', actuals='s, k', post='k = 99',
                  dummies='s, r', cdecls='integer, intent(in) :: s\n    integer, intent(out) :: r',
                  cbody='r = 0\n    if (s > 0) return\n    r = 1')


@case
def C28_expr_actual():
    """An expression actual is substituted textually: after `r = 0` the dummy s = k+1 is re-evaluated with the new k."""
    return marked(args='k', decls='integer, intent(inout) :: k', actuals='k + 1, k',
                  dummies='s, r', cdecls='integer, intent(in) :: s\n    integer, intent(out) :: r', cbody='r = 0\n    r = r + s')


@case
def C28_dummy_in_own_actual():
    """The actual mentions a caller variable that is named like the dummy (call callee(n + 1), dummy n): RecursionError."""
    return marked(args='n, k', decls='integer, intent(in) :: n\n    integer, intent(out) :: k', actuals='n + 1, k',
                  dummies='n, r', cdecls='integer, intent(in) :: n\n    integer, intent(out) :: r', cbody='r = 2*n')


@case
def C28_name_capture():
    """Caller variable named like another dummy: n -> k + 1 is rewritten again by k -> j, giving j = 2*(j + 1)."""
    return marked(args='k, j', decls='integer, intent(in) :: k\n    integer, intent(out) :: j', actuals='k + 1, j',
                  dummies='n, k', cdecls='integer, intent(in) :: n\n    integer, intent(out) :: k', cbody='k = 2*n')


@case
def C28_section_stride():
    """Dummy a(-1:3) for actual ia(0:4): the stride of a(1:3:2) is lost (ia(2:4) instead of ia(2:4:2))."""
    return marked(args='ia', decls='integer, intent(inout) :: ia(0:4)', actuals='ia',
                  dummies='a', cdecls='integer, intent(inout) :: a(-1:3)', cbody='a(1:3:2) = 7')


@case
def C28_section_open_bound():
    """Dummy a(-1:3) for actual ia(0:4): a(:1) becomes the invalid subscript ia(1 + (:1))."""
    return marked(args='ia', decls='integer, intent(inout) :: ia(0:4)', actuals='ia',
                  dummies='a', cdecls='integer, intent(inout) :: a(-1:3)', cbody='a(:1) = 7')


@case
def C28_optional_absent():
    """Omitted OPTIONAL argument: PRESENT(o) becomes .false. but the dummy stays referenced (undeclared) in the dead branch."""
    return marked(args='k', decls='integer, intent(inout) :: k', actuals='k',
                  dummies='r, o', cdecls='integer, intent(inout) :: r\n    integer, intent(in), optional :: o',
                  cbody='if (present(o)) then\n      r = r + o\n    end if')


@case
def C28_call_in_one_line_if():
    """`IF (c) CALL inner(k)`: the inlined body is placed inside the one-line IF."""
    src = Sourcefile.from_source('''
subroutine caller(n, k)
  integer, intent(in) :: n
  integer, intent(inout) :: k
  if (n > 0) call inner(k)
contains
  subroutine inner(r)
    integer, intent(inout) :: r
    r = r + 1
    r = 2*r
  end subroutine inner
end subroutine caller
''')
    inline_internal_procedures(src['caller'])
    return src['caller'].to_fortran()


@case
def C28_array_dummy_case():
    """Array dummy `a` referenced as `A(1)`: the occurrence with the other spelling is not substituted (v.name == arg.name)."""
    return marked(args='ia', decls='integer, intent(inout) :: ia(0:4)', actuals='ia',
                  dummies='a', cdecls='integer, intent(inout) :: a(0:4)', cbody='A(1) = a(2) + 1')


@case
def C28_print_in_callee():
    """PRINT / WRITE are opaque Intrinsic nodes: dummies and renamed locals inside them are not rewritten."""
    return marked(args='k', decls='integer, intent(inout) :: k\n    integer :: t', actuals='k',
                  dummies='r', cdecls='integer, intent(inout) :: r\n    integer :: t', cbody='t = r + 1\n    print *, t, r')


@case
def C28_nested_subscript():
    """A dummy array inside a compound subscript of a dummy array stays unsubstituted: ia(1 + a(-1 + k))."""
    return marked(args='ia, k', decls='integer, intent(inout) :: ia(0:4)\n    integer, intent(in) :: k', actuals='ia, k',
                  dummies='a, s', cdecls='integer, intent(inout) :: a(0:4)\n    integer, intent(in) :: s', cbody='a(a(s - 1) + 1) = 4')


@case
def C28_sibling_not_imported():
    """The inlined body calls another procedure of the callee's module; the caller's import is not extended."""
    hm = Sourcefile.from_source('''
module hm
contains
  subroutine h1(r)
    integer, intent(inout) :: r
    r = r + 1
  end subroutine h1
  subroutine h2(r)
    integer, intent(inout) :: r
    call h1(r)
  end subroutine h2
end module hm
''')
    src = Sourcefile.from_source('''
module m
contains
  subroutine caller(k)
    use hm, only: h2
    integer, intent(inout) :: k
    !$loki inline
    call h2(k)
  end subroutine caller
end module m
''', definitions=hm.modules)
    inline_marked_subroutines(src['caller'])
    return src['caller'].to_fortran()


FUNS = '''
module m
contains
  function f(u) result(rf)
    integer, intent(in) :: u
    integer :: rf
    rf = u + 1
  end function f
%s
  subroutine caller(n, k)
    integer, intent(in) :: n
    integer, intent(inout) :: k
    integer :: w
    %s
  end subroutine caller
end module m
'''
G = '''  function g(u) result(rf)
    integer, intent(in) :: u
    integer :: rf
    rf = 2*f(u)
  end function g
'''


def funs(body, **kw):
    src = Sourcefile.from_source(FUNS % (G if kw.get('g') else '', body))
    if kw.get('all'):
        inline_functions(src['caller'])
    elif kw.get('g'):
        inline_functions(src['g'], functions=(src['f'],))
        inline_functions(src['caller'], functions=(src['g'],))
    else:
        inline_functions(src['caller'], functions=(src['f'],))
    return src['caller'].to_fortran()


@case
def C28_functions_intrinsic():
    """inline_functions(routine) with the default functions=None: AssertionError as soon as an intrinsic is referenced."""
    return funs('k = f(n) + mod(k, 3)', all=True)


@case
def C28_function_elseif():
    """Function reference in an ELSE IF condition: pydantic ValidationError (Conditional with has_elseif)."""
    return funs('if (n > 3) then\n      k = 1\n    else if (f(n) > 2) then\n      k = 2\n    end if')


@case
def C28_function_while():
    """Function reference in a DO WHILE condition is evaluated once, before the loop."""
    return funs('w = 0\n    do while (f(w) < 3)\n      w = w + 1\n    end do\n    k = w')


@case
def C28_function_inline_if():
    """Function reference in the statement of a one-line IF: the inlined body lands inside the one-line IF."""
    return funs('if (n > 0) k = f(n)')


@case
def C28_function_result_clash():
    """Two functions with the same RESULT name (rf): both become `result_rf` in the caller (g = 2*f(u) is lost)."""
    return funs('k = g(n)', g=True)


@case
def C28_function_in_print():
    """A function referenced in PRINT is not inlined although inline_internal_procedures removes the function."""
    src = Sourcefile.from_source('''
subroutine caller(n)
  integer, intent(in) :: n
  print *, fi(n)
contains
  function fi(u) result(rf)
    integer, intent(in) :: u
    integer :: rf
    rf = u + 1
  end function fi
end subroutine caller
''')
    inline_internal_procedures(src['caller'])
    return src['caller'].to_fortran()


STMT = '''
subroutine caller(n, k)
  integer, intent(in) :: n
  integer, intent(out) :: k
  integer :: sa, sf
  %s
end subroutine caller
'''


@case
def C28_stmtfunc_bare_rhs():
    """Statement function whose right-hand side is a single variable: AttributeError 'InlineCall' has no 'scope'."""
    src = Sourcefile.from_source(STMT % 'sf(sa) = sa\n  k = sf(n)')
    inline_statement_functions(src['caller'])
    return src['caller'].to_fortran()


@case
def C28_stmtfunc_with_function():
    """inline_statement_functions also tries to inline ordinary functions referenced nearby (RESULT clause: IndexError;
    several statements: only the last assignment survives)."""
    fm = Sourcefile.from_source('''
module fm
contains
  function f(u) result(rf)
    integer, intent(in) :: u
    integer :: rf
    rf = u + 1
  end function f
end module fm
''')
    src = Sourcefile.from_source('''
subroutine caller(n, k)
  use fm, only: f
  integer, intent(in) :: n
  integer, intent(out) :: k
  integer :: sa, sf
  sf(sa) = sa*2 + 1
  k = sf(f(n))
end subroutine caller
''', definitions=fm.modules)
    inline_statement_functions(src['caller'])
    return src['caller'].to_fortran()


CONST = '''
module cm
  integer, parameter :: jprb = selected_real_kind(13, 300)
  integer, parameter :: c1 = 3
  integer, parameter :: c2 = c1 + 2
end module cm
'''


def consts(body, imports, extra=''):
    cm = Sourcefile.from_source(CONST)
    src = Sourcefile.from_source(f'''
subroutine caller(k, x)
  use cm, only: {imports}
  integer, intent(out) :: k
  real(kind=8), intent(out) :: x
  {body}
{extra}
end subroutine caller
''', definitions=cm.modules)
    inline_constant_parameters(src['caller'], external_only=True)
    return src['caller'].to_fortran()


@case
def C28_const_kind_function():
    """A kind parameter defined by SELECTED_REAL_KIND is pasted into literals: 1.0_SELECTED_REAL_KIND(13, 300)."""
    return consts('x = 1.0_jprb\n  k = 0', 'jprb')


@case
def C28_const_dependent():
    """c2 = c1 + 2 is replaced by `c1 + 2` while the import of c1 is dropped."""
    return consts('k = c2\n  x = 0.', 'c2')


@case
def C28_const_in_internal():
    """Constants referenced in internal procedures are not replaced, but the import is removed."""
    return consts('k = 0\n  x = 0.\n  call inner(k)', 'c1', 'contains\n  subroutine inner(r)\n    integer, intent(out) :: r\n    r = c1\n  end subroutine inner')


@case
def C28_const_in_print():
    """Constants inside PRINT are not replaced, but the import is removed."""
    return consts('k = c1\n  x = 0.\n  print *, c1', 'c1')


OUTLINE = '''
module m
contains
  subroutine caller(n, ia, k)
    integer, intent(in) :: n
    integer, intent(inout) :: ia(0:4)
    integer, intent(out) :: k
    integer :: t
    %s
  end subroutine caller
end module m
'''


def outline(body):
    src = Sourcefile.from_source(OUTLINE % body)
    new = outline_pragma_regions(src['caller'])
    src['m'].contains.append(new)
    return src['m'].to_fortran()


@case
def C33_outline_array_option():
    """An array named in in()/inout()/out() appears twice in the dummy list: SUBROUTINE caller_outlined_0 (ia, ia)."""
    return outline('k = 0\n    !$loki outline inout(ia)\n    ia(1) = ia(2) + n\n    !$loki end outline')


@case
def C33_outline_print_array():
    """An array element that occurs only inside PRINT in the region is declared as a procedure / scalar dummy."""
    return outline('k = 0\n    !$loki outline\n    print *, ia(1)\n    k = 1\n    !$loki end outline')


@case
def C33_outline_associate_expr():
    """Region inside ASSOCIATE: the associate name is passed to the new routine without a type (INTENT(IN) :: z)."""
    return outline('k = 0\n    associate (z => n + 1)\n    !$loki outline\n    k = z\n    !$loki end outline\n    end associate')


EXTRACT = '''
module m
  integer, parameter :: c1 = 3
contains
  subroutine caller(n, ia, k)
    integer, intent(in) :: n
    integer, intent(inout) :: ia(0:4)
    integer, intent(out) :: k
    integer, parameter :: c3 = 2
    k = 0
    call inner(k)
  contains
    subroutine inner(r)
      integer, intent(inout) :: r
      %s
    end subroutine inner
  end subroutine caller
end module m
'''


def extract(body):
    src = Sourcefile.from_source(EXTRACT % body)
    new = extract_internal_procedures(src['caller'])
    src['m'].contains.append(new)
    return src['m'].to_fortran()


@case
def C33_extract_host_array_twice():
    """A host array referenced with two different subscripts becomes two dummies (and two keyword arguments)."""
    return extract('r = ia(1) + ia(2)')


@case
def C33_extract_host_parameter():
    """A PARAMETER of the host becomes a dummy argument with the PARAMETER attribute."""
    return extract('r = n + c3')


if __name__ == '__main__':
    want = sys.argv[1:] or list(CASES)
    for name in want:
        show(f"{name}: {CASES[name].__doc__.strip()}", CASES[name])
