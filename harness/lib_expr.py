"""Expression plumbing shared by C06-C11, FMachine drivers:
   build()   : spec tree (JSON, FExpr format)  -> real Loki expression
   export()  : real Loki expression            -> spec tree (independent structural recursion)
   lex()     : Fortran expression text         -> token list for spec/FParse.tla
   generators of trees over the spec's alphabet.
Nothing here evaluates or judges an expression: that is done by TLC on spec/FExpr.tla."""
import re
from fractions import Fraction

from .core import MachineryError

LIMIT = 30000


# ------------------------------------------------------------------ build: spec tree -> Loki
def build(t, typing='int', scope=None):
    from loki.expression import symbols as sym
    from loki.expression import operations as ops
    from loki.types import SymbolAttributes, BasicType
    k = t['k']
    rec = lambda x: build(x, typing, scope)  # noqa: E731
    if k == 'int':
        if t.get('raw'):
            return int(t['v'])          # a bare python constant (the -1 of a flattened negation)
        return sym.IntLiteral(t['v']) if t['v'] >= 0 else sym.Product((-1, sym.IntLiteral(-t['v'])))
    if k == 'rawint':       # an IntLiteral holding the (possibly negative) value itself
        return sym.IntLiteral(t['v'])
    if k == 'real':
        f = Fraction(t['n'], t['d'])
        s = _frac_to_literal(abs(f))
        lit = sym.FloatLiteral(s)
        return lit if f >= 0 else sym.Product((-1, lit))
    if k == 'log':
        return sym.LogicLiteral(bool(t['v']))
    if k == 'var':
        dtype = BasicType.INTEGER if typing == 'int' else BasicType.REAL
        if t['name'] in ('p', 'q'):
            dtype = BasicType.LOGICAL
        return sym.Variable(name=t['name'], type=SymbolAttributes(dtype), scope=scope)
    if k == 'arr':
        dtype = BasicType.INTEGER if typing == 'int' else BasicType.REAL
        dims = tuple(rec(c) for c in t['c'])
        return sym.Variable(name=t['name'], type=SymbolAttributes(dtype, shape=tuple(sym.IntLiteral(9) for _ in dims)),
                            dimensions=dims, scope=scope)
    if k == 'sum':
        return sym.Sum(tuple(rec(c) for c in t['c']))
    if k == 'prod':
        return sym.Product(tuple(rec(c) for c in t['c']))
    if k == 'quot':
        return sym.Quotient(rec(t['c'][0]), rec(t['c'][1]))
    if k == 'pow':
        return sym.Power(rec(t['c'][0]), rec(t['c'][1]))
    if k == 'neg':
        return sym.Product((-1, rec(t['c'][0])))
    if k == 'par':
        inner = t['c'][0]
        ik = inner['k']
        if ik == 'sum':
            return ops.ParenthesisedAdd(tuple(rec(c) for c in inner['c']))
        if ik == 'prod':
            return ops.ParenthesisedMul(tuple(rec(c) for c in inner['c']))
        if ik == 'neg':
            return ops.ParenthesisedMul((-1, rec(inner['c'][0])))
        if ik == 'quot':
            return ops.ParenthesisedDiv(rec(inner['c'][0]), rec(inner['c'][1]))
        if ik == 'pow':
            return ops.ParenthesisedPow(rec(inner['c'][0]), rec(inner['c'][1]))
        return rec(inner)
    if k == 'cmp':
        op = {'/=': '!='}.get(t['op'], t['op'])
        return sym.Comparison(rec(t['c'][0]), op, rec(t['c'][1]))
    if k == 'and':
        return sym.LogicalAnd(tuple(rec(c) for c in t['c']))
    if k == 'or':
        return sym.LogicalOr(tuple(rec(c) for c in t['c']))
    if k == 'not':
        return sym.LogicalNot(rec(t['c'][0]))
    if k == 'call':
        fn = sym.ProcedureSymbol(t['f'].upper() if t.get('upper') else t['f'], scope=scope)
        return sym.InlineCall(fn, parameters=tuple(rec(c) for c in t['c']))
    raise MachineryError(f'build: unknown kind {k}')


def _frac_to_literal(f):
    """Decimal literal text for a non-negative dyadic/decimal rational (exactly representable)."""
    if f.denominator == 1:
        return f'{f.numerator}.0'
    d = f.denominator
    k = 0
    while d % 2 == 0:
        d //= 2
        k += 1
    m = 0
    while d % 5 == 0:
        d //= 5
        m += 1
    if d != 1:
        raise MachineryError(f'real literal {f} has no finite decimal expansion')
    digits = max(k, m)
    scaled = f * 10 ** digits
    s = str(scaled.numerator).rjust(digits + 1, '0')
    return s[:-digits] + '.' + s[-digits:]


# ------------------------------------------------------------------ export: Loki -> spec tree
class Unsupported(Exception):
    """The expression uses a node kind the specification does not model."""


def export(e):
    """Independent structural recursion over pymbolic node attributes (no Loki mappers involved)."""
    import pymbolic.primitives as pmbl
    from loki.expression import symbols as sym
    from loki.expression import operations as ops
    if isinstance(e, bool):
        return {'k': 'log', 'v': e}
    if isinstance(e, int):
        return _int(e)
    if isinstance(e, float):
        return _real(Fraction(repr(e)))
    cls = type(e)
    par = cls in (ops.ParenthesisedAdd, ops.ParenthesisedMul, ops.ParenthesisedDiv, ops.ParenthesisedPow)

    def wrap(node):
        return {'k': 'par', 'c': [node]} if par else node
    if isinstance(e, sym.IntLiteral):
        return _int(e.value)
    if isinstance(e, sym.FloatLiteral):
        return _real(_parse_real(str(e.value)))
    if isinstance(e, sym.LogicLiteral):
        return {'k': 'log', 'v': bool(e.value)}
    if isinstance(e, pmbl.Sum):
        return wrap({'k': 'sum', 'c': [export(c) for c in e.children]})
    if isinstance(e, pmbl.Product):
        return wrap({'k': 'prod', 'c': [export(c) for c in e.children]})
    if isinstance(e, pmbl.Quotient):
        return wrap({'k': 'quot', 'c': [export(e.numerator), export(e.denominator)]})
    if isinstance(e, pmbl.Power):
        return wrap({'k': 'pow', 'c': [export(e.base), export(e.exponent)]})
    if isinstance(e, pmbl.Comparison):
        op = {'!=': '/='}.get(e.operator, e.operator)
        return {'k': 'cmp', 'op': op, 'c': [export(e.left), export(e.right)]}
    if isinstance(e, pmbl.LogicalAnd):
        return {'k': 'and', 'c': [export(c) for c in e.children]}
    if isinstance(e, pmbl.LogicalOr):
        return {'k': 'or', 'c': [export(c) for c in e.children]}
    if isinstance(e, pmbl.LogicalNot):
        return {'k': 'not', 'c': [export(e.child)]}
    if isinstance(e, sym.InlineCall):
        if e.kw_parameters:
            raise Unsupported('keyword arguments in inline call')
        return {'k': 'call', 'f': str(e.function.name).lower(), 'c': [export(c) for c in e.parameters]}
    if isinstance(e, sym.Array):
        name = _fullname(e)
        if e.dimensions:
            return {'k': 'arr', 'name': name, 'c': [export(c) for c in e.dimensions]}
        return {'k': 'var', 'name': name}
    if isinstance(e, (sym.Scalar, sym.DeferredTypeSymbol)):
        return {'k': 'var', 'name': _fullname(e)}
    if isinstance(e, sym.ProcedureSymbol):
        return {'k': 'var', 'name': _fullname(e)}
    raise Unsupported(f'{cls.__name__}')


def _fullname(e):
    return str(e.name).lower()


def _int(v):
    if abs(v) > LIMIT:
        raise Unsupported('integer magnitude beyond the model')
    return {'k': 'int', 'v': int(v)}


def _real(f):
    if abs(f.numerator) > LIMIT or f.denominator > LIMIT:
        raise Unsupported('real literal beyond the model')
    return {'k': 'real', 'n': f.numerator, 'd': f.denominator}


def _parse_real(s):
    s = s.lower().split('_')[0].replace('d', 'e')
    return Fraction(s)


# ------------------------------------------------------------------ lexer for FParse
_TOKEN = re.compile(r'''
   (?P<ws>\s+)
 | (?P<num>(?:\d+\.\d*|\.\d+|\d+)(?:[eEdD][+-]?\d+)?(?:_\w+)?)
 | (?P<dotop>\.[a-zA-Z]+\.)
 | (?P<id>[A-Za-z]\w*(?:%[A-Za-z]\w*)*)
 | (?P<op>\*\*|//|==|/=|<=|>=|<|>|\+|-|\*|/)
 | (?P<lp>\()
 | (?P<rp>\))
 | (?P<comma>,)
''', re.X)
_DOT = {'.eq.': '==', '.ne.': '/=', '.lt.': '<', '.le.': '<=', '.gt.': '>', '.ge.': '>='}


def lex(text):
    """Token records [t, s, n, d] for spec/FParse.tla. Raises Unsupported for lexemes outside the model."""
    toks = []
    pos = 0
    while pos < len(text):
        m = _TOKEN.match(text, pos)
        if not m:
            raise Unsupported(f'cannot lex {text[pos:pos+10]!r}')
        pos = m.end()
        k = m.lastgroup
        s = m.group(k)
        if k == 'ws':
            continue
        if k == 'num':
            body = s.split('_')[0]
            if re.fullmatch(r'\d+', body):
                v = int(body)
                if v > LIMIT:
                    raise Unsupported('integer literal beyond the model')
                toks.append({'t': 'int', 's': s, 'n': v, 'd': 1})
            else:
                f = Fraction(body.lower().replace('d', 'e'))
                if abs(f.numerator) > LIMIT or f.denominator > LIMIT:
                    raise Unsupported('real literal beyond the model')
                toks.append({'t': 'real', 's': s, 'n': f.numerator, 'd': f.denominator})
        elif k == 'dotop':
            low = s.lower()
            if low in ('.true.', '.false.'):
                toks.append({'t': 'log', 's': low, 'n': 1 if low == '.true.' else 0, 'd': 1})
            elif low in _DOT:
                toks.append({'t': 'op', 's': _DOT[low], 'n': 0, 'd': 1})
            elif low in ('.and.', '.or.', '.not.', '.eqv.', '.neqv.'):
                toks.append({'t': 'op', 's': low, 'n': 0, 'd': 1})
            else:
                raise Unsupported(f'operator {s}')
        elif k == 'id':
            toks.append({'t': 'id', 's': s.lower(), 'n': 0, 'd': 1})
        elif k == 'op':
            toks.append({'t': 'op', 's': s, 'n': 0, 'd': 1})
        else:
            toks.append({'t': k, 's': s, 'n': 0, 'd': 1})
    return toks


# ------------------------------------------------------------------ tree helpers / generators
def V(name):
    return {'k': 'var', 'name': name}


def N(v):
    return {'k': 'int', 'v': v}


def show(t):
    """Compact prefix rendering of a spec tree (for samples and keys)."""
    k = t['k']
    if k == 'int':
        return str(t['v'])
    if k == 'rawint':
        return f"lit({t['v']})"
    if k == 'real':
        return f"{t['n']}/{t['d']}" if t['d'] != 1 else f"{t['n']}."
    if k == 'log':
        return 'T' if t['v'] else 'F'
    if k == 'var':
        return t['name']
    if k == 'cmp':
        return f"cmp[{t['op']}]({', '.join(show(c) for c in t['c'])})"
    if k == 'call':
        return f"{t['f']}({', '.join(show(c) for c in t['c'])})"
    if k == 'arr':
        return f"{t['name']}[{', '.join(show(c) for c in t['c'])}]"
    return f"{k}({', '.join(show(c) for c in t['c'])})"


def shape(t):
    """Abstract shape: names -> x, literals -> n (used for normal-form keys)."""
    k = t['k']
    if k in ('int', 'rawint'):
        return 'n' if t['v'] >= 0 else '-n'
    if k == 'real':
        return 'r'
    if k == 'log':
        return 'l'
    if k == 'var':
        return 'x'
    if k == 'cmp':
        return f"cmp({', '.join(shape(c) for c in t['c'])})"
    if k == 'call':
        return f"{t['f']}({', '.join(shape(c) for c in t['c'])})"
    if k == 'arr':
        return f"arr[{', '.join(shape(c) for c in t['c'])}]"
    return f"{k}({', '.join(shape(c) for c in t['c'])})"


def size(t):
    return 1 + sum(size(c) for c in t.get('c', []))


def subtrees(t, path=()):
    yield path, t
    for i, c in enumerate(t.get('c', [])):
        yield from subtrees(c, path + (i,))


def replace_at(t, path, new):
    if not path:
        return new
    t = dict(t)
    t['c'] = list(t['c'])
    t['c'][path[0]] = replace_at(t['c'][path[0]], path[1:], new)
    return t


def shrink(t, still_fails, budget=60):
    """Greedy structural shrinking: replace a node by one of its children or by a leaf while the
    predicate (a re-run of the check on the candidate) keeps failing. Deterministic."""
    changed = True
    while changed and budget > 0:
        changed = False
        for path, sub in list(subtrees(t)):
            cands = list(sub.get('c', []))
            if sub['k'] not in ('var', 'int'):
                cands += [V('a'), N(2)]
            for cand in cands:
                if size(cand) >= size(sub):
                    continue
                t2 = replace_at(t, path, cand)
                budget -= 1
                if budget <= 0:
                    break
                try:
                    if still_fails(t2):
                        t = t2
                        changed = True
                        break
                except (Unsupported, MachineryError):
                    continue
            if changed or budget <= 0:
                break
    return t


def random_tree(rng, depth, leaves, ops=('sum', 'prod', 'quot', 'pow', 'neg', 'par'), logical=False):
    if depth == 0 or rng.random() < 0.15:
        return rng.choice(leaves)
    op = rng.choice(ops)
    sub = lambda: random_tree(rng, depth - 1, leaves, ops)  # noqa: E731
    if op in ('sum', 'prod'):
        n = 3 if rng.random() < 0.2 else 2
        cs = [sub() for _ in range(n)]
        if op == 'prod' and rng.random() < 0.15:
            cs = [{'k': 'int', 'v': -1, 'raw': True}] + cs     # flattened negation: Product((-1, x, y, ..))
        return {'k': op, 'c': cs}
    if op == 'quot':
        return {'k': 'quot', 'c': [sub(), sub()]}
    if op == 'pow':
        e = rng.choice([N(2), N(3), N(2), V('b'), sub()])
        return {'k': 'pow', 'c': [sub(), e]}
    if op == 'neg':
        return {'k': 'neg', 'c': [sub()]}
    inner = sub()
    if inner['k'] in ('sum', 'prod', 'quot', 'pow', 'neg'):
        return {'k': 'par', 'c': [inner]}
    return inner


def random_logical(rng, depth, leaves):
    """Logical tree: comparisons of arithmetic trees combined by and/or/not."""
    if depth == 0 or rng.random() < 0.3:
        op = rng.choice(['==', '/=', '<', '<=', '>', '>='])
        return {'k': 'cmp', 'op': op, 'c': [random_tree(rng, 1, leaves), random_tree(rng, 1, leaves)]}
    k = rng.choice(['and', 'or', 'not'])
    if k == 'not':
        return {'k': 'not', 'c': [random_logical(rng, depth - 1, leaves)]}
    return {'k': k, 'c': [random_logical(rng, depth - 1, leaves) for _ in range(rng.choice([2, 2, 3]))]}


def candidates(t):
    """All single-step reductions of a tree (replace one node by a child or by a leaf), smallest first."""
    out = []
    for path, sub in subtrees(t):
        cands = list(sub.get('c', []))
        if sub['k'] not in ('var', 'int'):
            cands += [V('a'), N(2)]
        for cand in cands:
            if size(cand) < size(sub):
                out.append(replace_at(t, path, cand))
    out.sort(key=size)
    return out


def batch_shrink(trees, fails_batch, rounds=8, width=40):
    """Shrink several failing trees at once. fails_batch(list_of_trees) -> list of bool (still failing?),
    evaluated in ONE batch per round (one TLC start per round instead of one per candidate)."""
    cur = list(trees)
    for _ in range(rounds):
        cands = [candidates(t)[:width] for t in cur]
        flat = [c for cs in cands for c in cs]
        if not flat:
            break
        res = fails_batch(flat)
        base = 0
        progressed = False
        for j, cs in enumerate(cands):
            for off, c in enumerate(cs):
                if res[base + off] and size(c) < size(cur[j]):
                    cur[j] = c
                    progressed = True
                    break
            base += len(cs)
        if not progressed:
            break
    return cur


def shape1(t):
    """One-level normal form: root kind with the kinds of its children (leaves: x / n / r / l)."""
    def kd(c):
        return {'var': 'x', 'int': 'n', 'rawint': 'n', 'real': 'r', 'log': 'l'}.get(c['k'], c['k'])
    if 'c' not in t:
        return kd(t)
    return f"{t['k']}({','.join(kd(c) for c in t['c'])})"


def realify(t):
    """The same tree with every integer literal turned into a real literal: evaluated under the real
    typing, every division is then exact. Used only to CLASSIFY a failure (is it explained by treating
    Fortran's truncating integer division as exact division?)."""
    if t['k'] in ('int', 'rawint'):
        return {'k': 'real', 'n': t['v'], 'd': 1}
    if 'c' in t:
        return dict(t, c=[realify(c) for c in t['c']])
    return t


def explicit_muldiv(text):
    """Re-write an expression text with explicit brackets around every left-associated `*` `/` chain
    ((a*b)/c)*d, leaving everything else as written. Used only to CLASSIFY a parse_expr failure
    (does it disappear once the association of * and / is spelled out?)."""
    toks = [t['s'] for t in lex(text)]
    pos = [0]

    def peek():
        return toks[pos[0]] if pos[0] < len(toks) else None

    def eat():
        pos[0] += 1
        return toks[pos[0] - 1]

    def primary():
        t = eat()
        if t == '(':
            inner = expr()
            eat()
            return '(' + inner + ')'
        if peek() == '(' and t not in ('+', '-', '*', '/', '**', ',', ')') and not t.startswith('.'):
            eat()
            args = []
            if peek() != ')':
                args.append(expr())
                while peek() == ',':
                    eat()
                    args.append(expr())
            eat()
            return t + '(' + ', '.join(args) + ')'
        return t

    def factor():
        if peek() in ('-', '+'):
            return eat() + factor()
        b = primary()
        if peek() == '**':
            eat()
            return b + '**' + factor()
        return b

    def term():
        left = factor()
        n = 0
        while peek() in ('*', '/'):
            op = eat()
            right = factor()
            left = ('(' + left + ')' if n else left) + ' ' + op + ' ' + right
            n += 1
        return left

    def expr():
        out = []
        while peek() is not None and peek() not in (')', ','):
            if peek() in ('+', '-') or peek() in ('==', '/=', '<', '<=', '>', '>=') or (peek().startswith('.') and peek().endswith('.') and peek() not in ('.true.', '.false.')):
                out.append(eat())
            else:
                out.append(term())
        return ' '.join(out)
    res = expr()
    if pos[0] != len(toks):
        raise Unsupported('explicit_muldiv: trailing tokens')
    return res


_CTOKEN = re.compile(r'''
   (?P<ws>\s+)
 | (?P<num>(?:\d+\.\d*|\.\d+|\d+)(?:[eE][+-]?\d+)?[fFlL]?)
 | (?P<id>[A-Za-z_]\w*)
 | (?P<op>&&|\|\||==|!=|<=|>=|<|>|\+|-|\*|/|!|%)
 | (?P<lp>\()
 | (?P<rp>\))
 | (?P<comma>,)
''', re.X)
_CMAP = {'&&': '.and.', '||': '.or.', '!': '.cnot.', '!=': '/='}


def clex(text):
    """C expression text (the operator subset cgen emits) -> the token vocabulary of spec/FParse.tla:
    && || ! != are mapped to their Fortran spellings, pow(x, y) stays a function reference (FExpr knows
    `pow` as the C library function: real result). `%` and casts are outside the model."""
    toks = []
    pos = 0
    while pos < len(text):
        m = _CTOKEN.match(text, pos)
        if not m:
            raise Unsupported(f'cannot lex C text {text[pos:pos+10]!r}')
        pos = m.end()
        k, s = m.lastgroup, m.group(m.lastgroup)
        if k == 'ws':
            continue
        if k == 'num':
            body = s.rstrip('fFlL')
            if re.fullmatch(r'\d+', body):
                toks.append({'t': 'int', 's': s, 'n': int(body), 'd': 1})
            else:
                f = Fraction(body)
                toks.append({'t': 'real', 's': s, 'n': f.numerator, 'd': f.denominator})
        elif k == 'op':
            if s == '%':
                raise Unsupported('C remainder operator')
            toks.append({'t': 'op', 's': _CMAP.get(s, s), 'n': 0, 'd': 1})
        elif k == 'id':
            toks.append({'t': 'id', 's': s, 'n': 0, 'd': 1})
        else:
            toks.append({'t': k, 's': s, 'n': 0, 'd': 1})
    return toks
