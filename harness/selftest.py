"""Harness self-tests run by setup.sh (no TLC, no Loki): value parser round trip."""
from . import tlaval
v = tlaval.parse('<<"V", 2, TRUE, [k |-> "none", s |-> {1, 2}], (1 :> "a" @@ 2 :> "b"), -3>>')
assert v == ['V', 2, True, {'k': 'none', 's': [1, 2]}, {1: 'a', 2: 'b'}, -3], v
assert tlaval.parse(tlaval.to_tla(['a', 1, True, {'x': [1, 2]}])) == ['a', 1, True, {'x': [1, 2]}]
print('harness selftest ok')
