"""C43 plumbing: programs with violations of the two fixable lint rules, line lexer, lint runner.

* LintGen        lib_fm.Gen programs + (a) old-style relational operators (`cmp` nodes carry a spelling `sp`),
                 (b) helper routines with dynamic UBOUND checks on assumed-shape dummies, (c) comments / string
                 literals that contain the same spellings (raw statements: no-ops for the machine).
* render_parts   program -> (wrapper lines before, lint-visible lines + marks, wrapper lines after).
                 layout 'module': the whole file (module kmod) is handed to the linter;
                 layout 'free'  : only the routines (free-standing subroutines) are handed to the linter, the
                                  harness-owned module wrapper around them is added back for compilation.
* lex_line       physical line -> tokens [k, t, f]  (pure tokenisation, no judgement)
* run_lint       real `Linter.check` + `Linter.fix` (as lint_rules/tests/conftest.py does) + re-lint of the file
The verdicts are computed by TLC (spec/LintFix.tla, Trace_LintFix) and spec/FMachine.tla."""
import copy
import os
import re

from . import lib_fm as F
from .lib_fm import V, N, op, call, el, cmp_, assign, decl, unit, NONE

ASSUMED = {'k': 'assumed'}
OLD = {'<': '.lt.', '<=': '.le.', '>': '.gt.', '>=': '.ge.', '==': '.eq.', '/=': '.ne.'}
RULES = ('Fortran90OperatorsRule', 'DynamicUboundCheckRule')
PROFILES = ('none', 'ops', 'opsU', 'ub', 'ops+ub')
LAYOUTS = ('free', 'module')


# ----------------------------------------------------------------------------- lexer (projection only)
_TOK = re.compile(r"""
   (?P<ws>[ \t]+)
 | (?P<cmt>!.*$)
 | (?P<str>'(?:[^']|'')*'|"(?:[^"]|"")*")
 | (?P<num>\d+(?:\.(?![A-Za-z]+\.)\d*)?(?:[eEdD][+-]?\d+)?(?:_\w+)?|\.\d+(?:[eEdD][+-]?\d+)?(?:_\w+)?)
 | (?P<dot>\.[A-Za-z]+\.)
 | (?P<id>[A-Za-z_]\w*)
 | (?P<sym>==|/=|<=|>=|=>|::|\*\*|//|.)
""", re.X)


def lex_line(raw):
    toks = []
    for m in _TOK.finditer(raw):
        k = m.lastgroup
        if k == 'ws':
            continue
        t = m.group()
        if k == 'cmt':
            t = t.rstrip()
        toks.append({'k': k, 't': t, 'f': t.lower() if k in ('id', 'dot', 'num') else t})
    return toks


def line_records(text):
    """Text -> list of line records (raw + tokens). A final newline does not open a further line."""
    lines = text.split('\n')
    if lines and lines[-1] == '':
        lines.pop()
    return [{'raw': ln, 'toks': lex_line(ln)} for ln in lines]


# ----------------------------------------------------------------------------- generator
def _walk_json(o):
    if isinstance(o, dict):
        yield o
        for v in o.values():
            yield from _walk_json(v)
    elif isinstance(o, list):
        for v in o:
            yield from _walk_json(v)


def _blocks(ss):
    """All statement lists (blocks) below ss, including ss."""
    yield ss
    for s in ss:
        for key in ('body', 'els', 'default'):
            if isinstance(s.get(key), list) and s[key]:
                yield from _blocks(s[key])
        for b in s.get('bodies', []):
            yield from _blocks(b)
        for c in s.get('cases', []):
            yield from _blocks(c['body'])


def xdecl(name, ty, intent, rank):
    d = decl(name, ty, intent, [(1, 1)] * rank)
    d['xdims'] = [[NONE, ASSUMED] for _ in range(rank)]
    return d


class LintGen(F.Gen):
    FEATURES = ('select', 'while', 'call', 'exitcycle', 'fcall', 'twod', 'section')

    def __init__(self, rng, profile, layout, features=FEATURES):
        super().__init__(rng, features)
        self.profile = profile
        self.layout = layout

    # ---- dynamic UBOUND checks of the documented form (lint_rules/tests/test_debug_rules.py)
    def ub_check(self, arr, dims, bounds, style):
        """IF construct whose condition compares ubound(arr, d) with the expected extent for every d in dims."""
        rng = self.rng
        conds = []
        for d in dims:
            u = call('ubound', V(arr), N(d))
            conds.append(cmp_('<', u, V(bounds[d])) if rng.random() < 0.5 else cmp_('>', V(bounds[d]), u))
        c = conds[0] if len(conds) == 1 else op(style, *conds)
        body = [assign(V('r'), N(-1)), {'s': 'return'}] if rng.random() < 0.6 else [{'s': 'print', 'items': [N(-1)]}]
        return {'s': 'if', 'conds': [c], 'bodies': [body], 'els': [],
                'ubchk': {'arr': arr, 'dims': list(dims), 'bounds': {str(d): bounds[d] for d in dims}}}

    def ub_units(self, whole):
        rng = self.rng
        units = []
        # ub1(nn, ua, r): 1-d assumed shape
        checks = [self.ub_check('ua', [1], {1: 'nn'}, 'and')]
        work = [assign(V('r'), N(0)),
                {'s': 'do', 'var': 'q', 'lo': N(1), 'hi': V('nn'), 'st': NONE, 'body': [
                    assign(el('ua', V('q')), call('mod', op('sum', el('ua', V('q')), V('q')), N(11))),
                    assign(V('r'), op('sum', V('r'), el('ua', V('q'))))]}]
        if whole:
            work.append(assign(V('r'), op('sum', V('r'), call(rng.choice(['size', 'sum']), V('ua')))))
        units.append(unit('ub1', ['nn', 'ua', 'r'], [decl('nn', 'int', 'in'), xdecl('ua', 'int', 'inout', 1), decl('r', 'int', 'out'),
                                                   decl('q', 'int')], checks + work))
        # ub2(n1, n2, ub, r): 2-d assumed shape; the two extents are checked in one or in two IF constructs, or
        # (no violation of the rule: not every dimension is checked) only the first one
        if 'ib' in self.arrays:
            b = {1: 'n1', 2: 'n2'}
            shape = rng.choice(['two', 'two', 'and', 'or', 'partial'])
            if shape == 'two':
                checks = [self.ub_check('ux', [1], b, 'and'), self.ub_check('ux', [2], b, 'and')]
                if rng.random() < 0.5:
                    checks.reverse()
            elif shape == 'partial':
                checks = [self.ub_check('ux', [1], b, 'and')]
            else:
                checks = [self.ub_check('ux', [1, 2], b, shape)]
            work = [assign(V('r'), N(0)),
                    {'s': 'do', 'var': 'q', 'lo': N(1), 'hi': V('n2'), 'st': NONE, 'body': [
                        {'s': 'do', 'var': 'p', 'lo': N(1), 'hi': V('n1'), 'st': NONE, 'body': [
                            assign(el('ux', V('p'), V('q')), call('mod', op('sum', el('ux', V('p'), V('q')), V('p'), op('prod', N(2), V('q'))), N(13))),
                            assign(V('r'), op('sum', V('r'), el('ux', V('p'), V('q'))))]}]}]
            units.append(unit('ub2', ['n1', 'n2', 'ux', 'r'],
                              [decl('n1', 'int', 'in'), decl('n2', 'int', 'in'), xdecl('ux', 'int', 'inout', 2), decl('r', 'int', 'out'),
                               decl('p', 'int'), decl('q', 'int')], checks + work))
        return units

    def ub_calls(self, exact):
        rng = self.rng
        out = [{'s': 'call', 'name': 'ub1', 'args': [N(5 if exact else rng.choice([3, 4, 5])), V('ia'), V(rng.choice(['t1', 't2', 'k']))]}]
        if 'ib' in self.arrays:
            n1, n2 = (3, 3) if exact else (rng.choice([2, 3]), rng.choice([2, 3]))
            out.append({'s': 'call', 'name': 'ub2', 'args': [N(n1), N(n2), V('ib'), V(rng.choice(['t1', 't2', 'k']))]})
        return out

    # ---- comments and string literals that contain the operator spellings
    def decorations(self, old):
        rng = self.rng
        eq = rng.choice(['.eq.', '.EQ.', '.Eq.'] if self.profile == 'opsU' else ['.eq.']) if old else '=='
        pool = ['! x .GT. y', '! if (a .lt. b) then', '!a.ne.b .or. c .LE. d',
                "msg_ = 'a .lt. b'", 'msg_ = "p.GE.q"', "msg_ = 'it''s .eq. here'",
                f"if (msg_ {eq} 'p .eq. q') msg_ = 'r .ne. s'   ! s .gt. t",
                '\x02! t .ge. 1', '\x02!.LT.', "\x02! 'k .eq. 1'"]
        if self.profile == 'ub':
            del pool[6]       # keeps one profile free of the code+string mix (exercises the UBOUND fixer on its own)
        return [{'s': 'raw', 'text': rng.choice(pool)} for _ in range(rng.randint(3, 6))]

    def program(self, nstmts=6, depth=2):
        rng = self.rng
        prog = super().program(nstmts, depth)
        kernel = prog['units'][0]
        old = self.profile in ('ops', 'opsU', 'ops+ub')
        exact = rng.random() < 0.5
        whole = rng.random() < 0.4
        if 'ub' in self.profile:
            prog['units'] += self.ub_units(whole)
            for c in self.ub_calls(exact):
                kernel['body'].insert(rng.randint(5, len(kernel['body'])), c)
        # spell comparison operators the old way (random case / spacing)
        ncmp = 0
        for node in _walk_json(prog['units']):
            if node.get('k') == 'cmp':
                ncmp += 1
                if old and rng.random() < 0.75:
                    sp = OLD[node['op']]
                    if self.profile == 'opsU':
                        sp = rng.choice([sp, sp.upper(), sp.upper(), sp[:2].upper() + sp[2:]])
                    node['sp'] = sp
                    node['tight'] = 1 if rng.random() < 0.25 else 0
        if old and not any('sp' in n for n in _walk_json(prog['units'])):
            c = cmp_('>', V('n'), N(1))
            c['sp'], c['tight'] = '.gt.', 0
            kernel['body'].append({'s': 'if', 'conds': [c], 'bodies': [[assign(V('k'), op('sum', V('k'), N(1)))]], 'els': []})
        for d in self.decorations(old):
            nested = [b for s in kernel['body'][5:] for b in _blocks([s])][1:]
            nested = [b for b in nested if b is not kernel['body']]
            inl = d['text'].startswith('\x02')
            if nested and rng.random() < 0.5:
                b = rng.choice(nested)
                b.insert(rng.randint(1 if inl else 0, len(b)), d)
            else:
                kernel['body'].insert(rng.randint(6 if inl else 5, len(kernel['body'])), d)
        prog['renderer'] = 'lint'
        prog['lint'] = {'layout': self.layout, 'profile': self.profile, 'exact': 1 if exact else 0, 'whole': 1 if whole else 0}
        return prog


# ----------------------------------------------------------------------------- rendering with marks
def _spelled(u):
    u = copy.deepcopy(u)
    for node in _walk_json(u):
        if node.get('k') == 'cmp' and 'sp' in node:
            node['op'] = ('\x01T' if node.get('tight') else '\x01S') + node['sp'] + '\x01'
    return u


_MARK = re.compile(r' \x01([TS])([^\x01]+)\x01 ')


def _unmark(line):
    def rep(m):
        if m.group(1) == 'T':
            before = line[m.start() - 1] if m.start() > 0 else ' '
            after = line[m.end()] if m.end() < len(line) else ' '
            if not (before.isdigit() or before == '.' or after.isdigit() or after == '.'):
                return m.group(2)
        return ' ' + m.group(2) + ' '
    return _MARK.sub(rep, line)


def complete_groups(u):
    """Arrays of unit u whose UBOUND checks cover every dimension: {arr: {dim: bound name}}."""
    cov = {}
    for s in u['body']:
        if s.get('ubchk'):
            cov.setdefault(s['ubchk']['arr'], {}).update({int(d): b for d, b in s['ubchk']['bounds'].items()})
    out = {}
    for arr, dims in cov.items():
        d = next((x for x in u['decls'] if x['name'] == arr), None)
        if d is not None and d.get('xdims') and set(dims) == set(range(1, len(d['xdims']) + 1)):
            out[arr] = dims
    return out


CODE = {'mark': 'code', 'grp': 0, 'head': False, 'name': '', 'bounds': []}


def render_unit_marked(u, prog, ind, grp0):
    """[(line, mark)] for one unit; grp0 = first free group number. Returns (lines, next group number)."""
    pad = ' ' * ind
    us = _spelled(u)
    args = ', '.join(u['args'])
    head = f"{pad}subroutine {u['name']}({args})" if u['kind'] == 'subroutine' else f"{pad}function {u['name']}({args}) result({u['result']})"
    out = [(head, CODE), (pad + '  use kpar, only: jprb', CODE)]
    groups = complete_groups(u)
    for d in u['decls']:
        m = CODE
        if d['name'] in groups:
            m = dict(CODE, mark='ubdecl', name=d['name'], bounds=[groups[d['name']][k] for k in sorted(groups[d['name']])])
        out.append((pad + '  ' + F.rdecl(d, d['name'] in u['args']), m))
    if u['name'] == 'kernel':
        out.append((pad + '  character(len=24) :: msg_', CODE))
    grp = grp0
    for s in us['body']:
        lines = F.rstmts([s], ind + 2, None)
        if s.get('ubchk') and s['ubchk']['arr'] in groups:
            grp += 1
            out += [(ln, dict(CODE, mark='ubchk', grp=grp, head=(i == 0))) for i, ln in enumerate(lines)]
        else:
            out += [(ln, CODE) for ln in lines]
    out.append((f"{pad}end {u['kind']} {u['name']}", CODE))
    # post-processing: operator spellings, inline comments (a \x02 line is appended to the previous line)
    res = []
    for ln, m in out:
        ln = _unmark(ln)
        if ln.lstrip().startswith('\x02') and res:
            res[-1] = (res[-1][0] + '  ' + ln.lstrip()[1:], res[-1][1])
        else:
            res.append((ln.replace('\x02', ''), m))
    return res, grp


PRE = ['module kpar', '  implicit none', '  integer, parameter :: jprb = selected_real_kind(13, 300)', 'end module kpar']
MODHEAD = ['module kmod', '  use kpar', '  implicit none', 'contains']
MODFOOT = ['end module kmod']


def render_parts(prog):
    layout = prog['lint']['layout']
    ind = 2 if layout == 'module' else 0
    body, grp = [], 0
    for u in prog['units']:
        if u['host']:
            raise F.MachineryError('C43 programs have no internal procedures')
        lines, grp = render_unit_marked(u, prog, ind, grp)
        body += lines
    code = [(ln, CODE) for ln in PRE + MODHEAD]
    foot = [(ln, CODE) for ln in MODFOOT]
    if layout == 'module':
        return [], code + body + foot, []
    return [ln for ln, _ in code], body, [ln for ln, _ in foot]


def render(prog):
    pre, vis, post = render_parts(prog)
    return '\n'.join(pre + [ln for ln, _ in vis] + post) + '\n'


F.RENDERERS['lint'] = render


# ----------------------------------------------------------------------------- the real linter
def _reports(file_report):
    out = []
    for rr in file_report.reports:
        for pr in rr.problem_reports:
            line = -1
            src = getattr(pr.location, 'source', None)
            if src is not None and getattr(src, 'lines', None):
                line = src.lines[0] or -1
            out.append({'rule': rr.rule.__name__, 'line': int(line)})
    return out


def run_lint(vis_text, workdir, fname='kern.F90'):
    """Linter.check + Linter.fix on the file (config {'fix': True}); then a fresh check of the file on disk.
    Returns dict(fixed text, first/relint reports, raised/relint_raised = '' or '<Exception>@<stage>')."""
    from pathlib import Path
    from loki import Sourcefile
    from loki.lint import Linter, Reporter, DefaultHandler
    import lint_rules.ifs_coding_standards_2011 as std
    import lint_rules.debug_rules as dbg
    rules = [std.Fortran90OperatorsRule, dbg.DynamicUboundCheckRule]
    os.makedirs(workdir, exist_ok=True)
    path = Path(workdir) / fname
    path.write_text(vis_text)
    rec = {'raised': '', 'relint_raised': '', 'first': [], 'relint': [], 'trace': ''}
    stage = 'parse'
    try:
        src = Sourcefile.from_file(path)
        linter = Linter(Reporter([DefaultHandler(target=lambda m: None)]), rules=rules, config={'fix': True})
        stage = 'check'
        report = linter.check(src)
        rec['first'] = _reports(report)
        stage = 'fix'
        linter.fix(src, report)
    except Exception as ex:  # pylint: disable=broad-except
        import traceback
        rec['raised'] = f'{type(ex).__name__}@{stage}'
        rec['trace'] = traceback.format_exc()[-1200:]
    rec['fixed'] = path.read_text()
    try:
        src2 = Sourcefile.from_file(path)
        linter2 = Linter(Reporter([DefaultHandler(target=lambda m: None)]), rules=rules, config={})
        rec['relint'] = _reports(linter2.check(src2))
    except Exception as ex:  # pylint: disable=broad-except
        rec['relint_raised'] = type(ex).__name__
    return rec
