"""A small free-form Fortran lexer used by C05/C20 drivers to *record* observables from text
(string-literal values, comments, identifiers, OPEN specifier lists).  Pure tokenisation."""
import re


def lex(text):
    """Return dict(strings=[values], comments=[texts], idents=[lower-cased names], code=[logical statements]).
    Handles '' / "" escapes, `!` comments outside character context, `&` continuation (also inside
    character context)."""
    strings, comments, idents = [], [], []
    stmts = []
    cur = ''          # current logical statement with strings replaced by placeholders
    instr = None
    sval = ''
    lines = text.split('\n')
    continued = False
    for raw in lines:
        i = 0
        n = len(raw)
        if continued:
            # skip leading blanks and an optional leading &
            j = 0
            while j < n and raw[j] in ' \t':
                j += 1
            if j < n and raw[j] == '&':
                i = j + 1
            elif instr is None:
                i = j
            if instr is None and j < n and raw[j] == '!':
                comments.append(raw[j:].rstrip())
                continue
            if instr is None and j >= n:
                continue
        elif raw.lstrip().startswith('#'):
            stmts.append(raw.strip())
            continue
        continued = False
        while i < n:
            c = raw[i]
            if instr:
                if c == instr:
                    if i + 1 < n and raw[i + 1] == instr:
                        sval += instr
                        i += 2
                        continue
                    strings.append(sval)
                    cur += f'\x00{len(strings) - 1}\x00'
                    instr = None
                    sval = ''
                elif c == '&' and raw[i + 1:].strip() == '':
                    continued = True
                    break
                else:
                    sval += c
                i += 1
                continue
            if c in '\'"':
                instr = c
                sval = ''
            elif c == '!':
                comments.append(raw[i:].rstrip())
                break
            elif c == '&':
                rest = raw[i + 1:].strip()
                if rest == '' or rest.startswith('!'):
                    if rest.startswith('!'):
                        comments.append(rest)
                    continued = True
                    break
                cur += c
            elif c == ';':
                if cur.strip():
                    stmts.append(cur.strip())
                cur = ''
            else:
                cur += c
            i += 1
        if not continued:
            if cur.strip():
                stmts.append(cur.strip())
            cur = ''
    if cur.strip():
        stmts.append(cur.strip())
    for s in stmts:
        plain = re.sub('\x00\\d+\x00', ' ', s)
        if plain.startswith('#'):
            continue
        idents += [m.group(0).lower() for m in re.finditer(r'(?<![\w.])[A-Za-z]\w*', plain)]
    return {'strings': strings, 'comments': comments, 'idents': idents, 'stmts': stmts, '_strings': strings}


def _split_top(s):
    parts, depth, cur = [], 0, ''
    for c in s:
        if c in '([':
            depth += 1
        elif c in ')]':
            depth -= 1
        if c == ',' and depth == 0:
            parts.append(cur)
            cur = ''
        else:
            cur += c
    if cur.strip():
        parts.append(cur)
    return parts


def open_specs(lexed):
    """Specifier lists [[key, value], ...] of the OPEN statements among the lexed statements."""
    out = []
    strings = lexed['strings']

    def restore(v):
        def quote(m):
            val = strings[int(m.group(1))]
            return "'" + val.replace("'", "''") + "'"
        return re.sub('\x00(\\d+)\x00', quote, v)
    for s in lexed['stmts']:
        m = re.match(r'(?i)^(?:\d+\s+)?open\s*\((.*)\)\s*$', s)
        if not m:
            continue
        specs = []
        for i, part in enumerate(_split_top(m.group(1))):
            mm = re.match(r'^\s*([A-Za-z]\w*)\s*=(?!=)(.*)$', part)
            if mm:
                key, val = mm.group(1).lower(), mm.group(2)
            else:
                key, val = ('unit' if i == 0 else f'positional{i}'), part
            val = restore(val.strip())
            if not val.startswith("'"):
                val = val.replace(' ', '').lower()
            specs.append([key, val])
        out.append(specs)
    return out
