"""C44 helpers: realise a module-dependency DAG as Fortran sources, build it with the REAL
loki.jit_build Lib/Builder through a logging compiler wrapper, and return the recorded event log.

Run as a child process (`python -m harness.lib_jitbuild batch.json`): builds never run in the
harness process itself (process pools, the process-global Obj cache); a child handles a small batch
of jobs and clears the Obj cache before every build, like the repository's own test fixtures.

Observation points (no source hooks):
  * the F90 command of the compiler object is a wrapper *script* which appends
        start <obj> <ppid> <pid>          (ppid = the executor's worker process, or the main process)
        end   <obj> <ppid> <pid> <rc>
    to an O_APPEND log around a seed-derived sleep and the real gfortran;
  * the compiler object itself (a GNUCompiler subclass; compile_args/link run in the main process)
    appends `submit <obj> <pid>` and `link - <pid>`.
Only the order of the lines in the append-only log is used, never wall-clock time.
"""
import json
import os
import random
import subprocess
import sys

WRAPPER = r'''#!/bin/sh
# compiler wrapper for C44: log start/end around seed-derived jitter and the real gfortran
for a in "$@"; do last="$a"; done
b=${last##*/}
obj=${b%.*}
echo "start $obj $PPID $$" >> "$JIT_LOG"
if [ -f "$JIT_JITTER/$obj.pre" ]; then sleep "$(cat "$JIT_JITTER/$obj.pre")"; fi
timeout 60 gfortran "$@"
rc=$?
if [ -f "$JIT_JITTER/$obj.post" ]; then sleep "$(cat "$JIT_JITTER/$obj.post")"; fi
echo "end $obj $PPID $$ $rc" >> "$JIT_LOG"
exit $rc
'''

INTRINSICS = ['iso_fortran_env', 'iso_c_binding', 'ieee_arithmetic']


def write_wrapper(path):
    with open(path, 'w') as fh:
        fh.write(WRAPPER)
    os.chmod(path, 0o755)
    return path


def spell(name, rng):
    """A random case variant of a Fortran name (Fortran names are case-insensitive)."""
    return rng.choice([name, name.upper(), name.capitalize(), name.lower()])


def plan_names(dag, rng, alias=False):
    """File stems / module names for the objects of a DAG {n, deps, src}. Objects without source
    become intrinsic modules (they exist for gfortran, but Loki has no source file for them)."""
    n = dag['n']
    stems, mods, kinds = [], [], []
    intr = list(INTRINSICS)
    users = {d for o in range(n) for d in dag['deps'][o]}
    for o in range(1, n + 1):
        if not dag['src'][o - 1]:
            stems.append(None)
            mods.append(intr.pop(0))
            kinds.append('intrinsic')
            continue
        stem = rng.choice(['m{}x', 'Kern{}', 'util_{}', 'Phys{}_mod', 'yo{}'])
        stem = stem.format(o)
        stems.append(stem)
        if o not in users and rng.random() < 0.3:
            kinds.append('sub')          # a bare subroutine file: provides no module
            mods.append(None)
        else:
            kinds.append('module')
            mods.append(stem.lower())
    if alias:
        # module name differs from the file stem for some provider that is actually used
        cands = [o for o in range(1, n + 1) if kinds[o - 1] == 'module' and o in users]
        for o in rng.sample(cands, max(1, len(cands) // 2)) if cands else []:
            mods[o - 1] = f'prov{o}_impl'
    return stems, mods, kinds


def realise(dag, srcdir, rng, alias=False):
    """Write the Fortran sources; returns (stems, file names)."""
    os.makedirs(srcdir, exist_ok=True)
    stems, mods, kinds = plan_names(dag, rng, alias)
    files = []
    for o in range(1, dag['n'] + 1):
        if kinds[o - 1] == 'intrinsic':
            files.append(None)
            continue
        deps = dag['deps'][o - 1]
        uses = ''.join(f'  {spell("use", rng)} {spell(mods[d - 1], rng)}\n' for d in deps)
        expr = ' + '.join(['1'] + [f'p_{d}' for d in deps if kinds[d - 1] == 'module'])
        if kinds[o - 1] == 'module':
            m = mods[o - 1]
            txt = (f'module {spell(m, rng)}\n{uses}  implicit none\n  integer, parameter :: p_{o} = {expr}\n'
                   f'contains\n  function f_{o}() result(r)\n    integer :: r\n    r = p_{o}\n  end function f_{o}\n'
                   f'end module {m}\n')
        else:
            txt = (f'subroutine s_{o}(r)\n{uses}  implicit none\n  integer, intent(out) :: r\n  r = {expr}\n'
                   f'end subroutine s_{o}\n')
        fn = stems[o - 1] + rng.choice(['.f90', '.F90'])
        with open(os.path.join(srcdir, fn), 'w') as fh:
            fh.write(txt)
        files.append(fn)
    return stems, files


def write_jitter(jdir, stems, seed, scale):
    os.makedirs(jdir, exist_ok=True)
    for f in os.listdir(jdir):
        os.remove(os.path.join(jdir, f))
    rng = random.Random(f'jitter:{seed}')
    for st in stems:
        if st is None:
            continue
        pre = rng.choice([0, 0, 1, 2, 4, 8]) * scale
        post = rng.choice([0, 0, 0, 1, 3, 6]) * scale
        for kind, v in (('pre', pre), ('post', post)):
            if v:
                with open(os.path.join(jdir, f'{st}.{kind}'), 'w') as fh:
                    fh.write(f'{v:.3f}\n')


def read_log(path):
    ev = []
    if not os.path.exists(path):
        return ev
    with open(path) as fh:
        for line in fh:
            p = line.split()
            if not p:
                continue
            if p[0] == 'start':
                ev.append({'a': 'start', 'obj': p[1], 'proc': int(p[2]), 'pid': int(p[3]), 'rc': 0})
            elif p[0] == 'end':
                ev.append({'a': 'end', 'obj': p[1], 'proc': int(p[2]), 'pid': int(p[3]), 'rc': int(p[4])})
            elif p[0] in ('submit', 'link'):
                ev.append({'a': p[0], 'obj': p[1], 'proc': int(p[2]), 'pid': int(p[2]), 'rc': 0})
            else:
                raise RuntimeError(f'unparsable log line {line!r}')
    return ev


def members_of(lib):
    """Archive member list followed by the defined global symbols per member (build-dir independent)."""
    if not os.path.exists(lib):
        return []
    out = subprocess.run(['ar', 't', lib], capture_output=True, text=True, timeout=60, check=False).stdout.split()
    nm = subprocess.run(['nm', '-g', '--defined-only', lib], capture_output=True, text=True, timeout=60, check=False).stdout
    cur = ''
    syms = []
    for line in nm.splitlines():
        line = line.strip()
        if line.endswith(':'):
            cur = line[:-1]
        elif line:
            syms.append(f'{cur}:{line.split()[-1]}')
    return out + sorted(syms)


def child_main(jobfile):
    """Run a batch of jobs (one job = one realised DAG with its list of builds)."""
    os.environ['TQDM_DISABLE'] = '1'
    with open(jobfile) as fh:
        batch = json.load(fh)
    for job in batch['jobs']:
        run_job(job, batch.get('deadline'))


def run_job(job, deadline=None):
    import time
    from pathlib import Path
    import shutil
    from loki.jit_build import Obj, Lib, Builder
    from loki.jit_build.compiler import GNUCompiler

    log = job['log']

    def mainlog(*a):
        fd = os.open(log, os.O_WRONLY | os.O_APPEND | os.O_CREAT)
        os.write(fd, (' '.join(str(x) for x in a) + f' {os.getpid()}\n').encode())
        os.close(fd)

    class LoggingCompiler(GNUCompiler):
        """The real GNU toolchain; the Fortran compile command is the wrapper script."""
        F90 = job['wrapper']
        FC = job['wrapper']

        def compile_args(self, source, **kw):   # called by Obj.build in the main process
            mainlog('submit', Path(source).stem)
            return super().compile_args(source, **kw)

        def link(self, objs, target, shared=True, cwd=None):
            mainlog('link', '-')
            super().link(objs, target, shared=shared, cwd=cwd)

    os.environ['JIT_LOG'] = log
    os.environ['JIT_JITTER'] = job['jitter']
    srcdir = Path(job['srcdir'])
    results = []
    for run in job['runs']:
        if deadline is not None and time.time() > deadline:
            break   # the tier's build budget is used up: remaining builds are not run (reported as skipped)
        W, seed, scen = run['W'], run['seed'], run['scen']
        write_jitter(job['jitter'], job['stems'], seed, job.get('scale', 0.01))
        bd = Path(job['builddir'])
        shutil.rmtree(bd, ignore_errors=True)
        Obj.clear_cache()    # the Obj cache is process-global (the repository's own tests clear it per build, too)
        if os.path.exists(log):
            os.remove(log)
        builder = Builder(source_dirs=srcdir, build_dir=bd, workers=W, compiler=LoggingCompiler())
        lib = Lib('case', objs=[Obj(source_path=srcdir/f) for f in job['liborder']], shared=False)
        built, err = True, ''
        nbuilds = 2 if scen == 'rebuild' else 1
        for b in range(nbuilds):
            if b:
                # second build of the same Lib object in the same process, after a clean
                builder.clean()
                os.remove(log)
            try:
                lib.build(builder=builder, shared=False, force=True)
            except Exception as e:  # pylint: disable=broad-except
                built, err = False, f'{type(e).__name__}: {str(e)[:200]}'
                break
        results.append({'W': W, 'seed': seed, 'scen': scen, 'built': built, 'err': err,
                        'events': read_log(log), 'members': members_of(str(bd/'libcase.a')) if built else [],
                        'mainpid': os.getpid()})
    with open(job['out'], 'w') as fh:
        json.dump(results, fh)


if __name__ == '__main__':
    child_main(sys.argv[1])
