"""Shared scheduler-verification helpers (C21, C22; meant for reuse by C23/C24/C25).

Abstract project / configuration JSON format
============================================
The same records are produced by TLC (`ToJson` of the TLA+ records of spec/SchedProject.tla) and by the
seeded python generator below; the TLA+ modules read them back with `JsonDeserialize`.  All names in the
abstract objects are *canonical lower-case identifiers*; case variants only exist in the rendered text.

project = {
  "mods":  [ {"name": "m1", "file": "f1", "imports": [IMPORT...], "vars": ["v_m1", ...],
              "params": [...],  # the subset of vars that are named constants (PARAMETER); never `targets`
              "ifaces": [ {"name": "g_m1", "procs": ["p3"]} ]   # generic interfaces over procedures of this module
                                # (InterfaceItem `m1#g_m1`); called only via `use m1, only: g_m1` inside the caller
             } , ... ],
  "procs": [ {"name": "p1", "mod": "m1" | "" (free procedure), "file": "f1",
              "imports": [IMPORT...],           # USE statements inside the procedure
              "calls": ["p2", "p1", ...]        # CALL statements in source order, by *written* name
             }, ... ]
}
IMPORT = {"mod": "m2", "only": ["p3", "v_m2"]}   # only == [] : `use m2` without ONLY list
  * module procedures live in the file of their module, in the order of `procs`;
  * a procedure that calls itself is rendered with the RECURSIVE prefix;
  * units of one file are written in the order: modules (order of `mods`), then free procedures.

config = {
  "seeds":   [ {"q": false, "scope": "", "local": "p1"} , ... ]   # q: qualified seed `scope#local`
  "expand":  true, "disable": [KEY...], "block": [KEY...], "ignore": [KEY...],        # [default]
  "role": "kernel", "mode": "idem",
  "routines": [ {"key": "p2" | "m1#p2" | "m1",
                 "hasExpand": b, "expand": b, "hasDisable": b, "disable": [KEY...],
                 "hasBlock": b, "block": [KEY...], "hasIgnore": b, "ignore": [KEY...],
                 "hasRole": b, "role": "driver", "hasMode": b, "mode": "x"} , ... ]
}
KEY = {"s": "p3" | "m2#p3" | "#p4" | "m2" | "p*", "c": [char codes of s]}     # fnmatch patterns allowed in
      disable/block (documented), never in ignore or routine keys (matched literally by Loki)
Every record carries every field (TLC raises on missing fields).

Rendering (`render_project`) takes an rng for the *layout* choices that must not matter: case of every
name occurrence, spacing, continuation lines, decoy comments, duplicate calls, calls nested in IF/DO.
`run_scheduler` builds the real `loki.batch.Scheduler` and projects it to
{"items": [{"name", "kind", "ignored", "file"}], "edges": [[a, b]...]} in insertion order.

Additions for C23 / C24 / C25 (existing behaviour unchanged; `Layout.case` merely accepts the occurrence class):
* `ClassLayout(classes, seed)` — plain layout whose letter case is decided per occurrence class (def / use / cfg / seed /
  file), or with mode 'each' independently for every single occurrence; `render_project(..., renames=)` renders imported
  callees under local aliases (`use m, only: al => k`, `use m, al => k`): a layout choice, the abstract project is unchanged;
  `render_project(..., layout=, iface=True)` declares called free procedures in explicit interface blocks.
* operation records `op_record(op, k, sfx, msfx, sub)` (dep | wrap | dup | rm) and `make_transformation(op)`;
  `cli_config / cli_run / parse_plan` drive `loki_transform plan|convert` in-process.
* IR-level projections: `project_of_sources`, `observe_ops_state(sched, paths0, mvi)` (record `obs` of
  spec/Trace_SchedOps.tla: seeds, nodes, edges, cache entries, units of the cache (PC) and of the written sources (PG));
  unit records carry `calls` (CALL statements + interface declarations = dependencies by name), `rcalls`, `ifaces`.
* `make_link_job / write_sources / link_job` — FileWriteTransformation + gfortran compile and link with a harness-owned main.
* `Interner`, `codes`, `tokens` — raw spellings as character-code tables for the TLA+ side (folding is done in TLA+).
"""
import os
import random

KINDS = {'ProcedureItem': 'proc', 'ModuleItem': 'mod', 'TypeDefItem': 'typedef', 'InterfaceItem': 'intf',
         'ProcedureBindingItem': 'binding', 'ExternalItem': 'external', 'FileItem': 'file'}


# ---------------------------------------------------------------------------------------------
# abstract objects

def key(s):
    return {'s': s, 'c': [ord(ch) for ch in s]}


def routine_entry(k, **kw):
    e = {'key': k, 'hasExpand': False, 'expand': True, 'hasDisable': False, 'disable': [],
         'hasBlock': False, 'block': [], 'hasIgnore': False, 'ignore': [],
         'hasRole': False, 'role': 'kernel', 'hasMode': False, 'mode': 'idem'}
    for name, val in kw.items():
        e[name] = [key(x) if isinstance(x, str) else x for x in val] if isinstance(val, (list, tuple)) else val
        e['has' + name[0].upper() + name[1:]] = True
    return e


def make_config(seeds, expand=True, disable=(), block=(), ignore=(), routines=(), role='kernel', mode='idem'):
    def seed(s):
        if isinstance(s, dict):
            return s
        if '#' in s:
            sc, lo = s.split('#')
            return {'q': True, 'scope': sc, 'local': lo}
        return {'q': False, 'scope': '', 'local': s}
    return {'seeds': [seed(s) for s in seeds], 'expand': expand,
            'disable': [key(x) if isinstance(x, str) else x for x in disable],
            'block': [key(x) if isinstance(x, str) else x for x in block],
            'ignore': [key(x) if isinstance(x, str) else x for x in ignore],
            'role': role, 'mode': mode, 'routines': list(routines)}


def normalize_config(c):
    """Fill defaults so that every record has every field (also accepts TLC's ToJson output)."""
    out = make_config(c.get('seeds', []), c.get('expand', True), c.get('disable', []), c.get('block', []),
                      c.get('ignore', []), [], c.get('role', 'kernel'), c.get('mode', 'idem'))
    for r in c.get('routines', []):
        e = routine_entry(r['key'])
        e.update(r)
        for f in ('disable', 'block', 'ignore'):
            e[f] = [key(x) if isinstance(x, str) else x for x in e[f]]
        out['routines'].append(e)
    return out


def normalize_project(p):
    mods = [{'name': m['name'], 'file': m.get('file', m['name']), 'imports': [dict(mod=i['mod'], only=list(i['only'])) for i in m.get('imports', [])],
             'vars': list(m.get('vars', [])), 'params': list(m.get('params', [])),
             'ifaces': [{'name': i['name'], 'procs': list(i['procs'])} for i in m.get('ifaces', [])]} for m in p.get('mods', [])]
    modfile = {m['name']: m['file'] for m in mods}
    procs = []
    for r in p.get('procs', []):
        procs.append({'name': r['name'], 'mod': r.get('mod', ''),
                      'file': modfile[r['mod']] if r.get('mod') else r.get('file', r['name']),
                      'imports': [dict(mod=i['mod'], only=list(i['only'])) for i in r.get('imports', [])],
                      'calls': list(r.get('calls', []))})
    return {'mods': mods, 'procs': procs}


def full_name(proc):
    return f"{proc['mod']}#{proc['name']}"


# ---------------------------------------------------------------------------------------------
# rendering

class Layout:
    """Layout choices that must not influence the scheduler graph."""

    def __init__(self, rng=None, plain=False):
        self.rng = rng or random.Random(0)
        self.plain = plain

    def case(self, name, cls=None):      # cls: occurrence class (see ClassLayout); ignored here
        if self.plain:
            return name
        r = self.rng.random()
        if r < 0.55:
            return name
        if r < 0.8:
            return name.upper()
        return name.capitalize()

    def kw(self, word):
        if self.plain:
            return word
        return word.upper() if self.rng.random() < 0.3 else word

    def coin(self, p):
        return (not self.plain) and self.rng.random() < p


CASE_CLASSES = ('def', 'use', 'cfg', 'seed', 'file')
CASE_MODES = ('lower', 'upper', 'cap', 'mixed')


def apply_case(name, mode):
    """The spelling of `name` under a case mode (the letters never change, only their case)."""
    if mode == 'upper':
        return name.upper()
    if mode == 'cap':
        return name.capitalize()
    if mode == 'mixed':
        return ''.join(ch.upper() if i % 2 else ch.lower() for i, ch in enumerate(name))
    return name.lower()


class ClassLayout(Layout):
    """Plain layout in which the letter case of a name is decided by the *class* of the occurrence (C23):
    def   names at their definition (MODULE / SUBROUTINE / END statements, module variables)
    use   names where they are used (CALL, USE module, ONLY symbols, interface blocks)
    cfg   configuration keys and disable/block/ignore entries
    seed  seed routine names
    file  file stems
    classes: {class: mode}, mode in CASE_MODES (missing class = lower) or 'each': every single OCCURRENCE of that class
    draws its own mode (seeded by `seed`), so that e.g. the alias in a USE statement and each call site differ."""

    def __init__(self, classes=None, seed=0):
        super().__init__(random.Random(seed), True)
        self.classes = dict(classes or {})

    def case(self, name, cls=None):
        mode = self.classes.get(cls, 'lower')
        if mode == 'each':
            mode = self.rng.choice(CASE_MODES)
        return apply_case(name, mode)


def _use_stmt(imp, lay, indent, ren=None):
    """ren: {imported name: local alias} -- rendered as `alias => name` in the ONLY list, or, for an import without ONLY
    list, as a rename list `use m, alias => name` (render_project(..., renames=))."""
    kw = lay.kw('use')
    mod = lay.case(imp['mod'], 'use')
    if not imp['only']:
        rl = ''.join(f', {lay.case(a, "use")} => {lay.case(n, "use")}' for n, a in (ren or {}).items())
        return [f'{indent}{kw} {mod}{rl}']
    syms = [lay.case(s, 'use') if s not in (ren or {}) else f'{lay.case(ren[s], "use")} => {lay.case(s, "use")}' for s in imp['only']]
    sep = ', ' if not lay.coin(0.3) else ','
    if len(syms) > 1 and lay.coin(0.3):
        # continuation line inside the ONLY list
        return [f'{indent}{kw} {mod}, {lay.kw("only")}: {syms[0]}, &', f'{indent}   & {sep.join(syms[1:])}']
    colon = ': ' if not lay.coin(0.2) else ' : '
    return [f'{indent}{kw} {mod},{" " if not lay.coin(0.2) else ""}{lay.kw("only")}{colon}{sep.join(syms)}']


def _render_proc(proc, lay, indent, iface=(), ren=None):
    """ren: {import index: {imported name: alias}} of this procedure; renamed callees are called by their alias."""
    ren = ren or {}
    alias = {n: a for m in ren.values() for n, a in m.items()}
    name = proc['name']
    lines = []
    prefix = ''
    if name in proc['calls']:
        prefix = lay.kw('recursive') + ' '
    sub = lay.kw('subroutine')
    lines.append(f'{indent}{prefix}{sub} {lay.case(name, "def")}(a)')
    ind2 = indent + '  '
    for n_, imp in enumerate(proc['imports']):
        lines += _use_stmt(imp, lay, ind2, ren.get(n_))
    lines.append(f'{ind2}{lay.kw("implicit none")}')
    lines.append(f'{ind2}{lay.kw("integer")}, {lay.kw("intent")}(inout) :: a')
    for c in iface:         # explicit interface blocks for called free procedures (render_project(..., iface=True))
        lines += [f'{ind2}{lay.kw("interface")}', f'{ind2}  {lay.kw("subroutine")} {lay.case(c, "use")}(a)',
                  f'{ind2}    {lay.kw("integer")}, {lay.kw("intent")}(inout) :: a',
                  f'{ind2}  {lay.kw("end subroutine")} {lay.case(c, "use")}', f'{ind2}{lay.kw("end interface")}']
    if lay.coin(0.3):
        lines.append(f'{ind2}! call decoy_in_comment(a)')
    if lay.coin(0.2):
        lines.append(f"{ind2}print *, 'call decoy_in_string(a)'")
    lines.append(f'{ind2}a = a + 1')
    calls = list(proc['calls'])
    if calls and lay.coin(0.3):
        calls.append(lay.rng.choice(calls))       # duplicate call statement: still one dependency
    for c in calls:
        w = alias.get(c, c)          # the name written at the call site (the local alias of a renamed import)
        stmt = f'{lay.kw("call")} {lay.case(w, "use")}{" " if lay.coin(0.2) else ""}(a)'
        guard = c == name   # recursion must terminate syntactically sensible; always guard self calls
        style = 0 if lay.plain else lay.rng.randrange(4)
        if guard or style == 1:
            lines.append(f'{ind2}{lay.kw("if")} (a < 0) {lay.kw("then")}')
            lines.append(f'{ind2}  {stmt}')
            lines.append(f'{ind2}{lay.kw("end if")}')
        elif style == 2:
            lines.append(f'{ind2}{lay.kw("if")} (a > 100) {stmt}')
        elif style == 3 and lay.coin(0.5):
            lines.append(f'{ind2}{lay.kw("call")} {lay.case(w, "use")}( &')
            lines.append(f'{ind2}   & a)')
        else:
            lines.append(f'{ind2}{stmt}')
    end = f'{lay.kw("end subroutine")} {lay.case(name, "def")}' if not lay.coin(0.2) else lay.kw('end subroutine')
    lines.append(f'{indent}{end}')
    return lines


def free_callees(project, proc):
    """Called names of `proc` that denote free procedures (not itself, not a sibling, not imported by an ONLY list;
    empty if an unqualified import is visible): the names that may be declared in an explicit interface block."""
    free = {p['name'] for p in project['procs'] if not p['mod']}
    host = next((m['imports'] for m in project['mods'] if m['name'] == proc['mod']), []) if proc['mod'] else []
    visible = list(proc['imports']) + list(host)
    if any(not im['only'] for im in visible):
        return []
    imported = {s for im in visible for s in im['only']}
    siblings = {p['name'] for p in project['procs'] if p['mod'] == proc['mod']} if proc['mod'] else set()
    return [c for c in dict.fromkeys(proc['calls']) if c in free and c != proc['name'] and c not in siblings and c not in imported]


def proc_renames(project, proc, renames):
    """{import index: {callee: alias}} for procedure `proc`: a requested rename (renames = {"mod#proc": {callee: alias}})
    is applied where the procedure's OWN import makes the callee accessible (ONLY list naming it, or an import without
    ONLY list of the module that defines it); other requests are ignored."""
    want = (renames or {}).get(full_name(proc), {})
    out = {}
    for n, im in enumerate(proc['imports']):
        hit = {c: a for c, a in want.items() if c in proc['calls'] and c != proc['name'] and
               (c in im['only'] or (not im['only'] and any(q['mod'] == im['mod'] and q['name'] == c for q in project['procs'])))}
        hit = {c: a for c, a in hit.items() if not any(c in m for m in out.values())}
        if hit:
            out[n] = hit
    return out


def render_project(project, root, rng=None, plain=False, suffixes=None, subdirs=None, layout=None, iface=False, renames=None):
    """Write the project below `root`; returns {file id: path}. One Fortran file per distinct `file` id.
    layout: a ready Layout object (e.g. ClassLayout) instead of rng/plain; iface: declare called free procedures
    in explicit interface blocks; renames: {"mod#proc": {callee: alias}} render imported callees under a local alias
    (`use m, only: alias => callee` / `use m, alias => callee`, calls by the alias): the abstract project and its graph
    are unchanged, renaming is a layout choice."""
    lay = layout or Layout(rng, plain)
    files = {}
    order = []
    for m in project['mods']:
        if m['file'] not in files:
            files[m['file']] = {'mods': [], 'procs': []}
            order.append(m['file'])
        files[m['file']]['mods'].append(m)
    for p in project['procs']:
        if p['mod']:
            continue
        if p['file'] not in files:
            files[p['file']] = {'mods': [], 'procs': []}
            order.append(p['file'])
        files[p['file']]['procs'].append(p)
    paths = {}
    for fid in order:
        lines = []
        if lay.coin(0.3):
            lines.append('! generated test project file')
        for m in files[fid]['mods']:
            lines.append(f'{lay.kw("module")} {lay.case(m["name"], "def")}')
            for imp in m['imports']:
                lines += _use_stmt(imp, lay, '  ')
            lines.append(f'  {lay.kw("implicit none")}')
            for v in m['vars']:
                if v in m.get('params', []):
                    lines.append(f'  {lay.kw("integer")}, {lay.kw("parameter")} :: {lay.case(v, "def")} = 1')
                else:
                    lines.append(f'  {lay.kw("integer")} :: {lay.case(v, "def")} = 1')
            for itf in m.get('ifaces', []):
                lines.append(f'  {lay.kw("interface")} {lay.case(itf["name"], "def")}')
                for pn in itf['procs']:
                    lines.append(f'    {lay.kw("module procedure") if lay.coin(0.5) or lay.plain else lay.kw("procedure")} {lay.case(pn, "use")}')
                lines.append(f'  {lay.kw("end interface")} {lay.case(itf["name"], "def")}')
            mprocs = [p for p in project['procs'] if p['mod'] == m['name']]
            if mprocs:
                lines.append(lay.kw('contains'))
                for p in mprocs:
                    lines += _render_proc(p, lay, '  ', free_callees(project, p) if iface else (), proc_renames(project, p, renames))
                    if lay.coin(0.5):
                        lines.append('')
            lines.append(f'{lay.kw("end module")} {lay.case(m["name"], "def")}')
            lines.append('')
        for p in files[fid]['procs']:
            lines += _render_proc(p, lay, '', free_callees(project, p) if iface else (), proc_renames(project, p, renames))
            lines.append('')
        suf = (suffixes or {}).get(fid) or ('.F90' if lay.coin(0.4) else '.f90')
        sub = (subdirs or {}).get(fid) or ('' if not lay.coin(0.4) else lay.rng.choice(['src', 'module', 'src/deep']))
        d = os.path.join(root, sub)
        os.makedirs(d, exist_ok=True)
        path = os.path.join(d, lay.case(fid, 'file') + suf)
        with open(path, 'w') as fh:
            fh.write('\n'.join(lines) + '\n')
        paths[fid] = path
    return paths


def _keys(lst, lay):
    return [lay.case(k['s'], 'cfg') for k in lst]


def render_config(config, lay=None, enable_imports=True, strict=True):
    """The dict handed to SchedulerConfig.from_dict and the seed_routines list."""
    lay = lay or Layout(plain=True)
    default = {'role': config['role'], 'mode': config['mode'], 'expand': config['expand'], 'strict': strict,
               'enable_imports': enable_imports}
    for f in ('disable', 'block', 'ignore'):
        if config[f]:
            default[f] = _keys(config[f], lay)
    routines = {}
    for r in config['routines']:
        e = {}
        if r['hasExpand']:
            e['expand'] = r['expand']
        for f in ('disable', 'block', 'ignore'):
            if r['has' + f.capitalize()]:
                e[f] = _keys(r[f], lay)
        if r['hasRole']:
            e['role'] = r['role']
        if r['hasMode']:
            e['mode'] = r['mode']
        routines[lay.case(r['key'], 'cfg')] = e
    seeds = [lay.case(f"{s['scope']}#{s['local']}" if s['q'] else s['local'], 'seed') for s in config['seeds']]
    return {'default': default, 'routines': routines}, seeds


# ---------------------------------------------------------------------------------------------
# running the real scheduler

def _quiet():
    import logging
    from loki import logging as ll
    for name in ('default_logger',):
        lg = getattr(ll, name, None)
        if lg is not None:
            lg.setLevel(logging.ERROR)
    try:
        ll.set_log_level('ERROR')   # pylint: disable=no-member
    except Exception:  # pylint: disable=broad-except
        pass


def build_scheduler(root, cfg_dict, seeds, full_parse, frontend=None, paths=None):
    from loki.batch import Scheduler, SchedulerConfig
    from loki.frontend import FP
    _quiet()
    return Scheduler(paths=paths or [root], config=SchedulerConfig.from_dict(cfg_dict), seed_routines=seeds,
                     full_parse=full_parse, frontend=frontend or FP)


def project_graph(scheduler, paths=None):
    """Projection of the real scheduler: items in insertion order and edges, names as Loki reports them."""
    inv = {os.path.abspath(p).lower(): fid for fid, p in (paths or {}).items()}
    items = []
    for it in scheduler.items:
        kind = KINDS.get(type(it).__name__, type(it).__name__)
        f = ''
        if kind != 'external' and getattr(it, 'source', None) is not None and it.source.path is not None:
            f = inv.get(str(it.source.path).lower(), str(it.source.path))
        items.append({'name': it.name, 'kind': kind, 'ignored': bool(it.is_ignored), 'file': f})
    edges = [[a.name, b.name] for a, b in scheduler.dependencies]
    return {'items': items, 'edges': edges}


def run_scheduler(project, config, root, rng=None, full_parse=True, enable_imports=True, plain=False,
                  strict=True):
    """Render + build + project. Returns (observation dict, scheduler, paths)."""
    os.makedirs(root, exist_ok=True)
    paths = render_project(project, root, rng, plain=plain)
    lay = Layout(rng, plain)
    cfg_dict, seeds = render_config(config, lay, enable_imports=enable_imports, strict=strict)
    sched = build_scheduler(root, cfg_dict, seeds, full_parse)
    obs = project_graph(sched, paths)
    obs['cfg_dict'] = cfg_dict
    obs['seed_names'] = seeds
    return obs, sched, paths


# ---------------------------------------------------------------------------------------------
# tables for the TLA+ side

def chars_table(project):
    """name string -> character codes, for every string a config key can be matched against
    (full / local / scope names of items, and the same for module variables)."""
    names = set()
    for m in project['mods']:
        names.add(m['name'])
        for v in m['vars']:
            names.update({v, f"{m['name']}#{v}"})
        for i in m.get('ifaces', []):
            names.update({i['name'], f"{m['name']}#{i['name']}"})
    for p in project['procs']:
        names.update({p['name'], f"{p['mod']}#{p['name']}"})
        if p['mod']:
            names.add(p['mod'])
    return {n: [ord(ch) for ch in n] for n in sorted(names)}


def tla_project(project):
    """The project record handed to TLC (adds the `chars` table)."""
    p = normalize_project(project)
    p['chars'] = chars_table(p)
    return p


# ---------------------------------------------------------------------------------------------
# seeded generator of larger projects (<= 8 routines over several files)

def random_project(rng, nprocs=None, nmods=None, dup_names=False, ifaces=False):
    """Random project inside the modelled fragment, acyclic by construction: units are laid out in a
    linear order (file by file), procedures are numbered in that order and only call / import forward
    (plus self recursion).  Legality is re-checked by TLC (LegalProject /\\ AcyclicProject)."""
    nprocs = nprocs or rng.randint(3, 8)
    nmods = nmods if nmods is not None else rng.randint(0, min(4, nprocs))
    # units: modules and free procedures, in linear order
    nfree = max(0, nprocs - rng.randint(nmods, nprocs)) if nmods else nprocs
    units = [('mod', f'm{i + 1}') for i in range(nmods)] + [('free', None)] * nfree
    rng.shuffle(units)
    # distribute module procedures
    nmodprocs = nprocs - nfree
    members = {name: 0 for kind, name in units if kind == 'mod'}
    for _ in range(nmodprocs):
        if members:
            members[rng.choice(list(members))] += 1
    # files: consecutive units may share a file
    files = []
    fid = 0
    for i, u in enumerate(units):
        if i > 0 and rng.random() < 0.3:
            files.append(files[-1])
        else:
            fid += 1
            files.append(f'f{fid}')
    stems = ['p', 'kern', 'util', 'drv']
    procs = []
    mods = []
    k = 0
    for (kind, name), f in zip(units, files):
        if kind == 'mod':
            mods.append({'name': name, 'file': f, 'imports': [], 'vars': [f'v_{name}'] + ([f'w_{name}'] if rng.random() < 0.3 else [])})
            for _ in range(members[name]):
                k += 1
                procs.append({'name': f'{rng.choice(stems)}{k}', 'mod': name, 'file': f, 'imports': [], 'calls': []})
        else:
            k += 1
            procs.append({'name': f'{rng.choice(stems)}{k}', 'mod': '', 'file': f, 'imports': [], 'calls': []})
    if dup_names and len(procs) >= 3:
        # the same local name in two different scopes (never both visible from one caller: enforced by TLC)
        a, b = rng.sample(range(len(procs)), 2)
        if procs[a]['mod'] != procs[b]['mod'] and procs[a]['mod'] and procs[b]['mod']:
            procs[b]['name'] = procs[a]['name']
    modpos = {m['name']: i for i, m in enumerate(mods)}
    unitpos = {}
    for i, (kind, name) in enumerate(units):
        if kind == 'mod':
            unitpos[name] = i
    density = rng.choice([0.25, 0.4, 0.6])
    for i, p in enumerate(procs):
        for j in range(i + 1, len(procs)):
            if rng.random() < density:
                p['calls'].append(procs[j]['name'])
        if rng.random() < 0.12:
            p['calls'].insert(rng.randint(0, len(p['calls'])), p['name'])
        rng.shuffle(p['calls'])
        p['calls'] = list(dict.fromkeys(p['calls']))
    # make the callees accessible
    for i, p in enumerate(procs):
        need = {}
        for c in p['calls']:
            cands = [q for q in procs[i + 1:] if q['name'] == c and q['mod'] and q['mod'] != p['mod']]
            same = [q for q in procs if q['name'] == c and q['mod'] == p['mod'] and p['mod']]
            if c == p['name'] or same or not cands:
                continue
            need.setdefault(cands[0]['mod'], []).append(c)
        for m, syms in need.items():
            style = rng.choice(['only_r', 'only_r', 'only_m', 'unq_r', 'unq_m']) if p['mod'] else rng.choice(['only_r', 'unq_r'])
            mrec = mods[modpos[p['mod']]] if p['mod'] else None
            if style == 'only_r':
                extra = [v for v in mods[modpos[m]]['vars'] if rng.random() < 0.25]
                only = syms + extra
                rng.shuffle(only)
                p['imports'].append({'mod': m, 'only': only})
            elif style == 'unq_r':
                p['imports'].append({'mod': m, 'only': []})
            elif style == 'only_m':
                ex = [im for im in mrec['imports'] if im['mod'] == m and im['only']]
                if ex:
                    ex[0]['only'] = list(dict.fromkeys(ex[0]['only'] + syms))
                else:
                    mrec['imports'].append({'mod': m, 'only': list(syms)})
            else:
                if not any(im['mod'] == m and not im['only'] for im in mrec['imports']):
                    mrec['imports'].append({'mod': m, 'only': []})
        # pure variable imports from later modules
        if mods and rng.random() < 0.3:
            own = unitpos.get(p['mod'], -1) if p['mod'] else None
            later = [m for m in mods if m['name'] != p['mod'] and
                     (own is None and files[unitpos[m['name']]] >= p['file'] or own is not None and unitpos[m['name']] > own)]
            if later:
                m = rng.choice(later)
                p['imports'].append({'mod': m['name'], 'only': [rng.choice(m['vars'])]})
    # module-level variable / unqualified imports between modules (forward only)
    for i, m in enumerate(mods):
        for m2 in mods:
            if unitpos[m2['name']] > unitpos[m['name']] and rng.random() < 0.15:
                m['imports'].append({'mod': m2['name'], 'only': rng.choice([[], [m2['vars'][0]]])})
    if ifaces:
        _add_interface(rng, mods, procs)
    return normalize_project({'mods': mods, 'procs': procs})


def _add_interface(rng, mods, procs):
    """Give one module a generic interface g_<mod> over one of its procedures T; some earlier callers from other scopes
    call the interface (`use <mod>, only: g_<mod>` in the caller) while T stays (or becomes) directly called by an
    even earlier procedure -- an InterfaceItem on one path to T, a direct edge on another."""
    cands = [t for t in procs if t['mod'] and procs.index(t) >= 2 and
             sum(1 for q in procs if q['name'] == t['name']) == 1]
    if not cands:
        return
    t = rng.choice(cands)
    ti = procs.index(t)
    gname = f"g_{t['mod']}"
    outside = [q for q in procs[:ti] if q['mod'] != t['mod']]
    if not outside:
        return
    mrec = next(m for m in mods if m['name'] == t['mod'])
    mrec.setdefault('ifaces', []).append({'name': gname, 'procs': [t['name']]})
    via = rng.sample(outside[1:] or outside, min(len(outside[1:] or outside), rng.choice([1, 1, 2])))
    for q in via:
        q['calls'] = [c for c in q['calls'] if c != t['name']]
        q['calls'].insert(rng.randint(0, len(q['calls'])), gname)
        keep = []
        for im in q['imports']:
            if im['mod'] == t['mod'] and t['name'] in im['only']:
                im['only'] = [x for x in im['only'] if x != t['name']]
                if not im['only']:
                    continue        # the ONLY list became empty: drop the statement (an empty list means `use m`)
            keep.append(im)
        q['imports'] = keep
        q['imports'].append({'mod': t['mod'], 'only': [gname]})
    # a shallower procedure calls T directly
    d = outside[0]
    if d not in via and t['name'] not in d['calls']:
        d['calls'].insert(0, t['name'])
        if not any(im['mod'] == t['mod'] and (t['name'] in im['only'] or not im['only']) for im in d['imports']):
            hostm = next((m for m in mods if m['name'] == d['mod']), None)
            if not (hostm and any(im['mod'] == t['mod'] and (t['name'] in im['only'] or not im['only']) for im in hostm['imports'])):
                d['imports'].append({'mod': t['mod'], 'only': [t['name']]})


def random_config(rng, project):
    """Random configuration whose meaning is modelled: seeds (plain / qualified), default and per-routine
    expand / disable / block / ignore with plain, scoped, module-name and fnmatch-pattern keys."""
    procs = project['procs']
    mods = project['mods']
    called = set()
    for p in procs:
        for c in p['calls']:
            if c != p['name']:
                called.add(c)
    roots = [p for p in procs if p['name'] not in called] or procs[:1]
    names = [p['name'] for p in procs]

    def uniq(p):
        return names.count(p['name']) == 1 or not p['mod']

    seeds = []
    for p in rng.sample(roots, min(len(roots), rng.choice([1, 1, 1, 2]))):
        if uniq(p) and rng.random() < 0.6:
            seeds.append(p['name'])
        else:
            seeds.append(f"{p['mod']}#{p['name']}")
    if rng.random() < 0.15 and len(procs) > 2:
        p = rng.choice(procs)    # a seed in the middle of the graph (may also be a dependency)
        s = p['name'] if uniq(p) and rng.random() < 0.5 else f"{p['mod']}#{p['name']}"
        if s not in seeds and p['name'] not in seeds and f"{p['mod']}#{p['name']}" not in seeds:
            seeds.insert(rng.randint(0, len(seeds)), s)

    def target_key(patterns):
        p = rng.choice(procs)
        forms = [p['name'], p['name'], f"{p['mod']}#{p['name']}"]
        if p['mod']:
            forms.append(p['mod'])
        if mods:
            m = rng.choice(mods)
            forms.append(m['name'])
            forms.append(rng.choice(m['vars']))
            forms.append(f"{m['name']}#{rng.choice(m['vars'])}")
        if patterns:
            n = p['name']
            forms += [n[:-1] + '*', '*' + n[-1], n[:-1] + '?', (p['mod'] or '') + '#*', '*#' + n, n[0] + '*',
                      'm?#*', '*_m*']
        return rng.choice(forms)

    def keylist(patterns, nmax=2):
        return [target_key(patterns) for _ in range(rng.randint(1, nmax))]

    # "union rule" configurations: a module procedure is disabled globally (plain / scoped / pattern / module key) and
    # one of its callers has its own routine-level lists that do not repeat the global entry
    pairs = [(m_, t_) for m_ in procs for t_ in procs
             if t_['mod'] and t_ is not m_ and t_['name'] in m_['calls'] and t_['name'] != m_['name']]
    if pairs and rng.random() < 0.22:
        m_, t_ = rng.choice(pairs)
        n = t_['name']
        gkey = rng.choice([n, n, f"{t_['mod']}#{n}", f"{t_['mod']}#{n}", n[:-1] + '?', '*#' + n, t_['mod']])
        others = [v for md in mods for v in md['vars']] + [p['name'] for p in procs if p['name'] not in (n, m_['name'])]
        own = [rng.choice(others)]
        opts = rng.choice([{'disable': own}, {'disable': own}, {'disable': [], 'block': own}, {'disable': own, 'ignore': own},
                           {'disable': own, 'block': [rng.choice(others)]}])
        rkey = m_['name'] if uniq(m_) and rng.random() < 0.6 else f"{m_['mod']}#{m_['name']}"
        routines = [routine_entry(rkey, **opts)]
        if rng.random() < 0.3:
            routines[0]['hasRole'], routines[0]['role'] = True, 'driver'
        return make_config(seeds, expand=True, disable=[gkey], routines=routines)
    kw = {'disable': [], 'block': [], 'ignore': []}
    r = rng.random()
    if r < 0.22:
        kw['disable'] = keylist(rng.random() < 0.4)
    elif r < 0.42:
        kw['block'] = keylist(rng.random() < 0.4)
    elif r < 0.65:
        kw['ignore'] = keylist(False)
    expand = rng.random() > 0.08
    routines = []
    used = set()
    for _ in range(rng.choice([0, 0, 1, 1, 2, 3])):
        p = rng.choice(procs)
        if (p['mod'], p['name']) in used or names.count(p['name']) > 1 and False:
            continue
        used.add((p['mod'], p['name']))
        if any(q['name'] == p['name'] and (q['mod'], q['name']) in used and q is not p for q in procs):
            k = f"{p['mod']}#{p['name']}"      # a plain key would select two configured items
        else:
            k = p['name'] if uniq(p) and rng.random() < 0.6 else f"{p['mod']}#{p['name']}"
        opts = {}
        what = rng.choice(['block', 'disable', 'ignore', 'expand', 'block', 'ignore', 'ignore', 'role', 'empty'])
        if what == 'expand':
            opts['expand'] = not expand if rng.random() < 0.8 else expand
        elif what in ('block', 'disable'):
            opts[what] = keylist(rng.random() < 0.3) if rng.random() < 0.85 else []
        elif what == 'ignore':
            opts['ignore'] = keylist(False)
        elif what == 'role':
            opts['role'] = 'driver'
            if rng.random() < 0.5:
                opts['mode'] = 'other'
        if rng.random() < 0.3 and 'role' not in opts:
            opts['role'] = 'driver'
        routines.append(routine_entry(k, **opts))
    if mods and rng.random() < 0.1:
        m = rng.choice(mods)
        routines.append(routine_entry(m['name'], **rng.choice([{'expand': False}, {'ignore': keylist(False)}, {'block': keylist(False)}])))
    if not expand and rng.random() < 0.8:
        # make at least the first seed expand
        s0 = seeds[0]
        if not any(r_['key'] in (s0, s0.split('#')[-1]) for r_ in routines):
            routines.append(routine_entry(s0, expand=True))
    return make_config(seeds, expand=expand, routines=routines, **kw)


# ---------------------------------------------------------------------------------------------
# case pools shared by the scheduler properties (TLC is asked for the small cases and for legality)

def gen_small(ctx, n, np_, ifaces=False):
    """n random members of the small-scope universe of spec/SchedUniverse.tla with NP = np_ procedures,
    sampled and printed by TLC (Gen_Sched, -simulate): list of {"P", "C", "so", "po", "st"}."""
    import json
    from . import core
    gcfg = os.path.join(ctx.work, f'Gen_Sched_{np_}.cfg')
    with open(os.path.join(core.SPEC, 'Gen_Sched.cfg')) as fh:
        text = fh.read().replace('NP = 4', f'NP = {np_}')
    if ifaces:      # also projects with a generic interface between a caller and the last procedure (opt-in: C21/C22)
        text = text.replace('Ifcs = {FALSE}', 'Ifcs = {FALSE, TRUE}')
    with open(gcfg, 'w') as fh:
        fh.write(text)
    r = ctx.tlc('Gen_Sched', gcfg, simulate='num=1', depth=int(n * 1.4) + 2, seed=ctx.seed + 100 + np_, timeout=900)
    seen, cases = set(), []
    for v in r.prints('CASE'):
        if v[1] not in seen:          # distinct cases only (vacuity guard: the sample must really vary)
            seen.add(v[1])
            cases.append(json.loads(v[1]))
    if len(cases) < n * 0.7:
        raise core.MachineryError(f'Gen_Sched produced only {len(cases)} distinct cases of {n} requested\n{r.tail()}')
    return cases[:n]


def prefilter(ctx, pairs):
    """Keep the (project, config) pairs that TLC accepts as legal input
    (LegalProject /\\ AcyclicProject /\\ LegalConfig of spec/SchedProject.tla)."""
    from . import core
    batch = [{'P': tla_project(p), 'C': c, 'obs': {'items': [], 'edges': [], 'raised': ''}} for p, c in pairs]
    verdicts, _ = core.validate_batch('Trace_Sched', 'Trace_Sched', batch, workdir=ctx.work, per_shard_min=40)
    return [pc for i, pc in enumerate(pairs) if verdicts[i][1] != 'illegal-input']


def seeded_pairs(ctx, n, rng=None, ifaces=False):
    """n legal (project, config) pairs from the seeded python generator (<= 8 routines, several files)."""
    from . import core
    rng = rng or ctx.rng
    cands = []
    for i in range(int(n * 1.5) + 5):
        p = random_project(rng, dup_names=(i % 6 == 0), ifaces=ifaces and i % 3 == 1)
        cands.append((p, random_config(rng, p)))
    legal = prefilter(ctx, cands)
    if len(legal) < n * 0.6:
        raise core.MachineryError(f'seeded generator yield too low: {len(legal)} legal of {len(cands)}')
    return legal[:n], f'{len(legal)}/{len(cands)}'


# ---------------------------------------------------------------------------------------------
# C23 / C24 / C25: item-changing transformations, IR-level projection of the scheduler state
#
# abstract operation record (every field always present):
#   {"op": "dep" | "wrap" | "dup" | "rm", "k": kernel local name ("" for dep/wrap), "sfx": suffix,
#    "msfx": module suffix ("" = none), "sub": duplicate_subgraph}

def op_record(op, k='', sfx='', msfx='', sub=False):
    return {'op': op, 'k': k, 'sfx': sfx, 'msfx': msfx, 'sub': bool(sub)}


def make_transformation(op):
    """The real Loki transformation object of an abstract operation record."""
    from loki.transformations.dependency import DuplicateKernel, RemoveKernel
    from loki.transformations.build_system import DependencyTransformation, ModuleWrapTransformation
    if op['op'] == 'dep':
        return DependencyTransformation(suffix=op['sfx'], module_suffix=op['msfx'] or None)
    if op['op'] == 'wrap':
        return ModuleWrapTransformation(module_suffix=op['msfx'])
    if op['op'] == 'dup':
        return DuplicateKernel(duplicate_kernels=(op['k'],), duplicate_suffix=op['sfx'],
                               duplicate_module_suffix=op['msfx'] or None, duplicate_subgraph=op['sub'])
    if op['op'] == 'rm':
        return RemoveKernel(remove_kernels=(op['k'],))
    raise ValueError(op)


def codes(s):
    return [ord(ch) for ch in s]


def tokens(text):
    import re
    return re.findall(r'[A-Za-z_][A-Za-z_0-9]*|\d+|\S', text)


class Interner:
    """raw spelling -> 1-based index into a table of character-code sequences (for the TLA+ side)."""

    def __init__(self):
        self.index = {}
        self.table = []

    def __call__(self, s):
        if s not in self.index:
            self.table.append(codes(s))
            self.index[s] = len(self.table)
        return self.index[s]


def graph_files(sched, kinds=None):
    """The distinct Sourcefile objects of the items in the scheduler graph, in graph order
    (kinds: only items of these KINDS that are not ignored = what a file write with that item filter selects)."""
    seen, out = set(), []
    for it in sched.items:
        if kinds is not None and (KINDS.get(type(it).__name__) not in kinds or it.is_ignored):
            continue
        src = getattr(it, 'source', None)
        if src is not None and id(src) not in seen:
            seen.add(id(src))
            out.append(src)
    return out


def _unit_record(routine, fkey):
    from loki.ir import FindNodes, CallStatement, Interface
    from loki.subroutine import Subroutine
    calls = list(dict.fromkeys(str(c.name).lower() for c in FindNodes(CallStatement).visit(routine.body)))
    imports = [{'mod': str(i.module).lower(), 'only': [str(s).lower() for s in (i.symbols or ())]}
               for i in routine.imports if not i.c_import]
    ifaces = [b.name.lower() for i in FindNodes(Interface).visit(routine.spec) for b in i.body if isinstance(b, Subroutine)]
    # `calls`: the names the routine depends on by name = CALL statements + routines declared in interface blocks (both are
    # dependencies for the scheduler); `rcalls`: the CALL statements alone
    return {'name': routine.name.lower(), 'mod': routine.parent.name.lower() if routine.parent is not None else '',
            'file': fkey, 'imports': imports, 'calls': list(dict.fromkeys(calls + ifaces)), 'rcalls': calls, 'ifaces': ifaces}


def project_of_sources(sources, keys=None):
    """Abstract project (format of this module + `ifaces` per procedure) recovered from the IR of Sourcefile objects
    (no text matching): modules with module-level imports and variables, module procedures and free procedures."""
    mods, procs = [], []
    for n, src in enumerate(sources):
        fkey = (keys or {}).get(id(src), f's{n + 1}')
        for m in src.modules:
            mods.append({'name': m.name.lower(), 'file': fkey,
                         'imports': [{'mod': str(i.module).lower(), 'only': [str(s).lower() for s in (i.symbols or ())]}
                                     for i in m.imports if not i.c_import],
                         'vars': [v.name.lower() for v in m.variables], 'params': []})
            for r in m.subroutines:
                procs.append(_unit_record(r, fkey))
        for r in src.subroutines:
            procs.append(_unit_record(r, fkey))
    return {'mods': mods, 'procs': procs}


# ---------------------------------------------------------------------------------------------
# C24: the convert / plan command line entry points, in-process

TRAFO_CLASS = {'dep': ('DependencyTransformation', 'loki.transformations.build_system'),
               'wrap': ('ModuleWrapTransformation', 'loki.transformations.build_system'),
               'dup': ('DuplicateKernel', 'loki.transformations.dependency'),
               'rm': ('RemoveKernel', 'loki.transformations.dependency')}


def op_options(op):
    if op['op'] == 'dep':
        o = {'suffix': op['sfx']}
        if op['msfx']:
            o['module_suffix'] = op['msfx']
        return o
    if op['op'] == 'wrap':
        return {'module_suffix': op['msfx']}
    if op['op'] == 'dup':
        o = {'duplicate_kernels': [op['k']], 'duplicate_suffix': op['sfx'], 'duplicate_subgraph': op['sub']}
        if op['msfx']:
            o['duplicate_module_suffix'] = op['msfx']
        return o
    return {'remove_kernels': [op['k']]}


def cli_config(config, ops, mode, fw=None, enable_imports=True, extra_default=None, extra_routines=None):
    """The dict written as TOML configuration file for `loki_transform convert|plan`: scheduler configuration
    (render_config) + one transformation entry per operation + the pipeline registered under `mode`.
    fw: options of an explicitly configured FileWriteTransformation (None: the CLI's default one);
    seeds are marked with `seed_routine = true` (the CLI has no seed option);
    extra_default / extra_routines: further keys (replicate, lib) for [default] / [routines.<key>]."""
    cfg, seeds = render_config(config, Layout(plain=True), enable_imports=enable_imports)
    cfg['default'].update(extra_default or {})
    for s in seeds:
        cfg['routines'].setdefault(s, {})['seed_routine'] = True
    for k, v in (extra_routines or {}).items():
        cfg['routines'].setdefault(k, {}).update(v)
    cfg['transformations'] = {}
    names = []
    for n, op in enumerate(ops):
        cls, mod = TRAFO_CLASS[op['op']]
        name = f'T{n + 1}{op["op"]}'
        cfg['transformations'][name] = {'classname': cls, 'module': mod, 'options': op_options(op)}
        names.append(name)
    if fw is not None:
        cfg['transformations']['FileWriteTransformation'] = {
            'classname': 'FileWriteTransformation', 'module': 'loki.transformations.build_system',
            'options': {k: v for k, v in fw.items() if v not in (None, '')}}
    cfg['pipelines'] = {mode: {'transformations': names}}
    return cfg


def cli_run(command, cfg, mode, source, workdir, build=None, root=None, plan_file=None):
    """Invoke `loki_transform <command>` in-process; returns (exit code, exception text, plan text or '')."""
    import tomli_w
    from click.testing import CliRunner
    from loki.cli.loki_transform import cli
    _quiet()
    cfile = os.path.join(workdir, f'{command}.config')
    with open(cfile, 'w') as fh:
        fh.write(tomli_w.dumps(cfg))
    args = [command, f'--mode={mode}', f'--config={cfile}', '--frontend=fp', f'--source={source}', '--log-level=error']
    if build:
        args.append(f'--build={build}')
    if root:
        args.append(f'--root={root}')
    if plan_file:
        args.append(f'--plan-file={plan_file}')
    res = CliRunner().invoke(cli, args)
    exc = ''
    if res.exception is not None and not isinstance(res.exception, SystemExit):
        e = res.exception
        exc = f'{type(e.__cause__ or e).__name__}: {str(e)[:300]}'
    elif res.exit_code != 0:
        exc = f'exit {res.exit_code}: {res.output[-200:]}'
    text = ''
    if plan_file and os.path.exists(plan_file):
        with open(plan_file) as fh:
            text = fh.read()
    return res.exit_code, exc, text


def parse_plan(text):
    """The lists of a CMake plan file: {variable name: [path strings]}."""
    import re
    return {k: v.split() for k, v in re.findall(r'set\(\s*(\w+)\s*(.*?)\s*\)', text, flags=re.S)}


def tree_files(root):
    out = set()
    for d, _, fs in os.walk(root):
        for f in fs:
            out.add(os.path.join(d, f))
    return out


# ---------------------------------------------------------------------------------------------
# C25: projection of the scheduler state after an item-changing transformation (from the IR)

def seed_records(sched):
    out = []
    for s in sched.seeds:
        s = str(s).lower()
        if '#' in s:
            sc, lo = s.split('#', 1)
            out.append({'q': True, 'scope': sc, 'local': lo})
        else:
            out.append({'q': False, 'scope': '', 'local': s})
    return out


def observe_ops_state(sched, paths0, mvi=False):
    """Projected state of the real scheduler (record `obs` of spec/Trace_SchedOps.tla).
    paths0: {file id: path} of the rendered project (to tell which project files are untouched);
    mvi: the later file write uses include_module_var_imports (files of module items are written as well)."""
    from loki.batch import FileItem, ProcedureItem, ModuleItem
    cache = sched.item_factory.item_cache
    srckey, srcs = {}, []

    def key_of(src):
        if id(src) not in srckey:
            srckey[id(src)] = f's{len(srcs) + 1}'
            srcs.append(src)
        return srckey[id(src)]

    centries, mods, procs = [], [], []
    for k, it in cache.items():
        if isinstance(it, FileItem):
            continue
        kind = KINDS.get(type(it).__name__, type(it).__name__)
        live, irname = False, ''
        try:
            node = it.ir
            live = node is not None
            if live:
                parent = getattr(node, 'parent', None)
                irname = node.name.lower() if isinstance(it, ModuleItem) else \
                    f"{parent.name.lower() if parent is not None else ''}#{node.name.lower()}"
        except Exception:  # pylint: disable=broad-except
            live = False
        centries.append({'key': str(k).lower(), 'name': it.name.lower(), 'kind': kind, 'live': bool(live), 'irname': irname})
        if not live or it.source is None:
            continue
        fkey = key_of(it.source)
        if isinstance(it, ModuleItem):
            m = it.ir
            mods.append({'name': it.name.lower(), 'file': fkey,
                         'imports': [{'mod': str(i.module).lower(), 'only': [str(s).lower() for s in (i.symbols or ())]}
                                     for i in m.imports if not i.c_import],
                         'vars': [v.name.lower() for v in m.variables], 'params': []})
        elif isinstance(it, ProcedureItem):
            r = _unit_record(it.ir, fkey)
            r['name'], r['mod'] = it.local_name.lower(), (it.scope_name or '').lower()
            procs.append(r)
    nodes = []
    for it in sched.items:
        kind = KINDS.get(type(it).__name__, type(it).__name__)
        src = getattr(it, 'source', None)
        nm = it.name.lower()
        nodes.append({'name': nm, 'kind': kind, 'ignored': bool(it.is_ignored), 'file': key_of(src) if src is not None else '',
                      'role': str(it.role), 'same': cache.get(it.name) is it,
                      'scope': nm.split('#')[0] if '#' in nm else '', 'local': nm.split('#')[-1]})
    gsrcs = graph_files(sched, ('proc', 'mod') if mvi else ('proc',))
    pg = project_of_sources(gsrcs, {id(s): key_of(s) for s in gsrcs})
    paths = [{'key': key_of(s), 'path': str(s.path)} for s in gsrcs]
    used = {os.path.abspath(str(s.path)) for s in gsrcs if s.path is not None}
    untouched = [fid for fid, p in paths0.items() if os.path.abspath(p) not in used]
    return {'seeds': seed_records(sched), 'nodes': nodes, 'edges': [[a.name.lower(), b.name.lower()] for a, b in sched.dependencies],
            'cache': centries, 'PC': {'mods': mods, 'procs': procs}, 'PG': pg, 'paths': paths, 'untouched': untouched, 'raised': ''}


EMPTY_OBS = {'seeds': [], 'nodes': [], 'edges': [], 'cache': [], 'PC': {'mods': [], 'procs': []}, 'PG': {'mods': [], 'procs': []},
             'paths': [], 'untouched': [], 'raised': ''}


def make_link_job(written, others, calls, workdir, tag=''):
    """A compiler job: `written` files must compile, `others` only provide definitions; a main program calls `calls`
    = [(module or '', routine)].  Module order from the text of the files (only to order the compiler's command line)."""
    import re
    files = list(written) + list(others)
    defs, uses = {}, {}
    for f in files:
        with open(f) as fh:
            text = fh.read().lower()
        for m in re.findall(r'^\s*module\s+(\w+)\s*$', text, flags=re.M):
            defs.setdefault(m, f)
        uses[f] = set(re.findall(r'^\s*use\s+(\w+)', text, flags=re.M))
    order, state = [], {}

    def visit(f):
        if state.get(f):
            return      # done, or a cycle (the compiler reports it)
        state[f] = 1
        for m in sorted(uses[f]):
            if m in defs and defs[m] != f:
                visit(defs[m])
        state[f] = 2
        order.append(f)
    for f in files:
        visit(f)
    lines = ['program verif_main'] + [f'  use {m}, only: {r}' for m, r in calls if m] + ['  implicit none', '  integer :: a', '  a = 0']
    lines += [f'  call {r}(a)' for _, r in calls] + ['  print *, a', 'end program verif_main']
    main = os.path.join(workdir, f'verif_main{tag}.f90')
    with open(main, 'w') as fh:
        fh.write('\n'.join(lines) + '\n')
    return {'workdir': workdir, 'written': list(written), 'order': order, 'main': main, 'tag': tag}


def write_sources(sched, paths0, untouched, workdir, mvi=False):
    """FileWriteTransformation into workdir/out + a main program that calls the seeds.  Returns a failure text or the
    compiler job for `link_job` (written files, untouched project files, module order, main program)."""
    from loki.transformations.build_system import FileWriteTransformation
    out = os.path.join(workdir, 'out')
    os.makedirs(out, exist_ok=True)
    sched.build_args['output_dir'] = out
    try:
        sched.process(FileWriteTransformation(include_module_var_imports=mvi))
    except Exception as e:  # pylint: disable=broad-except
        return f'write-raised:{type(e.__cause__ or e).__name__}'
    written = sorted(os.path.join(out, f) for f in os.listdir(out))
    calls = []
    for s in sched.seeds:
        it = sched[s] if '#' in str(s) else (sched[f'#{s}'] or next((i for i in sched.items if i.local_name == str(s).lower()), None))
        if it is None:
            return f'seed-not-in-graph:{s}'
        calls.append((it.scope_name or '', it.local_name))
    return make_link_job(written, [paths0[f] for f in untouched], calls, workdir)


def link_job(job, timeout=120):
    """gfortran compile + link of a job of `write_sources` (thread safe: only subprocesses).  'ok' or a failure text."""
    import subprocess
    if isinstance(job, str):
        return job
    workdir, written, order, main = job['workdir'], job['written'], job['order'], job['main']
    bdir = os.path.join(workdir, 'build' + job.get('tag', ''))
    os.makedirs(bdir, exist_ok=True)

    def gf(args):
        try:
            p = subprocess.run(['gfortran', '-J', bdir] + args, cwd=bdir, stdout=subprocess.PIPE, stderr=subprocess.STDOUT,
                               timeout=timeout, text=True, errors='replace')
        except subprocess.TimeoutExpired:
            return 124, 'gfortran-timeout'
        return p.returncode, p.stdout

    def first_error(text):
        err = [ln for ln in text.splitlines() if 'Error' in ln or 'undefined reference' in ln or 'multiple definition' in ln]
        return (err[0].strip()[:160] if err else text[-160:])

    # the untouched project files only provide what the written files still refer to: their objects go into an archive
    # (an untouched file that no longer compiles -- it uses a unit that was renamed -- is simply not available)
    wset = set(written)
    worder = [f for f in order if f in wset]
    uorder = [f for f in order if f not in wset]
    exe = os.path.join(bdir, 'main.exe')
    if not uorder:
        rc, text = gf(['-o', exe] + worder + [main])
        return 'ok' if rc == 0 else 'gfortran:' + first_error(text)
    # modules of untouched files may be needed to compile written ones and vice versa: compile in the common order,
    # untouched files one by one (they may fail), runs of written files together
    objs_w, objs_u, run_ = [], [], []

    def flush():
        if not run_:
            return 0, ''
        rc_, text_ = gf(['-c'] + run_)
        objs_w.extend(os.path.join(bdir, os.path.basename(f)[:-len(os.path.splitext(f)[1])] + '.o') for f in run_)
        run_.clear()
        return rc_, text_
    for f in order:
        if f in wset:
            run_.append(f)
            continue
        rc, text = flush()
        if rc != 0:
            return 'gfortran:' + first_error(text)
        obj = os.path.join(bdir, f'u{len(objs_u)}.o')
        rc, text = gf(['-c', f, '-o', obj])
        if rc == 0:
            objs_u.append(obj)
    run_.append(main)
    rc, text = flush()
    if rc != 0:
        return 'gfortran:' + first_error(text)
    lib = []
    if objs_u:
        subprocess.run(['ar', 'rcs', os.path.join(bdir, 'libuntouched.a')] + objs_u, cwd=bdir, check=False, timeout=timeout)
        lib = ['-L', bdir, '-luntouched']
    rc, text = gf(['-o', exe] + objs_w + lib)
    if rc != 0:
        return 'gfortran:' + first_error(text)
    return 'ok'


def write_and_link(sched, paths0, untouched, workdir, timeout=120, mvi=False):
    return link_job(write_sources(sched, paths0, untouched, workdir, mvi), timeout)
