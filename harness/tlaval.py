"""Parser for TLA+ values as printed by TLC (PrintT output, -simulate trace files, error traces).

Supports: integers, strings, TRUE/FALSE, tuples <<..>>, sets {..}, records [a |-> v, ..],
functions (a :> b @@ c :> d), model values (bare identifiers), intervals a..b.
Python image: int, str, bool, list (tuple/sequence), frozenset via ('set', [...]) -> python list tagged,
records/functions -> dict.
"""
import re

_TOK = re.compile(r'''
   (?P<ws>\s+)
 | (?P<str>"(?:[^"\\]|\\.)*")
 | (?P<num>-?\d+)
 | (?P<op><<|>>|\|->|:>|@@|\.\.|[\[\]{}(),])
 | (?P<id>[A-Za-z_][A-Za-z0-9_!]*)
''', re.X)


class TLAParseError(ValueError):
    pass


class TSet(list):
    """A TLA+ set (kept as list in print order; compare with sorted/ set() as needed)."""


def _unescape(s):
    out = []
    i = 0
    while i < len(s):
        c = s[i]
        if c == '\\' and i + 1 < len(s):
            n = s[i + 1]
            out.append({'n': '\n', 't': '\t', 'r': '\r', 'f': '\f'}.get(n, n))
            i += 2
        else:
            out.append(c)
            i += 1
    return ''.join(out)


def tokenize(text):
    pos = 0
    toks = []
    while pos < len(text):
        m = _TOK.match(text, pos)
        if not m:
            raise TLAParseError(f'bad char at {pos}: {text[pos:pos+30]!r}')
        pos = m.end()
        k = m.lastgroup
        if k == 'ws':
            continue
        toks.append((k, m.group(k)))
    return toks


class _P:
    def __init__(self, toks):
        self.t = toks
        self.i = 0

    def peek(self):
        return self.t[self.i] if self.i < len(self.t) else (None, None)

    def eat(self, v=None):
        k, x = self.peek()
        if v is not None and x != v:
            raise TLAParseError(f'expected {v!r} got {x!r} at token {self.i}')
        self.i += 1
        return k, x

    def value(self):
        k, x = self.peek()
        if k == 'str':
            self.eat()
            return _unescape(x[1:-1])
        if k == 'num':
            self.eat()
            v = int(x)
            if self.peek()[1] == '..':
                self.eat()
                hi = self.value()
                return TSet(range(v, hi + 1))
            return v
        if k == 'id':
            self.eat()
            if x == 'TRUE':
                return True
            if x == 'FALSE':
                return False
            return x
        if x == '<<':
            self.eat()
            items = self.seq('>>')
            return items
        if x == '{':
            self.eat()
            return TSet(self.seq('}'))
        if x == '[':
            self.eat()
            rec = {}
            if self.peek()[1] == ']':
                self.eat()
                return rec
            while True:
                _, name = self.eat()
                self.eat('|->')
                rec[name] = self.value()
                if self.peek()[1] == ',':
                    self.eat()
                    continue
                self.eat(']')
                return rec
        if x == '(':
            self.eat()
            fn = {}
            while True:
                kk = self.value()
                self.eat(':>')
                vv = self.value()
                fn[_key(kk)] = vv
                if self.peek()[1] == '@@':
                    self.eat()
                    continue
                self.eat(')')
                return fn
        raise TLAParseError(f'unexpected token {x!r} at {self.i}')

    def seq(self, close):
        items = []
        if self.peek()[1] == close:
            self.eat()
            return items
        while True:
            items.append(self.value())
            if self.peek()[1] == ',':
                self.eat()
                continue
            self.eat(close)
            return items


def _key(k):
    if isinstance(k, list):
        return tuple(_key(x) for x in k)
    return k


def parse(text):
    p = _P(tokenize(text))
    v = p.value()
    if p.i != len(p.t):
        raise TLAParseError('trailing tokens')
    return v


def parse_state(text):
    """Parse a conjunction '/\\ x = v /\\ y = w' (one TLC state) into a dict."""
    out = {}
    parts = re.split(r'^\s*/\\ ', text, flags=re.M)
    for part in parts:
        part = part.strip()
        if not part:
            continue
        name, _, val = part.partition('=')
        out[name.strip()] = parse(val.strip())
    return out


def to_tla(v):
    """Python value -> TLA+ literal text (for cfg constants / generated modules)."""
    if isinstance(v, bool):
        return 'TRUE' if v else 'FALSE'
    if isinstance(v, int):
        return str(v)
    if isinstance(v, str):
        return '"' + v.replace('\\', '\\\\').replace('"', '\\"') + '"'
    if isinstance(v, (set, frozenset, TSet)):
        return '{' + ', '.join(to_tla(x) for x in v) + '}'
    if isinstance(v, (list, tuple)):
        return '<<' + ', '.join(to_tla(x) for x in v) + '>>'
    if isinstance(v, dict):
        return '[' + ', '.join(f'{k} |-> {to_tla(x)}' for k, x in v.items()) + ']'
    raise TypeError(type(v))
