"""C41 plumbing: independent export of scope trees + symbol occurrences of a Loki program unit tree, generator of
kernel modules for the transformation registry, gfortran / frontend acceptance recorders.

The export is a plain structural recursion over program-unit attributes (spec / body / contains), the dataclass
fields of IR nodes and the constructor arguments of expression nodes (no Loki visitor, finder or mapper, no
symbol-table look-ups): it records facts, the clauses are evaluated by TLC (spec/WellFormedIR.tla).

  scope record  {id, kind, name, parent, encl, tparent, declared[], imported[], assoc[], wild}
     parent   id of the object `scope.parent` (0 = None, -1 = an object that is not a scope of this tree)
     encl     id of the structurally enclosing scope (0 for the root)
     tparent  id of the scope whose symbol table is `scope.symbol_attrs.parent` (0 / -1 as above)
     declared names introduced by declarations, dummy procedures, contained procedures, type definitions
     imported names brought in by USE ... ONLY (wild = a USE without ONLY is present)
     assoc    associate names (Associate nodes)
     decls    the names declared by declaration statements of the scope, case folded, one entry per declaration
  occurrence    {name, kind, scope, at, role, member}
     kind     var (Scalar/Array) | deferred | proc | dtype | other
     scope    id of the object `symbol.scope` (0 = None, -1 = not a scope of this tree)
     at       id of the innermost scope that structurally contains the occurrence
     role     use | decl | import | assocname | callee | fcall | kind
     member   the symbol is a derived-type component (resolved through its parent's type)
"""
import os
import subprocess
from dataclasses import fields as dc_fields

from . import lib_fm as F
from .lib_fm import V, N, op, call, el, cmp_, assign, decl, unit, NONE

SKIP_FIELDS = {'source', 'label', 'symbol_attrs', 'parent', 'rescope_symbols'}


class Exporter:
    def __init__(self):
        self.scope_ids = {}     # id(scope object) -> small int
        self.tables = {}        # id(symbol table) -> scope id
        self.scopes = []        # records
        self.objs = []          # keep alive
        self.occ = {}           # dedup: tuple -> record
        self.pending = []       # (scope obj, record) for parent pointers

    # ---------------------------------------------------------------- scopes
    def _new_scope(self, obj, kind, name, encl):
        sid = len(self.scopes) + 1
        self.scope_ids[id(obj)] = sid
        self.objs.append(obj)
        rec = {'id': sid, 'kind': kind, 'name': name.lower(), 'parent': 0, 'encl': encl, 'tparent': 0,
               'declared': [], 'imported': [], 'assoc': [], 'wild': False, 'decls': []}
        self.scopes.append(rec)
        tab = getattr(obj, 'symbol_attrs', None)
        if tab is not None:
            self.tables[id(tab)] = sid
        self.pending.append((obj, rec))
        return rec

    def _ref(self, obj):
        if obj is None:
            return 0
        return self.scope_ids.get(id(obj), -1)

    def finish(self):
        for obj, rec in self.pending:
            rec['parent'] = self._ref(getattr(obj, 'parent', None))
            tab = getattr(obj, 'symbol_attrs', None)
            tpar = getattr(tab, 'parent', None) if tab is not None else None
            rec['tparent'] = 0 if tpar is None else self.tables.get(id(tpar), -1)
        for rec in self.scopes:
            for k in ('declared', 'imported', 'assoc'):
                rec[k] = sorted(set(rec[k]))
            rec['decls'] = sorted(rec['decls'])
        # symbol scopes are resolved last: all scopes of the tree are known now
        occs = []
        for (name, kind, sobj_id, at, role, member) in self.occ:
            occs.append({'name': name, 'kind': kind, 'scope': 0 if sobj_id is None else self.scope_ids.get(sobj_id, -1),
                         'at': at, 'role': role, 'member': member})
        occs.sort(key=lambda o: (o['at'], o['name'], o['kind'], o['role'], o['scope']))
        return {'S': self.scopes, 'O': occs}

    # ---------------------------------------------------------------- expressions
    @staticmethod
    def _is_expr(x):
        from pymbolic.primitives import Expression
        return isinstance(x, Expression)

    def _kind(self, e):
        from loki.expression import symbols as sym
        if isinstance(e, (sym.Scalar, sym.Array)):
            return 'var'
        if isinstance(e, sym.DeferredTypeSymbol):
            return 'deferred'
        if isinstance(e, sym.ProcedureSymbol):
            return 'proc'
        if isinstance(e, sym.DerivedTypeSymbol):
            return 'dtype'
        return 'other'

    def expr(self, e, at, role='use'):
        from loki.expression import symbols as sym
        if isinstance(e, (sym.TypedSymbol, sym.MetaSymbol)):
            self._occ(e, at, role)
        if isinstance(e, sym.InlineCall):
            self.any(e.function, at, 'fcall')
            self.any(tuple(e.parameters), at)
            kws = e.kw_parameters
            for v in (kws.values() if hasattr(kws, 'values') else [kv[1] for kv in (kws or ())]):
                self.any(v, at)
            return
        try:
            args = e.__getinitargs__()
        except Exception:  # pylint: disable=broad-except
            args = ()
        sub_role = 'use' if role in ('decl', 'import', 'assocname', 'callee', 'fcall') else role
        for a in args:
            self.any(a, at, sub_role)

    def _occ(self, s, at, role):
        scope = getattr(s, 'scope', None)
        member = getattr(s, 'parent', None) is not None
        key = (str(s.name).lower().split('%')[-1] if member else str(s.name).lower(), self._kind(s),
               None if scope is None else id(scope), at, role, member)
        if scope is not None:
            self.objs.append(scope)
        self.occ[key] = True
        par = getattr(s, 'parent', None)
        if par is not None and self._is_expr(par):
            self.expr(par, at, 'use')

    def any(self, x, at, role='use'):
        from loki.ir import Node
        if x is None or isinstance(x, (str, int, float, bool)):
            return
        if isinstance(x, Node):
            self.node(x, at)
        elif self._is_expr(x):
            self.expr(x, at, role)
        elif isinstance(x, (tuple, list)):
            for y in x:
                self.any(y, at, role)
        elif isinstance(x, dict):
            for y in x.values():
                self.any(y, at, role)

    # ---------------------------------------------------------------- nodes
    def node(self, o, at):
        name = type(o).__name__
        srec = self.scopes[at - 1]
        if name == 'Associate':
            rec = self._new_scope(o, 'associate', '', at)
            for sel, nm in o.associations:
                self.any(sel, at, 'use')                 # selectors live in the enclosing scope
                self.any(nm, rec['id'], 'assocname')
                rec['assoc'].append(str(nm.name).lower())
            self.any(o.body, rec['id'])
            return
        if name == 'TypeDef':
            srec['declared'].append(str(o.name).lower())
            rec = self._new_scope(o, 'typedef', str(o.name), at)
            for d in o.body:
                if type(d).__name__ in ('VariableDeclaration', 'ProcedureDeclaration'):
                    for s in d.symbols:
                        rec['declared'].append(str(s.name).lower())
                self.node(d, rec['id']) if hasattr(d, '__dataclass_fields__') else None
            return
        if name in ('VariableDeclaration', 'ProcedureDeclaration'):
            for s in o.symbols:
                srec['declared'].append(str(s.name).lower())
                srec['decls'].append(str(s.name).lower())       # one entry per declaration (case folded, with multiplicity)
                self.any(s, at, 'decl')
                t = getattr(s, 'type', None)
                for extra in (getattr(t, 'kind', None), getattr(t, 'initial', None)):
                    if extra is not None and self._is_expr(extra):
                        self.expr(extra, at, 'kind')
            self.any(getattr(o, 'dimensions', None), at, 'use')
            if name == 'ProcedureDeclaration' and self._is_expr(getattr(o, 'interface', None)):
                self.expr(o.interface, at, 'use')
            return
        if name == 'Import':
            syms = tuple(o.symbols or ())
            if not syms and not getattr(o, 'c_import', False) and not getattr(o, 'f_include', False):
                srec['wild'] = True
            for s in syms:
                srec['imported'].append(str(s.name).lower())
                self.any(s, at, 'import')
            for rn in tuple(getattr(o, 'rename_list', None) or ()):
                if isinstance(rn, (tuple, list)) and len(rn) == 2 and self._is_expr(rn[1]):
                    srec['imported'].append(str(rn[1].name).lower())
            return
        if name == 'StatementFunction':
            srec['declared'].append(str(o.variable.name).lower())
            return
        if name == 'Interface':
            for s in getattr(o, 'symbols', ()) or ():
                srec['declared'].append(str(s.name).lower())
            return                                          # interface bodies are scopes of their own; not generated
        if name == 'CallStatement':
            self.any(o.name, at, 'callee')
            self.any(o.arguments, at)
            for kw in tuple(o.kwarguments or ()):
                self.any(kw[1], at)
            return
        if name == 'Enumeration':
            for s in o.symbols:
                srec['declared'].append(str(s.name).lower())
            return
        for f in dc_fields(o):
            if f.name in SKIP_FIELDS:
                continue
            self.any(getattr(o, f.name, None), at)

    # ---------------------------------------------------------------- program units
    def unit(self, u, encl=0):
        from loki import Module, Subroutine
        if isinstance(u, Module):
            rec = self._new_scope(u, 'module', u.name, encl)
        elif isinstance(u, Subroutine):
            rec = self._new_scope(u, 'function' if u.is_function else 'subroutine', u.name, encl)
        else:
            return
        sid = rec['id']
        if getattr(u, 'docstring', None):
            self.any(u.docstring, sid)
        self.any(u.spec, sid)
        if isinstance(u, Subroutine):
            self.any(u.body, sid)
        contains = getattr(u, 'contains', None)
        if contains is not None:
            for c in getattr(contains, 'body', ()):
                if isinstance(c, Subroutine):
                    rec['declared'].append(c.name.lower())
                    self.unit(c, sid)
        if encl == 0 and isinstance(u, Subroutine):
            rec['declared'].append(u.name.lower())
        return rec


def export_units(units):
    ex = Exporter()
    for u in units:
        ex.unit(u, 0)
    out = ex.finish()
    out['_keep'] = ex.objs
    return out


# ----------------------------------------------------------------------------- acceptance recorders
def reparse(text):
    """FrontendAccepts: the generated code is parsed again by the (default) frontend."""
    from loki import Sourcefile
    try:
        sf = Sourcefile.from_source(text)
        n = len(list(sf.all_subroutines))
        return 'ok' if n else 'empty'
    except Exception as ex:  # pylint: disable=broad-except
        return f'{type(ex).__name__}'


def syntax_check(workdir, tag, sources, timeout=120):
    """CompilerAccepts: gfortran -fsyntax-only on the sources, in order (module files are written to workdir)."""
    d = os.path.join(workdir, tag)
    os.makedirs(d, exist_ok=True)
    names = []
    for name, text in sources:
        with open(os.path.join(d, name), 'w') as fh:
            fh.write(text)
        names.append(name)
    try:
        c = subprocess.run(['gfortran', '-fsyntax-only', '-w', '-ffree-line-length-none'] + names, cwd=d,
                           capture_output=True, text=True, timeout=timeout)
    except subprocess.TimeoutExpired:
        return 'timeout', ''
    if c.returncode == 0:
        return 'ok', ''
    first = next((ln.strip() for ln in c.stderr.splitlines() if ln.strip().startswith('Error')), 'error')
    return 'error', first + '\n' + c.stderr[-1500:]


# ----------------------------------------------------------------------------- programs
def raw(text):
    return {'s': 'raw', 'text': text}


class WFGen(F.Gen):
    """lib_fm.Gen kernels plus what the registry's transformations look for: an internal procedure using host
    variables, `!$loki inline` marked calls, an outline region, loop pragmas, a sequence-association call.
    (Programs only have to compile: C41 does not judge behaviour.)"""
    FEATURES = ('select', 'while', 'call', 'exitcycle', 'section', 'fcall', 'twod', 'assoc')

    def __init__(self, rng, features=FEATURES):
        super().__init__(rng, features)

    def program(self, nstmts=5, depth=2, casemix=None):
        """casemix = seed: the case-mix stratum.  Every occurrence of an identifier is spelled lower / UPPER /
        Capitalised at random (lib_fm.casemixing), and the callee locals that clash with caller variables (below)
        clash up to letter case only: caller `w`, `j`, `l` - callee `W`, `J`, `L` (Fortran names are case-insensitive)."""
        rng = self.rng
        prog = super().program(nstmts, depth)
        kernel = prog['units'][0]
        body = kernel['body']
        cw, cj, cl = ('W', 'J', 'L') if casemix is not None else ('w', 'j', 'l')
        # internal procedure: dummy d (inout), local q, host variables t1 / ia / m; its local ARRAY w clashes with the
        # caller's scalar w (inlining has to rename it)
        ip = unit('ip1', ['d'], [decl('d', 'int', 'inout'), decl('q', 'int'), decl(cw, 'int', 'local', [(1, 2)])],
                  [assign(V('q'), op('sum', V('d'), V('m'))),
                   assign(el(cw, N(1)), op('sum', V('q'), N(1))),
                   assign(el('ia', N(1)), call('mod', op('sum', el('ia', N(1)), V('q'), el(cw, N(1))), N(7))),
                   assign(V('d'), call('mod', op('sum', V('q'), V('t1')), N(9)))], host='kernel')
        # module subroutine inlined through a marked call: its local array j clashes with the caller's loop variable j
        h3 = unit('h3', ['p'], [decl('p', 'int', 'inout'), decl(cj, 'int', 'local', [(1, 2)])],
                  [assign(el(cj, N(1)), op('prod', V('p'), N(2))), assign(V('p'), call('mod', op('sum', el(cj, N(1)), N(1)), N(7)))])
        prog['units'].append(h3)
        # module function: a local array l that clashes with the caller's scalar l
        f1 = next((u for u in prog['units'] if u['name'] == 'f1'), None)
        if f1 is not None:
            f1['decls'].append(decl(cl, 'int', 'local', [(1, 2)]))
            f1['body'][0:0] = [assign(el(cl, N(2)), op('sum', V('u'), V('v')))]
            f1['body'].append(assign(V('res'), op('sum', V('res'), call('mod', el(cl, N(2)), N(2)))))
        with_ip = casemix is not None or rng.random() < 0.6   # (constant propagation raises on routines with internal procedures)
        if with_ip:
            prog['units'].append(ip)
        must = ([[{'s': 'call', 'name': 'ip1', 'args': [V('t2')]}]] if with_ip else []) + [
                [raw('!$loki inline'), {'s': 'call', 'name': 'h3', 'args': [V('t1')]}]]
        if f1 is not None:
            must.append([assign(V('t2'), call('mod', op('sum', call('f1', V('n'), V('m')), V('t2')), N(13)))])
        extra = [[raw('!$loki inline'), {'s': 'call', 'name': 'h2', 'args': [V('t1'), op('sum', V('n'), N(1))]}],
                 [{'s': 'call', 'name': 'h1', 'args': [el('ia', N(0)), N(2), V('t2')]}],          # sequence association
                 [raw('!$loki outline name(outl1) in(n,m) inout(k)' if rng.random() < 0.5 else '!$loki outline'),
                  assign(V('t2'), op('sum', V('n'), V('m'))), assign(V('k'), call('mod', op('sum', V('k'), V('t2')), N(17))),
                  raw('!$loki end outline')],
                 [raw('!$loki loop-unroll'),
                  {'s': 'do', 'var': 'i', 'lo': N(1), 'hi': N(3), 'st': NONE, 'body': [assign(el('ia', V('i')), op('sum', el('ia', V('i')), V('i')))]}],
                 [raw('!$loki loop-fusion group(g1)'),
                  {'s': 'do', 'var': 'i', 'lo': N(0), 'hi': N(4), 'st': NONE, 'body': [assign(el('ia', V('i')), op('sum', el('ia', V('i')), N(1)))]},
                  raw('!$loki loop-fusion group(g1)'),
                  {'s': 'do', 'var': 'i', 'lo': N(0), 'hi': N(4), 'st': NONE, 'body': [assign(V('k'), op('sum', V('k'), el('ia', V('i'))))]}],
                 [{'s': 'do', 'var': 'i', 'lo': N(1), 'hi': N(4), 'st': NONE, 'body': [
                     assign(el('ra', V('i')), op('prod', el('ra', V('i')), F.R(1, 2))), raw('!$loki loop-fission'),
                     assign(el('ia', V('i')), op('sum', el('ia', V('i')), V('m')))]}],
                 [{'s': 'if', 'conds': [cmp_('>', N(1), N(2))], 'bodies': [[assign(V('k'), N(99))]], 'els': [assign(V('t1'), op('sum', V('t1'), N(1)))]}],
                 [assign(V('t2'), op('sum', N(2), N(3))), assign(V('k'), op('sum', V('k'), V('t2')))],
                 [{'s': 'assoc', 'names': ['za', 'zb'], 'targets': [V('k'), el('ia', N(2))], 'body': [
                     assign(V('za'), op('sum', V('zb'), N(1))),
                     {'s': 'assoc', 'names': ['zc'], 'targets': [V('t2')], 'body': [assign(V('zc'), op('sum', V('za'), V('n')))]}]}],
                 [raw('!$loki region-hoist target'), assign(V('t1'), op('sum', V('t1'), N(2))),
                  raw('!$loki region-hoist'), assign(V('t2'), op('sum', V('m'), N(4))), raw('!$loki end region-hoist')]]
        rng.shuffle(extra)
        items = [[st] for st in body[5:]]               # blocks are placed between statements, never inside another block
        for block in must + extra[:rng.randint(5, len(extra))]:
            items.insert(rng.randint(0, len(items)), block)
        body[5:] = [st for it in items for st in it]
        # an unused local array and an unused scalar (remove_unused_vars)
        kernel['decls'] += [decl('zz', 'int', 'local', [(1, 3)]), decl('uu', 'int')]
        if casemix is not None:
            prog['casemix'] = int(casemix)
            prog['casemix_keep'] = ['w', 'W', 'j', 'J', 'l', 'L']     # these clash up to case in every rendering
        return prog


# ----------------------------------------------------------------------------- the parsed program + registry
class NotApplicable(Exception):
    """The transformation does not apply to this input (documented / NotImplementedError): skipped and counted."""


class Parsed:
    def __init__(self, prog, text=None):
        from loki import Sourcefile
        self.prog = prog
        self.text = text or F.render(prog)
        self.sf = Sourcefile.from_source(self.text)
        self.kmod = self.sf['kmod']
        self.extra_sources = []        # stub modules etc. that precede kmod.f90 for gfortran
        self.extra_units = []
        for r in self.routines:
            r.enrich(self.routines)

    @property
    def routines(self):
        return list(self.kmod.subroutines)

    @property
    def kernel(self):
        return self.kmod['kernel']

    def units(self):
        return [self.kmod] + list(self.extra_units)

    def sources(self):
        return list(self.extra_sources) + [('kmod.f90', self.sf.to_fortran())]


def _has_raw(prog, start):
    return any(s['s'] == 'raw' and s['text'].startswith(start) for u in prog['units'] for s in F._flat(u['body']))


def _kinds(prog):
    return {s['s'] for u in prog['units'] for s in F._flat(u['body'])}


def _each(P, fn, **kw):
    for r in P.routines:
        fn(r, **kw)
        for m in r.members:
            pass


def registry():
    """[(name, fn(P))]: every entry applies one built-in transformation (with one option combination) to the
    parsed kernel module in place; fn may raise NotApplicable."""
    from loki.transformations.sanitise.associates import do_resolve_associates, do_merge_associates, AssociatesTransformation
    from loki.transformations.sanitise import SanitiseTransformation, do_resolve_sequence_association, SubstituteExpressionTransformation
    from loki.transformations.array_indexing import (
        resolve_vector_notation, normalize_range_indexing, add_explicit_array_dimensions, remove_explicit_array_dimensions,
        promote_variables, demote_variables)
    from loki.transformations.transform_loop import do_loop_unroll, do_loop_fusion, do_loop_fission, TransformLoopsTransformation
    from loki.transformations.constant_propagation import do_constant_propagation
    from loki.transformations.remove_code import (
        do_remove_dead_code, do_remove_unused_vars, do_remove_calls, RemoveCodeTransformation, do_remove_unused_dummy_args,
        find_unused_dummy_args_and_vars)
    from loki.transformations.inline import (
        inline_internal_procedures, inline_marked_subroutines, inline_functions, inline_constant_parameters, InlineTransformation)
    from loki.transformations.extract import outline_pragma_regions, extract_internal_procedures, ExtractTransformation
    from loki.transformations.argument_shape import ArgumentArrayShapeAnalysis, ExplicitArgumentArrayShapeTransformation
    from loki.transformations.build_system import DependencyTransformation, ModuleWrapTransformation
    from loki.transformations.utilities import (
        convert_to_lower_case, rename_variables, single_variable_declaration, replace_selected_kind, sanitise_imports)
    from loki.transformations.idempotence import IdemTransformation
    from loki.transformations.transform_region import region_hoist
    from loki.transformations.routine_signatures import RemoveDuplicateArgs

    def need(cond, why):
        if not cond:
            raise NotApplicable(why)

    R = []

    def reg(name):
        def deco(fn):
            R.append((name, fn))
            return fn
        return deco

    # ---- associates
    for nm, kw in (('resolve_associates', {}), ('resolve_associates:start_depth=1', {'start_depth': 1})):
        reg(nm)(lambda P, kw=kw: (need('assoc' in _kinds(P.prog), 'no associate'), _each(P, do_resolve_associates, **kw)))
    for nm, kw in (('merge_associates', {}), ('merge_associates:max_parents=1', {'max_parents': 1})):
        reg(nm)(lambda P, kw=kw: (need('assoc' in _kinds(P.prog), 'no associate'), _each(P, do_merge_associates, **kw)))
    reg('AssociatesTransformation:merge+resolve')(lambda P: (need('assoc' in _kinds(P.prog), 'no associate'), [
        AssociatesTransformation(resolve_associates=True, merge_associates=True, start_depth=0).apply(r, role='kernel') for r in P.routines]))
    # ---- array notation
    reg('resolve_vector_notation')(lambda P: _each(P, resolve_vector_notation))
    reg('normalize_range_indexing')(lambda P: _each(P, normalize_range_indexing))
    reg('add_explicit_array_dimensions')(lambda P: _each(P, add_explicit_array_dimensions))
    reg('remove_explicit_array_dimensions')(lambda P: _each(P, remove_explicit_array_dimensions))
    reg('promote_variables')(lambda P: promote_variables(P.kernel, ['t1'], pos=0, index=P.kernel.variable_map['m'], size=P.kernel.variable_map['n']))
    reg('demote_variables')(lambda P: demote_variables(P.kernel, ['zz'], ['3']))
    # ---- loops
    reg('loop_unroll')(lambda P: (need(_has_raw(P.prog, '!$loki loop-unroll'), 'no pragma'), do_loop_unroll(P.kernel, warn_iterations_length=False)))
    reg('loop_fusion')(lambda P: (need(_has_raw(P.prog, '!$loki loop-fusion'), 'no pragma'), do_loop_fusion(P.kernel)))
    reg('loop_fission')(lambda P: (need(_has_raw(P.prog, '!$loki loop-fission'), 'no pragma'), do_loop_fission(P.kernel)))
    reg('TransformLoopsTransformation:all')(lambda P: TransformLoopsTransformation(
        loop_interchange=True, loop_fusion=True, loop_fission=True, loop_unroll=True).apply(P.kernel, role='kernel'))
    # ---- constants / dead code / unused
    reg('constant_propagation')(lambda P: _each(P, do_constant_propagation))
    reg('constant_propagation:unroll_loops')(lambda P: do_constant_propagation(P.kernel, unroll_loops=True))
    reg('remove_dead_code')(lambda P: _each(P, do_remove_dead_code))
    reg('remove_dead_code:use_simplify=False')(lambda P: _each(P, do_remove_dead_code, use_simplify=False))
    reg('remove_unused_vars')(lambda P: _each(P, do_remove_unused_vars))
    reg('remove_unused_vars:remove_only_arrays=False')(lambda P: _each(P, do_remove_unused_vars, remove_only_arrays=False))
    reg('remove_calls:h2')(lambda P: (need('call' in _kinds(P.prog), 'no call'), do_remove_calls(P.kernel, call_names=('h2',))))
    reg('RemoveCodeTransformation:dead+unused')(lambda P: [RemoveCodeTransformation(
        remove_dead_code=True, remove_unused_vars=True, remove_unused_args=False, call_names=('h1',)).apply(r, role='kernel') for r in P.routines])
    # ---- inlining
    reg('inline_internal_procedures')(lambda P: inline_internal_procedures(P.kernel))
    reg('inline_marked_subroutines')(lambda P: (need(_has_raw(P.prog, '!$loki inline'), 'no marked call'), inline_marked_subroutines(P.kernel)))
    reg('inline_marked_subroutines:adjust_imports=False')(lambda P: (need(_has_raw(P.prog, '!$loki inline'), 'no marked call'),
                                                                     inline_marked_subroutines(P.kernel, adjust_imports=False)))
    reg('inline_functions')(lambda P: inline_functions(P.kernel, functions=tuple(r for r in P.routines if r.is_function)))
    reg('inline_constant_parameters:external_only=False')(lambda P: inline_constant_parameters(P.kernel, external_only=False))
    reg('InlineTransformation:all')(lambda P: InlineTransformation(
        inline_constants=True, inline_elementals=True, inline_stmt_funcs=True, inline_internals=True, inline_marked=True,
        remove_dead_code=True, external_only=False, resolve_sequence_association=True).apply(P.kernel, role='kernel'))
    # ---- outlining / extraction
    def place(P, new):
        """The caller of the function-level API places the new routines: module CONTAINS + parent scope."""
        for r in new:
            P.kmod.contains.append(r)
            r.parent = P.kmod
    reg('outline_pragma_regions')(lambda P: (need(_has_raw(P.prog, '!$loki outline'), 'no region'),
                                             place(P, outline_pragma_regions(P.kernel))))
    reg('extract_internal_procedures')(lambda P: (need(any(u['host'] for u in P.prog['units']), 'no internal procedure'),
                                                  place(P, extract_internal_procedures(P.kernel))))
    reg('ExtractTransformation:both')(lambda P: ExtractTransformation(extract_internals=True, outline_regions=True).apply(P.kmod, role='kernel'))
    reg('ExtractTransformation:outline')(lambda P: (need(_has_raw(P.prog, '!$loki outline'), 'no region'),
                                                    ExtractTransformation(extract_internals=False, outline_regions=True).apply(P.kmod, role='kernel')))
    # ---- call signatures
    reg('resolve_sequence_association')(lambda P: do_resolve_sequence_association(P.kernel))
    reg('SanitiseTransformation:all')(lambda P: [SanitiseTransformation(
        resolve_associate_mappings=True, resolve_sequence_association=True).apply(r, role='kernel') for r in P.routines])

    def argshape(P):
        for r in P.routines:
            ArgumentArrayShapeAnalysis().apply(r, role='kernel', targets=[x.name for x in P.routines])
        for r in P.routines:
            ExplicitArgumentArrayShapeTransformation().apply(r, role='kernel', targets=[x.name for x in P.routines])
    reg('ArgumentArrayShape')(argshape)
    reg('RemoveDuplicateArgs')(lambda P: RemoveDuplicateArgs().apply(P.kernel, role='driver', targets=[x.name for x in P.routines]))

    def unused_args(P):
        for r in P.routines:
            args, _ = find_unused_dummy_args_and_vars(r)
            need(True, '')
            if args:
                do_remove_unused_dummy_args(r, args)
    reg('remove_unused_dummy_args')(unused_args)
    # ---- build system
    reg('DependencyTransformation:module')(lambda P: DependencyTransformation(suffix='_x', module_suffix='_mod').apply(
        P.sf, role='kernel', targets=[x.name for x in P.routines]))

    def modwrap(P):
        from loki import Sourcefile
        text = '\n'.join(F.render_unit(next(u for u in P.prog['units'] if u['name'] == 'h2'), P.prog, 0)) + '\n'
        sf = Sourcefile.from_source(text)
        ModuleWrapTransformation(module_suffix='_mod').apply(sf, role='kernel', targets=[])
        P.extra_units = list(sf.modules) + list(sf.subroutines)
        P.extra_sources = [('h2_mod.f90', sf.to_fortran())]
    reg('ModuleWrapTransformation')(modwrap)
    # ---- utilities
    reg('convert_to_lower_case')(lambda P: _each(P, convert_to_lower_case))
    reg('rename_variables')(lambda P: rename_variables(P.kernel, symbol_map={'t1': 'tone', 'ia': 'iarr', 'm': 'mm'}))
    reg('single_variable_declaration')(lambda P: _each(P, single_variable_declaration))
    reg('single_variable_declaration:group_by_shape')(lambda P: _each(P, single_variable_declaration, group_by_shape=True))
    reg('replace_selected_kind')(lambda P: _each(P, replace_selected_kind))
    reg('sanitise_imports')(lambda P: _each(P, sanitise_imports))
    reg('IdemTransformation')(lambda P: IdemTransformation().apply(P.sf, role='kernel'))
    reg('SubstituteExpressionTransformation')(lambda P: SubstituteExpressionTransformation(
        substitute_expressions=True, expression_map={'m': 'm + 0', 'n': '(n)'}, substitute_spec=False).apply(P.kernel, role='kernel'))
    reg('region_hoist')(lambda P: (need(_has_raw(P.prog, '!$loki region-hoist'), 'no pragma'), region_hoist(P.kernel)))
    return R
