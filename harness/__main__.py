import sys
from .core import main
sys.exit(main(sys.argv[1:]))
