"""Shared plumbing of the text-level checks C02 / C03 / C04 (spec/LineWrap, RoundTrip, SourceStatus).

Only generation, driving and recording: the harness builds inputs (described JoinableStringList objects,
MiniFortran programs with very long constructs, the repository corpus), runs the real Loki code and records
what it printed as data for TLC.  No expectations are computed here.
"""
import glob
import os
import subprocess

from . import core
from . import lib_fm as F
from .core import MachineryError


# --------------------------------------------------------------------------------- characters
def codes(s):
    """A string as the sequence of character codes TLC works on (TLC strings cannot be indexed)."""
    out = []
    for ch in s:
        o = ord(ch)
        out.append(o if o < 256 else 63)
    return out


def lines_codes(text):
    return [codes(l) for l in text.split('\n')]


def chars(cs):
    return ''.join(chr(c) for c in cs)


# --------------------------------------------------------------------------------- level (i): JoinableStringList
_ALPHA = 'abcdefghi'
_PAT = {'Q': 'x y z w', 'E': "a''b c ", 'D': "a'b c d", 'B': 'a(b)%c(d) e(f)g'}
_OTEXT = {1: '(', 2: ')', 3: ' = ', 4: ', '}


def leaf_text(it):
    """The characters of a described leaf (the same table as LineWrap!LeafText; TLC cross-checks the result
    through the `flat` field, so a slip here is a machinery error, not a verdict)."""
    k, n = it['k'], it['n']
    if k == 'P':
        return _ALPHA[:n]
    if k in ('Q', 'E'):
        return "'" + _PAT[k][:n - 2] + "'"
    if k == 'D':
        return '"' + _PAT[k][:n - 2] + '"'
    if k == 'B':
        return _PAT[k][:n]
    if k == 'K':
        return _ALPHA[:n - 1] + ' '
    if k == 'S':
        return ' ' * n
    if k == 'O':
        return _OTEXT[n]
    raise MachineryError(f'unknown described item kind {k}')


def flat_text(it):
    """Plain sep.join of the described items (what the class documents as its meaning)."""
    if it['k'] in ('L', 'W'):
        s = chars(it['sep']).join(flat_text(x) for x in it['items'])
        return '(' + s + ')' if it['k'] == 'W' else s
    return leaf_text(it)


def build_jsl(it, width, cont):
    """The real object for a described item."""
    from loki.tools.strings import JoinableStringList
    if it['k'] in ('L', 'W'):
        j = JoinableStringList([build_jsl(x, width, cont) for x in it['items']], sep=chars(it['sep']), width=width,
                               cont=cont, separable=bool(it['separable']))
        if it['k'] == 'W':
            j = '(' + j + ')'
        return j
    return leaf_text(it)


def shape_of(it):
    """Normal form of a described item for violation keys: kinds and nesting, lengths dropped."""
    if it['k'] in ('L', 'W'):
        sep = {'': 'nosep', ', ': 'cs', ',': 'c', ' ': 'sp'}[chars(it['sep'])]
        return f"{it['k']}{'' if it['separable'] else '!'}[{sep}:" + ''.join(sorted({shape_of(x) for x in it['items']})) + ']'
    return it['k']


def leaves(it):
    if it['k'] in ('L', 'W'):
        for x in it['items']:
            yield from leaves(x)
    else:
        yield it


def regime(top, width, over):
    """Normal form of a level (i) case for violation keys: flat / nested, whether the list uses + (bracket
    wrapped), a literal with a doubled quote, and whether every leaf fits on a continuation line together with a
    two-character separator (`items-fit`) or some leaf is about as long as the line (`item-near-line`)."""
    nested = any(x['k'] in ('L', 'W') for x in top['items'])
    fit = all(len(leaf_text(x)) + 2 + over <= width for x in leaves(top))
    return ('nested' if nested else 'flat') + ':' + ('items-fit' if fit else 'item-near-line')


# --------------------------------------------------------------------------------- repository corpus
def repo_fortran_sources():
    """Fortran sources shipped with the repository: loki/**/sources, test directories and the examples."""
    files = set()
    for sub in ('loki', 'example', 'lint_rules', 'scripts'):
        for pat in ('**/*.f90', '**/*.F90'):
            files |= set(glob.glob(os.path.join(core.REPO, sub, pat), recursive=True))
    return sorted(f for f in files if '/build/' not in f and '/.git/' not in f)


def needs_cpp(text):
    return any(l.lstrip().startswith('#') for l in text.split('\n'))


# --------------------------------------------------------------------------------- gfortran
def gfortran_syntax(workdir, tag, sources, width=132, timeout=120):
    """gfortran -fsyntax-only with the line-length limit of the style. sources: [(name, text)] compiled in order
    (module files are written to the directory). Returns (ok, stderr)."""
    d = os.path.join(workdir, tag)
    os.makedirs(d, exist_ok=True)
    names = []
    for name, text in sources:
        with open(os.path.join(d, name), 'w') as fh:
            fh.write(text)
        names.append(name)
    try:
        c = subprocess.run(['gfortran', f'-ffree-line-length-{width}', '-Werror=line-truncation', '-fsyntax-only'] + names, cwd=d, capture_output=True, text=True, timeout=timeout)
    except subprocess.TimeoutExpired:
        return None, 'timeout'
    return c.returncode == 0, c.stderr[-2500:]
