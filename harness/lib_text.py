"""Shared plumbing of the text-level checks C02 / C03 / C04 (spec/LineWrap, RoundTrip, SourceStatus).

Only generation, driving and recording: the harness builds inputs (described JoinableStringList objects,
MiniFortran programs with very long constructs, the repository corpus), runs the real Loki code and records
what it printed as data for TLC.  No expectations are computed here.
"""
import glob
import os
import subprocess

from . import core
from . import lib_fm as F
from .core import MachineryError


# --------------------------------------------------------------------------------- characters
def codes(s):
    """A string as the sequence of character codes TLC works on (TLC strings cannot be indexed)."""
    out = []
    for ch in s:
        o = ord(ch)
        out.append(o if o < 256 else 63)
    return out


def lines_codes(text):
    return [codes(l) for l in text.split('\n')]


def chars(cs):
    return ''.join(chr(c) for c in cs)


# --------------------------------------------------------------------------------- level (i): JoinableStringList
_ALPHA = 'abcdefghi'
_PAT = {'Q': 'x y z w', 'E': "a''b c ", 'D': "a'b c d", 'B': 'a(b)%c(d) e(f)g'}
_OTEXT = {1: '(', 2: ')', 3: ' = ', 4: ', '}


def leaf_text(it):
    """The characters of a described leaf (the same table as LineWrap!LeafText; TLC cross-checks the result
    through the `flat` field, so a slip here is a machinery error, not a verdict)."""
    k, n = it['k'], it['n']
    if k == 'P':
        return _ALPHA[:n]
    if k in ('Q', 'E'):
        return "'" + _PAT[k][:n - 2] + "'"
    if k == 'D':
        return '"' + _PAT[k][:n - 2] + '"'
    if k == 'B':
        return _PAT[k][:n]
    if k == 'K':
        return _ALPHA[:n - 1] + ' '
    if k == 'S':
        return ' ' * n
    if k == 'O':
        return _OTEXT[n]
    raise MachineryError(f'unknown described item kind {k}')


def flat_text(it):
    """Plain sep.join of the described items (what the class documents as its meaning)."""
    if it['k'] in ('L', 'W'):
        s = chars(it['sep']).join(flat_text(x) for x in it['items'])
        return '(' + s + ')' if it['k'] == 'W' else s
    return leaf_text(it)


def build_jsl(it, width, cont):
    """The real object for a described item."""
    from loki.tools.strings import JoinableStringList
    if it['k'] in ('L', 'W'):
        j = JoinableStringList([build_jsl(x, width, cont) for x in it['items']], sep=chars(it['sep']), width=width,
                               cont=cont, separable=bool(it['separable']))
        if it['k'] == 'W':
            j = '(' + j + ')'
        return j
    return leaf_text(it)


def shape_of(it):
    """Normal form of a described item for violation keys: kinds and nesting, lengths dropped."""
    if it['k'] in ('L', 'W'):
        sep = {'': 'nosep', ', ': 'cs', ',': 'c', ' ': 'sp'}[chars(it['sep'])]
        return f"{it['k']}{'' if it['separable'] else '!'}[{sep}:" + ''.join(sorted({shape_of(x) for x in it['items']})) + ']'
    return it['k']


def leaves(it):
    if it['k'] in ('L', 'W'):
        for x in it['items']:
            yield from leaves(x)
    else:
        yield it


def regime(top, width, over):
    """Normal form of a level (i) case for violation keys: flat / nested, whether the list uses + (bracket
    wrapped), a literal with a doubled quote, and whether every leaf fits on a continuation line together with a
    two-character separator (`items-fit`) or some leaf is about as long as the line (`item-near-line`)."""
    nested = any(x['k'] in ('L', 'W') for x in top['items'])
    fit = all(len(leaf_text(x)) + 2 + over <= width for x in leaves(top))
    return ('nested' if nested else 'flat') + ':' + ('items-fit' if fit else 'item-near-line')


# --------------------------------------------------------------------------------- repository corpus
def repo_fortran_sources():
    """Fortran sources shipped with the repository: loki/**/sources, test directories and the examples."""
    files = set()
    for sub in ('loki', 'example', 'lint_rules', 'scripts'):
        for pat in ('**/*.f90', '**/*.F90'):
            files |= set(glob.glob(os.path.join(core.REPO, sub, pat), recursive=True))
    return sorted(f for f in files if '/build/' not in f and '/.git/' not in f)


def needs_cpp(text):
    return any(l.lstrip().startswith('#') for l in text.split('\n'))


# --------------------------------------------------------------------------------- gfortran
def gfortran_syntax(workdir, tag, sources, width=132, timeout=120):
    """gfortran -fsyntax-only with the line-length limit of the style. sources: [(name, text)] compiled in order
    (module files are written to the directory). Returns (ok, stderr)."""
    d = os.path.join(workdir, tag)
    os.makedirs(d, exist_ok=True)
    names = []
    for name, text in sources:
        with open(os.path.join(d, name), 'w') as fh:
            fh.write(text)
        names.append(name)
    try:
        c = subprocess.run(['gfortran', f'-ffree-line-length-{width}', '-Werror=line-truncation', '-fsyntax-only'] + names, cwd=d, capture_output=True, text=True, timeout=timeout)
    except subprocess.TimeoutExpired:
        return None, 'timeout'
    return c.returncode == 0, c.stderr[-2500:]


# --------------------------------------------------------------------------------- structural IR export (C02)
# An export of a Loki IR that does not use Loki's visitors, finders, mappers or the backend: a plain recursion over
# the dataclass fields of IR nodes, the sections of program units, and the constructor arguments of expression nodes.
# Result: a flat pre-order list of strings "depth kind attributes / expressions".
IR_EXEMPT_FIELDS = {'source', 'symbol_attrs', 'parent', 'rescope_symbols', 'incomplete', 'ast'}


def _ascii(s):
    return ''.join(ch if 31 < ord(ch) < 127 else '?' for ch in s)


def xtype(t):
    """Summary of the declared attributes of a symbol (SymbolAttributes)."""
    if t is None:
        return 'notype'
    parts = []
    for k in sorted(getattr(t, '__dict__', {})):
        v = t.__dict__[k]
        if k.startswith('_') or k in ('source', 'imported', 'module', 'use_name', 'dimensions') or v is None or v is False:
            continue
        if k == 'dtype':
            nm = getattr(v, 'name', None)
            rt = getattr(v, 'return_type', None)
            parts.append(f'dtype={type(v).__name__}:{str(nm).lower() if nm else v}' + (f'->{xtype(rt)}' if rt is not None else ''))
        elif k == 'bind_names':
            parts.append('bind_names=' + xexpr(v))
        else:
            parts.append(f'{k}={xexpr(v)}')
    return '{' + ' '.join(parts) + '}'


def xexpr(e, with_type=False):
    """Prefix form of an expression tree: class names, names / values, children in constructor order."""
    from pymbolic.primitives import Expression
    from loki.expression import symbols as sym
    if e is None:
        return '-'
    if isinstance(e, (tuple, list)):
        return '<' + ','.join(xexpr(x, with_type) for x in e) + '>'
    if isinstance(e, dict):
        return '{' + ','.join(f'{k}:{xexpr(v)}' for k, v in e.items()) + '}'
    if isinstance(e, bool):
        return 'T' if e else 'F'
    if isinstance(e, (int, float)):
        return repr(e)
    if isinstance(e, str):
        return 's:' + _ascii(e)
    cls = type(e).__name__
    if isinstance(e, (sym.TypedSymbol, sym.MetaSymbol)):
        s = f'{cls}[{str(e.name).lower()}'
        dims = getattr(e, 'dimensions', None)
        if dims:
            s += ' dims=' + xexpr(dims)
        if with_type:
            s += ' type=' + xtype(getattr(e, 'type', None))
        return s + ']'
    if isinstance(e, sym.StringLiteral):
        return f'StringLiteral[{_ascii(e.value)}]'
    if isinstance(e, (sym.IntLiteral, sym.FloatLiteral, sym.LogicLiteral, sym.IntrinsicLiteral)):
        kind = getattr(e, 'kind', None)
        return f'{cls}[{str(e.value).lower()}' + (f' kind={xexpr(kind)}' if kind is not None else '') + ']'
    if isinstance(e, Expression):
        try:
            args = e.__getinitargs__()
        except Exception:  # pylint: disable=broad-except
            args = (str(e),)
        return f'{cls}(' + ','.join(xexpr(a) for a in args) + ')'
    nm = getattr(e, 'name', None)
    return f'{cls}:{_ascii(str(nm if nm is not None else e))}'


def export_ir(obj, depth=0, out=None):
    """Flat pre-order export of a Sourcefile / program unit / IR node."""
    from dataclasses import fields as dc_fields, is_dataclass
    from pymbolic.primitives import Expression
    from loki import Sourcefile, ProgramUnit, ir
    out = [] if out is None else out
    if obj is None:
        return out
    if isinstance(obj, (tuple, list)):
        for x in obj:
            export_ir(x, depth, out)
        return out
    if isinstance(obj, Sourcefile):
        export_ir(obj.ir, depth, out)
        return out
    if isinstance(obj, ProgramUnit):
        head = f'{depth} {type(obj).__name__} name={obj.name.lower()}'
        if hasattr(obj, 'arguments'):
            head += ' args=' + xexpr([a.name.lower() for a in obj.arguments])
            head += ' prefix=' + xexpr(tuple(str(p).lower() for p in (obj.prefix or ())))
            head += ' bind=' + xexpr(obj.bind)
            if getattr(obj, 'is_function', False):
                head += f' result={str(obj.result_name).lower()}'
        else:
            head += f' access={obj.default_access_spec} public={xexpr(obj.public_access_spec)} private={xexpr(obj.private_access_spec)}'
        out.append(head)
        for sec in ('docstring', 'spec', 'body', 'contains'):
            export_ir(getattr(obj, sec, None), depth + 1, out)
        return out
    if not isinstance(obj, ir.Node):
        out.append(f'{depth} ?{type(obj).__name__}')
        return out
    if isinstance(obj, ir.Comment) and not (obj.text or '').strip():
        out.append('BLANK')          # an empty line
        return out
    if isinstance(obj, ir.CommentBlock) and all(not (c.text or '').strip() for c in obj.comments):
        out.extend(['BLANK'] * len(obj.comments))      # a run of empty lines
        return out
    if isinstance(obj, ir.Pragma):
        # the text of a pragma is compared modulo blanks (the backend re-assembles it from its parameters)
        out.append(f'{depth} Pragma keyword={str(obj.keyword).lower()} content=' + _ascii(''.join(str(obj.content or '').split())))
        return out
    attrs, kids = [], []
    for f in dc_fields(obj):
        if f.name in IR_EXEMPT_FIELDS or f.name.startswith('_'):
            continue
        v = getattr(obj, f.name, None)
        if v is None or v == () or v is False:
            continue

        def has_node(x):
            if isinstance(x, (ir.Node, ProgramUnit)):
                return True
            return isinstance(x, (tuple, list)) and any(has_node(y) for y in x)
        if has_node(v):
            kids.append((f.name, v))
        elif f.name == 'symbols' and type(obj).__name__ in ('VariableDeclaration', 'ProcedureDeclaration', 'Import', 'Enumeration'):
            attrs.append('symbols=' + xexpr(v, with_type=True))
        else:
            attrs.append(f'{f.name}=' + xexpr(v))
    out.append(f'{depth} {type(obj).__name__} ' + ' '.join(attrs))
    for name, v in kids:
        # bodies of multi-branch nodes are tuples of tuples: mark the branch borders
        if isinstance(v, (tuple, list)) and v and all(isinstance(x, (tuple, list)) for x in v):
            for bi, b in enumerate(v):
                out.append(f'{depth + 1} .{name}[{bi}]')
                export_ir(b, depth + 2, out)
        else:
            out.append(f'{depth + 1} .{name}')
            export_ir(v, depth + 2, out)
    return out


# --------------------------------------------------------------------------------- construct names (C02)
# A small deterministic universe of NAMED constructs, one module per variant (so that a failure names its variant):
#   named IF with 0..3 ELSE IF branches, with / without ELSE, in four contexts (plain, inside a named DO, inside a CASE
#   of a named SELECT, inside an ELSE IF branch of another named IF);
#   named DO / DO WHILE / DO (forever) with EXIT / CYCLE, nested named loops; named SELECT CASE; named ASSOCIATE; named
#   WHERE; deeper nestings of all of them.
# `probe` variants use EXIT <name> / CYCLE <name> and BLOCK: the FP frontend may reject them (counted, not judged).
def _named_if(name, nelif, has_else, ind, rng, stmt='k = k + {}'):
    pad = ' ' * ind
    conds = ['k > {}'.format(rng.randint(1, 9)), 'n < k + {}'.format(rng.randint(1, 5)), 'f .and. k /= {}'.format(rng.randint(0, 3)),
             '.not. f', 'mod(k, {}) == 0'.format(rng.randint(2, 5))]
    rng.shuffle(conds)
    L = [f'{pad}{name}: if ({conds[0]}) then', pad + '  ' + stmt.format(1)]
    for b in range(nelif):
        L += [f'{pad}else if ({conds[b + 1]}) then {name}', pad + '  ' + stmt.format(b + 2)]
    if has_else:
        L += [f'{pad}else {name}', pad + '  ' + stmt.format(9)]
    L += [f'{pad}end if {name}']
    return L


def _wrap_module(tag, body, decl=('integer :: i, j, l', 'integer, intent(inout) :: k, n, a(3)', 'logical, intent(in) :: f')):
    L = ['module nmod', '  implicit none', 'contains', '  subroutine kernel(k, n, a, f)'] + ['    ' + d for d in decl]
    L += ['    ' + b for b in body] + ['  end subroutine kernel', 'end module nmod', '']
    return tag, '\n'.join(L)


def named_construct_texts(rng, rounds=1):
    """[(tag, text)] -- tags are the normal forms used in violation keys and in the vacuity guard."""
    out = []
    for r in range(rounds):
        for nelif in range(4):
            for has_else in (False, True):
                tag = f'named-if:elseif={nelif}:else={int(has_else)}'
                core_ = _named_if('chk', nelif, has_else, 0, rng)
                out.append(_wrap_module(tag + ':plain', core_))
                out.append(_wrap_module(tag + ':in-named-do',
                                        ['lp: do i = 1, n'] + ['  ' + x for x in core_] + ['  if (k > 20) exit', 'end do lp']))
                out.append(_wrap_module(tag + ':in-named-select',
                                        ['sel: select case (n)', 'case (1) sel'] + ['  ' + x for x in core_] + ['case default sel', '  k = 0', 'end select sel']))
                outer = _named_if('outer', 2, True, 0, rng, stmt='n = n + {}')
                at = outer.index(next(x for x in outer if x.startswith('else if'))) + 2
                out.append(_wrap_module(tag + ':in-named-if-branch', outer[:at] + ['  ' + x for x in core_] + outer[at:]))
        out.append(_wrap_module('named-do:exit-cycle', ['outer: do i = 1, n', '  inner: do j = 1, n', '    if (i > j) cycle', '    if (j > 3) exit',
                                                        '    k = k + 1', '  end do inner', 'end do outer']))
        out.append(_wrap_module('named-do-while', ['wl: do while (k < 30)', '  k = k + 1', '  if (k == 7) exit', '  if (f) cycle', '  n = n + 1', 'end do wl']))
        out.append(_wrap_module('named-do-step', ['st: do i = n, 1, -2', '  k = k + i', 'end do st']))
        out.append(_wrap_module('named-select', ['sel: select case (k)', 'case (1) sel', '  k = 2', 'case (2:3, 7) sel', '  k = 4', 'case default sel',
                                                 '  k = 0', 'end select sel']))
        out.append(_wrap_module('named-select:no-default', ['sel: select case (k)', 'case (:0) sel', '  k = 2', 'case (5:) sel', '  k = 4', 'end select sel']))
        out.append(_wrap_module('named-associate', ['as: associate (z => k, y => a(2))', '  n = z + y', '  y = z', 'end associate as']))
        out.append(_wrap_module('named-where', ['wh: where (a > 1)', '  a = 1', 'elsewhere (a < 0) wh', '  a = 2', 'elsewhere wh', '  a = 0', 'end where wh']))
        deep = (['sel: select case (n)', 'case (1) sel', '  lp: do i = 1, n', '    as: associate (z => k)']
                + ['      ' + x for x in _named_if('chk', 3, True, 0, rng, stmt='z = z + {}')]
                + ['    end associate as', '    wl: do while (k < 5)'] + ['      ' + x for x in _named_if('inner', 2, False, 0, rng)]
                + ['      k = k + 1', '    end do wl', '  end do lp', 'case default sel'] + ['  ' + x for x in _named_if('last', 2, True, 0, rng)] + ['end select sel'])
        out.append(_wrap_module('nested-named', deep))
        # constructs the FP frontend may not accept (counted when rejected)
        out.append(_wrap_module('probe:exit-cycle-name', ['outer: do i = 1, n', '  inner: do j = 1, n', '    if (i > j) cycle outer', '    if (j > 3) exit inner',
                                                          '    k = k + 1', '  end do inner', 'end do outer']))
        out.append(_wrap_module('probe:exit-if-name', ['chk: if (k > 1) then', '  if (f) exit chk', '  k = 1', 'end if chk']))
        out.append(_wrap_module('probe:named-block', ['blk: block', '  integer :: q', '  q = k', '  n = q', 'end block blk']))
    return out
