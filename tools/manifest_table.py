HOOK_COMMITS = []
ENGINES = [
    {'name': 'tlc+conformance', 'path': '/verif/harness', 'kind_free_text':
     'TLC 1.8 on the TLA+ modules in /verif/spec (exhaustive small-scope MC, -simulate behaviour generation, batch trace validation) + python harness replaying/recording against loki imported from /repo',
     'serves_properties': []},
]
ALL = [f'C{i:02d}' for i in range(1, 45)]
CHECKS = {
    'C12': dict(
        technique='TLA+ state machine SymTab: TLC exhaustive MC of the design + TLC-simulated behaviours replayed into SymbolTable/Scope/Subroutine/CaseInsensitiveDict + TLC trace validation of recorded histories',
        text='SymTab.tla states every mapping operation as a function Apply(state,event); TLC checks the design laws (innermost look-up, membership=deletion, spelling irrelevance, purity) on all histories up to depth 4 (quick) / 6 (thorough); TLC-generated random behaviours (24 steps) are replayed into the real objects with state comparison after each step, and seeded 30-step histories recorded from the real objects are validated event by event by Trace_SymTab.',
        note='Universe: 4 scope slots, 3 names x 9 spellings, 2 attribute values. Trusted: TLC, SymTab.tla, the projection (raw dict keys, stored tags, parent identities). setdefault return value on SymbolTable is unspecified and exempt.'),
}
NOT_APPLICABLE = {p: 'check not built yet (work in progress; see DESIGN.md build order)' for p in ALL if p not in CHECKS}
for e in ENGINES:
    e['serves_properties'] = sorted(CHECKS)
