HOOK_COMMITS = []
ENGINES = [
    {'name': 'tlc+conformance', 'path': '/verif/harness', 'kind_free_text':
     'TLC 1.8 on the TLA+ modules in /verif/spec (exhaustive small-scope MC, -simulate behaviour generation, batch trace validation) + python harness replaying/recording against loki imported from /repo',
     'serves_properties': []},
]
ALL = [f'C{i:02d}' for i in range(1, 45)]
CHECKS = {
    'C12': dict(
        technique='TLA+ state machine SymTab: TLC exhaustive MC of the design + TLC-simulated behaviours replayed into SymbolTable/Scope/Subroutine/CaseInsensitiveDict + TLC trace validation of recorded histories',
        text='SymTab.tla states every mapping operation as a function Apply(state,event); TLC checks the design laws (innermost look-up, membership=deletion, spelling irrelevance, purity) on all histories up to depth 4 (quick) / 6 (thorough); TLC-generated random behaviours (24 steps) are replayed into the real objects with state comparison after each step, and seeded 30-step histories recorded from the real objects are validated event by event by Trace_SymTab.',
        note='Universe: 4 scope slots, 3 names x 9 spellings, 2 attribute values. Trusted: TLC, SymTab.tla, the projection (raw dict keys, stored tags, parent identities). setdefault return value on SymbolTable is unspecified and exempt.'),
}
CHECKS.update({
    'C06': dict(
        technique='TLA+ reference semantics (FExpr) + TLA+ reference parser (FParse): TLC enumerates the tree universe, the printed text of every tree is re-read by the reference parser and compared by value in TLC; gfortran pre-flight of the reference',
        text='ExprUniverse.tla enumerates every tree of operator depth <= 2 (29k, incl. shapes parsing never produces); each is built as a real Loki expression, printed by fgen, tokenised, and Trace_ExprEquiv (TLC) checks that FParse(tokens) has the value of the tree on 45 integer + 45 real valuations; plus seeded deeper trees, logical trees and trees produced by SubstituteExpressions. A sample of printed texts is also executed by gfortran and must agree with FParse+FExpr.',
        note='Fortran backend only (cgen not covered). Valuations where the tree is undefined or exceeds magnitude 30000 are not judged; real arithmetic exact. Trusted: TLC, FExpr/FParse, the lexer and structural builder in harness/lib_expr.py, gfortran.'),
    'C08': dict(
        technique='TLA+ reference semantics FExpr evaluated by TLC on (input tree, simplify(input)) pairs over spec-enumerated and seeded trees x flag subsets; failures classified by the spec (exact-division reading)',
        text='simplify() is applied to universe trees and seeded trees (integer, real, logical) under subsets of the Simplification flags (all 31 in thorough) and both typings; Trace_ExprEquiv (TLC) demands equal values on every sampled valuation where the input is defined.',
        note='Rounding is outside the model (exact rationals). Known finding C08-int-division-as-exact is recognised by a second TLC evaluation in which every division is exact.'),
    'C09': dict(
        technique='TLA+ reference semantics FExpr: TLC checks every definite answer of symbolic_op against all sampled valuations',
        text='symbolic_op is called on every ordered pair of a 40-tree integer universe x 6 operators (quick: 500 pairs); Trace_SymCompare accepts a raised call, and a definite answer only if it holds on all 45 valuations where both sides are defined.',
        note='A wrong definite answer can be missed (finite valuations), never invented. Two known findings (eq/ne guessing, integer division as exact).'),
    'C10': dict(
        technique='TLA+ definition of the Fortran DO sequence (LoopRange.tla, laws model-checked) + TLC validation of the helpers results for every bounded range',
        text='Exhaustive over start, stop in -4..6, step in -3..3 and no step, literal and symbolic bounds: get_pyrange must equal DoSeq; num_iterations, normalized, iteration_number, iteration_index (exported expression trees, evaluated by FExpr in TLC) must agree with DoSeq on every non-empty loop.',
        note='Consumers (unrolling, constant propagation) are checked by behaviour in C31/C32.'),
})
CHECKS.update({
    'C01': dict(
        technique='TLA+ MiniFortran reference machine (FMachine.tla) evaluated by TLC on generated programs x inputs; observed = stdout of gfortran running Loki-regenerated code; gfortran pre-flight of the machine on the original text',
        text='Seeded derivations of MiniFortran kernels (scalars, 1-d/2-d arrays with arbitrary lower bounds, DO/DO WHILE/IF/SELECT CASE/EXIT/CYCLE, ASSOCIATE, array sections, module subroutine and function calls, PRINT) are rendered, passed through Sourcefile.from_source(...).to_fortran(), compiled and run on several inputs; Trace_FMachine (TLC) accepts a run iff its output equals Run(program, input).out of the reference machine. The same machine must agree with gfortran on the ORIGINAL text, otherwise the case is dropped (oracle disagreement > 3% = machinery error).',
        note='Derived types, WHERE, OPEN and labelled DO are not generated yet. The harness-owned PROGRAM driver is not passed through Loki. Real values are dyadic so that comparison is exact. Trusted: TLC, FMachine/FExpr, renderer and output parser in lib_fm.py, gfortran.'),
    'C07': dict(
        technique='TLA+ reference parser FParse + reference semantics FExpr: TLC compares the value of parse_expr(s) with the value of the reference parse of the same token string',
        text='All operator chains of length <= 3 over + - * / ** with optional leading minus and bracketed variants, relational/logical combinations, plus seeded grammar derivations with kinded literals, intrinsic calls, subscripts and components; Trace_ExprEquiv (TLC) evaluates both readings on 45+45 valuations. gfortran pre-flight of FParse+FExpr on a sample.',
        note='Array elements, unknown functions and components are uninterpreted functions of their evaluated arguments. One known finding (mul/div chain associativity), recognised counterfactually by re-parsing the text with explicit brackets.'),
    'C05': dict(
        technique='TLA+ model of the sanitiser contract (Sanitise.tla: lexical regions x trigger placements, what may change) model-checked by TLC + exhaustive placements replayed through the real frontend and validated by Trace_Sanitise',
        text='Every trigger pattern is placed in every lexical region/position (≈400 sources x 2 entry points, incl. whole-statement look-alikes `OPEN(… CONVERT=…)` inside strings, comments and continuation lines); string literal values, comments, identifiers and OPEN specifiers recorded from the IR and from fgen must equal what the spec predicts (only targeted constructs may change and must be restored).',
        note='Many known findings: the sanitiser rules are applied to raw lines without lexical context. gfortran accepts the generated sources (pre-flight).'),
    'C11': dict(
        technique='TLA+ laws (ExprEq.tla: Symmetric, HashConsistent, CaseInsensitive, with the 1:n shortcut exemption) evaluated by TLC on the full eq/hash relation recorded from real nodes; node universe enumerated by TLC',
        text='≈400 node descriptors of every kind (660 in thorough) are enumerated by the spec, built as real Loki nodes together with their case variants; the complete ordered-pair equality matrix and hash classes are recorded and Trace_ExprEq evaluates the three laws on every pair.',
        note='Hash values are sent as small class indices. CaseVariant changes names only, never string-literal content.'),
    'C13': dict(
        technique='TLA+ state machine VarFactory (classification function + SetType/Clone/Rescope/Detach histories): TLC MC of all histories <= 3 (4 thorough), TLC-enumerated classification cross product and simulated behaviours replayed into real Variable objects, Trace_VarFactory validation',
        text='The classification cross product (type recorded in scope x shape x dimensions x explicit type x parent x nesting) is exhaustive; histories of type updates/clones/rescopes are generated by TLC and replayed step by step with the class and reported type of every symbol compared.',
        note='Cases the documentation does not decide (listed in harness/notes/C13.md) are not generated.'),
    'C14': dict(
        technique='TLA+ specification of the documented transformer contract (TreeRewrite.tla Apply/ApplyNested/ApplyMasked) model-checked on small trees; TLC-enumerated tree x mapping cases realised with real IR nodes and validated by Trace_TreeRewrite',
        text='All small abstract trees x mappings (to None / node / tuple incl. self) x {Transformer, NestedTransformer, MaskedTransformer, NestedMaskedTransformer} x inplace are built from real IR node classes; the exported result tree, the original after the call and the rebuilt record must equal the spec result.',
        note='Cases whose outcome is not specified (whether replacements are revisited) are constructed so that the answer cannot depend on it. Several known findings (NestedTransformer handles, empty SELECT CASE bodies, masked variants inside Associate).'),
    'C15': dict(
        technique='TLA+ definition of the finders (Finders.tla: pre-order match, greedy, unique / with_ir_node quotients) evaluated by TLC on independently exported trees and compared with the real finder results',
        text='Generated IR trees and parsed snippets are exported by an independent structural walk; FindNodes / FindVariables / FindInlineCalls / FindScopes ... in all modes are run and Trace_Finders decides equality with the spec result per query.',
        note='Known findings: PrintStmt.values and Enumeration.symbols are not traversed; with_ir_node on declarations.'),
    'C16': dict(
        technique='TLA+ state machine AttachDetach (attach/detach of pragmas, pragma regions, dataflow; context managers incl. exceptional exit) model-checked; generated routines x operation sequences replayed and validated by Trace_AttachDetach',
        text='Routines with pragmas in usual and unusual placements (nested, unmatched, level-crossing regions) x nested context stacks, direct-call orders and random walks; an independent structural export with node identities and fgen text before/after must satisfy Balanced => unchanged.',
        note='Dataflow sets left on pragma nodes after non-nested direct calls are outside the property (counted as information).'),
    'C17': dict(
        technique='TLA+ state machine CloneAlias (two copies, edit actions, invariants OtherCopyUnchanged / SymbolsResolveInOwnChain / ParentScopeOfOriginalUnchanged) model-checked; TLC-generated histories replayed on real units, Trace_CloneAlias validation',
        text='All histories of <= 3 edit events (plus sampled longer ones) on subroutines with members, functions, modules with types/imports and source files; after each step both copies are projected (text, symbol scope ownership, parent symbol table, sibling call links).',
        note='Two known findings (clone registers itself in the original parent scope; cloned module variables keep the original TypeDef).'),
    'C18': dict(
        technique='TLA+ clauses PickleRT (RoundTripCompletes, Equal, SameText, ScopesReattached) evaluated by TLC on projections recorded from pickle round trips over a feature grid of generated units',
        text='210 unit-kind x feature combinations (members, typedefs, imports, enriched calls, casts ...) are pickled and unpickled; equality, hash, generated text and per-symbol scope ownership/types are projected and judged by Trace_PickleRT.',
        note='Honest scope note: the TLA+ side states the clauses; most discriminating power is in the projection and the feature grid. Two known findings.'),
    'C19': dict(
        technique='TLA+ state machine RegexDiscovery (parsed-class set, MakeComplete actions, Discovered = projection by the union of classes) model-checked over all request orders; TLC-generated abstract files rendered under layout variations, every incremental re-parse validated by Trace_RegexDiscovery',
        text='Abstract files (units, nesting, imports with only/rename lists, typedefs with bindings, interfaces, calls incl. inline-IF and %-calls) are rendered with continuation lines, semicolons, decoy keywords in comments/strings, mixed case; all subsets and many orders (all 5040 in thorough) of parser-class requests are replayed; the FP frontend is a renderer cross-check.',
        note='Request histories include repetitions (a class requested before and again after ProgramUnitClass). Known findings: request order matters for Sourcefile.make_complete, typedefs inside routines, bare END, module merge with internal procedures.'),
    'C20': dict(
        technique='TLA+ clause SrcLoc (recorded span and text must be the file text at those lines) evaluated by TLC on (node, lines, text) records from generated programs and repository sources, both frontends',
        text='For every node with a Source (FP, REGEX, and REGEX followed by make_complete(FP)) the recorded line span and string are compared per line with the original file lines.',
        note='Files needing the C preprocessor are skipped. Two known findings.'),
    'C21': dict(
        technique='TLA+ specification of the scheduler population (SchedPopulate: queue algorithm vs declarative PrunedClosure) model-checked exhaustively over small projects x config lattice; TLC-sampled and seeded projects rendered to Fortran, run through the real Scheduler and validated by Trace_Sched',
        text='Abstract projects (modules, free procedures, calls, qualified/unqualified imports) and configurations (seeds, expand/ignore/block/disable with plain, scoped and pattern keys) are rendered with layout noise and handed to the real Scheduler with full_parse/enable_imports on and off; nodes, edges, kinds, files and ignored flags must equal the pruned closure computed by TLC. The hand-written expectations of the repository tests are the validation corpus of the spec rules.',
        note='Typedef/binding/interface items are not modelled; projects stay inside the modelled fragment. One known finding (same procedure name in two modules of one file).'),
    'C22': dict(
        technique='TLA+ specification SchedProcess (Visit enabled iff selected and predecessors visited; any topological order accepted) model-checked; probe Transformation records real visits, Trace_SchedProcess validates once/only-selected/order/targets',
        text='For the C21 projects a probe transformation with random manifests (item filters, reverse, file graph, process_ignored_items) records every transform_* call with role, mode and targets; TLC checks each selected item exactly once, no other, order consistent with the (reversed) dependency graph, file-graph order, and targets = non-blocked dependencies.',
        note='Pairs of transformations applied in sequence to one scheduler are judged independently (seq=2 keys). Known findings on targets for unqualified imports / free procedures called from module procedures / overridden disable lists.'),
    'C42': dict(
        technique='TLA+ protocol model LintQueue model-checked over all interleavings (<= 4 files, <= 3 workers, parse failures); real parallel lint runs with jittered probe rule/handler recorded and validated by Trace_LintQueue',
        text='Generated file sets (with planted violations and unparsable files) are linted with 1..8 workers under seed-derived delays; per-process sequence numbers and an append-only log give the event order; every log must be a behaviour of the model, every file is checked once and per-file reports/outputs equal the serial run.',
        note='Real schedules are sampled; only the model is explored exhaustively.'),
    'C44': dict(
        technique='TLA+ protocol model JitBuild (main thread wait/submit, workers start/finish, link) model-checked with safety and liveness over all DAGs <= 4 objects; real Lib.build runs with a logging compiler wrapper validated by Trace_JitBuild',
        text='Random module DAGs are built with 1..8 workers through a compiler wrapper that logs start/end (O_APPEND) and sleeps a seed-derived time; TLC checks each log: start after all providers finished, each object once, link after all, library equals the serial build; also rebuild and aliasing scenarios.',
        note='One known finding (dependencies resolved by file stem, not by provided module). Real schedules are sampled.'),
})
CHECKS.update({
    'C41': dict(
        technique='TLA+ clauses WellFormedIR (ParentLink, ScopeOnChain, Resolvable, UniqueNames) model-checked on small scope trees and evaluated by TLC on independently exported IR after each built-in transformation; frontend re-parse and gfortran -fsyntax-only recorded as facts',
        text='A registry of 49 built-in transformation entries (with option combinations) is applied without the Scheduler to generated kernels with internal procedures, marked inline calls, outline regions, loop pragmas, associates, dead branches; after each application the exported scope tree and every symbol occurrence are judged by Trace_WellFormedIR, which names the offending symbol. Offenders present before the transformation are exempt.',
        note='Transformations that raise for an input are counted, not judged. Pairs of transformations in thorough. Several known findings.'),
    'C43': dict(
        technique='TLA+ model of the auto-fix contract (LintFix.tla: target tokens per lexical region; ReLintClean, UnchangedOutsideTargets, BehaviourPreserved) model-checked; real Linter runs with fix enabled recorded and validated by Trace_LintFix, behaviour by Trace_FMachine',
        text='Generated programs rendered with old-style relational operators (random case/spacing) mixed with strings and comments containing the same spellings, and routines with dynamic UBOUND checks; original lines, fixed lines, re-lint reports and program output are recorded; TLC decides the three clauses.',
        note='On the unchanged tree the operator fixer raises (known finding), so most cases end in FixApplies; the remaining clauses are exercised by the UBOUND rule and by the selftest corruptions.'),
})
CHECKS.update({
    'C02': dict(
        technique='TLA+ clauses RoundTrip (text fixpoint, IR identity) model-checked on abstract line/IR sequences and evaluated by TLC on recorded write/read/write cycles of generated programs and repository sources',
        text='t1 = fgen(parse(src)), t2 = fgen(parse(t1)) are compared line by line and the re-read IR (independent structural export of node kinds and expression trees) node by node by Trace_RoundTrip, which names the first difference; corpus: generated programs with all features and every repository Fortran source the FP frontend accepts without preprocessing.',
        note='Sources needing cpp are skipped (counted). A deterministic universe of named constructs (named IF with 0..3 ELSE IF in four contexts, named DO / SELECT / ASSOCIATE / WHERE, nested) is always included, with the clauses read-back (frontend accepts the written text) and written-text-compiles (gfortran -fsyntax-only). Known findings (logical operand regrouping, dropped unit loop step, doubled quotes in string literals) concern the IR clause only.'),
    'C03': dict(
        technique='TLA+ state machine SourceStatus (per-node status and text under Replace/Remove/Substitute edits; ValidImpliesOriginalText, unmodified = original) model-checked; recorded conservative outputs validated by Trace_SourceStatus, behaviour of edited programs by Trace_FMachine',
        text='Unmodified units/files must be reproduced verbatim per unit; after local edits every node still marked valid must be emitted with its original text, and the conservative output of edited generated programs is compiled, run and validated against the reference machine on the edited program.',
        note='Inline comments sharing a line with a statement are an explicit exemption. Several known findings (no conservative visit_Function, handlers missing for some kinds, over-invalidation).'),
    'C04': dict(
        technique='TLA+ line-wrapping contract LineWrap (Unwrap(lines) = Concat(items), width bound with the single-unbreakable-item exemption) model-checked; TLC-enumerated item vectors replayed into JoinableStringList and whole-program fgen output validated by Trace_LineWrap; gfortran line-truncation check',
        text='Level 1: all item-length vectors of a small universe are built as real JoinableStringList objects and the produced lines (as character codes) validated. Level 2: generated programs with very long expressions, argument lists, declarations, literals and deep nesting under the default and IFS styles: every line <= 132 or exempt, token sequence equal to the unwrapped print of the same IR, gfortran -Werror=line-truncation accepts.',
        note='Known findings: inline FORALL/WHERE wrapping, literals of 113-130 characters, very small widths of the component.'),
    'C26': dict(
        technique='Instrumented TLA+ reference machine FMachineLog (read/write/enter/exit event log) + TLA+ judgement DataflowJudge evaluated by TLC on the def/use/live sets recorded from Loki for generated routines x inputs',
        text='For every execution window of every statement node of generated routines (loops incl. zero-trip, conditionals, SELECT CASE, WHERE, associates, calls to helpers with every intent incl. none): writes must be in defines, reads-before-write in uses, values from earlier execution in live. Pre-flight: the instrumented machine agrees with FMachine and with gfortran on the program output.',
        note='Directed strata: DO bounds assigned by the loop body; SELECT CASE branches writing then reading a variable. Per array element granularity for kills; DO variables set by their own DO are exempt. Known findings listed in known_findings.json.'),
    'C27': dict(
        technique='Same instrumented machine; TLC computes the actual loop-carried and read-after-write variables from the event log and checks inclusion in loop_carried_dependencies / read_after_write_vars',
        text='For every loop instance and inspection point of the generated routines the variables actually carried between iterations / written before and read after the point must be reported by the queries (one-directional).',
        note='Directed strata: DO bounds assigned by the loop body; SELECT CASE branches writing then reading a variable. Known findings: may-definition kills, element granularity, candidates cleared in zero-trip loops / SELECT / WHERE, associate aliases.'),
    'C35': dict(
        technique='TLA+ reference machine FMachine (Trace_Transpile) predicts the output of the original Fortran; observed = harness-owned Fortran driver calling the gcc-built C kernel through the generated ISO-C wrapper; gfortran pre-flight',
        text='Kernels of the transpilable subset are generated in pools (a clean core pool + one construct per other pool), transpiled with FortranCTransformation + FortranISOCWrapperTransformation, built with gcc/gfortran and run on dyadic inputs; TLC compares with Run(original, input).',
        note='Reals dyadic and compared exactly. Non-termination detected by CPU limit; tool timeouts are inconclusive, never violations. Known findings per construct pool.'),
    'C36': dict(
        technique='Same reference machine; observed = the generated Python function executed on the same inputs',
        text='As C35 for FortranPythonTransformation; integers and logicals exact, reals exact because all values are dyadic.',
        note='"Equal up to the precision of the declared kinds" is checked as exact equality on dyadic values. Known findings per construct pool.'),
})
CHECKS.update({
    'C23': dict(
        technique='TLA+ specification SchedCase (projections of a run equal after case folding; Item equality/hash laws) model-checked with a negative control; case-permuted renderings of abstract projects run through the real Scheduler and compared by Trace_SchedCase',
        text='Projects/configs are rendered under case permutations of name occurrence classes (sources, config keys, seeds, name-valued options such as duplication suffixes, file suffix); items, edges, probe-recorded processing order and lower-cased generated code of the original and the permuted run must be equal after folding; items differing only in case must be equal with equal hash.',
        note='Known finding: Item.__hash__ hashes the un-folded name.'),
    'C24': dict(
        technique='TLA+ specification PlanWrite (Append = Written, Transform = OriginalsOf(Written), Remove = non-replicated originals) model-checked with a negative control; plan files of PLAN-strategy runs and the files written by real conversions recorded and validated by Trace_PlanWrite',
        text='For generated projects x configs (roles, replicate, lib, output/build dir, mode) x pipelines incl. item-creating and renaming transformations the cmake plan lists and the really written files (both through the convert/plan entry in-process) are compared by TLC, with OriginalsOf/replicate predicted from the abstract project.',
        note='Known findings: planning does not run DependencyTransformation; conversions raising where planning passes; module clones.'),
    'C25': dict(
        technique='TLA+ state machine SchedOps (DependencySuffix, ModuleWrap, Duplicate, Remove, Process; NoDanglingRef, CacheKeysAreCurrentNames, GraphNodesSubsetCache, LaterProcessVisitsSurvivors) model-checked with a negative control; TLC-generated histories replayed on the real Scheduler, projected state validated step by step, written sources compiled and linked',
        text='Histories of <= 3 operations on small projects are replayed with process_transformation; after each step unit names per file, call/import names (from the IR), cache keys and graph nodes are projected and validated by Trace_SchedOps; finally the sources are written and linked with gfortran.',
        note='Trace_SchedIgnore: ignore/block lists follow the renaming of ignored dependencies (inline function references and CALLs). Design-level defects found by TLC became preconditions of the model; many known findings (DuplicateKernel cloning whole modules, bystander routines, ModuleWrap).'),
    'C34': dict(
        technique='TLA+ reference machine FMachine (extended with expression bounds, assumed shape, sequence association and derived-type components) predicts the output of generated call trees; observed = gfortran run of the code after the call-signature transformations (through the Scheduler)',
        text='Call trees with sequence-associated element actuals, duplicated actuals, assumed-shape dummies, derived-type arguments and type-bound calls are transformed by do_resolve_sequence_association, RemoveDuplicateArgs, ExplicitArgumentArrayShapeTransformation, DerivedTypeArgumentsTransformation, TypeboundProcedureCallTransformation and validated by Trace_FMachine.',
        note='Known findings per sub-transformation.'),
    'C37': dict(
        technique='TLA+ reference machine FMachine predicts the output of generated driver/kernel call trees; observed = gfortran run (bounds checks, address sanitizer) of the code produced by every SCC pipeline variant through the real Scheduler',
        text='IFS-style call trees (block loop driver, kernels with vertical/horizontal loops or vector notation, temporaries, nested kernels) under two naming/Dimension configurations x 20 pipeline variants; every transformed tree is compiled without accelerator directives and must print what Run(original, input) predicts; a corrupted observation in every batch must be rejected.',
        note='Legal input domain: independent columns (listed in assumptions). CONTIGUOUS stripping / one element of stack padding are documented normalisations so that C38 defects do not mask SCC semantics. Known findings.'),
    'C38': dict(
        technique='Same machine and harness; hoisting and stack/pool allocator variants that gfortran can build (Cray pointers, direct index, raw stack, pool)',
        text='16 variants of HoistTemporaryArrays / pool / stack transformations on generated call trees with automatic temporaries of several ranks and size expressions; behaviour validated by Trace_FMachine; "enough storage" observed through -fcheck=bounds, AddressSanitizer and the generated STOP of the pool allocator.',
        note='The stack high-water mark is not compared against a TLC-side bound (FMachine has no notion of storage). Known findings.'),
    'C39': dict(
        technique='TLA+ reference machine FMachine + clause Trace_Parametrise (abort observed iff an input differs from the parametrised value); ParametriseTransformation driven through the Scheduler',
        text='Call trees whose size/flag arguments are parametrised (replace_by_value / abort options, entry points); for matching inputs the output must equal the machine prediction, for non-matching inputs the guard must trigger.',
        note='Known findings: duplicated actuals, disagreeing call sites, names left in PRINT.'),
})
CHECKS.update({
    'C29': dict(
        technique='TLA+ reference machine FMachine (ASSOCIATE as true association incl. section selectors and shadowing) + design model AssocResolve; generated nested-associate programs transformed by resolve/merge options and validated by Trace_FMachine',
        text='Nested ASSOCIATE blocks over scalars, elements, sections, expressions, shadowing names in several populations x option combinations (start_depth, max_parents, resolve then merge, merge then resolve); the transformed module is compiled and run and must print what Run(original, input) predicts.',
        note='Known findings per defect class (PRINT not rewritten, expression selectors re-evaluated, merging defects, section selector bounds).'),
    'C30': dict(
        technique='TLA+ design model SecLoop (when is the offset-only loop rewrite of a section assignment correct) model-checked, its 456 TLC-generated statements replayed into resolve_vector_notation; FMachine (RHS-before-store array assignment, WHERE) validates generated programs after every index-normalising transformation',
        text='Overlapping / strided / partial / 2-d / masked section assignments under resolve_vector_notation, add/remove explicit dimensions, normalize_range_indexing, normalize_array_shape_and_access, flatten_arrays (Fortran order); outputs validated by Trace_FMachine.',
        note='shift_to_zero_indexing, invert_array_indices and flatten_arrays(order=C) are only meaningful on the C path and are covered by C35. Known findings.'),
    'C40': dict(
        technique='TLA+ clause Idempotent (text after one application = text after two, first differing line named) model-checked and evaluated by TLC on recorded line sequences',
        text='Eight normalisers (associate resolution, vector-notation resolution, range-index normalisation, lower-casing, import sanitising, sequence-association resolution, dead-code removal, single-variable declarations) applied once and twice to generated programs and hand-varied corpora.',
        note='One known finding (convert_to_lower_case on deeply nested expressions).'),
    'C31': dict(
        technique='TLA+ reference machine FMachine predicts the output; loop transformations applied to pragma-annotated generated nests that are legal by construction',
        text='Unrolling over every literal (start, stop, step) of a small range incl. negative steps, zero-trip loops and nested depth; fusion / fission / interchange / split / block on nests legal by construction; transformed code compiled with bounds checking and validated by Trace_FMachine.',
        note='Known findings per family (loop variable after unrolling, PRINT not substituted, fission promotion, split_loop zero-trip).'),
    'C32': dict(
        technique='TLA+ reference machine FMachine predicts the output; constant propagation (with/without unrolling), dead-code removal, removal of unused variables / dummy arguments (manually and through the Scheduler)',
        text='Programs with constants and input-dependent values, decidable and undecidable conditions, loops, arrays, unused locals and dummies; transformed code validated by Trace_FMachine.',
        note='Known findings: constant propagation is unsound for loops, calls, SELECT, WHILE, EXIT/CYCLE, ASSOCIATE (those families only); the loop-free families cp/straight and cp-dce/straight (branch joins of IF / ELSE IF / ELSE) are covered by no known finding; integer division as exact.'),
})
CHECKS.update({
    'C28': dict(
        technique='TLA+ reference machine FMachine (incl. host association of internal procedures) predicts the output; every inlining entry point applied to generated caller/callee structures organised in construct slices',
        text='inline_internal_procedures, inline_marked_subroutines, inline_functions, inline_statement_functions, inline_constant_parameters and InlineTransformation option sets on generated programs (array/scalar/element/expression actuals, keyword and optional arguments, local name clashes, nested calls, functions inside larger expressions, imported PARAMETER constants); transformed modules compiled and validated by Trace_FMachine. A base slice must stay clean; every other slice adds one construct.',
        note='Many known findings, one key prefix per construct slice.'),
    'C33': dict(
        technique='Same machine; outline_pragma_regions (with in/out/inout overrides) and extract_internal_procedures / ExtractTransformation on generated routines',
        text='Marked regions reading / writing / read-and-writing scalars and arrays, calls inside regions, values written in the region and read afterwards; internal procedures using host-associated variables; validated by Trace_FMachine.',
        note='Known findings per construct slice.'),
})
NOT_APPLICABLE = {p: 'check not built yet (work in progress; see DESIGN.md build order)' for p in ALL if p not in CHECKS}
for e in ENGINES:
    e['serves_properties'] = sorted(CHECKS)
