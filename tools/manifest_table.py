HOOK_COMMITS = []
ENGINES = [
    {'name': 'tlc+conformance', 'path': '/verif/harness', 'kind_free_text':
     'TLC 1.8 on the TLA+ modules in /verif/spec (exhaustive small-scope MC, -simulate behaviour generation, batch trace validation) + python harness replaying/recording against loki imported from /repo',
     'serves_properties': []},
]
ALL = [f'C{i:02d}' for i in range(1, 45)]
CHECKS = {
    'C12': dict(
        technique='TLA+ state machine SymTab: TLC exhaustive MC of the design + TLC-simulated behaviours replayed into SymbolTable/Scope/Subroutine/CaseInsensitiveDict + TLC trace validation of recorded histories',
        text='SymTab.tla states every mapping operation as a function Apply(state,event); TLC checks the design laws (innermost look-up, membership=deletion, spelling irrelevance, purity) on all histories up to depth 4 (quick) / 6 (thorough); TLC-generated random behaviours (24 steps) are replayed into the real objects with state comparison after each step, and seeded 30-step histories recorded from the real objects are validated event by event by Trace_SymTab.',
        note='Universe: 4 scope slots, 3 names x 9 spellings, 2 attribute values. Trusted: TLC, SymTab.tla, the projection (raw dict keys, stored tags, parent identities). setdefault return value on SymbolTable is unspecified and exempt.'),
}
CHECKS.update({
    'C06': dict(
        technique='TLA+ reference semantics (FExpr) + TLA+ reference parser (FParse): TLC enumerates the tree universe, the printed text of every tree is re-read by the reference parser and compared by value in TLC; gfortran pre-flight of the reference',
        text='ExprUniverse.tla enumerates every tree of operator depth <= 2 (29k, incl. shapes parsing never produces); each is built as a real Loki expression, printed by fgen, tokenised, and Trace_ExprEquiv (TLC) checks that FParse(tokens) has the value of the tree on 45 integer + 45 real valuations; plus seeded deeper trees, logical trees and trees produced by SubstituteExpressions. A sample of printed texts is also executed by gfortran and must agree with FParse+FExpr.',
        note='Fortran backend only (cgen not covered). Valuations where the tree is undefined or exceeds magnitude 30000 are not judged; real arithmetic exact. Trusted: TLC, FExpr/FParse, the lexer and structural builder in harness/lib_expr.py, gfortran.'),
    'C08': dict(
        technique='TLA+ reference semantics FExpr evaluated by TLC on (input tree, simplify(input)) pairs over spec-enumerated and seeded trees x flag subsets; failures classified by the spec (exact-division reading)',
        text='simplify() is applied to universe trees and seeded trees (integer, real, logical) under subsets of the Simplification flags (all 31 in thorough) and both typings; Trace_ExprEquiv (TLC) demands equal values on every sampled valuation where the input is defined.',
        note='Rounding is outside the model (exact rationals). Known finding C08-int-division-as-exact is recognised by a second TLC evaluation in which every division is exact.'),
    'C09': dict(
        technique='TLA+ reference semantics FExpr: TLC checks every definite answer of symbolic_op against all sampled valuations',
        text='symbolic_op is called on every ordered pair of a 40-tree integer universe x 6 operators (quick: 500 pairs); Trace_SymCompare accepts a raised call, and a definite answer only if it holds on all 45 valuations where both sides are defined.',
        note='A wrong definite answer can be missed (finite valuations), never invented. Two known findings (eq/ne guessing, integer division as exact).'),
    'C10': dict(
        technique='TLA+ definition of the Fortran DO sequence (LoopRange.tla, laws model-checked) + TLC validation of the helpers results for every bounded range',
        text='Exhaustive over start, stop in -4..6, step in -3..3 and no step, literal and symbolic bounds: get_pyrange must equal DoSeq; num_iterations, normalized, iteration_number, iteration_index (exported expression trees, evaluated by FExpr in TLC) must agree with DoSeq on every non-empty loop.',
        note='Consumers (unrolling, constant propagation) are checked by behaviour in C31/C32.'),
})
NOT_APPLICABLE = {p: 'check not built yet (work in progress; see DESIGN.md build order)' for p in ALL if p not in CHECKS}
for e in ENGINES:
    e['serves_properties'] = sorted(CHECKS)
