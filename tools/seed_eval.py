#!/usr/bin/env python3
"""Evaluate a seeded breaking change: tools/seed_eval.py <Cxx> [<worktree>] [--tests <dir> ...] [--tier quick]
 1. demo.py exits 1 against the changed worktree and 0 against /repo
 2. the repository tests (given dirs, default: tests next to touched files) keep every stable-pass test of the baseline
 3. ./vcheck Cxx with VERIF_REPO=<worktree> reports a VIOLATION (exit 1)
Copies SEED/* to /verif/seeded/<Cxx>[-n]/ with an extended meta.json."""
import json, os, re, shutil, subprocess, sys, time
pid = sys.argv[1]
args = sys.argv[2:]
wt = f'/tmp/seed-{pid}'
tests = []
name = pid
check = pid
recheck = False
i = 0
while i < len(args):
    if args[i] == '--tests':
        i += 1
        while i < len(args) and not args[i].startswith('--'):
            tests.append(args[i]); i += 1
        continue
    if args[i] == '--name':
        name = args[i + 1]; i += 2; continue
    if args[i] == '--check':
        check = args[i + 1]; i += 2; continue
    if args[i] == '--recheck':
        recheck = True; i += 1; continue
    wt = args[i]; i += 1
seed = os.path.join(wt, 'SEED')
res = {}
def run(cmd, env=None, cwd=None, timeout=3000):
    e = dict(os.environ); e.update(env or {})
    t0 = time.time()
    p = subprocess.run(cmd, shell=True, env=e, cwd=cwd, capture_output=True, text=True, timeout=timeout)
    return p.returncode, p.stdout + p.stderr, time.time() - t0
if recheck:
    # the check was strengthened after the first evaluation: re-run only the check, keep demo / test results
    dst = f'/verif/seeded/{name}'
    meta = json.load(open(os.path.join(dst, 'meta.json')))
    rc3, out3, dt3 = run(f'./vcheck {check} --tier quick', {'VERIF_REPO': wt}, '/verif', timeout=5000)
    viol = [l for l in out3.splitlines() if l.startswith('VIOLATION')]
    keys = [l.strip() for l in out3.splitlines() if l.strip().startswith('key:')]
    meta.setdefault('initially_detected', meta.get('detected', False))
    meta['evaluated']['check_after_strengthening'] = {'cmd': f'VERIF_REPO={wt} ./vcheck {check} --tier quick', 'rc': rc3,
                                                       'violations': len(viol), 'keys': keys[:8], 'wall_s': round(dt3)}
    meta['detected'] = rc3 == 1
    json.dump(meta, open(os.path.join(dst, 'meta.json'), 'w'), indent=1)
    print(f'recheck: rc={rc3} violations={len(viol)}', keys[:5])
    if rc3 not in (0, 1):
        print(out3[-1500:])
    sys.exit(0)
rc1, out1, _ = run('/venv/bin/python demo.py', {'PYTHONPATH': wt}, seed)
rc0, out0, _ = run('/venv/bin/python demo.py', {'PYTHONPATH': '/repo'}, seed)
res['demo_changed_rc'] = rc1; res['demo_unchanged_rc'] = rc0
print(f'demo: changed rc={rc1} unchanged rc={rc0}')
print(out1[-600:])
touched = subprocess.check_output(['git', '-C', wt, 'diff', '--name-only', '--', 'loki', 'lint_rules'], text=True).split()
if not tests:
    dirs = set()
    for f in touched:
        d = os.path.dirname(f)
        if os.path.isdir(os.path.join(wt, d, 'tests')):
            dirs.add(os.path.join(d, 'tests'))
        else:
            dirs.add(d)
    tests = sorted(dirs)
xml = f'/tmp/probe/seed-{name}.xml'
os.makedirs('/tmp/probe', exist_ok=True)
rc, out, dt = run(f'/venv/bin/python -m pytest -q -p no:cacheprovider --timeout=900 -n 4 --junitxml={xml} ' + ' '.join(tests), {'PYTHONPATH': wt}, wt, timeout=3600)
prefixes = ' '.join(t.replace('/', '.') for t in tests)
rc2, out2, _ = run(f'/verif/tools/baseline_diff.py {xml} {prefixes}')
res['tests'] = {'dirs': tests, 'baseline_diff': out2.strip().splitlines()[-1] if out2.strip() else '', 'regressions': rc2 != 0, 'wall_s': round(dt)}
print('tests:', tests, res['tests']['baseline_diff'])
if rc2 != 0:
    print(out2[-1500:])
rc3, out3, dt3 = run(f'./vcheck {check} --tier quick', {'VERIF_REPO': wt}, '/verif', timeout=3000)
viol = [l for l in out3.splitlines() if l.startswith('VIOLATION')]
keys = [l.strip() for l in out3.splitlines() if l.strip().startswith('key:')]
res['check'] = {'cmd': f'VERIF_REPO={wt} ./vcheck {check} --tier quick', 'rc': rc3, 'violations': len(viol), 'keys': keys[:8], 'wall_s': round(dt3)}
print(f'check: rc={rc3} violations={len(viol)}', keys[:5])
if rc3 not in (0, 1):
    print(out3[-1500:])
dst = f'/verif/seeded/{name}'
os.makedirs(dst, exist_ok=True)
for f in os.listdir(seed):
    if os.path.isfile(os.path.join(seed, f)) and not f.startswith('_') and os.path.getsize(os.path.join(seed, f)) < 200000:
        shutil.copy(os.path.join(seed, f), dst)
meta = {}
try:
    meta = json.load(open(os.path.join(seed, 'meta.json')))
except Exception:
    pass
meta['evaluated'] = res
meta['detected'] = rc3 == 1
meta['valid_seed'] = rc1 != 0 and rc0 == 0 and not res['tests']['regressions']
json.dump(meta, open(os.path.join(dst, 'meta.json'), 'w'), indent=1)
print('valid_seed', meta['valid_seed'], 'detected', meta['detected'])
