#!/usr/bin/env python3
"""Compare a pytest run (-rA style 'FAILED/ERROR path::name' lines or junit xml) against BASELINE.json:
print every stable_pass test that did not pass.  usage: baseline_diff.py <pytest-output-or-junit.xml> [path-prefix ...]"""
import json, re, sys
import xml.etree.ElementTree as ET
b = json.load(open('/root/.vp/BASELINE.json'))
sp = set(b['stable_pass'])
f = sys.argv[1]
bad = set()
if f.endswith('.xml'):
    passed = set()
    for tc in ET.parse(f).getroot().iter('testcase'):
        key = f"{tc.get('classname')}::{tc.get('name')}"
        if any(c.tag in ('failure', 'error', 'skipped') for c in tc):
            bad.add(key)
        else:
            passed.add(key)
    prefixes = sys.argv[2:]
    miss = [k for k in sp if k not in passed and (not prefixes or any(k.startswith(p) for p in prefixes))]
    for k in sorted(miss):
        print('REGRESSION', k)
    print(f'{len(passed)} passed, {len(miss)} stable tests not passed')
    sys.exit(1 if miss else 0)
for l in open(f):
    m = re.match(r'(FAILED|ERROR) (\S+)', l)
    if not m:
        continue
    path, _, name = m.group(2).partition('::')
    bad.add(path[:-3].replace('/', '.') + '::' + name)
reg = sorted(bad & sp)
for k in reg:
    print('REGRESSION', k)
print(f'{len(bad)} failed/errored, {len(reg)} of them are stable-pass in the baseline')
sys.exit(1 if reg else 0)
