#!/usr/bin/env python3
"""Write /verif/seeded/README.md (table of seeded breaking changes and which check catches them) from the meta.json files."""
import glob, json, os
rows = []
for d in sorted(glob.glob('/verif/seeded/C*')):
    try:
        m = json.load(open(os.path.join(d, 'meta.json')))
    except Exception:
        continue
    ev = m.get('evaluated', {})
    chk = ev.get('check_after_strengthening') or ev.get('check', {})
    what = (m.get('what_changed') or '').replace('\n', ' ').replace('|', '/')
    needs = (m.get('needs_to_manifest') or '').replace('\n', ' ').replace('|', '/')
    rows.append((os.path.basename(d), what[:260], needs[:220], 'yes' if m.get('valid_seed') else 'demo flaky/see note',
                 'CAUGHT' if m.get('detected') else 'missed', ', '.join(k.replace('key: ', '') for k in (chk.get('keys') or [])[:2])[:160],
                 ('initially missed, check strengthened. ' if m.get('initially_detected') is False and m.get('detected') else '') + m.get('note', '')))
out = ['# Seeded breaking changes', '',
       'Each directory holds `patch.diff` (apply with `git -C /repo apply`, undo with `git -C /repo checkout -- .`), `demo.py` '
       '(exits 1 with the change, 0 without) and `meta.json` (what changed, what it needs to manifest, tests run, and the result of '
       '`tools/seed_eval.py`: demo in both directions, repository tests next to the touched files against the baseline, and the '
       'registered quick check run with `VERIF_REPO=<worktree>`). The changes were written by sub-agents that saw only the property text.', '',
       '| seed | change | needs to manifest | demo verified | check | first violation keys | note |', '|---|---|---|---|---|---|---|']
for r in rows:
    out.append('| ' + ' | '.join(r) + ' |')
open('/verif/seeded/README.md', 'w').write('\n'.join(out) + '\n')
print(f'{len(rows)} seeds, {sum(1 for r in rows if r[4] == "CAUGHT")} caught')
