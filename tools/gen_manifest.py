#!/usr/bin/env python3
"""Regenerate MANIFEST.json from tools/manifest_table.py (one entry per claimed property)."""
import json, os, sys
sys.path.insert(0, os.path.dirname(__file__))
from manifest_table import CHECKS, NOT_APPLICABLE, ENGINES, HOOK_COMMITS  # noqa
HERE = os.path.dirname(os.path.dirname(os.path.abspath(__file__)))
checks = []
for pid, c in sorted(CHECKS.items()):
    checks.append({
        'property_id': pid,
        'quick_cmd': f'./vcheck {pid} --tier quick',
        'thorough_cmd': f'./vcheck {pid} --tier thorough',
        'evidence_file': f'/verif/evidence/{pid}.json',
        'replay_cmd_template': f'./vcheck {pid} --replay {{path}}',
        'engine': c.get('engine', 'tlc+conformance'),
        'level_claimed': {'category': c.get('category', 'model_checking'), 'text': c['text'], 'design_ref': c.get('ref', 'DESIGN.md §8')},
        'level_note': c['note'],
        'technique': c['technique'],
    })
m = {
    'version': 1,
    'setup_cmd': './setup.sh',
    'hooks': {
        'guard': 'LOKI_VERIF',
        'enable': 'export LOKI_VERIF=1 (set by ./vcheck). No source hooks are needed so far: schedules are perturbed and observed through plug-in points (compiler wrapper script, lint rule/handler, probe transformation).',
        'baseline_off_cmd': 'cd /repo && env -u LOKI_VERIF /venv/bin/python -m pytest -ra -q -p no:cacheprovider --timeout=900 --continue-on-collection-errors',
        'source_commits': HOOK_COMMITS,
        'add_only': True,
    },
    'engines': ENGINES,
    'checks': checks,
    'notes': 'All checks: TLA+ specification in /verif/spec checked by TLC (design level) and bound to /repo by replaying TLC-generated behaviours into the real objects and validating recorded traces with TLC trace specs. Exit 0 held / 1 VIOLATION / 2 machinery failure.',
    'not_applicable': [{'property_id': k, 'reason': v} for k, v in sorted(NOT_APPLICABLE.items())],
}
json.dump(m, open(os.path.join(HERE, 'MANIFEST.json'), 'w'), indent=1)
print(f'{len(checks)} checks, {len(NOT_APPLICABLE)} not_applicable')
