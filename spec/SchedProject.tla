---------------------------- MODULE SchedProject ----------------------------
(* Static semantics of an abstract multi-file Fortran project and of a scheduler configuration   *)
(* (C21, C22; DESIGN.md 4.9 and Appendix A).  Everything here is a pure operator over two records  *)
(*   P  (project)  and  C  (configuration)                                                        *)
(* whose shape is documented in harness/lib_sched.py; the same records are built by the TLA+      *)
(* universe generator (SchedUniverse.tla) and read from JSON by the trace specifications.          *)
(*                                                                                                 *)
(* Modelled fragment: modules (module-level USE statements, module variables, contained            *)
(* subroutines), free subroutines, USE with and without ONLY list inside procedures, CALL          *)
(* statements (incl. self recursion), generic INTERFACEs of a module over procedures of that module  *)
(* (an InterfaceItem `mod#intf` between the caller and the specific procedures; referenced only      *)
(* through a USE..ONLY inside the calling procedure).  NOT modelled (never generated): derived types, *)
(* type-bound procedures, interface blocks inside procedures, functions / inline calls, internal     *)
(* procedures, renaming imports,                                                                     *)
(* external (missing) modules or procedures, non-self recursion cycles.                           *)
EXTENDS Naturals, Sequences, FiniteSets, TLC

\* NameChars(P, n): the character codes of the name string n of project P (TLC strings cannot be
\* indexed; only needed to evaluate fnmatch patterns).  Trace specs read it from the case's JSON
\* (P.chars[n]), the model-checking universe from a literal table.
CONSTANT NameChars(_, _)

Range(s) == {s[i] : i \in DOMAIN s}

\* remove duplicates from a sequence keeping first occurrences
RECURSIVE DedupFrom(_, _)
DedupFrom(s, seen) ==
  IF s = <<>> THEN <<>>
  ELSE IF Head(s) \in seen THEN DedupFrom(Tail(s), seen)
  ELSE <<Head(s)>> \o DedupFrom(Tail(s), seen \cup {Head(s)})
Dedup(s) == DedupFrom(s, {})

RECURSIVE FlattenSeq(_)
FlattenSeq(ss) == IF ss = <<>> THEN <<>> ELSE Head(ss) \o FlattenSeq(Tail(ss))

SelectSeqP(s, T(_)) == SelectSeq(s, T)

---------------------------------------------------------------------------------------------
(* Items.  Names are folded (lower case).  Loki's item name is Full(it).                        *)

ModItem(n) == [kind |-> "mod", scope |-> "", local |-> n]
ProcItem(mn, n) == [kind |-> "proc", scope |-> mn, local |-> n]
IntfItem(mn, n) == [kind |-> "intf", scope |-> mn, local |-> n]
Full(it) == IF it.kind = "mod" THEN it.local ELSE it.scope \o "#" \o it.local

Mods(P) == Range(P.mods)
Procs(P) == Range(P.procs)
ModNames(P) == {m.name : m \in Mods(P)}
ModRec(P, n) == CHOOSE m \in Mods(P) : m.name = n
ItemOfProc(pr) == ProcItem(pr.mod, pr.name)
ProcRecOf(P, it) == CHOOSE pr \in Procs(P) : pr.mod = it.scope /\ pr.name = it.local
\* (module records built by other specifications may lack the field: no interfaces then)
IfacesOf(m) == IF "ifaces" \in DOMAIN m THEN m.ifaces ELSE <<>>
IfaceNames(P, mn) == {i.name : i \in Range(IfacesOf(ModRec(P, mn)))}
IfaceRec(P, it) == CHOOSE i \in Range(IfacesOf(ModRec(P, it.scope))) : i.name = it.local
AllItems(P) == {ModItem(m.name) : m \in Mods(P)} \cup {ItemOfProc(pr) : pr \in Procs(P)}
               \cup UNION {{IntfItem(m.name, i.name) : i \in Range(IfacesOf(m))} : m \in Mods(P)}
ItemExists(P, it) == it \in AllItems(P)

\* file that contains the definition of an item
FileOf(P, it) == IF it.kind = "mod" THEN ModRec(P, it.local).file
                 ELSE IF it.kind = "intf" THEN ModRec(P, it.scope).file ELSE ProcRecOf(P, it).file

---------------------------------------------------------------------------------------------
(* Name resolution of a CALL, following Fortran scoping (and Appendix A (iv)):                    *)
(*   sibling module procedure  >  name made accessible by a USE..ONLY in the procedure or its    *)
(*   host module  >  procedure of a module that is USEd without ONLY list  >  free procedure.    *)

HostImports(P, pr) == IF pr.mod = "" THEN <<>> ELSE ModRec(P, pr.mod).imports
VisibleImports(P, pr) == Range(pr.imports) \cup Range(HostImports(P, pr))

QualMods(P, pr, c) == {im.mod : im \in {i \in VisibleImports(P, pr) : c \in Range(i.only)}}
UnqualMods(P, pr, c) ==
  {im.mod : im \in {i \in VisibleImports(P, pr) : i.only = <<>>}} \cap {q.mod : q \in {r \in Procs(P) : r.name = c}}

IsSibling(P, pr, c) == pr.mod # "" /\ \E q \in Procs(P) : q.mod = pr.mod /\ q.name = c

Resolve(P, pr, c) ==
  IF IsSibling(P, pr, c) THEN ProcItem(pr.mod, c)
  ELSE IF QualMods(P, pr, c) # {}
       THEN LET m == CHOOSE x \in QualMods(P, pr, c) : TRUE
            IN IF m \in ModNames(P) /\ c \in IfaceNames(P, m) THEN IntfItem(m, c) ELSE ProcItem(m, c)
  ELSE IF UnqualMods(P, pr, c) # {} THEN ProcItem(CHOOSE m \in UnqualMods(P, pr, c) : TRUE, c)
  ELSE ProcItem("", c)

\* the written name must denote exactly one entity, and that entity must exist
CallLegal(P, pr, c) ==
  /\ ItemExists(P, Resolve(P, pr, c))
  /\ IF IsSibling(P, pr, c) THEN QualMods(P, pr, c) = {} /\ UnqualMods(P, pr, c) = {}
     ELSE IF QualMods(P, pr, c) # {} THEN Cardinality(QualMods(P, pr, c)) = 1 /\ UnqualMods(P, pr, c) \subseteq QualMods(P, pr, c)
     ELSE Cardinality(UnqualMods(P, pr, c)) <= 1

ImportLegal(P, im, owner) ==
  /\ im.mod \in ModNames(P) /\ im.mod # owner
  /\ \A s \in Range(im.only) :
       \/ s \in Range(ModRec(P, im.mod).vars)
       \/ s \in IfaceNames(P, im.mod)
       \/ \E q \in Procs(P) : q.mod = im.mod /\ q.name = s

---------------------------------------------------------------------------------------------
(* Configuration: which keys select an item.                                                      *)
(* match_item_keys: an item is addressed by its full name and its local name; with               *)
(* `match_item_parents` also by the name of its scope.  disable/block lists accept fnmatch       *)
(* patterns (`*`, `?`), evaluated on character codes (TLC strings cannot be indexed).            *)

NamesOf(it, parents) ==
  {Full(it), it.local} \cup (IF parents /\ it.scope # "" THEN {it.scope} ELSE {})

\* a module variable is not an item, but disable lists are matched against `mod#var` all the same
VarNames(mn, v) == {mn \o "#" \o v, v, mn}

RECURSIVE Glob(_, _)
Glob(p, s) ==     \* p, s: sequences of character codes; 42 = '*', 63 = '?'
  IF p = <<>> THEN s = <<>>
  ELSE IF Head(p) = 42 THEN Glob(Tail(p), s) \/ (s # <<>> /\ Glob(p, Tail(s)))
  ELSE s # <<>> /\ (Head(p) = 63 \/ Head(p) = Head(s)) /\ Glob(Tail(p), Tail(s))

IsPattern(k) == \E i \in DOMAIN k.c : k.c[i] \in {42, 63}

KeyHits(P, k, names, patterns) ==
  IF patterns /\ IsPattern(k) THEN \E n \in names : Glob(k.c, NameChars(P, n)) ELSE k.s \in names

Hits(P, keys, names, patterns) == \E k \in keys : KeyHits(P, k, names, patterns)

RoutineEntries(C, it) == {r \in Range(C.routines) : r.key \in NamesOf(it, FALSE)}

\* effective per-item configuration: defaults overlaid by the (unique) matching `routines` entry
ItemConf(C, it) ==
  LET es == RoutineEntries(C, it)
      has == es # {}
      e == IF has THEN CHOOSE r \in es : TRUE ELSE [key |-> ""]
  IN [expand  |-> IF has /\ e.hasExpand THEN e.expand ELSE C.expand,
      disable |-> IF has /\ e.hasDisable THEN Range(e.disable) ELSE Range(C.disable),
      block   |-> IF has /\ e.hasBlock THEN Range(e.block) ELSE Range(C.block),
      ignore  |-> IF has /\ e.hasIgnore THEN Range(e.ignore) ELSE Range(C.ignore),
      role    |-> IF has /\ e.hasRole THEN e.role ELSE C.role,
      mode    |-> IF has /\ e.hasMode THEN e.mode ELSE C.mode]

\* keys that remove a dependency of item `p` from the graph: the global disable list, p's disable
\* list and p's block list
PruneKeysOf(C, ic) == Range(C.disable) \cup ic.disable \cup ic.block
PruneKeys(C, p) == PruneKeysOf(C, ItemConf(C, p))
\* keys that remove it from `targets` as well
DisableKeys(C, p) == Range(C.disable) \cup ItemConf(C, p).disable

---------------------------------------------------------------------------------------------
(* Dependencies of an item, after pruning with key set K (Appendix A, "Deps" + "Pruning").        *)

\* a USE statement: nothing if the module is pruned; the module item if there is no ONLY list or
\* if some surviving ONLY symbol is a module variable; imported subroutines alone create no
\* dependency (they do where they are called)
ImportDepSeq(P, im, K) ==
  IF Hits(P, K, {im.mod}, TRUE) THEN <<>>
  ELSE IF im.only = <<>> THEN <<ModItem(im.mod)>>
  ELSE LET m == ModRec(P, im.mod)
           alive(s) == ~Hits(P, K, VarNames(im.mod, s), TRUE)
           modDep == IF \E s \in Range(im.only) : s \in Range(m.vars) /\ alive(s) THEN <<ModItem(im.mod)>> ELSE <<>>
           \* imported generic interfaces are definition items of the module: one dependency each
           isIntf(s) == s \in IfaceNames(P, im.mod) /\ alive(s)
       IN modDep \o [i \in DOMAIN SelectSeq(im.only, isIntf) |-> IntfItem(im.mod, SelectSeq(im.only, isIntf)[i])]

ImportsDepSeq(P, imps, K) == FlattenSeq([i \in DOMAIN imps |-> ImportDepSeq(P, imps[i], K)])

CallDepSeq(P, pr, K) ==
  LET res == [i \in DOMAIN pr.calls |-> Resolve(P, pr, pr.calls[i])]
      keep(d) == ~Hits(P, K, NamesOf(d, TRUE), TRUE)
  IN SelectSeq(res, keep)

\* dependencies of `it` in source order (USE statements first, then calls), pruned with K, no duplicates
DepSeq(P, it, K) ==
  IF it.kind = "mod" THEN Dedup(ImportsDepSeq(P, ModRec(P, it.local).imports, K))
  ELSE IF it.kind = "intf"     \* a generic interface depends on the procedures it names
  THEN LET ps == IfaceRec(P, it).procs
           keep(d) == ~Hits(P, K, NamesOf(d, TRUE), TRUE)
       IN Dedup(SelectSeq([i \in DOMAIN ps |-> ProcItem(it.scope, ps[i])], keep))
  ELSE LET pr == ProcRecOf(P, it)
       IN Dedup(ImportsDepSeq(P, pr.imports, K) \o CallDepSeq(P, pr, K))

\* children of an item in the scheduler graph
ChildSeq(P, C, it) == LET ic == ItemConf(C, it) IN IF ic.expand THEN DepSeq(P, it, PruneKeysOf(C, ic)) ELSE <<>>
Children(P, C, it) == Range(ChildSeq(P, C, it)) \ {it}       \* no self edge

\* is child d of parent p matched by p's ignore list (no patterns there, parents matched)
IgnoreHit(P, C, p, d) == Hits(P, ItemConf(C, p).ignore, NamesOf(d, TRUE), FALSE)

---------------------------------------------------------------------------------------------
(* `targets` handed to a transformation: the local names of the item's dependencies (module names, *)
(* imported symbols, called names) that are neither disabled nor blocked; ignored ones stay in.   *)
(* They do not depend on `expand`.  Imported named constants (PARAMETER) are never targets.        *)

ImportTargets(P, im, K) ==
  IF Hits(P, K, {im.mod}, TRUE) THEN {}
  ELSE {im.mod} \cup {s \in Range(im.only) : s \notin Range(ModRec(P, im.mod).params) /\ ~Hits(P, K, VarNames(im.mod, s), TRUE)}

TargetsOf(P, C, it) ==
  LET K == PruneKeys(C, it)
  IN IF it.kind = "mod" THEN UNION {ImportTargets(P, im, K) : im \in Range(ModRec(P, it.local).imports)}
     ELSE IF it.kind = "intf"
     THEN {p \in Range(IfaceRec(P, it).procs) : ~Hits(P, K, NamesOf(ProcItem(it.scope, p), TRUE), TRUE)}
     ELSE LET pr == ProcRecOf(P, it)
          IN UNION {ImportTargets(P, im, K) : im \in Range(pr.imports)}
             \cup {c \in Range(pr.calls) : ~Hits(P, K, NamesOf(Resolve(P, pr, c), TRUE), TRUE)}

---------------------------------------------------------------------------------------------
(* Seeds                                                                                         *)

SeedCands(P, s) ==
  IF s.q THEN {ProcItem(s.scope, s.local)} \cap AllItems(P)
  ELSE IF ProcItem("", s.local) \in AllItems(P) THEN {ProcItem("", s.local)}
  ELSE {ItemOfProc(pr) : pr \in {r \in Procs(P) : r.name = s.local}}
SeedItem(P, s) == CHOOSE it \in SeedCands(P, s) : TRUE
SeedSeq(P, C) == [i \in DOMAIN C.seeds |-> SeedItem(P, C.seeds[i])]

---------------------------------------------------------------------------------------------
(* The declarative target: least fixed point of Children from the seeds.                         *)

RECURSIVE Close(_, _, _, _)
Close(P, C, S, frontier) ==
  LET new == UNION {Children(P, C, it) : it \in frontier} \ S
  IN IF new = {} THEN S ELSE Close(P, C, S \cup new, new)

ClosureNodes(P, C) == LET S == Range(SeedSeq(P, C)) IN Close(P, C, S, S)
EdgesOver(P, C, N) == UNION {{<<a, b>> : b \in Children(P, C, a)} : a \in N}
ClosureEdges(P, C) == EdgesOver(P, C, ClosureNodes(P, C))

(* is_ignored.  The documented rule  ignored(d) = ignored(p) \/ d matches p.ignore  is stated per *)
(* parent; for an item with several parents that disagree (or a seed that is also a dependency)    *)
(* nothing is documented, so every value justified by SOME parent (seeds: FALSE) is accepted.     *)
(* PossIgn is the least fixed point of that rule: item -> set of justified values.               *)
RECURSIVE PossIter(_, _, _, _, _)
PossIter(P, C, N, E, f) ==
  LET g == [x \in N |-> f[x] \cup UNION {{v \/ IgnoreHit(P, C, e[1], x) : v \in f[e[1]]} : e \in {d \in E : d[2] = x}}]
  IN IF g = f THEN f ELSE PossIter(P, C, N, E, g)
PossOver(P, C, N, E) ==
  LET S == Range(SeedSeq(P, C))
  IN PossIter(P, C, N, E, [x \in N |-> IF x \in S THEN {FALSE} ELSE {}])

\* the complete declarative target, computed once per (project, configuration)
PrunedClosure(P, C) ==
  LET N == ClosureNodes(P, C)
      E == EdgesOver(P, C, N)
  IN [nodes |-> N, edges |-> E, poss |-> PossOver(P, C, N, E)]

---------------------------------------------------------------------------------------------
(* Legality of the input (checked before any verdict; an illegal input is a generator bug).      *)

\* unpruned item and file dependency relations over the whole project
RawDeps(P, it) == Range(DepSeq(P, it, {})) \ {it}
RawEdges(P) == UNION {{<<a, b>> : b \in RawDeps(P, a)} : a \in AllItems(P)}

RECURSIVE ReachFrom(_, _)
ReachFrom(E, S) == LET S2 == S \cup {e[2] : e \in {d \in E : d[1] \in S}} IN IF S2 = S THEN S ELSE ReachFrom(E, S2)
\* acyclic iff repeatedly deleting the edges into sinks deletes everything
RECURSIVE Acyclic(_)
Acyclic(E) ==
  IF E = {} THEN TRUE
  ELSE LET srcs == {e[1] : e \in E}
           E2 == {e \in E : e[2] \in srcs}
       IN IF E2 = E THEN FALSE ELSE Acyclic(E2)

FileEdges(P, E) == {<<FileOf(P, e[1]), FileOf(P, e[2])>> : e \in {d \in E : FileOf(P, d[1]) # FileOf(P, d[2])}}

\* Names a module makes accessible to its users: its own procedures and variables plus whatever its module-level
\* USE statements bring in (everything is public).  d bounds the recursion on (possibly cyclic) USE chains.
RECURSIVE ExportedNames(_, _, _)
ExportedNames(P, mn, d) ==
  LET m == ModRec(P, mn)
      own == Range(m.vars) \cup {pr.name : pr \in {q \in Procs(P) : q.mod = mn}} \cup {i.name : i \in Range(IfacesOf(m))}
  IN IF d = 0 THEN own
     ELSE own \cup UNION {IF im.only = <<>> THEN (IF im.mod \in ModNames(P) THEN ExportedNames(P, im.mod, d - 1) ELSE {})
                                            ELSE Range(im.only) : im \in Range(m.imports)}
BroughtIn(P, imps) ==
  UNION {IF im.only = <<>> THEN (IF im.mod \in ModNames(P) THEN ExportedNames(P, im.mod, Cardinality(Mods(P))) ELSE {})
                           ELSE Range(im.only) : im \in Range(imps)}
\* Fortran: an entity declared in a scoping unit must not have the name of an entity made accessible there by USE
\* (e.g. module m1 with `use m2` must not define a procedure that m2 also defines)
NoUseClash(P) ==
  /\ \A m \in Mods(P) :
        (Range(m.vars) \cup {pr.name : pr \in {q \in Procs(P) : q.mod = m.name}} \cup {i.name : i \in Range(IfacesOf(m))})
           \cap BroughtIn(P, m.imports) = {}
  /\ \A pr \in Procs(P) : pr.name \notin BroughtIn(P, pr.imports)

\* generic interfaces: distinct names, name procedures of their own module, and are referenced only through a
\* USE..ONLY inside the calling procedure (host-level or unqualified access to an interface is outside the fragment)
IfacesLegal(P) ==
  /\ \A m \in Mods(P) :
        /\ \A i, j \in DOMAIN IfacesOf(m) : IfacesOf(m)[i].name = IfacesOf(m)[j].name => i = j
        /\ \A i \in Range(IfacesOf(m)) :
              /\ i.procs # <<>>
              /\ \A p \in Range(i.procs) : \E q \in Procs(P) : q.mod = m.name /\ q.name = p
              /\ i.name \notin Range(m.vars) /\ i.name \notin ModNames(P)
              /\ \A q \in Procs(P) : q.name # i.name
        /\ \A im \in Range(m.imports) : im.mod \in ModNames(P) => Range(im.only) \cap IfaceNames(P, im.mod) = {}
  /\ \A pr \in Procs(P) : \A c \in Range(pr.calls) :
        LET allIf == UNION {IfaceNames(P, mn) : mn \in ModNames(P)}
        IN c \in allIf => \E im \in Range(pr.imports) : c \in Range(im.only) /\ im.mod \in ModNames(P) /\ c \in IfaceNames(P, im.mod) /\ im.mod # pr.mod

LegalProject(P) ==
  /\ \A m1, m2 \in Mods(P) : m1.name = m2.name => m1 = m2
  /\ \A p1, p2 \in Procs(P) : (p1.name = p2.name /\ p1.mod = p2.mod) => p1 = p2
  /\ \A pr \in Procs(P) : pr.mod = "" \/ pr.mod \in ModNames(P)
  /\ \A pr \in Procs(P) : pr.name \notin ModNames(P)
  /\ \A m \in Mods(P) : \A im \in Range(m.imports) : ImportLegal(P, im, m.name)
  /\ \A pr \in Procs(P) : \A im \in Range(pr.imports) : ImportLegal(P, im, pr.mod)
  /\ \A pr \in Procs(P) : \A c \in Range(pr.calls) : CallLegal(P, pr, c)
  /\ NoUseClash(P)
  /\ IfacesLegal(P)

\* the scheduler traverses topologically: item graph (apart from self recursion) and the induced file
\* graph must be acyclic (a documented limitation, not a property)
\* (also: no circular USE between modules, which no Fortran compiler accepts)
ImportsIn(P, m) == Range(m.imports) \cup UNION {Range(pr.imports) : pr \in {q \in Procs(P) : q.mod = m.name}}
ModUses(P) == UNION {{<<m.name, im.mod>> : im \in ImportsIn(P, m)} : m \in Mods(P)}
AcyclicProject(P) == Acyclic(RawEdges(P)) /\ Acyclic(FileEdges(P, RawEdges(P))) /\ Acyclic(ModUses(P))

\* (a seed that the global disable list matches is neither documented nor treated uniformly --
\*  module procedures vanish, free procedures stay -- and is therefore outside the modelled inputs)
LegalConfig(P, C) ==
  /\ \A i \in DOMAIN C.seeds : Cardinality(SeedCands(P, C.seeds[i])) = 1
  /\ \A i \in DOMAIN C.seeds : ~Hits(P, Range(C.disable), NamesOf(SeedItem(P, C.seeds[i]), TRUE), TRUE)
  /\ \A it \in AllItems(P) : Cardinality(RoutineEntries(C, it)) <= 1
=============================================================================
