---------------------------- MODULE Gen_Sanitise ----------------------------
(* C05 case generator (spec -> code): prints the source of every placement as JSON.          *)
EXTENDS Sanitise, Json
VARIABLE done
GInit == done = FALSE /\ \A p \in Placements :
            PrintT(<<"SRC", ToJson([t |-> p[1], place |-> p[2], pos |-> p[3], src |-> Source(p[1], p[2], p[3])])>>)
GNext == done' = TRUE /\ ~done
GSpec == GInit /\ [][GNext]_done
=============================================================================
