SPECIFICATION MCSpec
INVARIANT TypeOK
INVARIANT NoCycle
INVARIANT LookupInnermost
INVARIANT MembershipMatchesDeletion
INVARIANT SpellingIrrelevant
INVARIANT ReadsArePure
INVARIANT OnlyTargetScopeChanges
CONSTANT MaxDepth = 5
CHECK_DEADLOCK FALSE
