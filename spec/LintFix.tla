------------------------------ MODULE LintFix ------------------------------
(***************************************************************************)
(* C43  Lint auto-fix changes only what the fixed rules target.            *)
(*                                                                         *)
(* A file is a sequence of physical lines; a line is [raw, toks, mark,     *)
(* grp, head, name, bounds]: `raw` the bytes of the line, `toks` its       *)
(* lexical regions (tokens [k, t, f]: kind id/num/dot/sym/str/cmt, text,   *)
(* case-folded text), `mark` what the fixable rules target on it:          *)
(*   "code"    nothing but, possibly, old-style relational operators       *)
(*             (a `dot` token spelled .lt. .le. .gt. .ge. .eq. .ne. in any *)
(*             letter case; the same spelling inside a str or cmt token is  *)
(*             NOT a target),                                               *)
(*   "ubchk"   a line of an IF construct that is a dynamic UBOUND check of  *)
(*             the documented form (group `grp`, `head` = first line),      *)
(*   "ubdecl"  the declaration `name(:, ..)` of the checked assumed-shape   *)
(*             dummy; `bounds` are the extents the checks compare with.     *)
(* The fixed file must (ReLintClean) contain no violation of the fixable    *)
(* rules and (Unchanged) differ from the original only in the targets:      *)
(* non-target lines byte-identical and in order; a target line differs only *)
(* in the targeted tokens (.lt. -> <, `:` -> extent); ubchk groups are      *)
(* removed as a whole or kept as a whole.  A target that is left unfixed    *)
(* is a ReLintClean matter, not an Unchanged one.                           *)
(* (BehaviourPreserved is decided by FMachine / Trace_FMachine.)            *)
(***************************************************************************)
EXTENDS Naturals, Sequences, FiniteSets, TLC

OldOps == {".lt.", ".le.", ".gt.", ".ge.", ".eq.", ".ne."}
NewOp(f) == CASE f = ".lt." -> "<"  [] f = ".le." -> "<=" [] f = ".gt." -> ">"
              [] f = ".ge." -> ">=" [] f = ".eq." -> "==" [] f = ".ne." -> "/="
FixRules == {"Fortran90OperatorsRule", "DynamicUboundCheckRule"}

IsTarget(t) == t.k = "dot" /\ t.f \in OldOps
FixTok(t) == IF IsTarget(t) THEN [k |-> "sym", t |-> NewOp(t.f), f |-> NewOp(t.f)] ELSE t
RECURSIVE FixToks(_)
FixToks(ts) == IF ts = <<>> THEN <<>> ELSE <<FixTok(Head(ts))>> \o FixToks(Tail(ts))
HasTarget(ts) == \E i \in 1..Len(ts) : IsTarget(ts[i])

\* declaration tokens with the assumed-shape `:` of `name( : , : )` replaced by the extents
\* mode 0 looking for the name, 1 at its "(", 2 inside the dimension list, 3 done
RECURSIVE RD(_, _, _, _, _)
RD(ts, name, bounds, mode, k) ==
  IF ts = <<>> THEN <<>>
  ELSE LET t == Head(ts)
           r == Tail(ts)
       IN CASE mode = 0 /\ t.k = "id" /\ t.f = name /\ r # <<>> /\ Head(r).t = "(" -> <<t>> \o RD(r, name, bounds, 1, 1)
            [] mode = 1 -> <<t>> \o RD(r, name, bounds, 2, 1)
            [] mode = 2 /\ t.t = ":" /\ k <= Len(bounds) ->
                 <<[k |-> "id", t |-> bounds[k], f |-> bounds[k]]>> \o RD(r, name, bounds, 2, k + 1)
            [] mode = 2 /\ t.t = ")" -> <<t>> \o RD(r, name, bounds, 3, k)
            [] OTHER -> <<t>> \o RD(r, name, bounds, mode, k)
FixDecl(l) == RD(l.toks, l.name, l.bounds, 0, 1)

\* ------------------------------------------------------------------ comparison of one line
TokEq(a, b)  == a.k = b.k /\ a.t = b.t
TokEqF(a, b) == a.k = b.k /\ (IF a.k \in {"id", "dot", "num"} THEN a.f = b.f ELSE a.t = b.t)
SeqEq(x, y)  == Len(x) = Len(y) /\ \A i \in 1..Len(x) : TokEq(x[i], y[i])
SeqEqF(x, y) == Len(x) = Len(y) /\ \A i \in 1..Len(x) : TokEqF(x[i], y[i])

\* the token sequences a (possibly fixed) image of original line o may have
Images(o) == {o.toks, FixToks(o.toks)} \cup
             (IF o.mark = "ubdecl" THEN {FixDecl(o), FixToks(FixDecl(o))} ELSE {})
IsTargetLine(o) == o.mark = "ubdecl" \/ HasTarget(o.toks)

\* "ok" | "ws" (only blanks differ) | "case" (letter case of a non-target token differs) | "tok"
LineClass(o, g) ==
  IF ~IsTargetLine(o)
  THEN (IF o.raw = g.raw THEN "ok"
        ELSE IF SeqEq(o.toks, g.toks) THEN "ws"
        ELSE IF SeqEqF(o.toks, g.toks) THEN "case" ELSE "tok")
  ELSE (IF o.raw = g.raw \/ \E im \in Images(o) : SeqEq(im, g.toks) THEN "ok"
        ELSE IF \E im \in Images(o) : SeqEqF(im, g.toks) THEN "case" ELSE "tok")
Resembles(o, g) == \E im \in Images(o) : SeqEqF(im, g.toks)

\* ------------------------------------------------------------------ walk over both files
\* O original lines, G fixed lines; kept = ubchk groups found (still) present; acc = classes seen;
\* pos = first original line that is not "ok" (0 = none)
RECURSIVE Walk(_, _, _, _, _, _, _)
Walk(O, G, i, j, kept, acc, pos) ==
  IF i > Len(O)
  THEN (IF j > Len(G) THEN [cls |-> acc, pos |-> pos]
        ELSE IF \A q \in j..Len(G) : G[q].toks = <<>> THEN [cls |-> acc \cup {"eof"}, pos |-> IF pos = 0 THEN i ELSE pos]
        ELSE [cls |-> acc \cup {"lines"}, pos |-> IF pos = 0 THEN i ELSE pos])
  ELSE LET o == O[i] IN
       IF o.mark = "ubchk" /\ ~(IF o.head THEN j <= Len(G) /\ Resembles(o, G[j]) ELSE o.grp \in kept)
       THEN Walk(O, G, i + 1, j, kept, acc, pos)               \* the whole group was removed
       ELSE IF j > Len(G) THEN [cls |-> acc \cup {"lines"}, pos |-> IF pos = 0 THEN i ELSE pos]
       ELSE LET c == LineClass(o, G[j])
                p2 == IF pos = 0 /\ c # "ok" THEN i ELSE pos
                k2 == IF o.mark = "ubchk" THEN kept \cup {o.grp} ELSE kept
            IN IF c = "tok" THEN [cls |-> acc \cup {c}, pos |-> p2]
               ELSE Walk(O, G, i + 1, j + 1, k2, IF c = "ok" THEN acc ELSE acc \cup {c}, p2)

Unchanged(O, G) == Walk(O, G, 1, 1, {}, {}, 0)

ClassOrder == <<"ws", "case", "tok", "eof", "lines">>
RECURSIVE Join(_, _)
Join(cls, k) == IF k > Len(ClassOrder) THEN ""
                ELSE LET rest == Join(cls, k + 1) IN
                     IF ClassOrder[k] \in cls THEN (IF rest = "" THEN ClassOrder[k] ELSE ClassOrder[k] \o "+" \o rest) ELSE rest

\* ------------------------------------------------------------------ clauses
\* c = [orig, fixed, relint <<[rule, line]>>, raised, relint_raised]
FixApplies(c)  == c.raised = ""
ReLintRules(c) == {c.relint[i].rule : i \in 1..Len(c.relint)} \cap FixRules
ReLintClean(c) == c.relint_raised = "" /\ ReLintRules(c) = {}

\* ------------------------------------------------------------------ reference fixer (design level)
RECURSIVE IdealFix(_)
IdealFix(O) == IF O = <<>> THEN <<>>
               ELSE LET o == Head(O) IN
                    (IF o.mark = "ubchk" THEN <<>>
                     ELSE IF o.mark = "ubdecl" THEN <<FixToks(FixDecl(o))>>
                     ELSE <<FixToks(o.toks)>>) \o IdealFix(Tail(O))
=============================================================================
