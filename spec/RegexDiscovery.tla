--------------------------- MODULE RegexDiscovery ---------------------------
(***************************************************************************)
(* C19: what the incremental REGEX frontend must discover.                 *)
(*                                                                         *)
(* An abstract source file is a sequence of program units                  *)
(*   unit = [kind, name, imports, typedefs, interfaces, calls, children]   *)
(*   import    = [module, only, syms]      syms  = << <<local, remote>> >> *)
(*   typedef   = [name, binds, generics]   binds = << <<name, target>> >>  *)
(*                                         generic = [name, targets]       *)
(*   interface = [name, abstract, procs, bodies]                           *)
(*   call      = [name, inl]   (inl: written as inline IF; layout only)    *)
(* Names are case-folded.  How the file is laid out as text (continuation  *)
(* lines, `;`, comments/strings with keywords, labels, case) is not part   *)
(* of the abstract file: discovery must not depend on it.                  *)
(*                                                                         *)
(* parsed \subseteq Classes is the union of all parser classes requested   *)
(* so far (Sourcefile.from_source(frontend=REGEX, parser_classes=C0), then *)
(* make_complete(frontend=REGEX, parser_classes=Ci)).  The observable is   *)
(* Project(file, parsed): the projection of the file to what the requested *)
(* classes reveal -- the same items the full parser reports, restricted to *)
(* those classes.  Because it is a function of the union only, the result  *)
(* is independent of the order/combination of the requests.                *)
(***************************************************************************)
EXTENDS Naturals, Sequences, FiniteSets, TLC

Classes == {"ProgramUnit", "Interface", "Import", "TypeDef", "Declaration", "Call", "Pragma"}

Range(s) == {s[i] : i \in DOMAIN s}

CallNames(cs) == [i \in DOMAIN cs |-> cs[i].name]

(***************************************************************************)
(* The projection.  Program units (names, kinds, nesting) are revealed by  *)
(* ProgramUnitClass; everything else lives inside a unit and is revealed   *)
(* by its own class once the enclosing unit is.  Routines declared in an   *)
(* interface body are part of the interface.                               *)
(***************************************************************************)
RECURSIVE ProjUnit(_, _)
ProjUnit(u, P) ==
  [kind       |-> u.kind,
   name       |-> u.name,
   imports    |-> IF "Import" \in P THEN u.imports ELSE <<>>,
   typedefs   |-> IF "TypeDef" \in P THEN u.typedefs ELSE <<>>,
   interfaces |-> IF "Interface" \in P THEN u.interfaces ELSE <<>>,
   calls      |-> IF "Call" \in P THEN CallNames(u.calls) ELSE <<>>,
   children   |-> [i \in DOMAIN u.children |-> ProjUnit(u.children[i], P)]]

Project(f, P) == IF "ProgramUnit" \in P THEN [i \in DOMAIN f |-> ProjUnit(f[i], P)] ELSE <<>>

Full(f) == Project(f, Classes)     \* what the full parser reports

(***************************************************************************)
(* Well-formedness of abstract files (legal Fortran by construction of the *)
(* renderer): modules hold no calls, contain routines; routines contain    *)
(* internal routines that contain nothing; type-bound procedure targets    *)
(* and module procedures of interfaces exist in the module.                *)
(***************************************************************************)
ChildNames(u) == {u.children[i].name : i \in DOMAIN u.children}

Leaf(u) == u.kind \in {"subroutine", "function"} /\ u.children = <<>> /\ u.typedefs = <<>>

Routine(u) == /\ u.kind \in {"subroutine", "function"}
              /\ \A i \in DOMAIN u.children : Leaf(u.children[i])
              /\ \A i \in DOMAIN u.typedefs : u.typedefs[i].binds = <<>> /\ u.typedefs[i].generics = <<>>
              /\ \A i \in DOMAIN u.interfaces : u.interfaces[i].procs = <<>>

ModuleOK(u) ==
  /\ u.kind = "module" /\ u.calls = <<>>
  /\ \A i \in DOMAIN u.children : Routine(u.children[i])
  /\ \A i \in DOMAIN u.typedefs :
        LET t == u.typedefs[i] IN
        /\ \A j \in DOMAIN t.binds : \E k \in DOMAIN u.children :    \* bound procedures are module subroutines
               u.children[k].name = t.binds[j][2] /\ u.children[k].kind = "subroutine"
        /\ \A j \in DOMAIN t.generics :
              Range(t.generics[j].targets) \subseteq {t.binds[k][1] : k \in DOMAIN t.binds}
  /\ \A i \in DOMAIN u.interfaces : Range(u.interfaces[i].procs) \subseteq ChildNames(u)

\* calls of type-bound procedures are written obj%<binding>; obj is an object of a type of the
\* enclosing module that has this binding
IsMemberCall(c) == Len(c.name) > 4 /\ SubSeq(c.name, 1, 4) = "obj%"
BindNames(m) == UNION {{m.typedefs[i].binds[j][1] : j \in DOMAIN m.typedefs[i].binds}
                          \cup {m.typedefs[i].generics[j].name : j \in DOMAIN m.typedefs[i].generics}
                        : i \in DOMAIN m.typedefs}
RECURSIVE MemberCallsOK(_, _)
MemberCallsOK(u, binds) ==
  /\ \A i \in DOMAIN u.calls : IsMemberCall(u.calls[i]) => SubSeq(u.calls[i].name, 5, Len(u.calls[i].name)) \in binds
  /\ \A i \in DOMAIN u.children : MemberCallsOK(u.children[i], binds)

TopOK(u) == IF u.kind = "module" THEN ModuleOK(u) /\ MemberCallsOK(u, BindNames(u))
            ELSE Routine(u) /\ MemberCallsOK(u, {})

DistinctNames(s) == \A i, j \in DOMAIN s : i # j => s[i].name # s[j].name

ValidFile(f) == /\ Len(f) >= 1
                /\ \A i \in DOMAIN f : TopOK(f[i])
                /\ DistinctNames(f)
                /\ \A i \in DOMAIN f : DistinctNames(f[i].children)

(***************************************************************************)
(* Acceptance of one observation `obs` (recorded by walking Loki's IR)     *)
(* after the classes P have been requested.                                *)
(*   - classes in P: the observation equals the projection (exactly what   *)
(*     the full parser reports for these classes);                         *)
(*   - classes not in P: Loki may already reveal items (its recursion      *)
(*     parses some fragments with all classes) but whatever it reports     *)
(*     must exist in the file (nothing spurious).                          *)
(* The result is the set of names of the violated clauses.                 *)
(***************************************************************************)
FieldClause(tag, requested, o, e) ==
  IF requested
  THEN IF o = e THEN {}
       ELSE IF Range(o) \subseteq Range(e) /\ Range(o) # Range(e) THEN {tag \o ":missing"}
       ELSE IF Range(e) \subseteq Range(o) /\ Range(o) # Range(e) THEN {tag \o ":spurious"}
       ELSE IF Range(o) = Range(e) THEN {tag \o ":order-or-multiplicity"}
       ELSE {tag \o ":differs"}
  ELSE IF Range(o) \subseteq Range(e) THEN {} ELSE {tag \o ":spurious-unrequested"}

Heads(s) == [i \in DOMAIN s |-> <<s[i].kind, s[i].name>>]

RECURSIVE UnitClauses(_, _, _)
RECURSIVE UnitsClauses(_, _, _)

\* units (names, kinds, nesting) first; the contents are compared unit by unit when the structure agrees
UnitsClauses(os, us, P) ==
  LET hc == FieldClause("units", TRUE, Heads(os), Heads(us)) IN
  IF hc # {} THEN hc
  ELSE UNION {UnitClauses(os[i], us[i], P) : i \in DOMAIN us}

UnitClauses(o, u, P) ==
  FieldClause("imports", "Import" \in P, o.imports, u.imports)
  \cup FieldClause("typedefs", "TypeDef" \in P, o.typedefs, u.typedefs)
  \cup FieldClause("interfaces", "Interface" \in P, o.interfaces, u.interfaces)
  \cup FieldClause("calls", "Call" \in P, o.calls, CallNames(u.calls))
  \cup UnitsClauses(o.children, u.children, P)

\* the set of violated clauses ({} = accepted)
Clauses(obs, f, P) ==
  IF "ProgramUnit" \in P THEN UnitsClauses(obs, f, P)
  ELSE IF obs = <<>> THEN {}
  ELSE \* units revealed although not requested: must still be sound
       IF Heads(obs) = Heads(f) THEN UnitsClauses(obs, f, P) ELSE {"units:spurious-unrequested"}

Accept(obs, f, P) == Clauses(obs, f, P) = {}

(***************************************************************************)
(* Design-level model of the incremental frontend (for MC_RegexDiscovery). *)
(*   top   : "raw" while the file has not been split into units, else      *)
(*           "units"                                                       *)
(*   upc[i]: classes the i-th top-level unit was last parsed with          *)
(* MakeComplete(C) re-parses every unit from its text with the union of    *)
(* the classes it has seen and C; an unsplit file is split as soon as the  *)
(* union contains ProgramUnit.  UnionOnRaw = FALSE models a frontend that  *)
(* re-parses unsplit text with the *requested* classes only (negative      *)
(* control: the invariant must then fail).                                 *)
(***************************************************************************)
CONSTANT UnionOnRaw
VARIABLES file, parsed, top, upc
rdvars == <<file, parsed, top, upc>>

NoPC(f) == [i \in DOMAIN f |-> {}]

InitOver(Files) == /\ file \in Files /\ parsed = {} /\ top = "raw" /\ upc = NoPC(file)

MakeComplete(C) ==
  /\ parsed' = parsed \cup C
  /\ file' = file
  /\ IF top = "raw"
     THEN LET eff == IF UnionOnRaw THEN parsed \cup C ELSE C IN
          IF "ProgramUnit" \in eff
          THEN top' = "units" /\ upc' = [i \in DOMAIN file |-> eff]
          ELSE top' = "raw" /\ upc' = upc
     ELSE top' = top /\ upc' = [i \in DOMAIN file |-> upc[i] \cup C]

Discovered == IF top = "raw" THEN <<>> ELSE [i \in DOMAIN file |-> ProjUnit(file[i], upc[i])]

\* C19, second sentence: the discovery is a function of the union of the requests
DiscoveredIsProjection == Discovered = Project(file, parsed)
\* C19, first sentence: once everything is requested the result is the full parser's
CompleteIsFull == parsed = Classes => Discovered = Full(file)
\* the acceptance predicate used on recorded traces accepts the model's own behaviour
AcceptsModel == Accept(Discovered, file, parsed)

(***************************************************************************)
(* A finite universe of small abstract files (TLC-enumerated): used by the *)
(* model checker (all request histories for every file) and printed as     *)
(* JSON by Gen_RegexDiscovery for rendering + replay into the real code.   *)
(***************************************************************************)
U(k, n, im, td, itf, cs, ch) ==
  [kind |-> k, name |-> n, imports |-> im, typedefs |-> td, interfaces |-> itf, calls |-> cs, children |-> ch]
Imp(m, o, s) == [module |-> m, only |-> o, syms |-> s]
Call(n, i) == [name |-> n, inl |-> i]

ImportsU == { <<>>,
              << Imp("moda", FALSE, <<>>) >>,
              << Imp("moda", TRUE, << <<"sa", "sa">>, <<"sb", "sc">> >>) >>,
              << Imp("moda", FALSE, << <<"ra", "rb">> >>), Imp("modb", TRUE, << <<"sx", "sx">> >>) >>,
              \* a procedure imported under a local name (called as "lp" by CallsU's last element)
              << Imp("modp", TRUE, << <<"lp", "rp">> >>) >> }

CallsU == { <<>>,
            << Call("ca", FALSE) >>,
            << Call("ca", TRUE), Call("cb", FALSE) >>,
            << Call("cb", FALSE), Call("ca", FALSE), Call("cb", TRUE) >>,
            << Call("lp", FALSE), Call("ca", TRUE) >> }

PlainType == [name |-> "ta", binds |-> <<>>, generics |-> <<>>]
BoundType == [name |-> "tb", binds |-> << <<"pa", "pa">>, <<"pb", "pbimpl">> >>,
              generics |-> << [name |-> "ga", targets |-> <<"pa", "pb">>] >>]

BodyIface == [name |-> "", abstract |-> FALSE, procs |-> <<>>, bodies |-> <<"ext">>]
AbsIface  == [name |-> "", abstract |-> TRUE, procs |-> <<>>, bodies |-> <<"absf">>]
GenIface  == [name |-> "gen", abstract |-> FALSE, procs |-> <<"pa", "pbimpl">>, bodies |-> <<>>]

LeafU == { U(k, "inner", <<>>, <<>>, <<>>, cs, <<>>) :
             k \in {"subroutine", "function"}, cs \in {<<>>, << Call("deep", FALSE) >>} }

RoutinesU(n) ==
  { U(k, n, im, td, itf, cs, ch) :
      k \in {"subroutine", "function"}, im \in ImportsU, td \in {<<>>, <<PlainType>>},
      itf \in {<<>>, <<BodyIface>>}, cs \in CallsU, ch \in {<<>>} \cup {<<l>> : l \in LeafU} }

\* module procedures referenced by bindings / generic interfaces
ProcA(cs) == U("subroutine", "pa", <<>>, <<>>, <<>>, cs, <<>>)
ProcB(ch) == U("subroutine", "pbimpl", <<>>, <<>>, <<>>, << Call("obj%pa", FALSE) >>, ch)

ModulesU ==
  { U("module", "modm", im, td, itf, <<>>, ch) :
      im \in ImportsU, td \in {<<>>, <<PlainType>>, <<BoundType>>, <<PlainType, BoundType>>},
      itf \in {<<>>, <<GenIface>>, <<AbsIface, GenIface>>},
      ch \in {<<>>} \cup { <<ProcA(cs), ProcB(c2)>> : cs \in CallsU, c2 \in {<<>>} \cup {<<l>> : l \in LeafU} } }

SmallFiles ==
  LET single == {<<u>> : u \in RoutinesU("rout") \cup ModulesU}
      pairs  == {<<m, r>> : m \in {x \in ModulesU : x.imports = <<>> /\ Len(x.typedefs) = 2},
                            r \in {x \in RoutinesU("rout") : x.kind = "subroutine" /\ x.typedefs = <<>> /\ x.interfaces = <<>>
                                                          /\ x.children = <<>> /\ Len(x.imports) = 1}}
  IN {f \in single \cup pairs : ValidFile(f)}
=============================================================================
