------------------------- MODULE MC_RegexDiscovery -------------------------
(* Design-level exhaustive check of C19's model: for every file of the finite universe and   *)
(* every history of parser-class requests the discovery equals the projection to the union.  *)
(*   FlagSpec: single-flag requests, all 7! orders (depth 8)                                  *)
(*   MCSpec  : every request is any non-empty subset of the seven flags, MaxDepth requests    *)
EXTENDS RegexDiscovery
CONSTANTS MaxDepth, AllFiles
Requests == (SUBSET Classes) \ {{}}
MCFiles == IF AllFiles THEN SmallFiles ELSE {f \in SmallFiles : Len(f) = 2}
MCInit == InitOver(MCFiles)
MCNext == TLCGet("level") < MaxDepth /\ \E C \in Requests : MakeComplete(C)
MCSpec == MCInit /\ [][MCNext]_rdvars
FlagNext == \E c \in Classes : c \notin parsed /\ MakeComplete({c})
FlagSpec == MCInit /\ [][FlagNext]_rdvars
=============================================================================
