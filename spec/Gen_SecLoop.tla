----------------------------- MODULE Gen_SecLoop -----------------------------
(* Case generation for C30 from the exhaustive 1-d universe of MC_SecLoop: every descriptor is printed with    *)
(* the section statement it denotes and the spec's classification (NoCarried, equal strides).  The harness      *)
(* wraps each statement into a kernel, lets Loki resolve it and validates the observed result with             *)
(* Trace_FMachine.                                                                                             *)
EXTENDS MC_SecLoop, Json
ASSUME \A x \in Descr : PrintT(<<"CASE", ToJson([d |-> x, nocarried |-> NoCarried(x), samestride |-> (x.s1 = x.s2),
                                                  stmt |-> SectionStmt(x)])>>)
=============================================================================
