----------------------------- MODULE AttachDetach -----------------------------
(***************************************************************************)
(* C16: attaching and then detaching pragmas, pragma regions or dataflow   *)
(* information -- directly, through the context managers, nested, and when *)
(* the body raises -- leaves the IR as it was (same structure, same node   *)
(* identities, same generated code).                                       *)
(* (loki.ir.pragma_utils: attach_pragmas / detach_pragmas /                *)
(* pragmas_attached, attach_pragma_regions / detach_pragma_regions /       *)
(* pragma_regions_attached; loki.analyse: attach_/detach_dataflow_analysis,*)
(* dataflow_analysis_attached)                                             *)
(*                                                                         *)
(* Abstract IR: a sequence of nodes                                        *)
(*   [id, kind, kw, pre, post, body, dfa]                                  *)
(* kind in pragma / loop / call / decl / stmt / cond / region / field;     *)
(* kw: for pragmas "s:<marker>" (region start), "e:<marker>" (region end)  *)
(* or "p" (other pragma); pre / post: pragmas attached before / after the  *)
(* node (node.pragma / node.pragma_post, for a region its start / end      *)
(* pragma); body: child nodes; dfa: dataflow sets attached.                *)
(*                                                                         *)
(* The canonical form Flat(ir) releases every attached pragma, splices     *)
(* every region and clears the dataflow flags.  What the property demands: *)
(*   (1) at any moment  Flat(current) = original       (nothing is lost,   *)
(*       duplicated or reordered while something is attached)              *)
(*   (2) Balanced => current = original                (ids, shape)        *)
(* where Balanced means that every facet that was attached (by a direct    *)
(* call or by entering a context) has been detached again (by the matching *)
(* direct call, by leaving the context normally, or by an exception        *)
(* unwinding it).                                                          *)
(***************************************************************************)
EXTENDS Naturals, Sequences, FiniteSets, TLC

\* design mutants (all FALSE in the specification; the driver requires TLC to reject each of them)
CONSTANTS MutDetachForgetsPost,      \* detach_pragmas leaves pragma_post attached
          MutUnregDropsEnd,          \* detach_pragma_regions loses the region's end pragma
          MutDfaSkipsAttached        \* dataflow detach does not reach pragmas that are attached to a node

Last(s) == s[Len(s)]
Front(s) == SubSeq(s, 1, Len(s) - 1)
ToSet(s) == {s[i] : i \in DOMAIN s}

HasPost(kind) == kind \in {"loop"}            \* node classes with a pragma_post field (Loop, WhileLoop)

(***************************************************************************)
(* Canonical form                                                          *)
(***************************************************************************)
RECURSIVE FlatSeq(_)
FlatNode(n) ==
  IF n.kind = "region"
  THEN FlatSeq(n.pre) \o FlatSeq(n.body) \o FlatSeq(n.post)
  ELSE FlatSeq(n.pre) \o <<[n EXCEPT !.pre = <<>>, !.post = <<>>, !.body = FlatSeq(n.body), !.dfa = FALSE]>> \o FlatSeq(n.post)
FlatSeq(s) == IF s = <<>> THEN <<>> ELSE FlatNode(s[1]) \o FlatSeq(Tail(s))

(***************************************************************************)
(* Facets and operations                                                   *)
(* cm / direct operation x = [what, types, post]:                          *)
(*   what = "pragmas": node kinds `types`, with/without pragma_post        *)
(*   what = "regions" | "dfa"                                              *)
(***************************************************************************)
FacetsOf(x) ==
  CASE x.what = "pragmas" -> {<<"pre", k>> : k \in x.types} \cup (IF x.post THEN {<<"post", k>> : k \in x.types} ELSE {})
    [] x.what = "regions" -> {<<"regions", "">>}
    [] x.what = "dfa"     -> {<<"dfa", "">>}

\* ---- reference semantics of the operations on the abstract IR (as documented for PragmaAttacher etc.)
RECURSIVE AttSeq(_, _, _, _, _)
AttSeq(rest, T, post, pend, acc) ==
  IF rest = <<>>
  THEN IF post /\ pend # <<>> /\ acc # <<>> /\ Last(acc).kind \in T /\ HasPost(Last(acc).kind)
       THEN Append(Front(acc), [Last(acc) EXCEPT !.post = @ \o pend])
       ELSE acc \o pend
  ELSE LET i == rest[1] IN
       IF i.kind = "pragma" THEN AttSeq(Tail(rest), T, post, Append(pend, i), acc)
       ELSE LET i1 == [i EXCEPT !.body = AttSeq(i.body, T, post, <<>>, <<>>)] IN
            IF pend = <<>> THEN AttSeq(Tail(rest), T, post, <<>>, Append(acc, i1))
            ELSE IF i1.kind \in T THEN AttSeq(Tail(rest), T, post, <<>>, Append(acc, [i1 EXCEPT !.pre = @ \o pend]))
            ELSE IF post /\ acc # <<>> /\ Last(acc).kind \in T /\ HasPost(Last(acc).kind)
                 THEN AttSeq(Tail(rest), T, post, <<>>, Append(Append(Front(acc), [Last(acc) EXCEPT !.post = @ \o pend]), i1))
            ELSE AttSeq(Tail(rest), T, post, <<>>, Append(acc \o pend, i1))

RECURSIVE DetSeq(_, _, _)
DetSeq(s, T, post) ==
  IF s = <<>> THEN <<>>
  ELSE LET i  == [s[1] EXCEPT !.body = DetSeq(@, T, post)]
           rp == i.kind \in T /\ i.kind # "region"
           ro == rp /\ post /\ ~MutDetachForgetsPost
       IN (IF rp THEN i.pre ELSE <<>>)
          \o <<[i EXCEPT !.pre = IF rp THEN <<>> ELSE @, !.post = IF ro THEN <<>> ELSE @]>>
          \o (IF ro THEN i.post ELSE <<>>)
          \o DetSeq(Tail(s), T, post)

IsStart(n) == n.kind = "pragma" /\ Len(n.kw) > 2 /\ SubSeq(n.kw, 1, 2) = "s:"
IsEnd(n)   == n.kind = "pragma" /\ Len(n.kw) > 2 /\ SubSeq(n.kw, 1, 2) = "e:"
Marker(n)  == SubSeq(n.kw, 3, Len(n.kw))
HasEndLater(s, m) == \E j \in DOMAIN s : IsEnd(s[j]) /\ Marker(s[j]) = m

\* regions are formed by properly nested start/end pairs of one sequence; fresh region nodes get ids from `nid`
\* stack = sequence of [start, saved]; returns [seq, nid]
RECURSIVE RegSeq(_, _, _, _)
RegSeq(rest, acc, stack, nid) ==
  IF rest = <<>>
  THEN IF stack = <<>> THEN [seq |-> acc, nid |-> nid]
       ELSE RegSeq(<<>>, Last(stack).saved \o <<Last(stack).start>> \o acc, Front(stack), nid)   \* start never closed
  ELSE LET i == rest[1] IN
       IF IsStart(i) /\ HasEndLater(Tail(rest), Marker(i))
       THEN RegSeq(Tail(rest), <<>>, Append(stack, [start |-> i, saved |-> acc]), nid)
       ELSE IF IsEnd(i) /\ stack # <<>> /\ Marker(Last(stack).start) = Marker(i)
       THEN RegSeq(Tail(rest),
                   Append(Last(stack).saved, [id |-> nid, kind |-> "region", kw |-> "", pre |-> <<Last(stack).start>>,
                                              post |-> <<i>>, body |-> acc, dfa |-> FALSE]),
                   Front(stack), nid + 1)
       ELSE LET sub == RegSeq(i.body, <<>>, <<>>, nid)
            IN  RegSeq(Tail(rest), Append(acc, [i EXCEPT !.body = sub.seq]), stack, sub.nid)

RECURSIVE UnregSeq(_)
UnregSeq(s) ==
  IF s = <<>> THEN <<>>
  ELSE LET i == s[1] IN
       (IF i.kind = "region" THEN i.pre \o UnregSeq(i.body) \o (IF MutUnregDropsEnd THEN <<>> ELSE i.post) ELSE <<[i EXCEPT !.body = UnregSeq(@)]>>)
       \o UnregSeq(Tail(s))

\* dataflow sets are attached to / removed from every node of the tree
RECURSIVE DfaSeq(_, _)
DfaSeq(s, flag) ==
  [j \in DOMAIN s |-> [s[j] EXCEPT !.dfa = flag, !.body = DfaSeq(@, flag),
                                    !.pre  = IF MutDfaSkipsAttached /\ ~flag THEN @ ELSE DfaSeq(@, flag),
                                    !.post = IF MutDfaSkipsAttached /\ ~flag THEN @ ELSE DfaSeq(@, flag)]]

RECURSIVE ClearAll(_)
ClearAll(s) == [j \in DOMAIN s |-> [s[j] EXCEPT !.dfa = FALSE, !.body = ClearAll(@), !.pre = ClearAll(@), !.post = ClearAll(@)]]

RECURSIVE MaxId(_)
MaxId(s) == IF s = <<>> THEN 0
            ELSE LET a == s[1].id  b == MaxId(s[1].body)  c == MaxId(Tail(s)) d == MaxId(s[1].pre) e == MaxId(s[1].post)
                     m1 == IF a > b THEN a ELSE b  m2 == IF c > d THEN c ELSE d  m3 == IF m1 > m2 THEN m1 ELSE m2
                 IN IF m3 > e THEN m3 ELSE e

DoAttach(ir, x) ==
  CASE x.what = "pragmas" -> AttSeq(ir, x.types, x.post, <<>>, <<>>)
    [] x.what = "regions" -> RegSeq(ir, <<>>, <<>>, MaxId(ir) + 1000).seq
    [] x.what = "dfa"     -> DfaSeq(ir, TRUE)
DoDetach(ir, x) ==
  CASE x.what = "pragmas" -> DetSeq(ir, x.types, x.post)
    [] x.what = "regions" -> UnregSeq(ir)
    [] x.what = "dfa"     -> DfaSeq(ir, FALSE)

(***************************************************************************)
(* State machine: direct calls and (nested) context managers               *)
(***************************************************************************)
PragmaOps == [what : {"pragmas"}, types : {{"loop"}, {"call"}, {"loop", "call", "decl"}}, post : BOOLEAN]
OtherOps  == {[what |-> "regions", types |-> {}, post |-> FALSE], [what |-> "dfa", types |-> {}, post |-> FALSE]}
Ops == PragmaOps \cup OtherOps

VARIABLES init, cur, stack, att
vars == <<init, cur, stack, att>>

CONSTANTS MaxDepth, MaxStack, InitTrees

Attach(x)  == cur' = DoAttach(cur, x) /\ att' = att \cup FacetsOf(x) /\ UNCHANGED <<init, stack>>
Detach(x)  == cur' = DoDetach(cur, x) /\ att' = att \ FacetsOf(x) /\ UNCHANGED <<init, stack>>
Enter(x)   == Len(stack) < MaxStack /\ cur' = DoAttach(cur, x) /\ att' = att \cup FacetsOf(x) /\ stack' = Append(stack, x) /\ UNCHANGED init
\* leaving the innermost context (normally or because the body raised): its `finally` detaches
Exit       == stack # <<>> /\ cur' = DoDetach(cur, Last(stack)) /\ att' = att \ FacetsOf(Last(stack)) /\ stack' = Front(stack) /\ UNCHANGED init
\* an exception raised in the body and caught outside the n innermost contexts unwinds them in order
RECURSIVE Unwind(_, _, _)
Unwind(ir, stk, n) == IF n = 0 THEN ir ELSE Unwind(DoDetach(ir, Last(stk)), Front(stk), n - 1)
RECURSIVE UnwindAtt(_, _, _)
UnwindAtt(a, stk, n) == IF n = 0 THEN a ELSE UnwindAtt(a \ FacetsOf(Last(stk)), Front(stk), n - 1)
Raise(n)   == n \in 1..Len(stack) /\ cur' = Unwind(cur, stack, n) /\ att' = UnwindAtt(att, stack, n)
              /\ stack' = SubSeq(stack, 1, Len(stack) - n) /\ UNCHANGED init

Init == init \in InitTrees /\ cur = init /\ stack = <<>> /\ att = {}
Next == /\ TLCGet("level") < MaxDepth
        /\ \/ \E x \in Ops : Attach(x) \/ Detach(x) \/ Enter(x)
           \/ Exit
           \/ \E n \in 2..MaxStack : Raise(n)
Spec == Init /\ [][Next]_vars

(***************************************************************************)
(* Properties                                                              *)
(***************************************************************************)
Balanced == att = {}
NothingLost       == FlatSeq(cur) = init
\* C16 speaks about structure, node identities and generated code: the dataflow flags are not part of it
BalancedRestores  == Balanced => ClearAll(cur) = init
\* stronger than C16 (documented for the dataflow context manager: "when leaving the context the information is
\* removed from IR nodes"): holds for the reference semantics; reported as information by the trace validation
DataflowFullyDetached == Balanced => cur = ClearAll(cur)
InitIsFlat        == FlatSeq(init) = init
=============================================================================
