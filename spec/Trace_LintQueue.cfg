SPECIFICATION TraceSpec
INVARIANT ReplayedStatesSatisfyInvariants
CHECK_DEADLOCK FALSE
