SPECIFICATION TraceSpec
CONSTANT MutShareBody = FALSE
CONSTANT MutShareSpec = FALSE
CONSTANT MutShareTab = FALSE
CONSTANT MutShareMembers = FALSE
CONSTANT MutNoRescope = FALSE
CONSTANT MutStaleProcs = FALSE
CONSTANT MutRegisterInParent = FALSE
CONSTANT MutShareNest = FALSE
CONSTANT MaxDepth = 99
CHECK_DEADLOCK FALSE
