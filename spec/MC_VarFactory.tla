---- MODULE MC_VarFactory ----
(* Design-level exhaustive check of VarFactory: every history of length <= MaxDepth over a small    *)
(* type universe; every step is checked against the step properties (StepOK) and every state       *)
(* against the invariants.  The depth bound is part of Next (not a CONSTRAINT).                    *)
EXTENDS VarFactory
CONSTANTS MaxDepth, MaxSyms
MCTypes == {"int", "real[]", "proc", "deferred"}
MCNames == {"x", "y"}
Do(e) == /\ Assert(StepOK(st, e), <<"step property violated", e>>)
         /\ st' = Apply(st, e)
Bounded == TLCGet("level") < MaxDepth
Enabled(op) == {e \in Events(st, MCTypes, MCNames, MaxSyms) : e.op = op}
DoCreate  == Bounded /\ \E e \in Enabled("create")  : Do(e)
DoSetType == Bounded /\ \E e \in Enabled("settype") : Do(e)
DoClone   == Bounded /\ \E e \in Enabled("clone")   : Do(e)
DoRescope == Bounded /\ \E e \in Enabled("rescope") : Do(e)
DoDetach  == Bounded /\ \E e \in Enabled("detach")  : Do(e)
MCNext == DoCreate \/ DoSetType \/ DoClone \/ DoRescope \/ DoDetach
MCSpec == Init /\ [][MCNext]_vars
ClassifyOK == ClassifyTotal
====
