------------------------------ MODULE FMachine ------------------------------
(***************************************************************************)
(* MiniFortran reference machine: an executable big-step semantics of the  *)
(* Fortran subset that the behaviour-preservation properties (C01, C26-C39)*)
(* generate programs from.  Programs arrive as JSON (see harness/lib_fm.py *)
(* for the grammar); values and scalar operators come from FExpr.          *)
(*                                                                         *)
(* Program   P = [units |-> <<unit>>]                                      *)
(* unit      = [name, kind ("subroutine"|"function"), args <<names>>,      *)
(*              decls <<decl>>, body <<stmt>>, result, host]               *)
(* decl      = [name, type ("int"|"real"|"log"), intent, dims <<<<lb,ub>>>>,*)
(*              init (expr or [k |-> "none"])]   dims = <<>> for scalars   *)
(*   optional decl fields (C34/C39, harness/lib_fm_signature.py):          *)
(*     xdims <<<<lo, hi>>>>  bounds as expressions evaluated on entry; lo   *)
(*        none = 1, hi [k |-> "assumed"] = assumed shape (see HasX, XBind)  *)
(*     rec, field  component r%f of the record variable rec (type "rec"    *)
(*        placeholder decl), see CallUnit.BoundComp                        *)
(* stmt      = [s |-> "assign", lhs, rhs] | [s |-> "if", conds, bodies, els]*)
(*           | [s |-> "do", var, lo, hi, st, body] | [s |-> "while", cond, body]*)
(*           | [s |-> "select", e, cases <<[lo, hi, body]>>, default]       *)
(*           | [s |-> "call", name, args] | [s |-> "print", items]          *)
(*           | [s |-> "exit"] | [s |-> "cycle"] | [s |-> "return"]          *)
(*           | [s |-> "assoc", names, targets, body] | [s |-> "where", conds, bodies, els] *)
(* Machine state S = [env, out, st, why]:  env name -> value, out the       *)
(* sequence of printed scalar values, st in ok/exit/cycle/return/err.       *)
(* Arrays: [t |-> "arr", lb, ub (sequences), data (index tuple -> scalar)].  *)
(***************************************************************************)
EXTENDS FExpr, SequencesExt

TripCount3(lo, hi, st) == Max2(TDiv(hi - lo + st, st), 0)   \* Fortran DO trip count
None == [k |-> "none"]
IsNone(x) == x.k = "none"
Undef == [t |-> "undef"]

(* ---------------------------------------------------------------- arrays *)
RECURSIVE IdxSet(_, _, _)
\* all index tuples of a box lb..ub (as sequences), dimension by dimension
IdxSet(lb, ub, d) == IF d > Len(lb) THEN {<<>>}
                     ELSE {<<i>> \o r : i \in lb[d]..ub[d], r \in IdxSet(lb, ub, d + 1)}
MkArr(lb, ub, v) == [t |-> "arr", lb |-> lb, ub |-> ub, data |-> TLCEval([ix \in IdxSet(lb, ub, 1) |-> v])]
InBounds(a, ix) == Len(ix) = Len(a.lb) /\ \A d \in 1..Len(ix) : ix[d] >= a.lb[d] /\ ix[d] <= a.ub[d]
\* column-major enumeration of the elements (Fortran array element order)
RECURSIVE ColMajor(_, _, _)
ColMajor(lb, ub, d) == IF d = 0 THEN <<<<>>>>
                       ELSE LET inner == ColMajor(lb, ub, d - 1)
                                n == ub[d] - lb[d] + 1
                            IN  [k \in 1..(Len(inner) * n) |->
                                   inner[((k - 1) % Len(inner)) + 1] \o <<lb[d] + ((k - 1) \div Len(inner))>>]
Elements(a) == LET order == ColMajor(a.lb, a.ub, Len(a.lb)) IN TLCEval([k \in 1..Len(order) |-> a.data[order[k]]])

(* ------------------------------------------------------------ declarations *)
Unit(P, name) == LET S == {i \in 1..Len(P.units) : P.units[i].name = name} IN P.units[CHOOSE i \in S : TRUE]
HasUnit(P, name) == \E i \in 1..Len(P.units) : P.units[i].name = name
Decl(u, name) == LET S == {i \in 1..Len(u.decls) : u.decls[i].name = name} IN u.decls[CHOOSE i \in S : TRUE]
DeclNames(u) == {u.decls[i].name : i \in 1..Len(u.decls)}

\* convert a scalar to the declared type on assignment (int <- real truncates, real <- int widens)
Conv(ty, v) == IF IsErr(v) THEN v
               ELSE IF v.t = "undef" THEN Err("undef")
               ELSE IF ty = "int" THEN (IF v.t = "log" THEN Err("type") ELSE TruncQ(v))
               ELSE IF ty = "real" THEN (IF v.t = "log" THEN Err("type") ELSE ToReal(v))
               ELSE (IF v.t = "log" THEN v ELSE Err("type"))

\* Associate names bound to a variable, an array element or a rank-1 array section are aliases:
\* [t |-> "alias", base |-> name, ix |-> <<>> (the whole entity) or an index tuple (one element), sec]
\* For a section base(.., lo:hi:st, ..) (exactly one range subscript) sec = [d (the range dimension), lo, st,
\* n (extent)], ix holds the scalar subscripts (ix[d] = lo) and the name is a rank-1 array with bounds 1..n:
\* name(e) is base(.., lo + (e-1)*st, ..).  sec.d = 0 for the other aliases.
NoSec == [d |-> 0, lo |-> 0, st |-> 0, n |-> 0]
\* (alias records built elsewhere without a sec field - FMachineLog - count as sec.d = 0)
HasSec(al) == "sec" \in DOMAIN al /\ al.sec.d # 0
IsSecAlias(env, name) == env[name].t = "alias" /\ HasSec(env[name])
Deref(env, name) == LET v == env[name] IN
                    IF v.t # "alias" THEN v
                    ELSE IF v.ix = <<>> THEN env[v.base] ELSE env[v.base].data[v.ix]
IntLit(v) == [k |-> "int", v |-> v]
\* a reference z, z(e) or z(a:b:c) to a section alias, rewritten to a reference to the base array
SecAliasRef(al, ref) ==
  LET sc == al.sec
      at(e) == [k |-> "sum", c |-> <<IntLit(sc.lo), [k |-> "prod", c |-> <<[k |-> "par", c |-> <<[k |-> "sum", c |-> <<e, IntLit(-1)>>]>>], IntLit(sc.st)>>]>>]
      sub == IF ref.k = "var"
             THEN [k |-> "range", lo |-> IntLit(sc.lo), hi |-> IntLit(sc.lo + (sc.n - 1) * sc.st), st |-> IntLit(sc.st)]
             ELSE LET s == ref.c[1] IN
                  IF s.k = "range"
                  THEN [k |-> "range", lo |-> at(IF IsNone(s.lo) THEN IntLit(1) ELSE s.lo),
                                       hi |-> at(IF IsNone(s.hi) THEN IntLit(sc.n) ELSE s.hi),
                                       st |-> IF IsNone(s.st) THEN IntLit(sc.st) ELSE [k |-> "prod", c |-> <<s.st, IntLit(sc.st)>>]]
                  ELSE at(s)
  IN [k |-> "arr", name |-> al.base, c |-> [j \in 1..Len(al.ix) |-> IF j = sc.d THEN sub ELSE IntLit(al.ix[j])]]
\* a reference through an alias, rewritten to a reference to the aliased entity
RealRef(env, ref) ==
  IF ref.k \notin {"var", "arr"} THEN ref
  ELSE IF ref.name \notin DOMAIN env \/ env[ref.name].t # "alias" THEN ref
  ELSE LET al == env[ref.name] IN
       IF HasSec(al) THEN SecAliasRef(al, ref)
       ELSE IF al.ix = <<>> THEN [ref EXCEPT !.name = al.base]
       ELSE [k |-> "arr", name |-> al.base, c |-> [d \in 1..Len(al.ix) |-> IntLit(al.ix[d])]]

(* ------------------------------------------------------------ expressions *)
\* pos: positions inside the current array-section context (<<>> in scalar context); the j-th
\* range subscript of a reference selects element lo + (pos[j]-1)*stride
RECURSIVE EvalE(_, _, _, _), EvalArgs(_, _, _, _), SubIdx(_, _, _, _, _, _, _), ExecBody(_, _, _, _), CallUnit(_, _, _, _)

RangeLo(a, d, s) == IF IsNone(s.lo) THEN [t |-> "int", v |-> a.lb[d]] ELSE s.lo
\* index tuple denoted by a subscript list under pos; result [ok, ix] (ok = FALSE on error)
SubIdx(P, a, subs, env, pos, d, j) ==
  IF d > Len(subs) THEN [ok |-> TRUE, ix |-> <<>>]
  ELSE LET s == subs[d] IN
       IF s.k = "range"
       THEN LET lo == IF IsNone(s.lo) THEN I(a.lb[d]) ELSE EvalE(P, s.lo, env, <<>>)
                st == IF IsNone(s.st) THEN I(1) ELSE EvalE(P, s.st, env, <<>>)
                rest == SubIdx(P, a, subs, env, pos, d + 1, j + 1)
            IN IF lo.t # "int" \/ st.t # "int" \/ ~rest.ok \/ j > Len(pos) THEN [ok |-> FALSE, ix |-> <<>>]
               ELSE [ok |-> TRUE, ix |-> <<lo.v + (pos[j] - 1) * st.v>> \o rest.ix]
       ELSE LET v == EvalE(P, s, env, pos)
                rest == SubIdx(P, a, subs, env, pos, d + 1, j)
            IN IF v.t # "int" \/ ~rest.ok THEN [ok |-> FALSE, ix |-> <<>>]
               ELSE [ok |-> TRUE, ix |-> <<v.v>> \o rest.ix]

EvalArgs(P, cs, env, pos) == TLCEval([i \in 1..Len(cs) |-> EvalE(P, cs[i], env, pos)])

\* whole-array reductions and inquiries on a named array
ArrIntrinsic(f, a, args) ==
  LET els == Elements(a)
      n == Len(els)
  IN CASE f = "size" -> (IF Len(args) = 1 THEN I(n)
                         ELSE IF args[2].t = "int" /\ args[2].v \in 1..Len(a.lb) THEN I(a.ub[args[2].v] - a.lb[args[2].v] + 1) ELSE Err("type"))
       [] f = "lbound" /\ Len(args) = 2 /\ args[2].t = "int" -> I(a.lb[args[2].v])
       [] f = "ubound" /\ Len(args) = 2 /\ args[2].t = "int" -> I(a.ub[args[2].v])
       [] f = "sum" -> (IF \E k \in 1..n : els[k].t = "undef" THEN Err("undef")
                        ELSE IF n = 0 THEN I(0) ELSE FoldAdd(els, n))
       [] f \in {"maxval", "minval"} -> (IF n = 0 \/ \E k \in 1..n : els[k].t = "undef" THEN Err("undef")
                        ELSE Intrinsic(IF f = "maxval" THEN "max" ELSE "min", IF n = 1 THEN <<els[1], els[1]>> ELSE els))
       [] OTHER -> Err("unsupported")
ArrIntrinsics == {"size", "lbound", "ubound", "sum", "maxval", "minval"}

EvalE(P, e, env, pos) ==
  CASE e.k = "int"  -> I(e.v)
    [] e.k = "real" -> Q(e.n, e.d)
    [] e.k = "log"  -> L(e.v)
    [] e.k = "var"  -> IF e.name \notin DOMAIN env THEN Err("undeclared")
                       ELSE IF IsSecAlias(env, e.name) THEN EvalE(P, RealRef(env, e), env, pos)
                       ELSE LET v == Deref(env, e.name) IN
                            IF v.t = "undef" THEN Err("undef")
                            ELSE IF v.t = "arr" THEN
                                 \* whole array in an elemental context: element at pos (lower bound based)
                                 (IF Len(pos) # Len(v.lb) THEN Err("shape")
                                  ELSE LET ix == [d \in 1..Len(pos) |-> v.lb[d] + pos[d] - 1] IN
                                       IF InBounds(v, ix) THEN (IF v.data[ix].t = "undef" THEN Err("undef") ELSE v.data[ix]) ELSE Err("bounds"))
                            ELSE v
    [] e.k = "arr"  -> IF e.name \in DOMAIN env /\ IsSecAlias(env, e.name) THEN EvalE(P, RealRef(env, e), env, pos)
                       ELSE IF e.name \notin DOMAIN env \/ Deref(env, e.name).t # "arr" THEN Err("undeclared")
                       ELSE LET a == Deref(env, e.name)
                                r == SubIdx(P, a, e.c, env, pos, 1, 1)
                            IN IF ~r.ok THEN Err("subscript")
                               ELSE IF ~InBounds(a, r.ix) THEN Err("bounds")
                               ELSE IF a.data[r.ix].t = "undef" THEN Err("undef") ELSE a.data[r.ix]
    [] e.k = "sum"  -> FoldAdd(EvalArgs(P, e.c, env, pos), Len(e.c))
    [] e.k = "prod" -> FoldMul(EvalArgs(P, e.c, env, pos), Len(e.c))
    [] e.k = "quot" -> DivV(EvalE(P, e.c[1], env, pos), EvalE(P, e.c[2], env, pos))
    [] e.k = "pow"  -> PowV(EvalE(P, e.c[1], env, pos), EvalE(P, e.c[2], env, pos))
    [] e.k = "neg"  -> NegV(EvalE(P, e.c[1], env, pos))
    [] e.k \in {"pos", "par"} -> EvalE(P, e.c[1], env, pos)
    [] e.k = "not"  -> NotV(EvalE(P, e.c[1], env, pos))
    [] e.k = "cmp"  -> CmpV(e.op, EvalE(P, e.c[1], env, pos), EvalE(P, e.c[2], env, pos))
    [] e.k = "and"  -> FoldAnd(EvalArgs(P, e.c, env, pos), Len(e.c))
    [] e.k = "or"   -> FoldOr(EvalArgs(P, e.c, env, pos), Len(e.c))
    [] e.k = "call" ->
         \* PRESENT(dummy): an omitted optional actual (k = "none") binds the dummy to [t |-> "absent"]
         IF e.f = "present" THEN (IF Len(e.c) = 1 /\ e.c[1].k = "var" /\ e.c[1].name \in DOMAIN env
                                  THEN L(env[e.c[1].name].t # "absent") ELSE Err("present"))
         ELSE IF e.f \in ArrIntrinsics /\ Len(e.c) >= 1 /\ e.c[1].k = "var" /\ e.c[1].name \in DOMAIN env /\ env[e.c[1].name].t = "arr"
         THEN ArrIntrinsic(e.f, env[e.c[1].name], [i \in 1..Len(e.c) |-> IF i = 1 THEN I(0) ELSE EvalE(P, e.c[i], env, pos)])
         ELSE IF e.f \in IntrinsicNames THEN Intrinsic(e.f, EvalArgs(P, e.c, env, pos))
         ELSE IF HasUnit(P, e.f) /\ Unit(P, e.f).kind = "function"
         THEN LET r == CallUnit(P, Unit(P, e.f), e.c, [env |-> env, out |-> <<>>, st |-> "ok", why |-> ""])
              IN IF r.st = "err" THEN Err(r.why) ELSE r.ret
         ELSE Err("unsupported")
    [] OTHER -> Err("unsupported")

(* -------------------------------------------------------------- statements *)
Fail(S, w) == [S EXCEPT !.st = "err", !.why = w]

\* shape (extents of the range subscripts) of an lvalue reference; <<>> for a scalar reference
RECURSIVE SecShape(_, _, _, _, _)
SecShape(P, a, subs, env, d) ==
  IF d > Len(subs) THEN <<>>
  ELSE LET s == subs[d]
           rest == SecShape(P, a, subs, env, d + 1)
       IN IF s.k = "range"
          THEN LET lo == IF IsNone(s.lo) THEN a.lb[d] ELSE EvalE(P, s.lo, env, <<>>).v
                   hi == IF IsNone(s.hi) THEN a.ub[d] ELSE EvalE(P, s.hi, env, <<>>).v
                   st == IF IsNone(s.st) THEN 1 ELSE EvalE(P, s.st, env, <<>>).v
               IN <<TripCount3(lo, hi, st)>> \o rest
          ELSE rest
PosSet(shape) == IdxSet([d \in 1..Len(shape) |-> 1], shape, 1)

\* store a scalar into a scalar variable or array element
StoreScalar(S, u, name, ix, v) ==
  LET cv == Conv(Decl(u, name).type, v) IN
  IF IsErr(cv) THEN Fail(S, cv.why)
  ELSE IF ix = <<>> /\ S.env[name].t # "arr" THEN [S EXCEPT !.env[name] = cv]
  ELSE IF S.env[name].t # "arr" \/ ~InBounds(S.env[name], ix) THEN Fail(S, "bounds")
  ELSE [S EXCEPT !.env[name].data[ix] = cv]

\* assignment: scalar, element, or array section / whole array (RHS evaluated for every element
\* from the OLD state before any element is stored).  mk = [on |-> FALSE] for an ordinary assignment;
\* inside WHERE mk = [on |-> TRUE, ps |-> the selected positions, shape]: only those positions are
\* evaluated and stored, the target must have the mask's shape.
AssignShape(P, S, lhs) ==
  LET tgt == S.env[lhs.name] IN
  IF lhs.k = "var" /\ tgt.t = "arr" THEN [d \in 1..Len(tgt.lb) |-> tgt.ub[d] - tgt.lb[d] + 1]
  ELSE IF lhs.k = "arr" /\ tgt.t = "arr" THEN SecShape(P, tgt, lhs.c, S.env, 1) ELSE <<>>
AssignM(P, u, S, lhs0, rhs, mk) ==
  IF lhs0.name \notin DOMAIN S.env THEN Fail(S, "undeclared")
  ELSE LET lhs == RealRef(S.env, lhs0)
           tgt == S.env[lhs.name]
           whole == lhs.k = "var" /\ tgt.t = "arr"
           subs == IF lhs.k = "arr" THEN lhs.c ELSE <<>>
           shape == AssignShape(P, S, lhs)
       IN
       IF mk.on /\ shape # mk.shape THEN Fail(S, "where-shape")
       ELSE IF shape = <<>>
       THEN LET v == EvalE(P, rhs, S.env, <<>>) IN
            IF IsErr(v) THEN Fail(S, v.why)
            ELSE IF lhs.k = "var" THEN StoreScalar(S, u, lhs.name, <<>>, v)
            ELSE LET r == SubIdx(P, tgt, subs, S.env, <<>>, 1, 1) IN
                 IF ~r.ok THEN Fail(S, "subscript") ELSE StoreScalar(S, u, lhs.name, r.ix, v)
       ELSE LET ps == IF mk.on THEN mk.ps ELSE PosSet(shape)
                vals == TLCEval([p \in ps |-> Conv(Decl(u, lhs.name).type, EvalE(P, rhs, S.env, p))])
                ixs == TLCEval([p \in ps |-> IF whole THEN [d \in 1..Len(p) |-> tgt.lb[d] + p[d] - 1]
                                     ELSE SubIdx(P, tgt, subs, S.env, p, 1, 1).ix])
            IN IF \E p \in ps : IsErr(vals[p]) THEN Fail(S, (vals[CHOOSE p \in ps : IsErr(vals[p])]).why)
               ELSE IF \E p \in ps : ~InBounds(tgt, ixs[p]) THEN Fail(S, "bounds")
               ELSE [S EXCEPT !.env[lhs.name].data =
                        TLCEval([ix \in DOMAIN tgt.data |->
                            IF \E p \in ps : ixs[p] = ix THEN vals[CHOOSE p \in ps : ixs[p] = ix] ELSE tgt.data[ix]])]
Assign(P, u, S, lhs0, rhs) == AssignM(P, u, S, lhs0, rhs, [on |-> FALSE])

\* WHERE (mask1) assignments [ELSEWHERE (mask2) assignments]... [ELSEWHERE assignments] END WHERE
\* [s |-> "where", conds <<mask1, ..>>, bodies <<<<assign..>>, ..>>, els <<assign..>>].  A mask is evaluated once,
\* element by element, when its clause is reached, for the elements no earlier clause has taken (later changes
\* of its operands do not matter); the assignments of a clause are executed in turn for the elements its mask
\* selects, those of the final ELSEWHERE for the elements no mask selected.
WhereStmt(P, u, s, S0) ==
  IF Len(s.conds) = 0 \/ Len(s.bodies[1]) = 0 \/ s.bodies[1][1].s # "assign" \/ s.bodies[1][1].lhs.name \notin DOMAIN S0.env
  THEN Fail(S0, "where-form")
  ELSE
  LET shape == AssignShape(P, S0, RealRef(S0.env, s.bodies[1][1].lhs))
      full == PosSet(shape)
      RECURSIVE Body(_, _, _, _), Arm(_, _, _)
      Body(ss, i, S, cm) ==
        IF i > Len(ss) \/ S.st # "ok" THEN S
        ELSE IF ss[i].s # "assign" THEN Fail(S, "where-form")
        ELSE Body(ss, i + 1, AssignM(P, u, S, ss[i].lhs, ss[i].rhs, [on |-> TRUE, shape |-> shape, ps |-> cm]), cm)
      Arm(i, S, pend) ==
        IF S.st # "ok" THEN S
        ELSE IF i > Len(s.conds) THEN Body(s.els, 1, S, pend)
        ELSE LET mv == TLCEval([p \in pend |-> EvalE(P, s.conds[i], S.env, p)]) IN
             IF \E p \in pend : IsErr(mv[p]) THEN Fail(S, (mv[CHOOSE p \in pend : IsErr(mv[p])]).why)
             ELSE IF \E p \in pend : mv[p].t # "log" THEN Fail(S, "type")
             ELSE LET cm == {p \in pend : mv[p].v} IN Arm(i + 1, Body(s.bodies[i], 1, S, cm), pend \ cm)
  IN IF shape = <<>> THEN Fail(S0, "where-form") ELSE Arm(1, S0, full)

\* values printed by one PRINT item: scalars, or all elements of a whole array in element order
PrintVals(P, e, env) ==
  IF e.k = "var" /\ e.name \in DOMAIN env /\ env[e.name].t = "arr"
  THEN Elements(env[e.name])
  ELSE <<EvalE(P, e, env, <<>>)>>

RECURSIVE ExecStmt(_, _, _, _), Associate(_, _, _, _), DoLoop(_, _, _, _, _, _, _), WhileLoop(_, _, _, _, _), IfChain(_, _, _, _, _), SelectCase(_, _, _, _, _, _), PrintItems(_, _, _, _)

PrintItems(P, items, S, i) ==
  IF i > Len(items) \/ S.st = "err" THEN S
  ELSE LET vs == PrintVals(P, items[i], S.env)
           bad == {k \in 1..Len(vs) : IsErr(vs[k]) \/ vs[k].t = "undef"}
       IN IF bad # {} THEN Fail(S, "print-undefined-or-error")
          ELSE PrintItems(P, items, [S EXCEPT !.out = @ \o [k \in 1..Len(vs) |-> Image(vs[k])]], i + 1)

\* a statement list: stops at the first statement that leaves a status other than "ok"
ExecBody(P, u, ss, S0) ==
  LET RECURSIVE Go(_, _)
      Go(i, S) == IF i > Len(ss) \/ S.st # "ok" THEN S ELSE Go(i + 1, ExecStmt(P, u, ss[i], S))
  IN Go(1, S0)

IfChain(P, u, s, S, i) ==
  IF i > Len(s.conds) THEN ExecBody(P, u, s.els, S)
  ELSE LET c == EvalE(P, s.conds[i], S.env, <<>>) IN
       IF IsErr(c) THEN Fail(S, c.why)
       ELSE IF c.t # "log" THEN Fail(S, "type")
       ELSE IF c.v THEN ExecBody(P, u, s.bodies[i], S) ELSE IfChain(P, u, s, S, i + 1)

\* DO loop: trip count fixed on entry; the DO variable keeps the value after the last increment
DoLoop(P, u, s, S, k, n, stv) ==
  IF k > n THEN S
  ELSE LET B == ExecBody(P, u, s.body, S) IN
       IF B.st = "exit" THEN [B EXCEPT !.st = "ok"]
       ELSE IF B.st \in {"err", "return"} THEN B
       ELSE LET C == [B EXCEPT !.st = "ok"]
                nv == AddV(C.env[s.var], I(stv))
            IN IF IsErr(nv) THEN Fail(C, nv.why)
               ELSE DoLoop(P, u, s, [C EXCEPT !.env[s.var] = nv], k + 1, n, stv)

WhileLoop(P, u, s, S, fuel) ==
  IF fuel = 0 THEN Fail(S, "nontermination-bound")
  ELSE LET c == EvalE(P, s.cond, S.env, <<>>) IN
       IF IsErr(c) THEN Fail(S, c.why)
       ELSE IF c.t # "log" THEN Fail(S, "type")
       ELSE IF ~c.v THEN S
       ELSE LET B == ExecBody(P, u, s.body, S) IN
            IF B.st = "exit" THEN [B EXCEPT !.st = "ok"]
            ELSE IF B.st \in {"err", "return"} THEN B
            ELSE WhileLoop(P, u, s, [B EXCEPT !.st = "ok"], fuel - 1)

SelectCase(P, u, s, S, v, i) ==
  IF i > Len(s.cases) THEN ExecBody(P, u, s.default, S)
  ELSE IF v >= s.cases[i].lo /\ v <= s.cases[i].hi THEN ExecBody(P, u, s.cases[i].body, S)
  ELSE SelectCase(P, u, s, S, v, i + 1)

ExecStmt(P, u, s, S) ==
  CASE s.s = "assign" -> Assign(P, u, S, s.lhs, s.rhs)
    [] s.s = "if"     -> IfChain(P, u, s, S, 1)
    [] s.s = "do"     ->
         LET lo == EvalE(P, s.lo, S.env, <<>>)
             hi == EvalE(P, s.hi, S.env, <<>>)
             st == IF IsNone(s.st) THEN I(1) ELSE EvalE(P, s.st, S.env, <<>>)
         IN IF IsErr(lo) \/ IsErr(hi) \/ IsErr(st) THEN Fail(S, "do-bounds")
            ELSE IF lo.t # "int" \/ hi.t # "int" \/ st.t # "int" \/ st.v = 0 THEN Fail(S, "do-bounds")
            ELSE DoLoop(P, u, s, [S EXCEPT !.env[s.var] = lo], 1, TripCount3(lo.v, hi.v, st.v), st.v)
    [] s.s = "while"  -> WhileLoop(P, u, s, S, 40)
    [] s.s = "select" -> LET v == EvalE(P, s.e, S.env, <<>>) IN
                         IF IsErr(v) THEN Fail(S, v.why) ELSE IF v.t # "int" THEN Fail(S, "type")
                         ELSE SelectCase(P, u, s, S, v.v, 1)
    [] s.s = "call"   -> IF ~HasUnit(P, s.name) THEN Fail(S, "unknown-procedure")
                         ELSE LET r == CallUnit(P, Unit(P, s.name), s.args, S) IN
                              IF r.st = "err" THEN Fail(S, r.why) ELSE [S EXCEPT !.env = r.env, !.out = r.out]
    [] s.s = "print"  -> PrintItems(P, s.items, S, 1)
    \* PRINT of one character literal: the observable is the exact text; the harness encodes a text as
    \* (code, length) with one fixed function applied both to the literal in the program and to the line
    \* the executed code printed
    [] s.s = "prints" -> [S EXCEPT !.out = Append(@, <<"str", s.code, s.len>>)]
    [] s.s = "exit"   -> [S EXCEPT !.st = "exit"]
    [] s.s = "cycle"  -> [S EXCEPT !.st = "cycle"]
    [] s.s = "return" -> [S EXCEPT !.st = "return"]
    [] s.s \in {"nop", "raw"} -> S      \* "raw": text-only lines without run-time meaning (pragmas, comments)
    [] s.s = "assoc"  -> Associate(P, u, s, S)
    [] s.s = "where"  -> WhereStmt(P, u, s, S)
    [] OTHER -> Fail(S, "unsupported-statement")

\* ASSOCIATE (names => selectors).  A selector that is a variable, an array element or a rank-1 array
\* section is associated with that entity: the name is bound on entry (subscripts and section bounds are
\* evaluated once, on entry) and what the block stores into the name is stored into the entity.  Any other
\* selector is an expression evaluated on entry.  A name may shadow an associate name of an enclosing block
\* (restored on exit); shadowing of any other entity is not modelled.
Associate(P, u, s, S) ==
  LET n == Len(s.names)
      tref(i) == RealRef(S.env, s.targets[i])          \* selector, seen through enclosing associations
      isvar(i) == s.targets[i].k = "var" /\ s.targets[i].name \in DOMAIN S.env /\ tref(i).k = "var"
      isarrref(i) == tref(i).k = "arr" /\ tref(i).name \in DOMAIN S.env /\ S.env[tref(i).name].t = "arr"
      rngs(i) == {d \in 1..Len(tref(i).c) : tref(i).c[d].k = "range"}
      iselem(i) == isarrref(i) /\ rngs(i) = {}
      issec(i) == isarrref(i) /\ Cardinality(rngs(i)) = 1
      elemix(i) == SubIdx(P, S.env[tref(i).name], tref(i).c, S.env, <<>>, 1, 1)
      secval(i) ==
        LET a == S.env[tref(i).name]
            d == CHOOSE x \in rngs(i) : TRUE
            r == tref(i).c[d]
            lo == IF IsNone(r.lo) THEN I(a.lb[d]) ELSE EvalE(P, r.lo, S.env, <<>>)
            hi == IF IsNone(r.hi) THEN I(a.ub[d]) ELSE EvalE(P, r.hi, S.env, <<>>)
            st == IF IsNone(r.st) THEN I(1) ELSE EvalE(P, r.st, S.env, <<>>)
            subs == TLCEval([j \in 1..Len(tref(i).c) |-> IF j = d THEN lo ELSE EvalE(P, tref(i).c[j], S.env, <<>>)])
        IN IF Len(subs) # Len(a.lb) \/ (\E j \in 1..Len(subs) : subs[j].t # "int") \/ hi.t # "int" \/ st.t # "int" THEN Err("subscript")
           ELSE IF st.v = 0 THEN Err("subscript")
           ELSE LET cnt == TripCount3(lo.v, hi.v, st.v)
                    ixs == [j \in 1..Len(subs) |-> subs[j].v]
                IN IF cnt > 0 /\ (~InBounds(a, ixs) \/ ~InBounds(a, [ixs EXCEPT ![d] = lo.v + (cnt - 1) * st.v])) THEN Err("bounds")
                   ELSE [t |-> "alias", base |-> tref(i).name, ix |-> ixs, sec |-> [d |-> d, lo |-> lo.v, st |-> st.v, n |-> cnt]]
      val(i) == IF isvar(i) THEN [t |-> "alias", base |-> tref(i).name, ix |-> <<>>, sec |-> NoSec]
                ELSE IF iselem(i) THEN (IF elemix(i).ok /\ InBounds(S.env[tref(i).name], elemix(i).ix)
                                        THEN [t |-> "alias", base |-> tref(i).name, ix |-> elemix(i).ix, sec |-> NoSec] ELSE Err("bounds"))
                ELSE IF issec(i) THEN secval(i)
                ELSE EvalE(P, s.targets[i], S.env, <<>>)
      vals == TLCEval([i \in 1..n |-> val(i)])
      tyof(i) == IF isvar(i) \/ iselem(i) \/ issec(i) THEN Decl(u, tref(i).name).type
                 ELSE IF vals[i].t \in {"int", "real", "log"} THEN vals[i].t ELSE "int"
      idx(nm) == CHOOSE i \in 1..n : s.names[i] = nm
      names == {s.names[i] : i \in 1..n}
      shadowed == names \cap DOMAIN S.env
      u2 == [u EXCEPT !.decls = SelectSeq(@, LAMBDA dc : dc.name \notin names)
                                \o [i \in 1..n |-> [name |-> s.names[i], type |-> tyof(i), intent |-> "assoc", dims |-> <<>>, init |-> None]]]
      env1 == TLCEval([nm \in DOMAIN S.env \cup names |-> IF nm \in names THEN vals[idx(nm)] ELSE S.env[nm]])
      bad == {i \in 1..n : IsErr(vals[i])}
  IN
  IF bad # {} THEN Fail(S, "associate-selector")
  ELSE IF \E nm \in shadowed : nm \notin DeclNames(u) \/ Decl(u, nm).intent # "assoc" THEN Fail(S, "associate-shadowing-not-modelled")
  ELSE LET B == ExecBody(P, u2, s.body, [S EXCEPT !.env = env1]) IN
       IF B.st = "err" THEN B
       ELSE [B EXCEPT !.env = TLCEval([nm \in DOMAIN S.env |-> IF nm \in shadowed THEN S.env[nm] ELSE B.env[nm]])]

(* ------------------------------------------------------------ procedure call *)
\* Argument association by copy-in / copy-out.  For programs that respect Fortran's aliasing rules
\* (no dummy that is defined is associated with an entity accessible under another name - the
\* generators guarantee this) copy-in/copy-out is indistinguishable from association by reference.
\* Internal procedures (host # "") additionally see the caller's variables (host association);
\* host variables they define are copied back.
\* decls carrying "xdims" <<<<lo, hi>>>> (C34/C39): bounds are expressions evaluated on entry (lo none = 1;
\* hi [k |-> "assumed"] = assumed shape, dummies only); "dims" then only gives the rank
HasX(d) == "xdims" \in DOMAIN d
XLb(P, d, i, env) == IF IsNone(d.xdims[i][1]) THEN I(1) ELSE EvalE(P, d.xdims[i][1], env, <<>>)
InitLocal(P, d, env) ==
  IF HasX(d)
  THEN LET lo == TLCEval([i \in 1..Len(d.xdims) |-> XLb(P, d, i, env)])
           hi == TLCEval([i \in 1..Len(d.xdims) |-> EvalE(P, d.xdims[i][2], env, <<>>)])
       IN IF \E i \in 1..Len(d.xdims) : lo[i].t # "int" \/ hi[i].t # "int" THEN Err("dims")
          ELSE MkArr([i \in 1..Len(lo) |-> lo[i].v], [i \in 1..Len(hi) |-> hi[i].v], Undef)
  ELSE IF Len(d.dims) > 0
  THEN MkArr([i \in 1..Len(d.dims) |-> d.dims[i][1]], [i \in 1..Len(d.dims) |-> d.dims[i][2]],
             IF IsNone(d.init) THEN Undef ELSE Conv(d.type, EvalE(P, d.init, env, <<>>)))
  ELSE IF IsNone(d.init) THEN Undef ELSE Conv(d.type, EvalE(P, d.init, env, <<>>))

\* returns [st, why, env (caller's env after copy-out), out, ret (function result value)]
CallUnit(P, cal, actuals0, S) ==
  IF Len(actuals0) # Len(cal.args) THEN [st |-> "err", why |-> "argument-count", env |-> S.env, out |-> S.out, ret |-> Undef]
  ELSE
  LET \* an associate name as actual argument stands for the entity it is associated with
      actuals == [i \in 1..Len(actuals0) |-> RealRef(S.env, actuals0[i])]
      argidx(n) == CHOOSE i \in 1..Len(cal.args) : cal.args[i] = n
      isarg(n) == \E i \in 1..Len(cal.args) : cal.args[i] = n
      actualval(i) ==
         LET a == actuals[i] IN
         IF a.k = "none" THEN [t |-> "absent"]          \* omitted optional argument
         ELSE IF a.k = "var" /\ a.name \in DOMAIN S.env /\ S.env[a.name].t \in {"arr", "undef"} THEN S.env[a.name]
         ELSE EvalE(P, a, S.env, <<>>)
      hostenv == IF cal.host # "" THEN S.env ELSE [n \in {} |-> Undef]
      own == DeclNames(cal)
      \* ---- derived-type dummies (C34): a record variable r is a placeholder decl r (type "rec") plus one decl per
      \* component, named r%f.., carrying rec |-> "r" and field |-> "%f.."; a record actual x associates the dummy's
      \* component r%f with the caller's x%f (components keep the bounds their type declares)
      BoundComp(n) == "rec" \in DOMAIN Decl(cal, n) /\ isarg(Decl(cal, n).rec)
      CompActual(n) == LET d == Decl(cal, n) a == actuals[argidx(d.rec)] IN IF a.k = "var" THEN a.name \o d.field ELSE ""
      \* ---- array dummies declared with "xdims" (explicit shape with expression bounds / assumed shape): the dummy is
      \* associated with a sequence of elements of the actual's base array: the whole array, an array section, or
      \* (sequence association) the elements from an element actual to the end of the array, in array element order
      senv == TLCEval([m \in {cal.args[i] : i \in {j \in 1..Len(cal.args) : Len(Decl(cal, cal.args[j]).dims) = 0}} |->
                         actualval(argidx(m))])
      XBind(i) ==
        LET a == actuals[i]
            d == Decl(cal, cal.args[i])
            rank == Len(d.xdims)
            bad == [ok |-> FALSE]
        IN IF a.k \notin {"var", "arr"} \/ a.name \notin DOMAIN S.env THEN bad
           ELSE IF S.env[a.name].t # "arr" THEN bad
           ELSE
           LET base == S.env[a.name]
               order == ColMajor(base.lb, base.ub, Len(base.lb))
               issec == a.k = "arr" /\ \E j \in 1..Len(a.c) : a.c[j].k = "range"
               shape == IF a.k = "var" THEN [j \in 1..Len(base.lb) |-> base.ub[j] - base.lb[j] + 1]
                        ELSE IF issec THEN SecShape(P, base, a.c, S.env, 1) ELSE <<>>
               ixs == IF a.k = "var" THEN order
                      ELSE IF issec
                      THEN LET pos == ColMajor([j \in 1..Len(shape) |-> 1], shape, Len(shape))
                           IN TLCEval([k \in 1..Len(pos) |-> SubIdx(P, base, a.c, S.env, pos[k], 1, 1).ix])
                      ELSE LET r == SubIdx(P, base, a.c, S.env, <<>>, 1, 1) IN
                           IF ~r.ok THEN <<>> ELSE IF ~InBounds(base, r.ix) THEN <<>>
                           ELSE SubSeq(order, CHOOSE k \in 1..Len(order) : order[k] = r.ix, Len(order))
               assumed == \E j \in 1..rank : d.xdims[j][2].k = "assumed"
               lo == TLCEval([j \in 1..rank |-> XLb(P, d, j, senv)])
               hi == TLCEval([j \in 1..rank |-> IF assumed THEN I(0) ELSE EvalE(P, d.xdims[j][2], senv, <<>>)])
           IN IF \E j \in 1..rank : lo[j].t # "int" \/ hi[j].t # "int" THEN bad
              ELSE IF assumed /\ (Len(shape) # rank \/ ~(a.k = "var" \/ issec)) THEN bad
              ELSE IF \E k \in 1..Len(ixs) : ~InBounds(base, ixs[k]) THEN bad
              ELSE LET lb == [j \in 1..rank |-> lo[j].v]
                       ub == [j \in 1..rank |-> IF assumed THEN lo[j].v + shape[j] - 1 ELSE hi[j].v]
                       dorder == ColMajor(lb, ub, rank)
                   IN IF Len(dorder) > Len(ixs) THEN bad
                      ELSE [ok |-> TRUE, lb |-> lb, ub |-> ub, base |-> a.name, dorder |-> dorder, ixs |-> SubSeq(ixs, 1, Len(dorder))]
      xb == TLCEval([i \in {j \in 1..Len(cal.args) : HasX(Decl(cal, cal.args[j]))} |-> XBind(i)])
      XVal(i) == IF ~xb[i].ok THEN Err("array-association")
                 ELSE LET b == xb[i] IN
                      [t |-> "arr", lb |-> b.lb, ub |-> b.ub,
                       data |-> TLCEval([ix \in IdxSet(b.lb, b.ub, 1) |->
                                   S.env[b.base].data[b.ixs[CHOOSE k \in 1..Len(b.dorder) : b.dorder[k] = ix]]])]
      env0 == TLCEval([n \in own \cup DOMAIN hostenv |->
                 IF n \in own
                 THEN (IF BoundComp(n) THEN (IF CompActual(n) \in DOMAIN S.env THEN S.env[CompActual(n)] ELSE Err("record-association"))
                       ELSE IF isarg(n) /\ HasX(Decl(cal, n)) THEN XVal(argidx(n))
                       ELSE IF isarg(n)
                       THEN LET v == actualval(argidx(n))
                                d == Decl(cal, n)
                            IN IF v.t = "arr"
                               \* array dummy: takes the actual's contents with the dummy's declared lower bounds
                               THEN [t |-> "arr", lb |-> [i \in 1..Len(d.dims) |-> d.dims[i][1]],
                                     ub |-> [i \in 1..Len(d.dims) |-> d.dims[i][1] + (v.ub[i] - v.lb[i])],
                                     data |-> [ix \in IdxSet([i \in 1..Len(d.dims) |-> d.dims[i][1]],
                                                             [i \in 1..Len(d.dims) |-> d.dims[i][1] + (v.ub[i] - v.lb[i])], 1) |->
                                                 v.data[[i \in 1..Len(ix) |-> ix[i] - d.dims[i][1] + v.lb[i]]]]]
                               ELSE IF d.intent = "out" /\ ~IsErr(v) THEN v ELSE v
                       ELSE Undef)
                 ELSE hostenv[n]])
      \* locals are initialised after the arguments are bound (initialisers may mention arguments)
      env1 == TLCEval([n \in DOMAIN env0 |-> IF n \in own /\ ~isarg(n) /\ ~BoundComp(n) THEN InitLocal(P, Decl(cal, n), env0) ELSE env0[n]])
      argerr == {i \in 1..Len(cal.args) : IsErr(env0[cal.args[i]]) /\ env0[cal.args[i]].why # "undef"}
      \* an internal procedure that stores into host-associated variables needs their declared types:
      \* the body runs with the host's declarations appended (own declarations shadow them)
      calx == IF cal.host # "" /\ HasUnit(P, cal.host)
              THEN [cal EXCEPT !.decls = @ \o SelectSeq(Unit(P, cal.host).decls, LAMBDA d : d.name \notin DeclNames(cal))]
              ELSE cal
      R == ExecBody(P, calx, cal.body, [env |-> env1, out |-> S.out, st |-> "ok", why |-> ""])
  IN
  IF argerr # {} THEN [st |-> "err", why |-> "argument-evaluation", env |-> S.env, out |-> S.out, ret |-> Undef]
  ELSE IF R.st = "err" THEN [st |-> "err", why |-> R.why, env |-> S.env, out |-> S.out, ret |-> Undef]
  ELSE IF R.st \in {"exit", "cycle"} THEN [st |-> "err", why |-> "exit-outside-loop", env |-> S.env, out |-> S.out, ret |-> Undef]
  ELSE
  LET wcomps == TLCEval({c \in own : BoundComp(c) /\ Decl(cal, c).intent # "in"})     \* record components to copy out
      \* copy-out: every actual that is a variable / element reference and whose dummy may be defined
      back1 == TLCEval([n \in DOMAIN S.env |->
                  LET writers == {i \in 1..Len(actuals) : actuals[i].k = "var" /\ actuals[i].name = n
                                                          /\ Decl(cal, cal.args[i]).intent # "in" /\ ~HasX(Decl(cal, cal.args[i]))}
                  IN IF writers # {}
                     THEN LET i == CHOOSE j \in writers : TRUE
                              v == R.env[cal.args[i]]
                          IN IF v.t = "arr" /\ S.env[n].t = "arr"
                             THEN [S.env[n] EXCEPT !.data = [ix \in DOMAIN S.env[n].data |->
                                       v.data[[d \in 1..Len(ix) |-> ix[d] - S.env[n].lb[d] + v.lb[d]]]]]
                             ELSE v
                     ELSE IF \E c \in wcomps : CompActual(c) = n THEN R.env[CHOOSE c \in wcomps : CompActual(c) = n]
                     ELSE IF cal.host # "" /\ n \notin own THEN R.env[n]
                     ELSE S.env[n]])
      \* element actuals a(i): copy the scalar result back into the element
      elemw == {i \in 1..Len(actuals) : actuals[i].k = "arr" /\ Decl(cal, cal.args[i]).intent # "in"
                                         /\ Len(Decl(cal, cal.args[i]).dims) = 0}
      RECURSIVE PutBack(_, _)
      PutBack(env, todo) ==
        IF todo = {} THEN env
        ELSE LET i == CHOOSE j \in todo : TRUE
                 a == actuals[i]
                 r == SubIdx(P, S.env[a.name], a.c, S.env, <<>>, 1, 1)
             IN PutBack([env EXCEPT ![a.name].data[r.ix] = R.env[cal.args[i]]], todo \ {i})
      \* "xdims" array dummies that may be defined: element-wise copy back into the associated elements
      xw == {i \in DOMAIN xb : Decl(cal, cal.args[i]).intent # "in"}
      RECURSIVE PutBackX(_, _)
      PutBackX(env, todo) ==
        IF todo = {} THEN env
        ELSE LET i == CHOOSE j \in todo : TRUE
                 b == xb[i]
                 dv == R.env[cal.args[i]]
                 old == env[b.base].data
                 new == TLCEval([ix \in DOMAIN old |->
                            IF \E k \in 1..Len(b.ixs) : b.ixs[k] = ix
                            THEN dv.data[b.dorder[CHOOSE k \in 1..Len(b.ixs) : b.ixs[k] = ix]] ELSE old[ix]])
             IN PutBackX([env EXCEPT ![b.base].data = new], todo \ {i})
  IN [st |-> "ok", why |-> "", env |-> PutBackX(PutBack(back1, elemw), xw), out |-> R.out,
      ret |-> IF cal.kind = "function" THEN R.env[cal.result] ELSE Undef]

(* ------------------------------------------------------------ whole programs *)
\* Run the entry subroutine on an input store (dummy name -> value); the observable behaviour is the
\* printed sequence followed by the final values of all intent(out|inout) dummies, in argument order.
Run(P, entry, input) ==
  LET u == Unit(P, entry)
      own == DeclNames(u)
      env0 == TLCEval([n \in own |-> IF n \in DOMAIN input THEN input[n] ELSE Undef])
      env1 == TLCEval([n \in own |-> IF n \in DOMAIN input THEN env0[n] ELSE InitLocal(P, Decl(u, n), env0)])
      R == ExecBody(P, u, u.body, [env |-> env1, out |-> <<>>, st |-> "ok", why |-> ""])
      outs == SelectSeq(u.args, LAMBDA n : Decl(u, n).intent \in {"out", "inout"})
      RECURSIVE Final(_)
      Final(i) == IF i > Len(outs) THEN <<>>
                  ELSE LET v == R.env[outs[i]] IN
                       (IF v.t = "arr" THEN [k \in 1..Len(Elements(v)) |-> Image(Elements(v)[k])] ELSE <<Image(v)>>) \o Final(i + 1)
  IN IF R.st = "err" THEN [ok |-> FALSE, why |-> R.why, out |-> <<>>]
     ELSE LET fin == Final(1) IN
          IF \E k \in 1..Len(fin) : fin[k][1] \in {"err"} THEN [ok |-> FALSE, why |-> "undefined-result", out |-> <<>>]
          ELSE [ok |-> TRUE, why |-> "", out |-> R.out \o fin]
=============================================================================
