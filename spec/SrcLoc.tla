------------------------------- MODULE SrcLoc -------------------------------
(***************************************************************************)
(* C20: recorded source locations match the original text.                 *)
(*                                                                         *)
(* A file is a sequence of lines (strings without the newline).  A node    *)
(* that carries source information records [l0, l1, text]: the first and   *)
(* last line number (1-based, l1 = 0 when the end line is not recorded)    *)
(* and the raw source string, given here as its sequence of lines.         *)
(* (loki.frontend.source.Source: "lines: start and (optional) end line     *)
(* number in original source file; string: the original raw source         *)
(* string".  FortranReader hands out complete original lines for a span of *)
(* the sanitized text; Source.clone_with_span cuts inside lines.)          *)
(*                                                                         *)
(* The property: the recorded span lies inside the file, has as many lines *)
(* as the text, and the text is a contiguous piece of the joined lines     *)
(* l0..l1 that touches every one of them:                                  *)
(*    one line :  text[1] is a contiguous substring of line l0             *)
(*    k lines  :  text[1] is a suffix of line l0, text[k] a prefix of line *)
(*                l1, and every interior text line equals its file line.   *)
(* Continuation markers, comments between continued lines and `;`-joined   *)
(* statements are part of the lines and therefore of the text; a statement *)
(* sharing its line with others may record the whole line or its own part. *)
(***************************************************************************)
EXTENDS Naturals, Sequences, TLC

IsSub(t, l) == \/ t = l
               \/ /\ Len(t) < Len(l)
                  /\ \E o \in 0..(Len(l) - Len(t)) : SubSeq(l, o + 1, o + Len(t)) = t
IsPrefix(t, l) == Len(t) <= Len(l) /\ SubSeq(l, 1, Len(t)) = t
IsSuffix(t, l) == Len(t) <= Len(l) /\ SubSeq(l, Len(l) - Len(t) + 1, Len(l)) = t

End(n) == IF n.l1 = 0 THEN n.l0 + Len(n.text) - 1 ELSE n.l1

\* the text matches the lines a..e of the file exactly in the sense above
Fits(lines, text, a, e) ==
  LET k == Len(text) IN
  IF k = 1 THEN IsSub(text[1], lines[a])
  ELSE /\ IsSuffix(text[1], lines[a])
       /\ IsPrefix(text[k], lines[e])
       /\ \A i \in 2..(k - 1) : text[i] = lines[a + i - 1]

\* "ok" or the violated clause.  Exemption (FParser2IR.get_source strips newlines off both ends of the
\* text): empty lines at the beginning or the end of the recorded span may be missing from the text.
NodeClause(lines, n) ==
  LET k == Len(n.text) e == End(n) IN
  IF n.l0 < 1 \/ e < n.l0 \/ e > Len(lines) THEN "span-outside-file"
  ELSE IF k > e - n.l0 + 1 THEN "line-count"
  ELSE IF \E a \in n.l0..(e - k + 1) :
            /\ \A i \in n.l0..(a - 1) : lines[i] = ""
            /\ \A i \in (a + k)..e : lines[i] = ""
            /\ Fits(lines, n.text, a, a + k - 1)
       THEN "ok"
  ELSE IF k < e - n.l0 + 1 /\ ~\E a \in n.l0..(e - k + 1) :
            (\A i \in n.l0..(a - 1) : lines[i] = "") /\ (\A i \in (a + k)..e : lines[i] = "")
       THEN "line-count"
  ELSE "text"

\* a finer diagnosis for keys: is the text found at another place (shifted span)?
Shift(lines, n) ==
  LET k == Len(n.text) IN
  IF \E d \in 1..Len(lines) : d # n.l0 /\ d + k - 1 <= Len(lines) /\ \A i \in 1..k : n.text[i] = lines[d + i - 1]
  THEN "shifted" ELSE "changed"

(***************************************************************************)
(* Design-level model (MC_SrcLoc): a tiny file; nodes obtained by cutting  *)
(* any span [a..b] of lines, optionally trimming characters off the first  *)
(* line's head / last line's tail (clone_with_span), satisfy the clause;   *)
(* any shift of the line numbers or corruption of a text line violates it. *)
(***************************************************************************)
Cut(lines, a, b, h, t) ==
  \* lines a..b, first line without its first h characters, last line without its last t characters
  LET k == b - a + 1
      first == SubSeq(lines[a], h + 1, Len(lines[a]))
      last == SubSeq(lines[b], 1, Len(lines[b]) - t)
  IN [l0 |-> a, l1 |-> b,
      text |-> IF k = 1 THEN <<SubSeq(lines[a], h + 1, Len(lines[a]) - t)>>
               ELSE <<first>> \o SubSeq(lines, a + 1, b - 1) \o <<last>>]
=============================================================================
