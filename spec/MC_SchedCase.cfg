SPECIFICATION MCSpec
CONSTANT HashOf <- HashFolded
CONSTANT MaxDepth = 8
INVARIANT ReturnsAgree
INVARIANT Refines
INVARIANT HashLaw
CHECK_DEADLOCK FALSE
