SPECIFICATION Spec
INVARIANT CutAccepted
INVARIANT OpenEndAccepted
INVARIANT ShiftRejected
INVARIANT LineCountRejected
INVARIANT OutsideRejected
INVARIANT CorruptRejected
CHECK_DEADLOCK FALSE
INVARIANT BlankEndsExempt
