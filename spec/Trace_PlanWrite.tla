---------------------------- MODULE Trace_PlanWrite ----------------------------
(* Trace validation for C24: one case = the `plan` and the `convert` command line entry points    *)
(* (in-process) run on two copies of one rendered project with the same configuration file.       *)
(*   c.P, c.C, c.pipe, c.fw, c.outdir, c.mode, c.files   the abstract input (see PlanWrite.tla)   *)
(*   c.plan    [transform, append, remove : sequences of projected paths as read from the CMake  *)
(*             plan file (LOKI_SOURCES_TO_TRANSFORM / _APPEND / _REMOVE), libs : per-library       *)
(*             lists [lib, transform, append, remove], raised]                                    *)
(*   c.conv    [written : projected paths of the files that exist after the conversion and did    *)
(*             not before, raised]                                                                *)
(* Clauses, in order:  raised-plan / raised-convert (one of the two entry points fails, the other  *)
(* does not), append-missing / append-extra (Append = Written), written-unexpected (a written      *)
(* file that derives from no project file), transform-missing / transform-extra                   *)
(* (Transform = OriginalsOf(Written)), remove-missing / remove-extra                               *)
(* (Remove = {o in Transform : not replicated}), append-duplicate, lib-lists (a per-library list    *)
(* is not part of the global one, or two libraries claim one generated file).                     *)
EXTENDS PlanWrite, Json, IOUtils
VARIABLES files, todo, transform, append, remove       \* (the design model's variables, unused here)

Cases == JsonDeserialize(IOEnv.CASES)
JsonChars(P, n) == P.chars[n]
VARIABLE tid
SeqRange(s) == {s[i] : i \in DOMAIN s}

Verdict(c) ==
  IF ~(LegalProject(c.P) /\ AcyclicProject(c.P) /\ LegalConfig(c.P, c.C)) THEN "illegal-input"
  ELSE IF c.plan.raised # "" /\ c.conv.raised # "" THEN "both-raised"          \* the pipeline is not applicable: not a case
  ELSE IF c.plan.raised # "" THEN "raised-plan"
  ELSE IF c.conv.raised # "" THEN "raised-convert"
  ELSE
  LET S0 == InitState(c.P, c.C)
      SF == Final(S0, c.pipe, 1)
      GF == Graph(SF)
      W == {Key(w) : w \in SeqRange(c.conv.written)}
      A == {Key(w) : w \in SeqRange(c.plan.append)}
      origins == {OriginOf(c, S0, w) : w \in SeqRange(c.conv.written)}
      expT == {o[2] : o \in {x \in origins : x[1] = "file"}}
      T == SeqRange(c.plan.transform)
      R == SeqRange(c.plan.remove)
      Tf == {t.fid : t \in {x \in T : x.kind = "orig"}}
      Rf == {t.fid : t \in {x \in R : x.kind = "orig"}}
      lists(sel(_)) == UNION {SeqRange(sel(c.plan.libs[i])) : i \in DOMAIN c.plan.libs}
  IN
  IF W \ A # {} THEN "append-missing"
  ELSE IF A \ W # {} THEN "append-extra"
  ELSE IF \E o \in origins : o[1] = "none" THEN "written-unexpected"
  ELSE IF \E t \in T : t.kind # "orig" THEN "transform-not-a-project-file"
  ELSE IF expT \ Tf # {} THEN "transform-missing"
  ELSE IF Tf \ expT # {} THEN "transform-extra"
  ELSE IF \E t \in R : t.kind # "orig" THEN "remove-not-a-project-file"
  ELSE IF {o \in Tf : ~Replicated(c, SF, GF, o)} \ Rf # {} THEN "remove-missing"
  ELSE IF Rf \ {o \in Tf : ~Replicated(c, SF, GF, o)} # {} THEN "remove-extra"
  ELSE IF Len(c.plan.append) # Cardinality(A) THEN "append-duplicate"
  \* (files of items without a library only appear in the global lists)
  ELSE IF ~(lists(LAMBDA l : l.append) \subseteq SeqRange(c.plan.append)
            /\ lists(LAMBDA l : l.transform) \subseteq T /\ lists(LAMBDA l : l.remove) \subseteq R) THEN "lib-lists"
  \* the same rule per library: of the files a library's list transforms, exactly the not replicated ones are removed
  ELSE IF \E i \in DOMAIN c.plan.libs :
            LET l == c.plan.libs[i]
                lt == {t.fid : t \in {x \in SeqRange(l.transform) : x.kind = "orig"}}
                lr == {t.fid : t \in {x \in SeqRange(l.remove) : x.kind = "orig"}}
            IN lr # {o \in lt : ~Replicated(c, SF, GF, o)} THEN "lib-remove"
  ELSE IF \E i, j \in DOMAIN c.plan.libs : i # j /\ SeqRange(c.plan.libs[i].append) \cap SeqRange(c.plan.libs[j].append) # {} THEN "lib-lists"
  ELSE "ok"

Init_ == tid = 1 /\ files = <<>> /\ todo = {} /\ transform = {} /\ append = {} /\ remove = {}
Next_ ==
  /\ tid <= Len(Cases)
  /\ LET c == Cases[tid]
         v == Verdict(c)
     IN PrintT(<<"VERDICT", c.id, v \in {"ok", "both-raised"}, v, Len(c.conv.written)>>)
  /\ tid' = tid + 1 /\ UNCHANGED pwvars
TraceSpec == Init_ /\ [][Next_]_<<tid, files, todo, transform, append, remove>>
=============================================================================
