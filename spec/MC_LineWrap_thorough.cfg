SPECIFICATION Spec
CONSTANT MaxN = 4
INVARIANT ReadBack
INVARIANT LinesOK
INVARIANT BreakInsideRejected
INVARIANT ExactSplitAccepted
INVARIANT DropAmpRejected
INVARIANT LongRejected
INVARIANT CommentExempt
INVARIANT InterleaveAccepted
INVARIANT LoneReported
CHECK_DEADLOCK FALSE
