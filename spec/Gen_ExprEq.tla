----------------------------- MODULE Gen_ExprEq -----------------------------
(* Export of the node universe described by ExprEq (spec -> harness): one JSON descriptor per node. *)
EXTENDS ExprEq, Json
VARIABLE done
GInit == done = FALSE
GNext == ~done /\ (\A d \in Universe : PrintT(<<"NODE", ToJson(d)>>)) /\ done' = TRUE
GSpec == GInit /\ [][GNext]_done
=============================================================================
