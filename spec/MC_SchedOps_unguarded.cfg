SPECIFICATION MCSpec
CONSTANT NameChars <- TabChars
CONSTANT NP = 3
CONSTANT MaxOps = 2
CONSTANT Styles = {"only_r", "only_m"}
CONSTANT Guarded = FALSE
INVARIANT InvConsistent
INVARIANT InvNoDanglingRef
INVARIANT InvNoOutputClash
INVARIANT InvSeedInGraph
CHECK_DEADLOCK FALSE
