---------------------------- MODULE SchedProcess ----------------------------
(* Processing a transformation over a scheduler graph (Scheduler.process_transformation, SFilter, *)
(* SGraph.as_filegraph) as a state machine (C22).                                                 *)
(*   G : the item graph   [nodes: set of [name, kind, ignored, file], edges: set of <<name, name>>] *)
(*   M : the manifest     [filter: set of kinds, reverse, filegraph, procign: BOOLEAN]            *)
(* A `unit` is what one application of the transformation receives: an item name, or in           *)
(* file-graph mode the id of a file.  Visit(u) is enabled iff u is selected, not yet visited and  *)
(* all selected units it must follow have been visited; every topological order is a behaviour.   *)
EXTENDS Naturals, Sequences, FiniteSets, TLC

\* items the manifest selects: kind in the item filter, ignored ones only with process_ignored_items
SelItems(G, M) == {n \in G.nodes : n.kind \in M.filter /\ (M.procign \/ ~n.ignored)}
SelNames(G, M) == {n.name : n \in SelItems(G, M)}
FileOfName(G, s) == (CHOOSE n \in G.nodes : n.name = s).file

\* nodes reachable from a set of nodes along the edges of the FULL item graph
RECURSIVE ReachAll(_, _)
ReachAll(E, S) == LET S2 == S \cup {e[2] : e \in {d \in E : d[1] \in S}} IN IF S2 = S THEN S ELSE ReachAll(E, S2)

\* order constraints between selected units.
\* item mode: a selected item must come before every selected item it reaches in the full graph -- also when the
\*   path runs through items that are NOT selected (other kinds such as generic interfaces, ignored items): the
\*   dependency order is that of the whole graph, restricted to the selected items;
\* file mode: the induced edges between the files of selected items with a direct edge (SGraph.as_filegraph).
UnitEdges(G, M) ==
  IF M.filegraph
  THEN LET E == {e \in G.edges : e[1] \in SelNames(G, M) /\ e[2] \in SelNames(G, M)}
       IN {<<FileOfName(G, e[1]), FileOfName(G, e[2])>> : e \in {d \in E : FileOfName(G, d[1]) # FileOfName(G, d[2])}}
  ELSE UNION {{<<a, b>> : b \in (ReachAll(G.edges, {a}) \cap SelNames(G, M)) \ {a}} : a \in SelNames(G, M)}
Units(G, M) == IF M.filegraph THEN {n.file : n \in SelItems(G, M)} ELSE SelNames(G, M)

\* units that must have been visited before u: callers before callees, reversed in reverse mode
Before(G, M, u) ==
  IF M.reverse THEN {e[2] : e \in {d \in UnitEdges(G, M) : d[1] = u}}
  ELSE {e[1] : e \in {d \in UnitEdges(G, M) : d[2] = u}}

CanVisit(G, M, visited, u) == u \in Units(G, M) /\ u \notin visited /\ Before(G, M, u) \subseteq visited

\* which transform_* method an item kind is dispatched to
MethodOf(kind) == IF kind = "proc" THEN "subroutine" ELSE IF kind = "mod" THEN "module" ELSE "file"

---------------------------------------------------------------------------------------------
VARIABLES G, M, vseq          \* vseq: sequence of visited units
svars == <<G, M, vseq>>
Visited == {vseq[i] : i \in DOMAIN vseq}

Visit(u) == CanVisit(G, M, Visited, u) /\ vseq' = Append(vseq, u) /\ UNCHANGED <<G, M>>
SNext == \E u \in Units(G, M) : Visit(u)
Done == Visited = Units(G, M)

\* --- design properties
ExactlyOnce == \A i, j \in DOMAIN vseq : vseq[i] = vseq[j] => i = j
OnlySelected == Visited \subseteq Units(G, M)
Pos(u) == CHOOSE i \in DOMAIN vseq : vseq[i] = u
\* dependency order: for every dependency between two visited units the required one came first
DepOrder == \A e \in UnitEdges(G, M) :
              (e[1] \in Visited /\ e[2] \in Visited) => IF M.reverse THEN Pos(e[2]) < Pos(e[1]) ELSE Pos(e[1]) < Pos(e[2])
\* a callee is never visited while a selected caller is still waiting (default order), and conversely
NoEarly == \A e \in UnitEdges(G, M) : IF M.reverse THEN (e[1] \in Visited => e[2] \in Visited)
                                                   ELSE (e[2] \in Visited => e[1] \in Visited)
\* on acyclic graphs processing never gets stuck before everything selected has been visited
Progress == Done \/ \E u \in Units(G, M) : CanVisit(G, M, Visited, u)
=============================================================================
