--------------------------- MODULE MC_TreeRewrite ---------------------------
(* Design-level model checking of the TreeRewrite contract on the small universe of          *)
(* TreeRewriteCases.  One initial state per tree; its successors are the cases over that tree *)
(* (so that TLC's workers share the evaluation).  The invariants are the properties of C14    *)
(* stated independently of the recursive definition of Apply, plus consistency laws between   *)
(* the four transformer classes.                                                              *)
EXTENDS TreeRewriteCases
VARIABLE c
Init == \E r \in Roots : c = [cls |-> "-", tree |-> <<r>>]
Next == c.cls = "-" /\ c' \in CasesOf(c.tree[1])
Spec == Init /\ [][Next]_c

As(cls) == [c EXCEPT !.cls = cls]
IsCase == c.cls # "-"
InvExactlyMapped  == IsCase => \A cls \in Classes : ExactlyMapped(As(cls))
InvOthersKeep     == IsCase => \A cls \in Classes : OthersKeep(As(cls))
InvNestedAgrees   == (IsCase /\ Family = "map") => NestedAgrees(As("T"))
InvIdentityMap    == IsCase => \A cls \in Classes : IdentityMap(As(cls))
InvMaskAllOn      == (IsCase /\ Family = "mask") => MaskAllOn(As("M"))
InvMaskSameLeaves == (IsCase /\ Family = "mask") => MaskSameLeaves(As("M"))
InvMaskSubseq     == IsCase => \A cls \in Classes : MaskSubseq(As(cls))
\* the specified result never contains nested tuples or holes: it is a well-formed tree again
RECURSIVE WF(_)
WF(n) == /\ n.k \in {"leaf", "asg", "loop", "sec", "assoc", "cond", "multi"}
         /\ (n.k \in {"leaf", "asg"} <=> Len(n.b) = 0)
         /\ \A i \in 1..Len(n.b) : \A j \in 1..Len(n.b[i]) : WF(n.b[i][j])
InvWellFormed == IsCase => \A cls \in Classes : Legal(As(cls)) => LET R == Apply(As(cls)) IN \A j \in 1..Len(R) : WF(R[j])
=============================================================================
