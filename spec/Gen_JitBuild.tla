---- MODULE Gen_JitBuild ----
(* Case generator for C44 (spec -> code): enumerates the model's universe of dependency DAGs on  *)
(* at most GenN objects (with the choice of source-less leaves); the harness realises each one as *)
(* Fortran modules and builds it with the real Lib.build.                                         *)
EXTENDS JitBuild, Json
CONSTANT GenN, GenNoSrc
VARIABLE g
DepsOn(n)   == {d \in [1..n -> SUBSET (1..n)] : \A o \in 1..n : d[o] \subseteq 1..(o - 1)}
SrcOn(n, d) == {sr \in [1..n -> BOOLEAN] : /\ (\A o \in 1..n : ~sr[o] => d[o] = {})
                                            /\ Cardinality({x \in 1..n : ~sr[x]}) <= GenNoSrc
                                            /\ \E x \in 1..n : sr[x]}
Dags == UNION {UNION {{[n |-> n, deps |-> d, src |-> sr] : sr \in SrcOn(n, d)} : d \in DepsOn(n)} : n \in 1..GenN}
GInit == g \in Dags /\ PrintT(<<"DAG", ToJson(g)>>)
GNext == UNCHANGED g
GSpec == GInit /\ [][GNext]_g
====
