SPECIFICATION GSpec
CONSTANT UnionOnRaw = TRUE
CHECK_DEADLOCK FALSE
