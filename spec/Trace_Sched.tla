---------------------------- MODULE Trace_Sched ----------------------------
(* Trace validation for C21: one case = one construction of the real loki.batch.Scheduler on a   *)
(* rendered abstract project P with configuration C; `obs` is the projection of the real graph:  *)
(*   obs.items  sequence of [name, kind, ignored, file] in insertion order (Scheduler.items)      *)
(*   obs.edges  sequence of <<parent name, child name>>                  (Scheduler.dependencies) *)
(*   obs.raised exception text if the construction failed ("" otherwise)                          *)
(* The expected graph is PrunedClosure(P, C) of SchedProject, evaluated here by TLC.              *)
(* Verdict position: 1 if the insertion order is a breadth-first order, else 0 (informational;   *)
(* the order of `items` is not part of the property).                                             *)
EXTENDS SchedProject, Json, IOUtils

Cases == JsonDeserialize(IOEnv.CASES)
JsonChars(P, n) == P.chars[n]

VARIABLE tid

KindOf(it) == it.kind

\* first violated clause of case c ("ok" if none)
Clause(c) ==
  LET P == c.P
      C == c.C
  IN
  IF ~(LegalProject(P) /\ AcyclicProject(P) /\ LegalConfig(P, C)) THEN "illegal-input"
  ELSE IF c.obs.raised # "" THEN "raised"       \* a legal project must yield a graph
  ELSE
  LET T == PrunedClosure(P, C)
      items == c.obs.items
      onames == {items[i].name : i \in DOMAIN items}
      enames == {Full(n) : n \in T.nodes}
      byName(s) == CHOOSE n \in T.nodes : Full(n) = s
      oedges == {<<c.obs.edges[i][1], c.obs.edges[i][2]>> : i \in DOMAIN c.obs.edges}
      eedges == {<<Full(e[1]), Full(e[2])>> : e \in T.edges}
  IN
  IF \E i, j \in DOMAIN items : i # j /\ items[i].name = items[j].name THEN "items-duplicate"
  ELSE IF enames \ onames # {} THEN "nodes-missing:" \o (byName(CHOOSE s \in enames \ onames : TRUE)).kind
  ELSE IF onames \ enames # {} THEN "nodes-extra"
  ELSE IF \E i \in DOMAIN items : items[i].kind # byName(items[i].name).kind THEN "item-kind"
  ELSE IF \E i \in DOMAIN items : items[i].file # FileOf(P, byName(items[i].name)) THEN "item-file"
  ELSE IF eedges \ oedges # {} THEN "edges-missing"
  ELSE IF oedges \ eedges # {} THEN "edges-extra"
  ELSE IF Len(c.obs.edges) # Cardinality(oedges) THEN "edges-duplicate"
  ELSE IF \E i \in DOMAIN items : items[i].ignored \notin T.poss[byName(items[i].name)] THEN "ignored-flag"
  ELSE "ok"

\* informational: is obs.items a breadth-first order of the expected graph
Bfs(c) ==
  LET P == c.P
      C == c.C
      items == c.obs.items
      idx(s) == CHOOSE i \in DOMAIN items : items[i].name = s
      S == {Full(x) : x \in Range(SeedSeq(P, C))}
      E == {<<c.obs.edges[i][1], c.obs.edges[i][2]>> : i \in DOMAIN c.obs.edges}
      ns == {items[i].name : i \in DOMAIN items} \ S
      fp(x) == LET ps == {idx(e[1]) : e \in {d \in E : d[2] = x}} IN CHOOSE i \in ps : \A j \in ps : i <= j
  IN /\ \A s \in S, x \in ns : idx(s) < idx(x)
     /\ \A x, y \in ns : idx(x) < idx(y) => fp(x) <= fp(y)

Init_ == tid = 1
Next_ ==
  /\ tid <= Len(Cases)
  /\ LET c == Cases[tid]
         cl == Clause(c)
     IN PrintT(<<"VERDICT", c.id, cl = "ok", cl, IF cl = "ok" /\ Bfs(c) THEN 1 ELSE 0>>)
  /\ tid' = tid + 1
TraceSpec == Init_ /\ [][Next_]_tid
=============================================================================
