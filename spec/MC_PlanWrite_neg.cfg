SPECIFICATION MCSpec
CONSTANT NameChars <- NameChars_
CONSTANT N = 3
CONSTANT Guarded = FALSE
INVARIANT PlanMatchesWrites
CHECK_DEADLOCK FALSE
