---------------------------- MODULE MC_WellFormedIR ----------------------------
(* Design-level check of WellFormedIR on an abstract unit tree                                    *)
(*      1 module  >  2 kernel  >  3 associate block            (encl links)                        *)
(*                   2 kernel  >  4 internal procedure                                               *)
(*      1 module  >  5 helper                                                                        *)
(* Correct transformation steps (declare, use with the scope of the nearest declaration, remove an  *)
(* unused declaration, inline the internal procedure WITH rescoping, move code to the helper WITH    *)
(* rescoping and declaration) keep every reachable tree well formed; their characteristic faulty     *)
(* variants (move without rescoping, remove a declaration that is still used, rebuild a scoped node  *)
(* without its parent) are rejected with the right clause.                                           *)
EXTENDS WellFormedIR
CONSTANT MaxOcc
Names == {"a", "b"}
Encl == <<0, 1, 2, 2, 1>>
Kind == <<"module", "subroutine", "associate", "subroutine", "subroutine">>
Scopes == 1..5
Declaring == {1, 2, 4, 5}     \* an associate block declares nothing

RECURSIVE SetToSeq(_)
SetToSeq(s) == IF s = {} THEN <<>> ELSE LET x == CHOOSE y \in s : TRUE IN <<x>> \o SetToSeq(s \ {x})

VARIABLES decl, assoc, occ, par
vars == <<decl, assoc, occ, par>>

S == [i \in Scopes |-> [id |-> i, kind |-> Kind[i], name |-> "u", parent |-> par[i], encl |-> Encl[i], tparent |-> par[i],
                        declared |-> SetToSeq(decl[i]), imported |-> <<>>, decls |-> SetToSeq(decl[i]), assoc |-> SetToSeq(IF i = 3 THEN assoc ELSE {}), wild |-> FALSE]]
Occ(o) == [name |-> o.name, kind |-> "var", scope |-> o.scope, at |-> o.at, role |-> "use", member |-> FALSE]
O == SetToSeq({Occ(o) : o \in occ})
ChainOf(s) == Chain(S, s)
\* nearest scope on the chain that introduces the name
Introduces(s, n) == n \in decl[s] \/ (s = 3 /\ n \in assoc)
Nearest(at, n) == CHOOSE s \in ChainOf(at) : Introduces(s, n) /\ \A t \in ChainOf(at) : Introduces(t, n) => s \in ChainOf(t)
Vis(at, n) == \E s \in ChainOf(at) : Introduces(s, n)

Init == decl = [i \in Scopes |-> {}] /\ assoc = {} /\ occ = {} /\ par = Encl

Declare(s, n) == /\ s \in Declaring /\ n \notin decl[s]
                 \* a new declaration must not capture existing uses that resolve further out
                 /\ ~\E o \in occ : o.name = n /\ s \in ChainOf(o.at) /\ o.scope \in ChainOf(s) /\ o.scope # s
                 /\ decl' = [decl EXCEPT ![s] = @ \cup {n}] /\ UNCHANGED <<assoc, occ, par>>
AssocName(n) == /\ n \notin assoc /\ ~\E o \in occ : o.name = n /\ o.at = 3
                /\ assoc' = assoc \cup {n} /\ UNCHANGED <<decl, occ, par>>
Use(at, n) == /\ Vis(at, n) /\ Cardinality(occ) < MaxOcc
              /\ occ' = occ \cup {[name |-> n, scope |-> Nearest(at, n), at |-> at]} /\ UNCHANGED <<decl, assoc, par>>
RemoveUnused(s, n) == /\ n \in decl[s] /\ ~\E o \in occ : o.name = n /\ o.scope = s
                      /\ decl' = [decl EXCEPT ![s] = @ \ {n}] /\ UNCHANGED <<assoc, occ, par>>
\* inline the internal procedure 4 into the kernel 2: its locals become kernel locals (only if the names are free there)
Inline == /\ decl[4] \cap decl[2] = {} /\ \E o \in occ : o.at = 4
          /\ ~\E o \in occ : o.at \in {2, 3} /\ o.name \in decl[4] /\ o.scope # 2
          /\ ~(decl[4] \cap assoc # {})
          /\ occ' = {IF o.at = 4 THEN [o EXCEPT !.at = 2, !.scope = IF o.scope = 4 THEN 2 ELSE o.scope] ELSE o : o \in occ}
          /\ decl' = [decl EXCEPT ![2] = @ \cup decl[4], ![4] = {}] /\ UNCHANGED <<assoc, par>>
\* move (outline) a kernel-level occurrence into the helper 5: the variable is declared there and the symbol rescoped
Outline(o) == /\ o \in occ /\ o.at = 2 /\ o.scope = 2
              /\ occ' = (occ \ {o}) \cup {[o EXCEPT !.at = 5, !.scope = 5]}
              /\ decl' = [decl EXCEPT ![5] = @ \cup {o.name}] /\ UNCHANGED <<assoc, par>>
Next == \/ \E s \in Scopes, n \in Names : Declare(s, n) \/ RemoveUnused(s, n)
        \/ \E n \in Names : AssocName(n)
        \/ \E at \in Scopes, n \in Names : Use(at, n)
        \/ Inline
        \/ \E o \in occ : Outline(o)
Spec == Init /\ [][Next]_vars

CorrectStepsKeepWellFormed == WellFormed(S, O)

\* ---- faulty variants, evaluated on every reachable tree
Codes(offs) == {x[1] : x \in offs}
MoveNoRescope == \A o \in occ : (o.at = 2 /\ o.scope = 2) =>
     LET O2 == SetToSeq({Occ(p) : p \in (occ \ {o}) \cup {[o EXCEPT !.at = 5]}}) IN "SC" \in Codes(Offenders(S, O2))
InlineNoRescope == \A o \in occ : (o.at = 4 /\ o.scope = 4) =>
     LET O2 == SetToSeq({Occ(p) : p \in (occ \ {o}) \cup {[o EXCEPT !.at = 2]}}) IN "SC" \in Codes(Offenders(S, O2))
RemoveUsedDecl == \A o \in occ : (o.scope \in Declaring /\ ~\E t \in ChainOf(o.at) \ {o.scope} : Introduces(t, o.name)) =>
     LET S2 == [S EXCEPT ![o.scope].declared = SetToSeq(decl[o.scope] \ {o.name})] IN "RS" \in Codes(Offenders(S2, O))
LostParent == \A s \in {3, 4} : LET S2 == [S EXCEPT ![s].parent = 0] IN "PL" \in Codes(Offenders(S2, O))
DuplicateDecl == \A s \in Declaring : \A n \in decl[s] :
     LET S2 == [S EXCEPT ![s].decls = SetToSeq(decl[s]) \o <<n>>] IN "UN" \in Codes(Offenders(S2, O))
ForeignScope == \A o \in occ : LET O2 == SetToSeq({Occ(p) : p \in (occ \ {o}) \cup {[o EXCEPT !.scope = -1]}}) IN "SC" \in Codes(Offenders(S, O2))
=============================================================================
