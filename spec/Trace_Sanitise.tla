---------------------------- MODULE Trace_Sanitise ----------------------------
(* Trace validation for C05.  One case = the abstract source of one placement (printed by    *)
(* Gen_Sanitise, rendered to text by the harness) + the observation recorded from Loki's FP  *)
(* frontend: c = [src, obs].  TLC computes the expected observables from src and decides.    *)
(* Prints <<"VERDICT", id, ok, first clause, n>> and one line "id#k" per violated clause.    *)
EXTENDS Sanitise, Json, IOUtils, SequencesExt
Cases == JsonDeserialize(IOEnv.CASES)
VARIABLE tid
Init_ == tid = 1
Next_ == /\ tid <= Len(Cases)
         /\ \E cl \in {Clauses(Cases[tid].src, Cases[tid].obs)} :
              LET ds == SetToSeq(cl) sid == ToString(Cases[tid].id) IN
              /\ PrintT(<<"VERDICT", Cases[tid].id, cl = {}, IF cl = {} THEN "ok" ELSE ds[1], Len(ds)>>)
              /\ \A k \in DOMAIN ds : PrintT(<<"VERDICT", sid \o "#" \o ToString(k), FALSE, ds[k], 0>>)
         /\ tid' = tid + 1
TraceSpec == Init_ /\ [][Next_]_tid
=============================================================================
