------------------------------ MODULE LoopRange ------------------------------
(* Fortran DO-loop iteration semantics (F2008 8.1.6.6.2) and the laws C10 demands of Loki's      *)
(* loop-range helpers.                                                                          *)
EXTENDS FExpr

\* iteration count, fixed on entry:  MAX((stop - start + step) / step, 0)  with truncating division
TripCount(start, stop, step) == Max2(TDiv(stop - start + step, step), 0)
\* the values the DO variable takes, in order
DoSeq(start, stop, step) == [k \in 1..TripCount(start, stop, step) |-> start + (k - 1) * step]

\* design-level sanity of the reference itself (checked by TLC over the whole bounded universe)
DoSeqLaws ==
  \A start \in -4..6, stop \in -4..6, step \in (-3..3) \ {0} :
    LET LL == DoSeq(start, stop, step) IN
      /\ \A k \in 1..Len(LL) : IF step > 0 THEN LL[k] <= stop ELSE LL[k] >= stop
      /\ (Len(LL) > 0 => LL[1] = start)
      /\ (IF step > 0 THEN start + Len(LL) * step > stop ELSE start + Len(LL) * step < stop)   \* maximal
      /\ \A k \in 1..(Len(LL) - 1) : LL[k + 1] - LL[k] = step
=============================================================================
