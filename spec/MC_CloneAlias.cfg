SPECIFICATION Spec
CONSTANT MutShareBody = FALSE
CONSTANT MutShareSpec = FALSE
CONSTANT MutShareTab = FALSE
CONSTANT MutShareMembers = FALSE
CONSTANT MutNoRescope = FALSE
CONSTANT MutStaleProcs = FALSE
CONSTANT MutRegisterInParent = FALSE
CONSTANT MutShareNest = FALSE
CONSTANT MaxDepth = 4
INVARIANT TypeOK
INVARIANT CloneFaithful
INVARIANT SymbolsResolveInOwnChain
INVARIANT ParentScopeOfOriginalUnchanged
PROPERTY OtherCopyUnchanged
PROPERTY EffectOnTarget
CHECK_DEADLOCK FALSE
