SPECIFICATION Spec
CONSTANT MaxNodes = 2
CONSTANT MaxDepth = 3
CONSTANT LeafTerms <- LeafTerms2
CONSTANT OneSlotKinds = {"loop", "assoc"}
CONSTANT WithCond = TRUE
CONSTANT WithMulti = FALSE
CONSTANT MaskRich = FALSE
CONSTANT Family = "map"
INVARIANT InvExactlyMapped
INVARIANT InvOthersKeep
INVARIANT InvNestedAgrees
INVARIANT InvIdentityMap
INVARIANT InvMaskAllOn
INVARIANT InvMaskSameLeaves
INVARIANT InvMaskSubseq
INVARIANT InvWellFormed
CHECK_DEADLOCK FALSE
