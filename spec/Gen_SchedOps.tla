---------------------------- MODULE Gen_SchedOps ----------------------------
(* Case generator for C25 (spec -> code): random behaviours of MC_SchedOps -- a random small       *)
(* project of the modelled universe, seed p1 (driver or kernel), a random history of MaxOps        *)
(* operations that satisfy the model's preconditions -- printed as JSON together with the names    *)
(* of the graph nodes the model predicts after every step.                                        *)
(* Run:  tlc -simulate num=K -depth MaxOps+3 -seed S                                               *)
EXTENDS MC_SchedOps, Json
VARIABLES gs, done, n0
gvars == <<S, G, hist, pc, gs, done, n0>>

V(X) == IF n0 < 0 THEN {} ELSE X      \* keeps RandomElement's argument state dependent (TLC caches constant expressions)
NodeNames(g) == SetToSeq({Full(x) : x \in g.nodes})
Base(P) == [mods |-> MapS(P.mods, LAMBDA m : [name |-> m.name, file |-> m.file, imports |-> m.imports, vars |-> m.vars, params |-> m.params]),
            procs |-> MapS(P.procs, LAMBDA r : [name |-> r.name, mod |-> r.mod, file |-> r.file, imports |-> r.imports, calls |-> r.calls])]

GInit == MCInit /\ gs = <<>> /\ done = FALSE /\ n0 = 0
GPick ==
  /\ pc = "pick"
  /\ \E f \in {RandomElement(V(Assigns(NP)))} : \E R \in {RandomElement(V(Rels))} : \E st \in {RandomElement(V(Styles))} :
     \E vi \in {RandomElement(V(BOOLEAN))} : \E drv \in {RandomElement(V({TRUE, TRUE, FALSE}))} :
       LET P == MkProject(NP, f, R, st, vi, "sep")
       IN IF LegalProject(P) /\ AcyclicProject(P) /\ Cardinality(Graph(InitState(P, ConfFor(P, drv))).nodes) >= 2
          THEN /\ S' = InitState(P, ConfFor(P, drv)) /\ G' = Graph(S') /\ pc' = "run"
          ELSE /\ S' = S /\ G' = G /\ pc' = "skip"
  /\ hist' = <<>> /\ gs' = <<>> /\ UNCHANGED <<done, n0>>
GStep == ~done /\ Step /\ gs' = Append(gs, NodeNames(G')) /\ UNCHANGED <<done, n0>>
GPrint ==
  /\ pc = "run" /\ ~done /\ Len(hist) >= 1
  /\ PrintT(<<"CASE", ToJson([P |-> Base(S.P0), C |-> S.C0, hist |-> hist, nodes |-> gs])>>)
  /\ done' = TRUE /\ UNCHANGED <<S, G, hist, pc, gs, n0>>
GNext == GPick \/ GStep \/ GPrint
GSpec == GInit /\ [][GNext]_gvars
=============================================================================
