---------------------------- MODULE PlanWrite ----------------------------
(* C24  Planning mode predicts exactly the files a conversion writes.                            *)
(*                                                                                               *)
(* Declarative part (used by Trace_PlanWrite on recorded runs):                                  *)
(*   a case c carries the abstract project P and configuration C (format of SchedProject, the    *)
(*   configuration additionally with `replicate` in [default] and hasReplicate/replicate,        *)
(*   hasLib/lib per routine entry), the pipeline `pipe` (operation records of SchedOps), the     *)
(*   file-write options fw = [suffix, mvi], outdir (a build directory is given), the mode (as    *)
(*   character codes), and for every project file [fid, dir, ext] where it was rendered.          *)
(*   A path is projected to  [kind, fid, dir, stem, mode, ext]:  kind "orig" = a project file    *)
(*   (fid), kind "new" = anything else, split into directory ("out" = the build directory, else  *)
(*   the sub-directory of the source tree), stem, mode part (character codes) and extension.     *)
(*   OriginOf(c, w)     the project file a written file is derived from                           *)
(*   Replicated(c, o)   the original o is kept next to its transformed copy                       *)
(* Property:  Append = Written,  Transform = OriginalsOf(Written),                                *)
(*            Remove = {o \in Transform : ~Replicated(o)}                                         *)
(*                                                                                               *)
(* Design part (MC_PlanWrite): the planner as an algorithm over file items -- FileWrite.plan_file *)
(* records the new path, CMakePlan.plan_file fills the three lists -- against the same property. *)
EXTENDS SchedOps

San(m) == [i \in DOMAIN m |-> IF m[i] = 45 THEN 95 ELSE m[i]]        \* '-' -> '_' in the mode string

\* effective `replicate` of an item (routine entries are matched by full or local name)
Repl(C, it) ==
  LET es == RoutineEntries(C, it)
  IN IF es # {} /\ (CHOOSE r \in es : TRUE).hasReplicate THEN (CHOOSE r \in es : TRUE).replicate ELSE C.replicate

FileRec(c, f) == CHOOSE r \in Range(c.files) : r.fid = f
FileIds(c) == {r.fid : r \in Range(c.files)}
NameOf(c, dir, stem, ext) ==
  [dir |-> IF c.outdir THEN "out" ELSE dir, stem |-> stem, mode |-> San(c.mode), ext |-> IF c.fw.suffix # "" THEN c.fw.suffix ELSE ext]
\* the file written for project file f
ExpectedName(c, f) == NameOf(c, FileRec(c, f).dir, f, FileRec(c, f).ext)
Key(w) == [dir |-> w.dir, stem |-> w.stem, mode |-> w.mode, ext |-> w.ext]

\* --- the effect of the pipeline on the set of program units: only dup and rm change which files hold items
\*     (dep / wrap rename units inside their files)
RECURSIVE Final(_, _, _)
Final(S, pipe, i) ==
  IF i > Len(pipe) THEN S
  ELSE Final(IF pipe[i].op \in {"dup", "rm"} THEN Apply(S, pipe[i]) ELSE S, pipe, i + 1)

\* files created by duplication: <<written name, original file>>; evaluated on the state before the dup operation
RECURSIVE DupFiles(_, _, _, _)
DupFiles(c, S, pipe, i) ==
  IF i > Len(pipe) THEN {}
  ELSE LET o == pipe[i]
           G == Graph(S)
           here == IF o.op # "dup" THEN {}
                   ELSE {<<NameOf(c, FileRec(c, FileOf(S.P, n)).dir, DupStem(n, o.sfx, o.msfx), FileRec(c, FileOf(S.P, n)).ext), FileOf(S.P, n)>>
                           : n \in {x \in DupSet(G, o.k, o.sub) : FileOf(S.P, x) \in FileIds(c)}}
       IN here \cup DupFiles(c, IF o.op \in {"dup", "rm"} THEN Apply(S, o) ELSE S, pipe, i + 1)

\* items a file write selects: procedures, with include_module_var_imports also modules; never ignored ones
Selected(c, G) == {n \in G.nodes : (n.kind = "proc" \/ (c.fw.mvi /\ n.kind = "mod")) /\ FALSE \in G.poss[n]}

\* <<kind, origin>> of a written file: "file" f = the transformed copy of project file f, "dup" f = a clone of (a unit of) f
OriginOf(c, S0, w) ==
  LET reg == {f \in FileIds(c) : ExpectedName(c, f) = Key(w)}
      dup == {d \in DupFiles(c, S0, c.pipe, 1) : d[1] = Key(w)}
  IN IF reg # {} THEN <<"file", CHOOSE f \in reg : TRUE>>
     ELSE IF dup # {} THEN <<"dup", (CHOOSE d \in dup : TRUE)[2]>>
     ELSE <<"none", "">>

\* an original is replicated iff one of the items of the graph it holds after the pipeline asks for it.  The planner
\* (item filter: none) looks at items of every kind that are not ignored -- also at the module item of a module that is
\* only in the graph because a variable is imported from it -- whatever the file write itself selects (observed on the
\* real planner; the documentation only says "items that don't have the replicate property")
Replicated(c, SF, GF, o) ==
  \E n \in {x \in GF.nodes : FALSE \in GF.poss[x]} : FileOf(SF.P, n) = o /\ Repl(c.C, n)

---------------------------------------------------------------------------------------------
(* Design model of the planner.  File items 1..N; per file: sel (it holds a selected item, i.e. it *)
(* is a node of the file graph), onDisk (its source path exists: FALSE for clones created by a     *)
(* duplication), repl, orig (for clones: the file it was cloned from, else itself), path (two      *)
(* file items may share a path: a renamed copy and the file read again).                           *)
VARIABLES files, todo, transform, append, remove
pwvars == <<files, todo, transform, append, remove>>

NewName(f) == <<"new", files[f].path>>                 \* FileWrite: a function of the path only
PlanFile(f) ==
  /\ f \in todo /\ todo' = todo \ {f}
  /\ IF NewName(f) \in append
     THEN UNCHANGED <<transform, append, remove>>           \* a second file item with the same new path is skipped
     ELSE /\ append' = append \cup {NewName(f)}
          /\ transform' = transform \cup (IF files[f].onDisk THEN {files[f].path} ELSE {})
                                    \cup (IF files[f].repl /\ ~files[f].onDisk /\ files[files[f].orig].onDisk
                                          THEN {files[files[f].orig].path} ELSE {})
          /\ remove' = remove \cup (IF ~files[f].repl /\ files[f].onDisk THEN {files[f].path} ELSE {})
  /\ UNCHANGED files
PlanNext == \E f \in todo : PlanFile(f)
PlanDone == todo = {}

WrittenM == {NewName(f) : f \in {g \in DOMAIN files : files[g].sel}}          \* what the conversion writes
OriginM(w) == {files[f].path : f \in {g \in DOMAIN files : files[g].sel /\ files[g].onDisk /\ NewName(g) = w}}
ReplicatedM(p) == \E f \in DOMAIN files : files[f].sel /\ files[f].path = p /\ files[f].repl
PlanMatchesWrites ==
  PlanDone => /\ append = WrittenM
              /\ transform = UNION {OriginM(w) : w \in WrittenM}
              /\ remove = {p \in transform : ~ReplicatedM(p)}
=============================================================================
