---- MODULE MC_CloneAlias ----
(* Design-level model checking of CloneAlias: every history of at most MaxDepth-1 events (the clone   *)
(* anywhere in it, modifications of either copy before and after) from both initial states (unit with *)
(* and without a parent scope).  The depth bound is part of Next (see README).                         *)
EXTENDS CloneAlias
====
