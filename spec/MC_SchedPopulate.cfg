SPECIFICATION MCSpec
CONSTANT NameChars <- TabChars
CONSTANT NP = 3
CONSTANT Tier = "quick"
INVARIANT Sound
INVARIANT GraphIsPrunedClosure
INVARIANT FlagsJustifiedMC
INVARIANT BfsOrder
INVARIANT QueueInGraph
CHECK_DEADLOCK FALSE
