---------------------------- MODULE Trace_JitBuild ----------------------------
(* Trace validation for C44: event logs recorded from REAL builds (loki.jit_build.Lib.build with *)
(* a compiler wrapper script that appends `start <obj>` / `end <obj> <rc>` lines to an O_APPEND  *)
(* log, and a compiler object that logs `submit` / `link` from the main process) are checked,    *)
(* one TLC step per event,                                                                        *)
(*   (P) against the property itself, evaluated on the log and the generator's module DAG:        *)
(*       P-StartAfterDepsFinished (observed, and predicted from an early submit), P-AtMostOnce,   *)
(*       P-LinkAfterAll, P-SameLibraryAsSerial;                                                   *)
(*   (M) against the next-state relation of JitBuild (refinement): every logged event must be     *)
(*       enabled in the model after the main thread's hidden steps (JitBuild!Closure).            *)
(* A failing P clause is a violation of C44; a failing M clause means the model does not describe *)
(* the implementation (machinery error), not that the property is broken.                         *)
(* Only the order of lines in the append-only log and the worker identity are used, never time.   *)
EXTENDS JitBuild, Json, IOUtils

Cases == JsonDeserialize(IOEnv.CASES)

VARIABLES tid, l, s, h
tvars == <<tid, l, s, h>>

SeqSet(q) == {q[i] : i \in 1..Len(q)}
Cfg(k) == [n |-> k.n, deps |-> [o \in 1..k.n |-> SeqSet(k.deps[o])], src |-> [o \in 1..k.n |-> k.src[o]],
           order |-> k.order, W |-> k.W]
H0 == [started |-> {}, ended |-> {}, busy |-> {}, workers |-> {}, linked |-> FALSE, mfail |-> "", mpos |-> 0]
StartOf(i) == IF i <= Len(Cases) THEN InitState(Cfg(Cases[i]), FALSE) ELSE <<>>

\* ---- property clauses, on the log alone
PClause(c, hh, e) ==
  CASE e.a = "start" ->
         IF e.o \in hh.started THEN "P-AtMostOnce:second-start"
         ELSE IF ~(SrcDeps(c, e.o) \subseteq hh.ended) THEN "P-StartAfterDepsFinished"
         ELSE "ok"
    [] e.a = "submit" ->
         \* predictive clause: a compile command handed to the process pool may be started by any free worker
         \* at any time (the pool is not Loki's), so with W > 1 submitting o while a provider of one of its
         \* modules is unfinished admits a schedule with start(o) before end(d) -- the property quantifies
         \* over all schedules.  (With W = 1 submit is the synchronous compile itself: see "start".)
         IF c.W > 1 /\ e.o \in Objs(c) /\ ~(SrcDeps(c, e.o) \subseteq hh.ended)
         THEN "P-StartAfterDepsFinished:early-submit" ELSE "ok"
    [] e.a = "link" ->
         IF ~(Sourced(c) \subseteq hh.ended) THEN "P-LinkAfterAll:object-never-compiled" ELSE "ok"
    [] OTHER -> "ok"

PFinal(k, c, hh) ==
  IF hh.linked /\ ~(Sourced(c) \subseteq hh.ended) THEN "P-LinkAfterAll:object-never-compiled"
  ELSE IF k.built # k.base_built THEN "P-SameLibraryAsSerial:build-outcome"
  ELSE IF k.members # k.base_members THEN "P-SameLibraryAsSerial:members"
  ELSE "ok"

\* ---- model clauses (refinement of JitBuild)
ModelEv(e) == Ev(IF e.a = "end" THEN "finish" ELSE e.a, IF e.a = "link" THEN 0 ELSE e.o)

MClause(k, c, ss, hh, e) ==
  IF e.a \in {"submit", "start", "end"} /\ e.o \notin Objs(c) THEN "M-unknown-object"
  ELSE IF e.a = "end" /\ (e.o \notin hh.started \/ e.o \in hh.ended) THEN "M-end-without-start"
  ELSE IF e.a = "end" /\ <<e.w, e.o>> \notin hh.busy THEN "M-end-on-other-worker"
  ELSE IF e.a = "end" /\ e.rc # 0 THEN "M-compile-failed"
  ELSE IF e.a = "start" /\ \E b \in hh.busy : b[1] = e.w THEN "M-worker-runs-two-tasks"
  ELSE IF e.a = "start" /\ Cardinality(hh.workers \cup {e.w}) > c.W THEN "M-more-workers-than-W"
  ELSE IF ~k.model THEN "ok"
  ELSE IF ~IsRevTopo(c) THEN "M-order-not-reverse-topological"
  ELSE IF ~En(c, Closure(c, ss), ModelEv(e)) THEN "M-not-enabled:" \o e.a
  ELSE "ok"

MFinal(k, c, ss, hh) ==
  IF ~hh.linked THEN "M-no-link-event"
  ELSE IF k.model /\ hh.mfail = "" /\ ss.pc # "linked" THEN "M-model-not-linked"
  ELSE "ok"

NextH(hh, e) ==
  CASE e.a = "start" -> [hh EXCEPT !.started = @ \cup {e.o}, !.busy = @ \cup {<<e.w, e.o>>}, !.workers = @ \cup {e.w}]
    [] e.a = "end"   -> [hh EXCEPT !.ended = @ \cup {e.o}, !.busy = @ \ {<<e.w, e.o>>}]
    [] e.a = "link"  -> [hh EXCEPT !.linked = TRUE]
    [] OTHER         -> hh

Advance == tid' = tid + 1 /\ l' = 1 /\ s' = StartOf(tid + 1) /\ h' = H0
Verdict(k, ok, clause, pos) == PrintT(<<"VERDICT", k.id, ok, clause, pos>>) /\ Advance

Init_ == tid = 1 /\ l = 1 /\ s = StartOf(1) /\ h = H0

Next_ ==
  /\ tid <= Len(Cases)
  /\ LET k == Cases[tid]
         c == Cfg(k)
     IN IF l > Len(k.events)
        THEN LET pf == PFinal(k, c, h)
                 mf == MFinal(k, c, s, h)
             IN IF pf # "ok" THEN Verdict(k, FALSE, pf, l)
                ELSE IF h.mfail # "" THEN Verdict(k, FALSE, h.mfail, h.mpos)
                ELSE IF mf # "ok" THEN Verdict(k, FALSE, mf, l)
                ELSE Verdict(k, TRUE, "ok", 0)
        ELSE LET e  == k.events[l]
                 pc == PClause(c, h, e)
                 \* after the first model mismatch the model is switched off and only P clauses are evaluated
                 \* on the rest of the log; the mismatch is reported at the end unless a P clause fails
                 mc == IF pc = "ok" /\ h.mfail = "" THEN MClause(k, c, s, h, e) ELSE "ok"
             IN IF pc # "ok" THEN Verdict(k, FALSE, pc, l)
                ELSE /\ s' = IF k.model /\ h.mfail = "" /\ mc = "ok" THEN Ap(c, Closure(c, s), ModelEv(e)) ELSE s
                     /\ h' = [NextH(h, e) EXCEPT !.mfail = IF h.mfail = "" THEN (IF mc = "ok" THEN "" ELSE mc) ELSE h.mfail,
                                                 !.mpos = IF h.mfail = "" /\ mc # "ok" THEN l ELSE h.mpos]
                     /\ l' = l + 1 /\ tid' = tid

TraceSpec == Init_ /\ [][Next_]_tvars

\* the model's own invariants, re-checked on every state reached while replaying real logs
ReplayedStatesSatisfyInvariants ==
  (tid <= Len(Cases) /\ Cases[tid].model /\ h.mfail = "") =>
     LET c == Cfg(Cases[tid]) IN StartAfterDepsFinishedP(c, s) /\ AtMostOnceP(c, s) /\ LinkAfterAllP(c, s)
                                 /\ ConcurrencyBoundP(c, s)
=============================================================================
