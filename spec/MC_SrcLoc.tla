------------------------------ MODULE MC_SrcLoc ------------------------------
EXTENDS SrcLoc
F == <<"subroutine s(x)", "  x = 1; y = 2  ! c", "  call f(x, &", "     & y)", "", "end subroutine s">>
VARIABLES a, b, h, t
vars == <<a, b, h, t>>
Init == /\ a \in 1..Len(F) /\ b \in a..Len(F)
        /\ h \in 0..3 /\ t \in 0..3
        /\ h + t <= Len(F[a]) /\ h + t <= Len(F[b])
        /\ (a = b => h + t <= Len(F[a]))
Next == UNCHANGED vars /\ FALSE
Spec == Init /\ [][Next]_vars
N == Cut(F, a, b, h, t)
CutAccepted == NodeClause(F, N) = "ok"
OpenEndAccepted == NodeClause(F, [N EXCEPT !.l1 = 0]) = "ok"
\* shifting the recorded lines is rejected unless the text happens to sit there as well
ShiftRejected == \A d \in {1, 2} :
   (b + d <= Len(F) /\ SubSeq(F, a + d, b + d) # SubSeq(F, a, b))
      => NodeClause(F, [N EXCEPT !.l0 = a + d, !.l1 = b + d]) # "ok" \/ \A i \in 1..Len(N.text) : IsSub(N.text[i], F[a + d + i - 1])
\* dropping a line of the text or recording a longer span is rejected
\* dropping a (non-empty) line of the text is rejected; dropping an empty first line is the documented exemption
LineCountRejected == (b > a /\ h = 0 /\ \A i \in a..b : F[i] # "") => NodeClause(F, [N EXCEPT !.text = Tail(@)]) # "ok"
BlankEndsExempt == (b > a /\ F[b] = "") => NodeClause(F, [N EXCEPT !.text = SubSeq(@, 1, Len(@) - 1)]) = "ok"
OutsideRejected == NodeClause(F, [N EXCEPT !.l1 = Len(F) + 1, !.l0 = Len(F) + 1 - (b - a)]) = "span-outside-file"
\* a changed character is rejected
CorruptRejected == Len(N.text[1]) > 0 => NodeClause(F, [N EXCEPT !.text[1] = "#" \o @]) # "ok"
=============================================================================
