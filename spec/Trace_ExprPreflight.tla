-------------------------- MODULE Trace_ExprPreflight --------------------------
(* Reality check of the reference semantics: gfortran evaluated the token string on the integer *)
(* valuation (a, b, c) and printed `expect`; FParse + FExpr must predict the same number.        *)
EXTENDS FParse, Json, IOUtils
Cases == JsonDeserialize(IOEnv.CASES)
Judge(c) ==
  LET r == Parse(c.toks)
      env == [n \in VarNames |-> I(IF n = "a" THEN c.a ELSE IF n = "b" THEN c.b ELSE c.c)]
  IN IF r.e.k = "bad" THEN <<FALSE, "unparsable", 0>>
     ELSE LET v == Eval(r.e, env) IN
          IF v.t = "int" /\ v.v = c.expect THEN <<TRUE, "ok", 1>>
          ELSE <<FALSE, "spec=" \o ToString(Image(v)) \o ":gfortran=" \o ToString(c.expect), 1>>
VARIABLE tid
Init == tid = 1
Next == /\ tid <= Len(Cases)
        /\ LET c == Cases[tid] j == Judge(c) IN PrintT(<<"VERDICT", c.id, j[1], j[2], j[3]>>)
        /\ tid' = tid + 1
Spec == Init /\ [][Next]_tid
=============================================================================
