SPECIFICATION Spec
CONSTANT MutDetachForgetsPost = FALSE
CONSTANT MutUnregDropsEnd = FALSE
CONSTANT MutDfaSkipsAttached = FALSE
CONSTANT MaxDepth = 4
CONSTANT MaxStack = 2
CONSTANT TreeLen = 2
CONSTANT InitTrees <- MCInitTrees
INVARIANT InitIsFlat
INVARIANT NothingLost
INVARIANT BalancedRestores
INVARIANT DataflowFullyDetached
CHECK_DEADLOCK FALSE
