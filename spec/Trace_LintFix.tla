---------------------------- MODULE Trace_LintFix ----------------------------
(* Batch validation of recorded lint-fix runs (C43).  One case per (program, clause):            *)
(*   clause "A" FixApplies  [raised]            - Linter.check + Linter.fix completed              *)
(*   clause "R" ReLintClean [relint, relint_raised] - re-linting the fixed file reports no         *)
(*                                                 violation of the fixable rules                  *)
(*   clause "U" Unchanged   [orig, fixed]       - only the targets changed (LintFix!Unchanged)     *)
EXTENDS LintFix, Json, IOUtils
Cases == JsonDeserialize(IOEnv.CASES)

Abbrev(rs) == IF rs = FixRules THEN "ops+ub"
              ELSE IF rs = {"Fortran90OperatorsRule"} THEN "ops"
              ELSE IF rs = {"DynamicUboundCheckRule"} THEN "ub" ELSE "none"
FirstLine(c) == LET S == {i \in 1..Len(c.relint) : c.relint[i].rule \in FixRules} IN
                IF S = {} THEN 0 ELSE c.relint[CHOOSE i \in S : \A k \in S : i <= k].line

Judge(c) ==
  CASE c.clause = "A" -> IF FixApplies(c) THEN <<TRUE, "ok", 0>> ELSE <<FALSE, "A:" \o c.raised, 0>>
    [] c.clause = "R" -> IF ReLintClean(c) THEN <<TRUE, "ok", 0>>
                         ELSE IF c.relint_raised # "" THEN <<FALSE, "R:raised:" \o c.relint_raised, 0>>
                         ELSE <<FALSE, "R:" \o Abbrev(ReLintRules(c)), FirstLine(c)>>
    [] c.clause = "U" -> LET u == Unchanged(c.orig, c.fixed) IN
                         IF u.cls = {} THEN <<TRUE, "ok", 0>> ELSE <<FALSE, "U:" \o Join(u.cls, 1), u.pos>>

VARIABLE tid
Init == tid = 1
Next == /\ tid <= Len(Cases)
        /\ LET c == Cases[tid] j == Judge(c) IN PrintT(<<"VERDICT", c.id, j[1], j[2], j[3]>>)
        /\ tid' = tid + 1
Spec == Init /\ [][Next]_tid
=============================================================================
