SPECIFICATION Spec
INVARIANT IdealAccepted
INVARIANT Sensitive
INVARIANT TargetExempt
INVARIANT RestoreDemanded
INVARIANT NotParsingRejected
INVARIANT NonVacuous
CHECK_DEADLOCK FALSE
