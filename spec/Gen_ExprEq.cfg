SPECIFICATION GSpec
CHECK_DEADLOCK FALSE
CONSTANT Wide = FALSE
