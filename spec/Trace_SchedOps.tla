---------------------------- MODULE Trace_SchedOps ----------------------------
(* Trace validation for C25: one case = one history of item-changing transformations replayed on  *)
(* the real loki.batch.Scheduler (process_transformation in order), with the state of the real    *)
(* scheduler projected after every step FROM THE IR of its items (no text matching).              *)
(*   c.P0, c.C0   abstract project / configuration the files were rendered from                   *)
(*   c.hist       operations  [op, k, sfx, msfx, sub]                                             *)
(*   c.steps      observations; steps[1] = initial state, steps[i+1] = state after hist[i]:       *)
(*     seeds      current seeds of the scheduler as seed records                                  *)
(*     nodes      graph items [name, kind, ignored, file (source key), role, same (the cache entry  *)
(*                of that name is this very object)], edges                                       *)
(*     cache      item cache entries (no file items) [key, name, kind, live (the item finds its IR),*)
(*                irname (scope#name as the IR node itself is called)]                            *)
(*     PC         the program units of the live cache items (format of SchedProject; `calls` = names  *)
(*                the routine depends on: CALL statements and interface-block declarations,        *)
(*                `rcalls` = the CALL statements alone, `ifaces` = the interface declarations)      *)
(*     PG         the program units of the sources of the graph items = what a file write emits   *)
(*     paths      [key, path] of these sources;  untouched: ids of the project files that are not  *)
(*                the origin of any of them (they stay in the build as they are)                  *)
(*     raised     exception text of the step ("" if none)                                        *)
(*   c.final      [visits, raised, link]: the probe of C22 processed after the history, then       *)
(*                FileWriteTransformation + gfortran compile and link of the written files, the    *)
(*                untouched project files and a harness-owned main program calling the seeds      *)
(* Every state must satisfy the invariants of SchedOps; every step must show the documented       *)
(* effect of its operation on the graph.  For cases of the modelled universe (c.modelled) the      *)
(* graph nodes predicted by SchedOps!Apply are compared as well (reported, not judged).            *)
EXTENDS SchedOps, Json, IOUtils
VARIABLES G, M, vseq
SP == INSTANCE SchedProcess

Cases == JsonDeserialize(IOEnv.CASES)
JsonChars(P, n) == P.chars[n]
VARIABLE tid

SeqRange(s) == {s[i] : i \in DOMAIN s}
ConfNow(c, o) == [c.C0 EXCEPT !.seeds = o.seeds, !.routines = <<>>]
NodeNamesOf(o) == {o.nodes[i].name : i \in DOMAIN o.nodes}
EdgesOf(o) == {<<o.edges[i][1], o.edges[i][2]>> : i \in DOMAIN o.edges}
ProcNodesOf(o) == {n \in SeqRange(o.nodes) : n.kind = "proc"}
\* the units a build would see: what is written + the project files Loki did not touch (the latter only provide
\* definitions: their own references are not "processed sources")
BuildProject(c, o) ==
  [mods |-> o.PG.mods \o SelectSeq(c.P0.mods, LAMBDA m : m.file \in SeqRange(o.untouched)),
   procs |-> o.PG.procs \o SelectSeq(c.P0.procs, LAMBDA r : r.file \in SeqRange(o.untouched))]

\* --- state invariants
StateClause(c, o) ==
  LET C == ConfNow(c, o)
      cache == SeqRange(o.cache)
      keys == {e.key : e \in cache}
      nodes == SeqRange(o.nodes)
      PB == BuildProject(c, o)
  IN
  IF o.raised # "" THEN "raised"
  ELSE IF \E e \in cache : e.kind \in {"proc", "mod"} /\ ~e.live THEN "cache-dead-item"
  ELSE IF \E e \in cache : e.key # e.name THEN "cache-key-stale"
  ELSE IF \E e \in cache : e.kind \in {"proc", "mod"} /\ e.irname # e.name THEN "cache-name-stale"
  ELSE IF \E n \in nodes : n.name \notin keys THEN "node-not-in-cache"
  ELSE IF \E n \in nodes : ~n.same THEN "node-not-cache-object"
  ELSE IF \E n \in nodes : n.kind \notin {"proc", "mod"} THEN "node-kind"
  ELSE IF ~UniqueUnits(o.PC) THEN "cache-units-ambiguous"
  ELSE IF ~SeedsResolve(o.PC, C) THEN "seed-unresolved"
  ELSE IF ~Consistent(o.PC, C) THEN "dangling-ref-in-graph"
  ELSE
  \* a routine declared in an interface block is a dependency by name; whether it is still an edge when nothing calls it
  \* any more (RemoveKernel and DuplicateKernel leave such blocks behind) is not documented: the graph must lie between the
  \* closure over the CALL statements alone and the closure over CALL statements + interface declarations
  LET T == PrunedClosure(o.PC, C)
      PL == [o.PC EXCEPT !.procs = MapS(@, LAMBDA r : [r EXCEPT !.calls = r.rcalls])]
      TL == PrunedClosure(PL, C)
      unames == {Full(n) : n \in T.nodes}
      uedges == {<<Full(e[1]), Full(e[2])>> : e \in T.edges}
      lnames == {Full(n) : n \in TL.nodes}
      ledges == {<<Full(e[1]), Full(e[2])>> : e \in TL.edges}
  IN
  IF lnames \ NodeNamesOf(o) # {} THEN "nodes-missing"
  ELSE IF NodeNamesOf(o) \ unames # {} THEN "nodes-extra"
  ELSE IF ledges \ EdgesOf(o) # {} THEN "edges-missing"
  ELSE IF EdgesOf(o) \ uedges # {} THEN "edges-extra"
  ELSE IF \E i, j \in DOMAIN o.paths : i # j /\ o.paths[i].path = o.paths[j].path THEN "output-path-clash"
  ELSE IF ~UniqueUnits(PB) THEN "output-duplicate-unit"
  ELSE IF \E r \in Procs(o.PG) : ~ProcRefsLegal(PB, r) THEN "output-dangling-ref"
  ELSE IF \E m \in Mods(o.PG) : ~ModRefsLegal(PB, m) THEN "output-dangling-ref"
  ELSE "ok"

\* --- the documented effect of an operation on the graph (p: state before, o: state after)
EffectClause(op, again, p, o) ==
  LET pn == ProcNodesOf(p)
      onames == NodeNamesOf(o)
      procOf(nm) == CHOOSE r \in Procs(p.PC) : (r.mod \o "#" \o r.name) = nm
      \* a free kernel routine is wrapped when all items of its file are kernels; its callers in the graph must have
      \* declared it in an interface block (the documented way to divert them to the new module)
      wrappable(a) == /\ a.role = "kernel" /\ ~a.ignored /\ a.scope = ""
                      /\ \A b \in SeqRange(p.nodes) : b.file = a.file => b.role = "kernel"
                      /\ \A e \in EdgesOf(p) : e[2] = a.name => a.local \in Range(procOf(e[1]).ifaces)
  IN
  CASE op.op = "rm" ->
         IF \E r \in Procs(o.PC) : (r.mod \o "#" \o r.name) \in onames /\ op.k \in Range(r.rcalls) THEN "rm-call-left" ELSE "ok"
    [] op.op = "dup" ->
         LET ms == IF op.msfx = "" THEN op.sfx ELSE op.msfx
             \* (a processed routine that really CALLs k; an interface block alone is a dependency but not a call)
             heads == {e \in EdgesOf(p) : \E a \in pn, b \in pn : /\ a.name = e[1] /\ ~a.ignored /\ b.name = e[2] /\ b.local = op.k
                                                                  /\ op.k \in Range(procOf(e[1]).rcalls)}
             clone(b) == (IF b.scope = "" THEN "" ELSE b.scope \o ms) \o "#" \o b.local \o op.sfx
             nodeOf(nm) == CHOOSE b \in pn : b.name = nm
         IN IF \E e \in heads : clone(nodeOf(e[2])) \notin onames THEN "dup-clone-missing"
            ELSE IF \E e \in heads : <<e[1], clone(nodeOf(e[2]))>> \notin EdgesOf(o) THEN "dup-edge-missing"
            ELSE IF \E e \in heads : e[2] \notin onames \/ e \notin EdgesOf(o) THEN "dup-original-lost"
            ELSE "ok"
    [] op.op = "dep" ->
         \* (applied again with the same suffix the transformation is documented to be idempotent)
         IF \E a \in pn : a.role = "kernel" /\ ~a.ignored
                          /\ ~\E b \in ProcNodesOf(o) : b.local = (IF again THEN a.local ELSE a.local \o op.sfx) THEN "dep-not-suffixed"
         ELSE IF \E a \in pn : a.role # "kernel" /\ a.name \notin onames THEN "dep-driver-renamed"
         ELSE "ok"
    [] op.op = "wrap" ->
         IF \E a \in pn : wrappable(a) /\ (a.local \o op.msfx \o "#" \o a.local) \notin onames THEN "wrap-not-wrapped"
         ELSE "ok"
    [] OTHER -> "bad-op"

\* --- later processing visits the survivors (the walk of Trace_SchedProcess)
GraphOf(o) == [nodes |-> {[name |-> n.name, kind |-> n.kind, ignored |-> n.ignored, file |-> n.file] : n \in SeqRange(o.nodes)},
               edges |-> EdgesOf(o)]
Man == [filter |-> {"proc", "mod"}, reverse |-> FALSE, filegraph |-> FALSE, procign |-> FALSE]
RECURSIVE Walk(_, _, _, _)
Walk(g, vs, i, seen) ==
  IF i > Len(vs) THEN (IF seen = SP!Units(g, Man) THEN "ok" ELSE "visit-missing")
  ELSE LET u == vs[i].unit
       IN IF u \notin SP!Units(g, Man) THEN "visit-unselected"
          ELSE IF u \in seen THEN "visit-twice"
          ELSE IF ~SP!CanVisit(g, Man, seen, u) THEN "visit-order"
          ELSE IF ~vs[i].live THEN "visit-dead-ir"
          ELSE Walk(g, vs, i + 1, seen \cup {u})

FinalClause(c) ==
  LET o == c.steps[Len(c.steps)]
  IN IF c.final.raised # "" THEN "process-raised"
     ELSE LET w == Walk(GraphOf(o), c.final.visits, 1, {})
          IN IF w # "ok" THEN w ELSE IF c.final.link # "ok" THEN "link" ELSE "ok"

RECURSIVE StepsFrom(_, _)
StepsFrom(c, i) ==      \* i: index into c.steps
  IF i > Len(c.steps) THEN <<FinalClause(c), Len(c.steps)>>
  ELSE LET sc == StateClause(c, c.steps[i])
       IN IF sc # "ok" THEN <<sc, i - 1>>
          ELSE LET again == \E j \in 1..(i - 2) : c.hist[j].op = c.hist[i - 1].op /\ c.hist[j].sfx = c.hist[i - 1].sfx /\ c.hist[j].k = c.hist[i - 1].k
                   ec == IF i = 1 THEN "ok" ELSE EffectClause(c.hist[i - 1], again, c.steps[i - 1], c.steps[i])
               IN IF ec # "ok" THEN <<ec, i - 1>> ELSE StepsFrom(c, i + 1)

Verdict(c) ==
  IF ~(LegalProject(c.P0) /\ AcyclicProject(c.P0) /\ LegalConfig(c.P0, c.C0)) THEN <<"illegal-input", 0>>
  ELSE StepsFrom(c, 1)

\* --- agreement of the observed graph nodes with the model (modelled universe only; informational)
RECURSIVE Agree(_, _, _, _)
Agree(c, S, i, k) ==
  IF i > Len(c.hist) \/ i + 1 > Len(c.steps) THEN k
  ELSE IF ~Consistent(S.P, S.C) THEN k
  ELSE LET S2 == Apply(S, c.hist[i])
       IN IF ~Consistent(S2.P, S2.C) THEN k
          ELSE Agree(c, S2, i + 1, k + (IF {Full(n) : n \in Graph(S2).nodes} = NodeNamesOf(c.steps[i + 1]) THEN 1 ELSE 0))

Init_ == tid = 1 /\ G = <<>> /\ M = <<>> /\ vseq = <<>>
Next_ ==
  /\ tid <= Len(Cases)
  /\ LET c == Cases[tid]
         v == Verdict(c)
     IN /\ PrintT(<<"VERDICT", c.id, v[1] = "ok", v[1], v[2]>>)
        /\ IF c.modelled /\ v[1] # "illegal-input"
           THEN PrintT(<<"VERDICT", ToString(c.id) \o "#a", TRUE, "agree", Agree(c, InitState(c.P0, c.C0), 1, 0)>>)
           ELSE TRUE
  /\ tid' = tid + 1 /\ UNCHANGED <<G, M, vseq>>
TraceSpec == Init_ /\ [][Next_]_<<tid, G, M, vseq>>
=============================================================================
