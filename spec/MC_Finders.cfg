SPECIFICATION Spec
CONSTANT MaxNodes = 4
CONSTANT MaxDepth = 3
INVARIANT InvComplete
INVARIANT InvGreedy
INVARIANT InvTypeDefOpaque
INVARIANT InvExprComplete
INVARIANT InvPairsFlatten
INVARIANT InvAccepts
INVARIANT InvRejects
INVARIANT InvScopes
CHECK_DEADLOCK FALSE
