----------------------------- MODULE VarFactory -----------------------------
(***************************************************************************)
(* C13  Symbols are classified by their declared type and share it by      *)
(* scope (loki.expression.symbols.Variable, TypedSymbol.type, clone,       *)
(* rescope).                                                               *)
(*                                                                         *)
(* Part 1: the classification decision (the "tier algorithm" of the        *)
(* Variable docstring) as a function Classify(effective type, dimensions   *)
(* given), where the effective type is the explicit `type` argument, else  *)
(* the innermost entry for the name found through the scope chain, else    *)
(* (for a derived-type member whose entry is missing/deferred) the type    *)
(* declared for the component in the parent's type definition.             *)
(*                                                                         *)
(* Part 2: a state machine of histories over a few symbols and three       *)
(* nested scopes:  Create / SetType / Clone / Rescope / Detach.            *)
(*   st.tab[s][n]   type recorded for name n in scope s ("none" = absent)  *)
(*   st.syms[k]     k-th symbol object ever created: name, scope (0 =      *)
(*                  unattached), own (locally stored type of an unattached *)
(*                  symbol), dims (subscripts given), pc (parent           *)
(*                  component mode), cls (class chosen at creation)        *)
(* "All type information [of an attached symbol] is cached in that scope's *)
(* SymbolTable" (TypedSymbol docstring): attaching a symbol to scope s     *)
(* records its effective type under its name in s itself.                  *)
(*                                                                         *)
(* Apply(st, e) is the functional core shared by the model-checking spec   *)
(* (MC_VarFactory), the behaviour generator (Gen_VarFactory) and the trace *)
(* spec (Trace_VarFactory).                                                *)
(***************************************************************************)
EXTENDS Integers, Sequences, FiniteSets, TLC

Scopes == 1..3                       \* chain 1 -> 2 -> 3 ; 3 is the outermost scope
Parent(s) == IF s < 3 THEN s + 1 ELSE 0
Names  == {"x", "y", "d%x"}          \* "d%x" is only used for derived-type members (pc # "none")
None   == "none"

\* a type = declared data type x "has a shape";  encoded as a string so that it can be recorded as JSON
DTypes == {"deferred", "int", "real", "derived", "proc"}
Shaped == {d \o "[]" : d \in DTypes}
Types  == DTypes \cup Shaped
Dtype(t) == CHOOSE d \in DTypes : t \in {d, d \o "[]"}
HasShape(t) == t \in Shaped

\* parent-component modes of a symbol named d%x:
\*   "none" plain symbol; "ts" parent's type definition declares x as integer scalar;
\*   "ta" ... as integer array; "nt" parent is of a derived type without (known) definition
PCs == {"none", "ts", "ta", "nt"}
MemberType(pc) == IF pc = "ts" THEN "int" ELSE IF pc = "ta" THEN "int[]" ELSE None

Classes == {"ProcedureSymbol", "Array", "Scalar", "DeferredTypeSymbol"}

(***************************************************************************)
(* Part 1 - the tier algorithm (Variable docstring):                       *)
(*  1. type.dtype is a procedure type            -> ProcedureSymbol        *)
(*  2. dimensions given or type.shape recorded   -> Array                  *)
(*  3. type.dtype is not deferred                -> Scalar                 *)
(*  4. none of the above                         -> DeferredTypeSymbol     *)
(***************************************************************************)
Classify(eff, dims) ==
  IF eff # None /\ Dtype(eff) = "proc" THEN "ProcedureSymbol"
  ELSE IF dims \/ (eff # None /\ HasShape(eff)) THEN "Array"
  ELSE IF eff # None /\ Dtype(eff) # "deferred" THEN "Scalar"
  ELSE "DeferredTypeSymbol"

Has(tab, s, n) == tab[s][n] # None

RECURSIVE LookupR(_, _, _)
LookupR(tab, s, n) == IF Has(tab, s, n) THEN tab[s][n]
                      ELSE IF Parent(s) = 0 THEN None
                      ELSE LookupR(tab, Parent(s), n)

\* type seen through scope s for name n: innermost entry on the chain; a missing or deferred entry of a
\* derived-type member falls back to the declaration in the parent's type definition
ScopeType(tab, s, n, pc) ==
  LET e == LookupR(tab, s, n) IN
    IF MemberType(pc) # None /\ (e = None \/ Dtype(e) = "deferred") THEN MemberType(pc) ELSE e

\* effective type at construction: explicit `type` argument wins, then the scope, else nothing
EffType(tab, s, n, t, pc) == IF t # None THEN t ELSE IF s # 0 THEN ScopeType(tab, s, n, pc) ELSE None

EmptyTab == [s \in Scopes |-> [n \in Names |-> None]]
InitSt == [tab |-> EmptyTab, syms |-> <<>>]

\* the type a symbol reports (`var.type`): attached -> looked up through its scope; unattached -> its own
TypeOf(st, k) == LET v == st.syms[k] IN
                   IF v.scope = 0 THEN v.own ELSE ScopeType(st.tab, v.scope, v.name, v.pc)

\* construct a symbol (Variable(name=n, scope=s, type=t, dimensions=.., parent=..)): classify, attach,
\* cache the type in scope s (explicit type overwrites the entry; without one the entry found - or
\* "deferred" if there is none - is recorded); an unattached symbol stores the type itself
\* (`type` "Defaults to BasicType.DEFERRED")
Construct(st, n, s, t, dims, pc) ==
  LET eff == EffType(st.tab, s, n, t, pc)
      cls == Classify(eff, dims)
      rec == IF eff = None THEN "deferred" ELSE eff
      v   == [name |-> n, scope |-> s, own |-> IF s = 0 THEN rec ELSE None,
              dims |-> (dims /\ cls = "Array"), pc |-> pc, cls |-> cls]
  IN  [tab  |-> IF s = 0 THEN st.tab ELSE [st.tab EXCEPT ![s][n] = rec],
       syms |-> Append(st.syms, v)]

(***************************************************************************)
(* Events: e = [op, k, n, s, t, dims, pc]                                  *)
(*  create : Variable(name=n, scope=s (0: none), type=t ("none": omitted), *)
(*           dimensions given?, parent component mode)                     *)
(*  settype: the type recorded for n in scope s becomes t                  *)
(*  clone  : syms[k].clone(scope=.., type=..) with s = -1 (scope omitted), *)
(*           0 (scope=None) or a scope; t = "keep" (type omitted) or type  *)
(*  rescope: syms[k].rescope(scope s)                                      *)
(*  detach : syms[k].clone(scope=None)                                     *)
(***************************************************************************)
Apply(st, e) ==
  CASE e.op = "create"  -> Construct(st, e.n, e.s, e.t, e.dims, e.pc)
    [] e.op = "settype" -> [st EXCEPT !.tab[e.s][e.n] = e.t]
    [] e.op = "clone"   -> LET v == st.syms[e.k]
                               s2 == IF e.s = -1 THEN v.scope ELSE e.s
                               t2 == IF e.t = "keep" THEN TypeOf(st, e.k) ELSE e.t
                           IN  Construct(st, v.name, s2, t2, v.dims, v.pc)
    [] e.op = "detach"  -> LET v == st.syms[e.k] IN Construct(st, v.name, 0, TypeOf(st, e.k), v.dims, v.pc)
    \* rescope never overwrites an existing entry visible from the new scope, but inserts the symbol's
    \* type if there is none
    [] e.op = "rescope" -> LET v == st.syms[e.k]
                               ex == LookupR(st.tab, e.s, v.name)
                           IN  Construct(st, v.name, e.s, IF ex # None THEN ex ELSE TypeOf(st, e.k), v.dims, v.pc)

Ev(op, k, n, s, t, dims, pc) == [op |-> op, k |-> k, n |-> n, s |-> s, t |-> t, dims |-> dims, pc |-> pc]

\* Enabled event vocabulary in a state, over type universe T and plain names N.
\* Exclusions (documentation does not decide them, so no history uses them):
\*  - clone(scope=s) without `type` into a scope that already records a *different* type for the name
\*    (the Variable docstring describes clone as "with the type update", the code keeps the entry);
\*  - an unattached symbol created with subscripts but without any type (its stored type is "no type"
\*    rather than deferred) is never cloned/rescoped, so such a creation is excluded from histories.
EvCreate(T, N) == {Ev("create", 0, n, s, t, d, "none") : n \in N, s \in 0..3, t \in T \cup {None}, d \in BOOLEAN}
                    \ {Ev("create", 0, n, 0, None, TRUE, "none") : n \in N}
EvSet(T, N)    == {Ev("settype", 0, n, s, t, FALSE, "none") : n \in N, s \in Scopes, t \in T}
EvClone(st, T) ==
  UNION {{Ev("clone", k, st.syms[k].name, s, t, FALSE, "none") : s \in -1..3, t \in T \cup {"keep"}}
           : k \in 1..Len(st.syms)}
CloneOK(st, e) ==
  (e.s >= 1 /\ e.t = "keep") => (~Has(st.tab, e.s, e.n) \/ st.tab[e.s][e.n] = TypeOf(st, e.k))
EvRescope(st) == {Ev("rescope", k, st.syms[k].name, s, "keep", FALSE, "none") : k \in 1..Len(st.syms), s \in Scopes}
EvDetach(st)  == {Ev("detach", k, st.syms[k].name, 0, "keep", FALSE, "none") : k \in 1..Len(st.syms)}

Events(st, T, N, maxsyms) ==
  EvSet(T, N)
  \cup (IF Len(st.syms) < maxsyms
        THEN EvCreate(T, N) \cup {e \in EvClone(st, T) : CloneOK(st, e)} \cup EvRescope(st) \cup EvDetach(st)
        ELSE {})

VARIABLE st
vars == <<st>>
Init == st = InitSt

(***************************************************************************)
(* Design-level properties (checked by TLC on the model, MC_VarFactory)    *)
(***************************************************************************)
TypeOK == /\ st.tab \in [Scopes -> [Names -> Types \cup {None}]]
          /\ \A k \in 1..Len(st.syms) :
               LET v == st.syms[k] IN
                 /\ v.name \in Names /\ v.scope \in 0..3 /\ v.cls \in Classes
                 /\ (v.scope = 0) <=> (v.own # None)

\* every attached (plain) symbol reports exactly the type recorded under its name in its own scope
\* (a derived-type member with a deferred entry reports the declaration in the type definition instead)
\* (so a change of that record is seen by every symbol of that name attached to the scope)
AttachedSeeScope ==
  \A k \in 1..Len(st.syms) : LET v == st.syms[k] IN
     (v.scope # 0 /\ v.pc = "none") => /\ Has(st.tab, v.scope, v.name)
                                        /\ TypeOf(st, k) = st.tab[v.scope][v.name]

\* ... stated as a step property: after the type recorded for n in s is changed to t, every symbol
\* named n attached to s reports t, and no unattached symbol changes its type (whatever the step)
SetTypeSeen(e, st2) ==
  e.op = "settype" =>
     \A k \in 1..Len(st2.syms) : LET v == st2.syms[k] IN
        (v.scope = e.s /\ v.name = e.n) => TypeOf(st2, k) = e.t
DetachedKeepOwn(st1, st2) ==
  \A k \in 1..Len(st1.syms) :
     st1.syms[k].scope = 0 => (st2.syms[k] = st1.syms[k] /\ TypeOf(st2, k) = TypeOf(st1, k))
\* existing symbol objects are never re-classified or re-attached by later events
ObjectsStable(st1, st2) ==
  /\ Len(st2.syms) >= Len(st1.syms)
  /\ \A k \in 1..Len(st1.syms) : st2.syms[k] = st1.syms[k]
\* a new symbol's class is the tier decision on the type it reports at birth
BornClassified(st2) ==
  \A k \in 1..Len(st2.syms) : LET v == st2.syms[k] IN
     v.cls \in Classes /\ (v.cls = "ProcedureSymbol" => ~v.dims)
NewClassified(st1, st2) ==
  Len(st2.syms) > Len(st1.syms) =>
     LET k == Len(st2.syms) IN st2.syms[k].cls = Classify(TypeOf(st2, k), st2.syms[k].dims)

StepOK(st1, e) == LET st2 == Apply(st1, e) IN
  /\ SetTypeSeen(e, st2)
  /\ DetachedKeepOwn(st1, st2)
  /\ ObjectsStable(st1, st2)
  /\ NewClassified(st1, st2)

\* the tier function is total and each class is reachable
ClassifyTotal == \A t \in Types \cup {None}, d \in BOOLEAN : Classify(t, d) \in Classes
=============================================================================
