---------------------------- MODULE Trace_Transpile ----------------------------
(* C35 / C36: behaviour of transpiled kernels against the MiniFortran reference machine.          *)
(* A case is  [id, prog, entry, input <<[name, val]>>, reference, hasobs, observed]                 *)
(*   reference  value images printed by gfortran running the ORIGINAL Fortran routine (pre-flight)  *)
(*   observed   value images produced by the transpiled code (C kernel called through the          *)
(*              generated ISO-C wrapper, or the generated Python function); only if hasobs          *)
(* The machine is evaluated once per case:  E == Run(prog, entry, input).out                        *)
(*   "illegal:<why>"   the machine rejects the program on this input (generator fault, not judged)  *)
(*   "preflight:.."    reference # E : the oracle and gfortran disagree on the ORIGINAL program      *)
(*                     (machinery fault, never a violation)                                         *)
(*   "ok"              reference = E and (no observation or observed = E)                           *)
(*   "output-differs:.." reference = E but observed # E : the transpiled code computes something    *)
(*                     else than the Fortran semantics of the original routine  => VIOLATION        *)
(* Acceptance is exact equality of value images <<tag, num, den>>: integers and logicals by value,  *)
(* reals as exact rationals (the generators keep every real value dyadic, so float64 arithmetic of  *)
(* both the original and the transpiled code is exact and "equal up to the precision of the         *)
(* declared kind" coincides with equality).                                                         *)
EXTENDS FMachine, Json, IOUtils

TCases == JsonDeserialize(IOEnv.TCASES)

\* JSON image of a value -> machine value (as in Trace_FMachine; arrays arrive in element order)
RECURSIVE InVal(_)
InVal(j) == CASE j.t = "int" -> I(j.v)
              [] j.t = "real" -> Q(j.n, j.d)
              [] j.t = "log" -> L(j.v)
              [] j.t = "arr" -> LET order == ColMajor(j.lb, j.ub, Len(j.lb)) IN
                                [t |-> "arr", lb |-> j.lb, ub |-> j.ub,
                                 data |-> TLCEval([ix \in IdxSet(j.lb, j.ub, 1) |->
                                             InVal(j.els[CHOOSE k \in 1..Len(order) : order[k] = ix])])]
InputOf(c) == TLCEval([n \in {c.input[i][1] : i \in 1..Len(c.input)} |->
                 InVal(c.input[CHOOSE i \in 1..Len(c.input) : c.input[i][1] = n][2])])

FirstDiff(a, b) == IF \E k \in 1..Min2(Len(a), Len(b)) : a[k] # b[k]
                   THEN CHOOSE k \in 1..Min2(Len(a), Len(b)) : a[k] # b[k] /\ \A m \in 1..(k - 1) : a[m] = b[m]
                   ELSE Min2(Len(a), Len(b)) + 1

Describe(tag, exp, obs) ==
  LET k == FirstDiff(exp, obs) IN
  <<FALSE, tag \o ":at=" \o ToString(k) \o ":expected=" \o (IF k <= Len(exp) THEN ToString(exp[k]) ELSE "end")
           \o ":observed=" \o (IF k <= Len(obs) THEN ToString(obs[k]) ELSE "end")
           \o ":lengths=" \o ToString(Len(exp)) \o "/" \o ToString(Len(obs)), k>>

JudgeT(c) ==
  LET r == Run(c.prog, c.entry, InputOf(c)) IN
  IF ~r.ok THEN <<FALSE, "illegal:" \o r.why, 0>>
  ELSE IF r.out # c.reference THEN Describe("preflight", r.out, c.reference)
  ELSE IF ~c.hasobs \/ r.out = c.observed THEN <<TRUE, "ok", Len(r.out)>>
  ELSE Describe("output-differs", r.out, c.observed)

VARIABLE tt
TInit == tt = 1
TNext == /\ tt <= Len(TCases)
         /\ LET c == TCases[tt] j == JudgeT(c) IN PrintT(<<"VERDICT", c.id, j[1], j[2], j[3]>>)
         /\ tt' = tt + 1
TSpec == TInit /\ [][TNext]_tt
=============================================================================
