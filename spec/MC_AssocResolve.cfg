SPECIFICATION Spec
INVARIANT StableImpliesSame
INVARIANT ResolvedHasNoAssociate
CHECK_DEADLOCK FALSE
