---------------------------- MODULE Gen_SchedCase ----------------------------
(* History generator for C23 part 2 (spec -> code): the simulator picks events of the collection  *)
(* machine of SchedCase over a universe of item names with case variants; every behaviour of N    *)
(* events is printed as JSON in the step after its last event.                                   *)
(* Run:  tlc -simulate num=K -depth N+2 -seed S                                                   *)
EXTENDS SchedCase, Json
CONSTANT N
\* m#k  M#K  M#k  #p  #P  m#q  M#Q
U == {<<109, 35, 107>>, <<77, 35, 75>>, <<77, 35, 107>>, <<35, 112>>, <<35, 80>>, <<109, 35, 113>>, <<77, 35, 81>>}
\* pairs of equal items (all case variants of one name) and a few unequal ones
Pairs == {pr \in U \X U : Fold(pr[1]) = Fold(pr[2])} \cup {<<<<109, 35, 107>>, <<35, 80>>>>, <<<<77, 35, 81>>, <<77, 35, 75>>>>, <<<<35, 112>>, <<109, 35, 113>>>>}
Events == [op : {"add", "del", "has", "hasstr"}, a : U, b : {<<>>}]
          \cup [op : {"size"}, a : {<<>>}, b : {<<>>}]
          \cup {[op |-> o, a |-> pr[1], b |-> pr[2]] : o \in {"eq", "hasheq"}, pr \in Pairs}
VARIABLES hist, done
GInit == hist = <<>> /\ done = FALSE
GNext == IF Len(hist) < N
         THEN \E e \in Events : hist' = Append(hist, e) /\ done' = FALSE
         ELSE ~done /\ PrintT(<<"HIST", ToJson(hist)>>) /\ done' = TRUE /\ hist' = hist
GSpec == GInit /\ [][GNext]_<<hist, done>>
=============================================================================
