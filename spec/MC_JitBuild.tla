---- MODULE MC_JitBuild ----
(* Design-level model checking of JitBuild over ALL dependency DAGs on at most MaxN objects      *)
(* (up to renaming: edges go from higher to lower index), every reverse topological walk order,   *)
(* every choice of source-less leaf objects, and W in 1..MaxW workers.  The configuration is      *)
(* chosen by initial-state nondeterminism and never changes.                                      *)
EXTENDS JitBuild
CONSTANTS MaxN, MaxW, MaxNoSrc, Stale
VARIABLES c, s
vars == <<c, s>>

DepsOn(n)   == {d \in [1..n -> SUBSET (1..n)] : \A o \in 1..n : d[o] \subseteq 1..(o - 1)}
\* objects without a source file have no visible dependencies (Obj.dependencies = () when source is None)
SrcOn(n, d) == {sr \in [1..n -> BOOLEAN] : /\ (\A o \in 1..n : ~sr[o] => d[o] = {})
                                            /\ Cardinality({x \in 1..n : ~sr[x]}) <= MaxNoSrc}
Perms(n)    == {p \in [1..n -> 1..n] : \A i, j \in 1..n : i # j => p[i] # p[j]}

Configs == UNION {UNION {UNION {UNION {
              {cc \in {[n |-> n, deps |-> d, src |-> sr, order |-> p, W |-> w]} : IsRevTopo(cc)}
              : p \in Perms(n)} : sr \in SrcOn(n, d)} : d \in DepsOn(n)} : w \in 1..MaxW, n \in 1..MaxN}

Init == c \in Configs /\ s = InitState(c, Stale)
Next == \E e \in Events(c) : En(c, s, e) /\ s' = Ap(c, s, e) /\ c' = c
Spec == Init /\ [][Next]_vars /\ WF_vars(Next)

\* named sub-actions (for -coverage: every action must be taken)
Skip         == En(c, s, Ev("skip", 0)) /\ s' = Ap(c, s, Ev("skip", 0)) /\ c' = c
WaitDep      == \E o \in Objs(c) : En(c, s, Ev("waitdep", o)) /\ s' = Ap(c, s, Ev("waitdep", o)) /\ c' = c
Submit       == \E o \in Objs(c) : En(c, s, Ev("submit", o)) /\ s' = Ap(c, s, Ev("submit", o)) /\ c' = c
SerialReturn == En(c, s, Ev("serialreturn", 0)) /\ s' = Ap(c, s, Ev("serialreturn", 0)) /\ c' = c
EndWalk      == En(c, s, Ev("endwalk", 0)) /\ s' = Ap(c, s, Ev("endwalk", 0)) /\ c' = c
WaitAll      == \E o \in Objs(c) : En(c, s, Ev("waitall", o)) /\ s' = Ap(c, s, Ev("waitall", o)) /\ c' = c
Link         == En(c, s, Ev("link", 0)) /\ s' = Ap(c, s, Ev("link", 0)) /\ c' = c
Start        == \E o \in Objs(c) : En(c, s, Ev("start", o)) /\ s' = Ap(c, s, Ev("start", o)) /\ c' = c
Finish       == \E o \in Objs(c) : En(c, s, Ev("finish", o)) /\ s' = Ap(c, s, Ev("finish", o)) /\ c' = c
NextA == Skip \/ WaitDep \/ Submit \/ SerialReturn \/ EndWalk \/ WaitAll \/ Link \/ Start \/ Finish
SpecA == Init /\ [][NextA]_vars /\ WF_vars(NextA)

TypeOK                 == TypeOKP(c, s)
StartAfterDepsFinished == StartAfterDepsFinishedP(c, s)
AtMostOnce             == AtMostOnceP(c, s)
LinkAfterAll           == LinkAfterAllP(c, s)
ConcurrencyBound       == ConcurrencyBoundP(c, s)
\* the closure used by trace validation never changes anything a compiler log can see
ClosureIsInvisible     == LET t == Closure(c, s) IN t.comp = s.comp /\ t.nstart = s.nstart /\ t.qtask = s.qtask
\* no deadlock short of the link: some step is enabled in every state but the final one
Progress               == s.pc # "linked" => \E e \in Events(c) : En(c, s, e)
EventuallyLinked       == <>(s.pc = "linked")
====
