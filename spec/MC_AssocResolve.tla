-------------------------- MODULE MC_AssocResolve --------------------------
EXTENDS AssocResolve, TLC
Var(n) == [k |-> "var", name |-> n]
Lit(v) == [k |-> "int", v |-> v]
Sum2(a, b) == [k |-> "sum", c |-> <<a, b>>]
Elem(n, i) == [k |-> "arr", name |-> n, c |-> <<i>>]
Asg(l, r) == [s |-> "assign", lhs |-> l, rhs |-> r]
D(n, intent, dims) == [name |-> n, type |-> "int", intent |-> intent, dims |-> dims, init |-> None]

Selectors == {Var("a"), Elem("v", Var("b")), Sum2(Var("a"), Lit(1)), Elem("v", Lit(1))}
Writable(sel) == sel.k \in {"var", "arr"}
Stmts(sel) == {Asg(Var("a"), Var("z")), Asg(Var("b"), Sum2(Lit(1), [k |-> "neg", c |-> <<Var("b")>>])),
               Asg(Var("a"), Sum2(Var("a"), Lit(2))), Asg(Elem("v", Lit(0)), Sum2(Var("z"), Lit(5))),
               Asg(Var("r"), Sum2(Var("z"), Var("a")))}
              \cup (IF Writable(sel) THEN {Asg(Var("z"), Sum2(Var("z"), Lit(1)))} ELSE {})
Inputs == {[a |-> I(a0), b |-> I(b0), v |-> [t |-> "arr", lb |-> <<0>>, ub |-> <<1>>, data |-> (<<0>> :> I(10) @@ <<1>> :> I(20))]]
             : a0 \in {0, 3}, b0 \in {0, 1}}
Prog(sel, s1, s2) ==
  [units |-> <<[name |-> "kernel", kind |-> "subroutine", args |-> <<"a", "b", "v", "r">>,
                decls |-> <<D("a", "inout", <<>>), D("b", "inout", <<>>), D("v", "inout", <<<<0, 1>>>>), D("r", "out", <<>>)>>,
                body |-> <<Asg(Var("r"), Lit(0)),
                           [s |-> "assoc", names |-> <<"z">>, targets |-> <<sel>>, body |-> <<s1, s2>>]>>,
                result |-> "", host |-> ""]>>]
\* a block nested in a block: the inner selector mentions the outer name
Nested(sel, s1, s2) ==
  [units |-> <<[name |-> "kernel", kind |-> "subroutine", args |-> <<"a", "b", "v", "r">>,
                decls |-> <<D("a", "inout", <<>>), D("b", "inout", <<>>), D("v", "inout", <<<<0, 1>>>>), D("r", "out", <<>>)>>,
                body |-> <<Asg(Var("r"), Lit(0)),
                           [s |-> "assoc", names |-> <<"y">>, targets |-> <<sel>>, body |->
                              <<[s |-> "assoc", names |-> <<"z">>, targets |-> <<Var("y")>>, body |-> <<s1, s2>>]>>]>>,
                result |-> "", host |-> ""]>>]

VARIABLES sel, s1, s2, inp, nest
vars == <<sel, s1, s2, inp, nest>>
Init == /\ sel \in Selectors /\ inp \in Inputs /\ nest \in BOOLEAN
        /\ s1 \in Stmts(sel) /\ s2 \in Stmts(sel)
Next == UNCHANGED vars
Spec == Init /\ [][Next]_vars

P == IF nest THEN Nested(sel, s1, s2) ELSE Prog(sel, s1, s2)
Blk == P.units[1].body[2]
Same == LET r1 == Run(P, "kernel", inp) r2 == Run(Resolve(P), "kernel", inp) IN r1.ok /\ r2.ok /\ r1.out = r2.out
\* stability of the (outer) block, judged on the block body with inner blocks resolved
StableP == Stable([Blk EXCEPT !.body = ResolveB(Blk.body)])
Legal == Run(P, "kernel", inp).ok
ResolvedHasNoAssociate == \A i \in 1..Len(Resolve(P).units[1].body) : Resolve(P).units[1].body[i].s # "assoc"
StableImpliesSame == (Legal /\ StableP) => Same

\* the condition is not idle: some unstable block changes behaviour under replacement
UnstableWitness ==
  \E se \in Selectors : \E a \in Stmts(se), b \in Stmts(se) : \E i \in Inputs :
     LET W == Prog(se, a, b) IN
     /\ ~Stable(W.units[1].body[2]) /\ Run(W, "kernel", i).ok
     /\ Run(W, "kernel", i).out # Run(Resolve(W), "kernel", i).out
ASSUME UnstableWitness
=============================================================================
