INIT Init
NEXT Next
