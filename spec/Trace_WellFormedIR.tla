---------------------------- MODULE Trace_WellFormedIR ----------------------------
(* Batch evaluation of the C41 clauses on exported unit trees.  A case is                          *)
(*   [id, S, O, reparse, compile, exempt <<<<clause, name, kind>>>>]                              *)
(* One VERDICT per case (first offender) plus one line per offender under the id "<id>#<k>"       *)
(* (clause codes: PL ParentLink, SC ScopeOnChain, RS Resolvable, FA FrontendAccepts,              *)
(* CA CompilerAccepts; text "<code>;<symbol>;<kind>").                                            *)
EXTENDS WellFormedIR, Json, IOUtils
Cases == JsonDeserialize(IOEnv.CASES)

RECURSIVE SetToSeq(_)
SetToSeq(s) == IF s = {} THEN <<>> ELSE LET x == CHOOSE y \in s : TRUE IN <<x>> \o SetToSeq(s \ {x})

Exempt(c) == {<<c.exempt[i][1], c.exempt[i][2], c.exempt[i][3]>> : i \in 1..Len(c.exempt)}
AllOff(c) == (Offenders(c.S, c.O)
              \cup (IF c.reparse = "ok" THEN {} ELSE {<<"FA", c.reparse, "code">>})
              \cup (IF c.compile = "ok" THEN {} ELSE {<<"CA", c.compile, "code">>})) \ Exempt(c)
Text(o) == o[1] \o ";" \o o[2] \o ";" \o o[3]

RECURSIVE PrintAll(_, _, _)
PrintAll(id, offs, k) == IF k > Len(offs) THEN TRUE
                         ELSE PrintT(<<"VERDICT", ToString(id) \o "#" \o ToString(k), FALSE, Text(offs[k]), k>>) /\ PrintAll(id, offs, k + 1)

VARIABLE tid
Init == tid = 1
Next == /\ tid <= Len(Cases)
        /\ LET c == Cases[tid]
               offs == SetToSeq(AllOff(c))
           IN /\ PrintT(<<"VERDICT", c.id, offs = <<>>, IF offs = <<>> THEN "ok" ELSE Text(offs[1]), Len(offs)>>)
              /\ PrintAll(c.id, offs, 1)
        /\ tid' = tid + 1
Spec == Init /\ [][Next]_tid
=============================================================================
