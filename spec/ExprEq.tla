------------------------------- MODULE ExprEq -------------------------------
(***************************************************************************)
(* C11  Expression equality is symmetric, case-insensitive and             *)
(* hash-consistent (loki.expression: StrCompareMixin, literals, Range /    *)
(* RangeIndex, InlineCall).                                                *)
(*                                                                         *)
(* The specification                                                       *)
(*  (1) DESCRIBES the node universe: a set of abstract node descriptors    *)
(*      d = [k |-> kind, n |-> name or literal text, c |-> children]       *)
(*      covering every kind of expression node, closed under the case      *)
(*      variants of its base nodes.  TLC enumerates it (Gen_ExprEq) and    *)
(*      the harness builds the real Loki node for every descriptor.        *)
(*  (2) STATES the three laws of the property over a relation R recorded   *)
(*      from the code (R.eq[x][y] = 1 iff node x == node y, R.hash[x] =    *)
(*      class index of hash(node x)):                                      *)
(*        Symmetric        eq[x][y] = eq[y][x]                             *)
(*        HashConsistent   eq[x][y] => hash[x] = hash[y]                   *)
(*        CaseInsensitive  a node equals each of its case variants and is  *)
(*                         interchangeable with them on either side of ==  *)
(*      with the single documented exemption IsRangeShortcut: a range      *)
(*      `1:n` (lower bound literal 1, no stride) may compare equal to `n`. *)
(* CaseVariant changes the case of NAMES only (variables, members,         *)
(* procedures, casts, kinds, keyword-argument names, the spelling of       *)
(* logical literals); literal values and string contents are never varied. *)
(***************************************************************************)
EXTENDS Naturals, Sequences, FiniteSets, TLC

CONSTANT Wide      \* BOOLEAN: the thorough tier uses more operands / comparison operators (a larger universe)

D(k, n, c) == [k |-> k, n |-> n, c |-> c]
L(k, n)    == D(k, n, <<>>)
NoneD      == L("none", "")          \* an absent range bound / stride

\* kinds whose `n` is a name (subject to case variation)
NameKinds  == {"scalar", "deferred", "proc", "array", "member", "cast", "kw", "logic"}
RangeKinds == {"range", "rangeindex", "looprange"}
AllKinds   == NameKinds \cup RangeKinds \cup
              {"none", "int", "float", "str", "sum", "prod", "quot", "pow", "psum", "pprod", "cmp",
               "and", "or", "not", "concat", "call"}

(***************************************************************************)
(* Names and their spellings: <<lower, UPPER, Capitalised>>                *)
(***************************************************************************)
NameTab == { <<"n", "N", "N">>, <<"m", "M", "M">>, <<"s", "S", "S">>,
             <<"arr", "ARR", "Arr">>, <<"vec", "VEC", "Vec">>, <<"dts", "DTS", "Dts">>,
             <<"dt", "DT", "Dt">>, <<"fld", "FLD", "Fld">>, <<"sub", "SUB", "Sub">>,
             <<"foo", "FOO", "Foo">>, <<"max", "MAX", "Max">>, <<"real", "REAL", "Real">>, <<"int", "INT", "Int">>,
             <<"jprb", "JPRB", "Jprb">>, <<"jpim", "JPIM", "Jpim">>,
             <<"key", "KEY", "Key">>, <<"opt", "OPT", "Opt">>,
             <<".true.", ".TRUE.", ".True.">>, <<".false.", ".FALSE.", ".False.">> }
Row(n)     == CHOOSE r \in NameTab : n \in {r[1], r[2], r[3]}
Known(n)   == \E r \in NameTab : n \in {r[1], r[2], r[3]}
\* the "mixed" variant upper-cases only these names, so that one node carries both cases
MixedUpper == {"n", "foo", "jprb", "fld", "arr", "key", ".true.", "real"}
Variants   == {"upper", "capital", "mixed"}
Spell(v, n) == LET r == Row(n) IN
                 CASE v = "upper"   -> r[2]
                   [] v = "capital" -> r[3]
                   [] v = "mixed"   -> IF r[1] \in MixedUpper THEN r[2] ELSE r[1]
                   [] v = "lower"   -> r[1]

RECURSIVE Respell(_, _)
Respell(v, d) == [k |-> d.k,
                  n |-> IF d.k \in NameKinds /\ Known(d.n) THEN Spell(v, d.n) ELSE d.n,
                  c |-> [i \in 1..Len(d.c) |-> Respell(v, d.c[i])]]
CaseVariant(v, d) == Respell(v, d)
Fold(d)           == Respell("lower", d)      \* Fortran's view of the node: all names folded

(***************************************************************************)
(* The node universe (base nodes are spelled in lower case)                *)
(***************************************************************************)
Sc(n) == L("scalar", n)      Df(n) == L("deferred", n)     Pr(n) == L("proc", n)
ILit(v) == L("int", v)        IntK(v, kd) == D("int", v, <<kd>>)
Flt(v) == L("float", v)      FltK(v, kd) == D("float", v, <<kd>>)
Lg(s) == L("logic", s)       Str(s) == L("str", s)
Arr(n, dims) == D("array", n, dims)
Mem(n, parent, dims) == D("member", n, <<parent>> \o dims)       \* parent%n(dims)
Op(k, args) == D(k, "", args)
Cmp(o, a, b) == D("cmp", o, <<a, b>>)
Call(f, args) == D("call", "", <<f>> \o args)                     \* args may contain Kw(..) entries
Kw(n, v) == D("kw", n, <<v>>)
Cast(n, e) == D("cast", n, <<e>>)     CastK(n, e, kd) == D("cast", n, <<e, kd>>)
Rng(k, a, b, s) == D(k, "", <<a, b, s>>)
RI(a, b, s) == Rng("rangeindex", a, b, s)

vn == Sc("n")   vm == Sc("m")   vs == Sc("s")   one == ILit("1")   two == ILit("2")
arrn == Arr("arr", <<vn>>)
dt == Sc("dt")
np1 == Op("sum", <<vn, one>>)

Leaves ==
  {vn, vm, vs, Df("n"), Df("jprb"), Df("foo"), Pr("foo"), Pr("max"), Pr("n")}
  \cup {ILit("0"), one, two, IntK("1", Df("jpim")), IntK("2", Df("jpim")), IntK("1", Df("jprb")), IntK("1", Sc("jpim"))}
  \cup {Flt("1.0"), Flt("2.5"), Flt("1.e0"), FltK("1.0", Df("jprb")), FltK("1.0", Df("jpim")), FltK("2.5", Df("jprb"))}
  \cup {Lg(".true."), Lg(".false.")}
  \cup {Str("abc"), Str("Abc"), Str("ABC"), Str("n"), Str("1"), Str(".true."), Str("1.0")}

Arrays ==
  {Arr("arr", <<>>), arrn, Arr("arr", <<one>>), Arr("arr", <<RI(one, vn, NoneD)>>), Arr("arr", <<vn, vm>>),
   Arr("arr", <<RI(NoneD, NoneD, NoneD)>>), Arr("arr", <<RI(one, vn, two)>>), Arr("vec", <<vn>>), Arr("n", <<one>>),
   Arr("arr", <<RI(one, vn, NoneD), vm>>), Arr("arr", <<np1>>), Arr("foo", <<vn>>), Arr("real", <<vn>>)}

Members ==
  {Mem("fld", dt, <<>>), Mem("fld", dt, <<vn>>), Mem("sub", dt, <<>>), Mem("fld", Mem("sub", dt, <<>>), <<>>),
   Mem("fld", Arr("dts", <<vn>>), <<>>), Mem("fld", dt, <<RI(one, vn, NoneD)>>)}

O3 == IF Wide THEN {vn, vs, one, arrn, Mem("fld", dt, <<>>)} ELSE {vn, vs, one}
Arith ==
  {Op(k, <<a, b>>) : k \in {"sum", "prod", "quot", "pow"}, a \in O3, b \in O3}
  \cup {Op("sum", <<vn, vs, one>>), Op("sum", <<arrn, Mem("fld", dt, <<>>)>>), Op("prod", <<two, arrn>>),
        Op("psum", <<vn, one>>), Op("pprod", <<vn, vs>>),
        Op("sum", <<Op("prod", <<vn, vs>>), one>>), Op("prod", <<Op("psum", <<vn, one>>), vs>>),
        Op("quot", <<Op("psum", <<vn, one>>), vs>>), Op("pow", <<vs, two>>), Op("prod", <<ILit("-1"), vn>>)}

CmpOps == IF Wide THEN {"==", "!=", "<", ">", "<=", ">="} ELSE {"==", "<", ">="}
Compare == {Cmp(o, p[1], p[2]) : o \in CmpOps, p \in {<<vn, one>>, <<one, vn>>, <<vs, vn>>, <<vn, vs>>}}

ltrue == Lg(".true.")
nlt1  == Cmp("<", vn, one)
Logical == {Op("and", <<ltrue, nlt1>>), Op("and", <<nlt1, ltrue>>), Op("or", <<ltrue, nlt1>>), Op("or", <<nlt1, ltrue>>),
            Op("not", <<ltrue>>), Op("not", <<nlt1>>), Op("and", <<Op("not", <<ltrue>>), Lg(".false.")>>)}

Concats == {Op("concat", <<Str("abc"), Str("x")>>), Op("concat", <<Str("Abc"), Str("x")>>), Op("concat", <<vs, Str("abc")>>)}

Calls ==
  {Call(Pr("foo"), <<>>), Call(Pr("foo"), <<vn>>), Call(Pr("foo"), <<vn, vs>>), Call(Df("foo"), <<vn>>),
   Call(Pr("max"), <<vn, one>>), Call(Pr("foo"), <<vn, Kw("key", vs)>>),
   Call(Pr("foo"), <<Kw("key", vs), Kw("opt", vn)>>), Call(Pr("foo"), <<Kw("opt", vn), Kw("key", vs)>>),
   Call(Pr("foo"), <<Arr("arr", <<RI(one, vn, NoneD)>>)>>), Call(Pr("foo"), <<Call(Pr("max"), <<vn, vs>>)>>),
   Call(Pr("real"), <<vn>>)}

Casts == {Cast("real", vn), CastK("real", vn, Df("jprb")), CastK("real", vn, Df("jpim")), Cast("int", vs), Cast("real", vs)}

RangeShapes == { <<one, vn, NoneD>>, <<one, vm, NoneD>>, <<one, vn, two>>, <<two, vn, NoneD>>, <<vn, vm, NoneD>>,
                 <<NoneD, NoneD, NoneD>>, <<one, NoneD, NoneD>>, <<NoneD, vn, NoneD>>,
                 <<one, np1, NoneD>>, <<one, arrn, NoneD>> }
Ranges == {Rng(k, r[1], r[2], r[3]) : k \in RangeKinds, r \in RangeShapes}

Base == Leaves \cup Arrays \cup Members \cup Arith \cup Compare \cup Logical \cup Concats \cup Calls \cup Casts \cup Ranges
Universe == Base \cup {CaseVariant(v, d) : v \in Variants, d \in Base}

(***************************************************************************)
(* The documented exemption: `1:n` (literal lower bound 1 without kind,    *)
(* no stride) may compare equal to `n`.  Names are compared as Fortran     *)
(* does (folded).                                                          *)
(***************************************************************************)
IsRangeShortcut(dx, dy) ==
  /\ dx.k \in RangeKinds
  /\ dx.c[1] = one /\ dx.c[3] = NoneD /\ dx.c[2] # NoneD
  /\ Fold(dx.c[2]) = Fold(dy)
Exempt(dx, dy) == IsRangeShortcut(dx, dy) \/ IsRangeShortcut(dy, dx)

(***************************************************************************)
(* The laws over a recorded relation R = [nodes, eq, hash]                 *)
(*   R.nodes : sequence of descriptors (the universe in the order built)   *)
(*   R.eq[x][y] \in {0, 1},  R.hash[x] \in Nat (class index)               *)
(***************************************************************************)
Idx(R, d) == CHOOSE i \in 1..Len(R.nodes) : R.nodes[i] = d
IsBase(d) == Fold(d) = d

Symmetric(R, x, y) ==
  Exempt(R.nodes[x], R.nodes[y]) \/ R.eq[x][y] = R.eq[y][x]

\* (hash class 0 encodes "hash() raised": an equal node must be hashable to serve as a dictionary key)
HashConsistent(R, x, y) ==
  Exempt(R.nodes[x], R.nodes[y]) \/ (R.eq[x][y] = 1 => (R.hash[x] = R.hash[y] /\ R.hash[x] # 0))

\* for a base node x and each of its case variants xv: x == xv, and x, xv are interchangeable against any y
\* (xvs: the indices of the variants of x, computed once per row)
VariantIdx(R, x) == {Idx(R, CaseVariant(v, R.nodes[x])) : v \in Variants}
CaseInsensitiveAt(R, x, xvs, y) ==
  \A xv \in xvs :
     /\ R.eq[x][xv] = 1 /\ R.eq[xv][x] = 1
     /\ R.eq[x][y] = R.eq[xv][y]
     /\ R.eq[y][x] = R.eq[y][xv]

Laws == {"Symmetric", "HashConsistent", "CaseInsensitive"}

\* violating partners y of row x under a law (CaseInsensitive is stated from base nodes)
Violations(R, law, x) ==
  CASE law = "Symmetric"       -> {y \in 1..Len(R.nodes) : ~Symmetric(R, x, y)}
    [] law = "HashConsistent"  -> {y \in 1..Len(R.nodes) : ~HashConsistent(R, x, y)}
    [] law = "CaseInsensitive" -> IF IsBase(R.nodes[x])
                                  THEN LET xvs == VariantIdx(R, x) IN
                                         {y \in 1..Len(R.nodes) : ~CaseInsensitiveAt(R, x, xvs, y)}
                                  ELSE {}

(***************************************************************************)
(* Reference relation used to check the specification itself (MC_ExprEq):  *)
(* structural equality of folded descriptors, optionally extended by the   *)
(* shortcut.  It must satisfy all laws; seeded corruptions must not.       *)
(***************************************************************************)
ModelEq(dx, dy, shortcut) == Fold(dx) = Fold(dy) \/ (shortcut /\ IsRangeShortcut(dx, dy))
=============================================================================
