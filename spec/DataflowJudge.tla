---------------------------- MODULE DataflowJudge ----------------------------
(***************************************************************************)
(* C26 / C27 judgement: one pass over the event log of FMachineLog!RunL.    *)
(* NS[id] = [d, u, l, c, r] are the name sets recorded for node id          *)
(* (defines, uses, live, loop-carried, read-after-write at inspection point *)
(* "before id").  For every execution instance (Enter..Exit window, events  *)
(* of the window's own call depth) of node n:                               *)
(*  D  every location written in the window: its variable is in NS[n].d     *)
(*     (definitions of a DO variable by its own DO construct are exempt:    *)
(*     Loki documents that it hides the induction variable outside the loop)*)
(*  U  every location read in the window and not written earlier in the     *)
(*     window: its variable is in NS[n].u                                   *)
(*  L  ... and if the location holds a value from earlier execution (written *)
(*     earlier in the frame, or the variable is a dummy argument): its       *)
(*     variable is in NS[n].l                                               *)
(*  C  loop instance n: a location written in iteration i and read in an    *)
(*     iteration j > i before being written in j: variable in NS[n].c       *)
(*  R  inspection point "before statement p" in one execution of the         *)
(*     statement list containing p: a location written earlier in that list *)
(*     execution and read at/after p before being re-written: in NS[p].r    *)
(* Granularity: locations are scalars and single array elements; the sets   *)
(* name variables.  Only the over-approximation direction is checked.       *)
(* Every miss is reported as <<clause, node, variable, leaf, aux>> (leaf =  *)
(* innermost open node at the access; aux: "p" another element of the same   *)
(* array was written where a per-variable rule would see a kill, "w"/"a"     *)
(* value from an earlier write in the frame / from the caller).             *)
(***************************************************************************)
EXTENDS FMachineLog

(* ---------------------------------------------------------------- the scan *)
\* Z = [fr: stack of frames, bad: set of misses, n: counters]
\* frame = [args: dummy names, wr: locations written so far in the frame, wins: stack of open windows]
\* window = [id, wr: locations written in the window, wv: variables written in the window,
\*           prevW/curW: locations written in earlier iterations / the current iteration (loops),
\*           cv: variables written in the current iteration,
\*           segW: locations written in the current execution of the window's statement list,
\*           pts: inspection points of that list execution <<[id, cand, kv]>>]
\* TLC keeps A \cup B and A \ B as lazy nodes: a set that is extended once per event would become a chain
\* as long as the log (slow membership, deep Java recursion) - normalise after every update
Cup(a, b) == TLCEval(a \cup b)
Dif(a, b) == TLCEval(a \ b)
NewWin(id) == [id |-> id, wr |-> {}, wv |-> {}, prevW |-> {}, curW |-> {}, cv |-> {}, segW |-> {}, pts |-> <<>>]
Loc(ev) == <<ev.v, ev.ix>>

OnRead(P, Z, ev, NS) ==
  LET fi == ev.d + 1
      f == Z.fr[fi]
      l == Loc(ev)
      v == ev.v
      nw == Len(f.wins)
      leaf == f.wins[nw].id
      src == IF l \in f.wr THEN "w" ELSE IF v \in f.args THEN "a" ELSE "n"
      b1 == UNION {LET w == f.wins[j] IN
                   IF l \in w.wr THEN {}
                   ELSE LET aux == IF v \in w.wv THEN "p" ELSE src IN
                        (IF v \in NS[w.id].u THEN {} ELSE {<<"U", w.id, v, leaf, aux>>})
                        \cup (IF v \in NS[w.id].l THEN {} ELSE {<<"L", w.id, v, leaf, aux>>})
                   : j \in 1..nw}
      b2 == UNION {LET w == f.wins[j] IN
                   IF l \in w.prevW /\ l \notin w.curW /\ v \notin NS[w.id].c
                   THEN {<<"C", w.id, v, leaf, IF v \in w.cv THEN "p" ELSE "-">>} ELSE {}
                   : j \in 1..nw}
      b3 == UNION {LET w == f.wins[j] IN
                   UNION {LET pt == w.pts[k] IN
                          IF l \in pt.cand /\ v \notin NS[pt.id].r
                          THEN {<<"R", pt.id, v, leaf, IF v \in pt.kv THEN "p" ELSE "-">>} ELSE {}
                          : k \in 1..Len(w.pts)}
                   : j \in 1..nw}
  IN [Z EXCEPT !.bad = IF b1 = {} /\ b2 = {} /\ b3 = {} THEN @ ELSE Cup(@, b1 \cup b2 \cup b3), !.n.reads = @ + 1]

OnWrite(P, Z, ev, NS) ==
  LET fi == ev.d + 1
      f == Z.fr[fi]
      l == Loc(ev)
      v == ev.v
      nw == Len(f.wins)
      leaf == f.wins[nw].id
      b1 == IF ev.e = "WL" THEN {}
            ELSE UNION {IF v \in NS[f.wins[j].id].d THEN {} ELSE {<<"D", f.wins[j].id, v, leaf, "-">>} : j \in 1..nw}
      upd(w) == IF ev.e = "WL" THEN [w EXCEPT !.wr = Cup(@, {l}), !.wv = Cup(@, {v})]
                ELSE [w EXCEPT !.wr = Cup(@, {l}), !.wv = Cup(@, {v}), !.curW = Cup(@, {l}), !.cv = Cup(@, {v}), !.segW = Cup(@, {l}),
                               !.pts = TLCEval([k \in 1..Len(w.pts) |-> IF l \in w.pts[k].cand
                                                                THEN [w.pts[k] EXCEPT !.cand = Dif(@, {l}), !.kv = Cup(@, {v})]
                                                                ELSE [w.pts[k] EXCEPT !.kv = Cup(@, {v})]])]
      wins2 == TLCEval([j \in 1..nw |-> upd(f.wins[j])])
  IN [Z EXCEPT !.bad = IF b1 = {} THEN @ ELSE Cup(@, b1), !.fr[fi].wr = Cup(@, {l}), !.fr[fi].wins = wins2, !.n.writes = @ + 1]

OnEnter(P, Z, ev) ==
  LET fi == ev.d + 1
      f == Z.fr[fi]
      nw == Len(f.wins)
      \* the new node is a statement of the list its parent window is executing: inspection point before it
      wins1 == IF nw = 0 \/ f.wins[nw].segW = {} THEN f.wins
               ELSE [f.wins EXCEPT ![nw].pts = Append(@, [id |-> ev.id, cand |-> f.wins[nw].segW, kv |-> {}])]
  IN [Z EXCEPT !.fr[fi].wins = Append(wins1, NewWin(ev.id)), !.n.windows = @ + 1,
               !.n.points = @ + (IF nw = 0 \/ f.wins[nw].segW = {} THEN 0 ELSE 1)]

OnExit(P, Z, ev) ==
  LET fi == ev.d + 1
      f == Z.fr[fi]
      nw == Len(f.wins)
  IN IF nw = 0 \/ f.wins[nw].id # ev.id THEN [Z EXCEPT !.bad = @ \cup {<<"M", ev.id, "unbalanced-exit", 0, "-">>}]
     ELSE [Z EXCEPT !.fr[fi].wins = SubSeq(f.wins, 1, nw - 1)]

\* a new iteration of loop ev.id: its window is the innermost open one
OnIter(P, Z, ev) ==
  LET fi == ev.d + 1
      f == Z.fr[fi]
      nw == Len(f.wins)
      w == f.wins[nw]
  IN IF nw = 0 \/ w.id # ev.id THEN [Z EXCEPT !.bad = @ \cup {<<"M", ev.id, "iter-outside-loop", 0, "-">>}]
     ELSE [Z EXCEPT !.fr[fi].wins[nw] = [w EXCEPT !.prevW = Cup(@, w.curW), !.curW = {}, !.cv = {}, !.segW = {}, !.pts = <<>>],
                    !.n.iters = @ + 1]

Step(P, Z, ev, NS) ==
  CASE ev.e = "R" -> OnRead(P, Z, ev, NS)
    [] ev.e \in {"W", "WL"} -> OnWrite(P, Z, ev, NS)
    [] ev.e = "E" -> OnEnter(P, Z, ev)
    [] ev.e = "X" -> OnExit(P, Z, ev)
    [] ev.e = "I" -> OnIter(P, Z, ev)
    [] ev.e = "F" -> IF Len(Z.fr) # ev.d THEN [Z EXCEPT !.bad = @ \cup {<<"M", 0, "frame-depth", 0, "-">>}]
                     ELSE [Z EXCEPT !.fr = Append(@, [args |-> ToSet(Unit(P, ev.v).args), wr |-> {}, wins |-> <<>>]), !.n.frames = @ + 1]
    [] ev.e = "G" -> [Z EXCEPT !.fr = SubSeq(@, 1, Len(@) - 1)]
    [] OTHER -> [Z EXCEPT !.bad = @ \cup {<<"M", 0, "unknown-event", 0, "-">>}]

\* left fold over log[lo..hi] by halving.  TLC passes operator arguments lazily: the left half is forced
\* (zl.n.reads >= 0) BEFORE the right half is entered, otherwise every leaf would force its predecessor
\* from inside its own evaluation and the Java stack would grow with the length of the log.
RECURSIVE ScanRange(_, _, _, _, _, _)
ScanRange(P, log, lo, hi, Z, NS) ==
  IF lo > hi THEN Z
  ELSE IF lo = hi THEN Step(P, Z, log[lo], NS)
  ELSE LET mid == (lo + hi) \div 2
           zl == ScanRange(P, log, lo, mid, Z, NS)
       IN IF zl.n.reads >= 0 THEN ScanRange(P, log, mid + 1, hi, zl, NS) ELSE zl

Z0 == [fr |-> <<>>, bad |-> {}, n |-> [reads |-> 0, writes |-> 0, windows |-> 0, iters |-> 0, frames |-> 0, points |-> 0]]
Misses(P, log, NS) == ScanRange(P, log, 1, Len(log), Z0, NS)

=============================================================================
