SPECIFICATION FlagSpec
CONSTANT UnionOnRaw = TRUE
CONSTANT MaxDepth = 3
CONSTANT AllFiles = FALSE
INVARIANT DiscoveredIsProjection
INVARIANT CompleteIsFull
INVARIANT AcceptsModel
CHECK_DEADLOCK FALSE
