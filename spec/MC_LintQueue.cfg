SPECIFICATION Spec
CONSTANT MaxN = 4
CONSTANT MaxW = 3
CONSTANT NH = 2
INVARIANT TypeOK
INVARIANT EachFileOnce
INVARIANT ReportsAreFunctionOfFile
INVARIANT CountIsParsed
INVARIANT WorkersBound
INVARIANT ClosureIsInvisible
PROPERTY EventuallyDone
CHECK_DEADLOCK FALSE
