---------------------------- MODULE FMachineLog ----------------------------
(***************************************************************************)
(* Instrumented variant of the MiniFortran reference machine (C26, C27).   *)
(* It EXTENDS FMachine: values, expression evaluation (EvalE), assignment   *)
(* (Assign), PRINT and the declarations come from there unchanged; only the *)
(* statement executor is re-stated so that it threads an event log through  *)
(* the execution.  FMachine itself is untouched (other checks use it).      *)
(*                                                                         *)
(* Additional program fields: every statement carries `id` (pre-order       *)
(* numbering by the generator, global over all units), an `if` carries      *)
(* `eids` (ids of its ELSE IF arms = the nested Conditional nodes of the    *)
(* Loki IR), every unit carries `bid` (the id of its body Section).         *)
(* Additional statement (only this machine): [s |-> "where", shape, conds,  *)
(* bodies, els] (bodies/els: sequences of masked array assignments).        *)
(*                                                                         *)
(* State S = [env, out, st, why] (as FMachine) + [log, d, vn]: d the call   *)
(* depth, vn the ASSOCIATE names bound to a value (expression selectors;    *)
(* they are not variables and produce no events).                           *)
(* Event = [e, id, v, ix, d]                                                *)
(*   "F"/"G"  frame of unit v begins / ends at depth d                      *)
(*   "E"/"X"  Enter / Exit of the node `id`                                 *)
(*   "I"      iteration ix[1] of the loop `id` begins                       *)
(*   "R"/"W"  read / write of location (v, ix); ix = <<>> for scalars,      *)
(*            the index tuple for array elements.  Reads inside subscripts, *)
(*            bounds, conditions, masks and selectors count.                *)
(*   "WL"     definition of a DO variable by the DO construct itself        *)
(*            (initialisation, increment)                                   *)
(* Calls: the callee's events are logged at depth d+1 under the callee's    *)
(* names; what it reads/writes through a dummy that is associated with a    *)
(* variable / array / array element of the caller is additionally logged,   *)
(* in the same order, as R/W of the actual's location at depth d (inside    *)
(* the Enter..Exit window of the call node).  Actual arguments that are     *)
(* expressions are evaluated (read) by the caller before the call.          *)
(***************************************************************************)
EXTENDS FMachine

Ev(e, id, v, ix, d) == [e |-> e, id |-> id, v |-> v, ix |-> ix, d |-> d]
Put(S, evs) == [S EXCEPT !.log = @ \o evs]
RD(S, name, ix) == Ev("R", 0, name, ix, S.d)
WR(S, name, ix) == Ev("W", 0, name, ix, S.d)
EnterEv(S, id) == Ev("E", id, "", <<>>, S.d)
ExitEv(S, id) == Ev("X", id, "", <<>>, S.d)

RECURSIVE CatN(_, _)
CatN(f, n) == IF n = 0 THEN <<>> ELSE CatN(f, n - 1) \o f[n]

RECURSIVE ReadsE(_, _, _, _), ExecBodyL(_, _, _, _), CallUnitL(_, _, _, _), ExecStmtL(_, _, _, _)

ReadsAll(P, cs, S, pos) == CatN([i \in 1..Len(cs) |-> ReadsE(P, cs[i], S, pos)], Len(cs))
OptReads(P, e, S) == IF IsNone(e) THEN <<>> ELSE ReadsE(P, e, S, <<>>)
\* reads caused by evaluating a subscript list (range bounds in scalar context)
SubReads(P, subs, S, pos) ==
  CatN([i \in 1..Len(subs) |->
          IF subs[i].k = "range" THEN OptReads(P, subs[i].lo, S) \o OptReads(P, subs[i].hi, S) \o OptReads(P, subs[i].st, S)
          ELSE ReadsE(P, subs[i], S, pos)], Len(subs))
AllElemReads(S, name) == LET a == S.env[name]
                             order == ColMajor(a.lb, a.ub, Len(a.lb))
                         IN TLCEval([k \in 1..Len(order) |-> RD(S, name, order[k])])

\* the read events of evaluating e (every operand is evaluated: the machine has no short-circuit)
ReadsE(P, e, S, pos) ==
  CASE e.k \in {"int", "real", "log", "none"} -> <<>>
    [] e.k \in {"var", "arr"} ->
         IF e.name \notin DOMAIN S.env \/ e.name \in S.vn THEN <<>>
         ELSE LET r == RealRef(S.env, e) IN
              IF r.name \notin DOMAIN S.env \/ r.name \in S.vn THEN <<>>
              ELSE LET a == S.env[r.name] IN
                   IF r.k = "var"
                   THEN (IF a.t = "arr"
                         THEN (IF Len(pos) = Len(a.lb) THEN <<RD(S, r.name, TLCEval([d \in 1..Len(pos) |-> a.lb[d] + pos[d] - 1]))>> ELSE <<>>)
                         ELSE <<RD(S, r.name, <<>>)>>)
                   ELSE IF a.t # "arr" THEN <<>>
                   ELSE LET x == SubIdx(P, a, r.c, S.env, pos, 1, 1) IN
                        SubReads(P, r.c, S, pos) \o (IF x.ok THEN <<RD(S, r.name, x.ix)>> ELSE <<>>)
    [] e.k = "call" ->
         IF e.f \in ArrIntrinsics /\ Len(e.c) >= 1 /\ e.c[1].k = "var" /\ e.c[1].name \in DOMAIN S.env /\ S.env[e.c[1].name].t = "arr"
         THEN (IF e.f \in {"size", "lbound", "ubound"} THEN <<>> ELSE AllElemReads(S, e.c[1].name))
              \o ReadsAll(P, Tail(e.c), S, pos)
         ELSE IF e.f \in IntrinsicNames THEN ReadsAll(P, e.c, S, pos)
         ELSE IF HasUnit(P, e.f) /\ Unit(P, e.f).kind = "function"
         THEN CallUnitL(P, Unit(P, e.f), e.c, [S EXCEPT !.log = <<>>, !.out = <<>>]).log
         ELSE <<>>
    [] e.k \in {"sum", "prod", "quot", "pow", "neg", "pos", "par", "not", "cmp", "and", "or"} -> ReadsAll(P, e.c, S, pos)
    [] OTHER -> <<>>

(* ------------------------------------------------------------ assignment *)
\* shape of the lvalue (as in FMachine!Assign)
LhsShape(P, S, lhs) ==
  LET tgt == S.env[lhs.name] IN
  IF lhs.k = "var" /\ tgt.t = "arr" THEN [d \in 1..Len(tgt.lb) |-> tgt.ub[d] - tgt.lb[d] + 1]
  ELSE IF lhs.k = "arr" /\ tgt.t = "arr" THEN SecShape(P, tgt, lhs.c, S.env, 1) ELSE <<>>

\* events of an assignment executed in the (pre-)state S; sel: the positions that are assigned
\* (all positions for an ordinary assignment, the control mask inside WHERE)
AssignEvents(P, S, lhs0, rhs, masked, cm) ==
  LET lhs == RealRef(S.env, lhs0)
      tgt == S.env[lhs.name]
      whole == lhs.k = "var" /\ tgt.t = "arr"
      subs == IF lhs.k = "arr" THEN lhs.c ELSE <<>>
      shape == LhsShape(P, S, lhs)
  IN IF shape = <<>>
     THEN ReadsE(P, rhs, S, <<>>) \o SubReads(P, subs, S, <<>>)
          \o <<WR(S, lhs.name, IF lhs.k = "var" THEN <<>> ELSE TLCEval(SubIdx(P, tgt, subs, S.env, <<>>, 1, 1).ix))>>
     ELSE LET ps == SetToSeq(IF masked THEN PosSet(shape) \cap cm ELSE PosSet(shape))
              ixof(p) == TLCEval(IF whole THEN [d \in 1..Len(p) |-> tgt.lb[d] + p[d] - 1] ELSE SubIdx(P, tgt, subs, S.env, p, 1, 1).ix)
          IN CatN([k \in 1..Len(ps) |-> ReadsE(P, rhs, S, ps[k])], Len(ps)) \o SubReads(P, subs, S, <<>>)
             \o TLCEval([k \in 1..Len(ps) |-> WR(S, lhs.name, ixof(ps[k]))])

AssignL(P, u, S, lhs, rhs) ==
  LET S2 == Assign(P, u, S, lhs, rhs) IN
  IF S2.st = "err" THEN S2 ELSE Put(S2, AssignEvents(P, S, lhs, rhs, FALSE, {}))

\* masked array assignment (WHERE): only the positions in cm are evaluated and stored
MaskedAssign(P, u, S, lhs0, rhs, cm, full) ==
  IF lhs0.name \notin DOMAIN S.env THEN Fail(S, "undeclared")
  ELSE LET lhs == RealRef(S.env, lhs0)
           tgt == S.env[lhs.name]
           whole == lhs.k = "var" /\ tgt.t = "arr"
           subs == IF lhs.k = "arr" THEN lhs.c ELSE <<>>
           shape == LhsShape(P, S, lhs)
       IN IF shape = <<>> \/ PosSet(shape) # full THEN Fail(S, "where-shape")
          ELSE LET ps == cm
                   vals == TLCEval([p \in ps |-> Conv(Decl(u, lhs.name).type, EvalE(P, rhs, S.env, p))])
                   ixs == TLCEval([p \in ps |-> IF whole THEN [d \in 1..Len(p) |-> tgt.lb[d] + p[d] - 1]
                                        ELSE SubIdx(P, tgt, subs, S.env, p, 1, 1).ix])
               IN IF \E p \in ps : IsErr(vals[p]) THEN Fail(S, (vals[CHOOSE p \in ps : IsErr(vals[p])]).why)
                  ELSE IF \E p \in ps : ~InBounds(tgt, ixs[p]) THEN Fail(S, "bounds")
                  ELSE Put([S EXCEPT !.env[lhs.name].data =
                               TLCEval([ix \in DOMAIN tgt.data |->
                                  IF \E p \in ps : ixs[p] = ix THEN vals[CHOOSE p \in ps : ixs[p] = ix] ELSE tgt.data[ix]])],
                           AssignEvents(P, S, lhs0, rhs, TRUE, cm))

(* -------------------------------------------------------------- statements *)
RECURSIVE AssociateL(_, _, _, _), DoLoopL(_, _, _, _, _, _, _), WhileLoopL(_, _, _, _, _, _), IfChainL(_, _, _, _, _), SelectCaseL(_, _, _, _, _, _)

ExecBodyL(P, u, ss, S0) ==
  LET RECURSIVE Go(_, _)
      Go(i, S) == IF i > Len(ss) \/ S.st # "ok" THEN S ELSE Go(i + 1, ExecStmtL(P, u, ss[i], S))
  IN Go(1, S0)

\* arm i >= 2 of an IF chain is the nested Conditional s.eids[i-1] of the IR: its window spans the
\* evaluation of condition i and everything the rest of the chain executes
IfChainL(P, u, s, S, i) ==
  IF i > Len(s.conds) THEN ExecBodyL(P, u, s.els, S)
  ELSE LET S0 == IF i >= 2 THEN Put(S, <<EnterEv(S, s.eids[i - 1])>>) ELSE S
           c == EvalE(P, s.conds[i], S.env, <<>>)
           S1 == Put(S0, ReadsE(P, s.conds[i], S, <<>>))
           R == IF IsErr(c) THEN Fail(S1, c.why)
                ELSE IF c.t # "log" THEN Fail(S1, "type")
                ELSE IF c.v THEN ExecBodyL(P, u, s.bodies[i], S1) ELSE IfChainL(P, u, s, S1, i + 1)
       IN IF i >= 2 THEN Put(R, <<ExitEv(S, s.eids[i - 1])>>) ELSE R

DoLoopL(P, u, s, S, k, n, stv) ==
  IF k > n THEN S
  ELSE LET B == ExecBodyL(P, u, s.body, Put(S, <<Ev("I", s.id, "", <<k>>, S.d)>>)) IN
       IF B.st = "exit" THEN [B EXCEPT !.st = "ok"]
       ELSE IF B.st \in {"err", "return"} THEN B
       ELSE LET C == [B EXCEPT !.st = "ok"]
                nv == AddV(C.env[s.var], I(stv))
            IN IF IsErr(nv) THEN Fail(C, nv.why)
               ELSE DoLoopL(P, u, s, Put([C EXCEPT !.env[s.var] = nv], <<Ev("WL", 0, s.var, <<>>, S.d)>>), k + 1, n, stv)

WhileLoopL(P, u, s, S0, fuel, k) ==
  IF fuel = 0 THEN Fail(S0, "nontermination-bound")
  ELSE LET c == EvalE(P, s.cond, S0.env, <<>>)
           S == Put(S0, <<Ev("I", s.id, "", <<k>>, S0.d)>> \o ReadsE(P, s.cond, S0, <<>>))
       IN
       IF IsErr(c) THEN Fail(S, c.why)
       ELSE IF c.t # "log" THEN Fail(S, "type")
       ELSE IF ~c.v THEN S
       ELSE LET B == ExecBodyL(P, u, s.body, S) IN
            IF B.st = "exit" THEN [B EXCEPT !.st = "ok"]
            ELSE IF B.st \in {"err", "return"} THEN B
            ELSE WhileLoopL(P, u, s, [B EXCEPT !.st = "ok"], fuel - 1, k + 1)

SelectCaseL(P, u, s, S, v, i) ==
  IF i > Len(s.cases) THEN ExecBodyL(P, u, s.default, S)
  ELSE IF v >= s.cases[i].lo /\ v <= s.cases[i].hi THEN ExecBodyL(P, u, s.cases[i].body, S)
  ELSE SelectCaseL(P, u, s, S, v, i + 1)

PrintReads(P, items, S) ==
  CatN([i \in 1..Len(items) |->
          IF items[i].k = "var" /\ items[i].name \in DOMAIN S.env /\ S.env[items[i].name].t = "arr"
          THEN AllElemReads(S, items[i].name) ELSE ReadsE(P, items[i], S, <<>>)], Len(items))

\* WHERE (m1) b1 ELSEWHERE (m2) b2 ... ELSEWHERE els END WHERE over whole arrays of the shape s.shape.
\* Mask i is evaluated for the still pending positions only (the standard leaves the evaluation of a
\* masked ELSEWHERE mask outside the pending positions open; logging fewer reads demands less).
WhereL(P, u, s, S0) ==
  LET full == PosSet(s.shape)
      RECURSIVE Body(_, _, _, _), Arm(_, _, _)
      Body(ss, i, S, cm) ==
        IF i > Len(ss) \/ S.st # "ok" THEN S
        ELSE LET a == ss[i]
                 S1 == Put(S, <<EnterEv(S, a.id)>>)
                 R == IF a.s # "assign" THEN Fail(S1, "where-body") ELSE MaskedAssign(P, u, S1, a.lhs, a.rhs, cm, full)
             IN Body(ss, i + 1, Put(R, <<ExitEv(S, a.id)>>), cm)
      Arm(i, S, pend) ==
        IF S.st # "ok" THEN S
        ELSE IF i > Len(s.conds) THEN Body(s.els, 1, S, pend)
        ELSE LET pseq == SetToSeq(pend)
                 mv == TLCEval([p \in pend |-> EvalE(P, s.conds[i], S.env, p)])
                 S1 == Put(S, CatN([k \in 1..Len(pseq) |-> ReadsE(P, s.conds[i], S, pseq[k])], Len(pseq)))
             IN IF \E p \in pend : IsErr(mv[p]) \/ mv[p].t # "log" THEN Fail(S1, "where-mask")
                ELSE LET cm == {p \in pend : mv[p].v} IN Arm(i + 1, Body(s.bodies[i], 1, S1, cm), pend \ cm)
  IN Arm(1, S0, full)

ExecStmtL(P, u, s, S) ==
  LET S1 == Put(S, <<EnterEv(S, s.id)>>)
      R ==
       CASE s.s = "assign" -> AssignL(P, u, S1, s.lhs, s.rhs)
         [] s.s = "if"     -> IfChainL(P, u, s, S1, 1)
         [] s.s = "do"     ->
              LET lo == EvalE(P, s.lo, S.env, <<>>)
                  hi == EvalE(P, s.hi, S.env, <<>>)
                  st == IF IsNone(s.st) THEN I(1) ELSE EvalE(P, s.st, S.env, <<>>)
                  S2 == Put(S1, ReadsE(P, s.lo, S, <<>>) \o ReadsE(P, s.hi, S, <<>>) \o OptReads(P, s.st, S)
                                \o <<Ev("WL", 0, s.var, <<>>, S.d)>>)
              IN IF IsErr(lo) \/ IsErr(hi) \/ IsErr(st) THEN Fail(S1, "do-bounds")
                 ELSE IF lo.t # "int" \/ hi.t # "int" \/ st.t # "int" \/ st.v = 0 THEN Fail(S1, "do-bounds")
                 ELSE DoLoopL(P, u, s, [S2 EXCEPT !.env[s.var] = lo], 1, TripCount3(lo.v, hi.v, st.v), st.v)
         [] s.s = "while"  -> WhileLoopL(P, u, s, S1, 40, 1)
         [] s.s = "select" -> LET v == EvalE(P, s.e, S.env, <<>>)
                                  S2 == Put(S1, ReadsE(P, s.e, S, <<>>)) IN
                              IF IsErr(v) THEN Fail(S2, v.why) ELSE IF v.t # "int" THEN Fail(S2, "type")
                              ELSE SelectCaseL(P, u, s, S2, v.v, 1)
         [] s.s = "call"   -> IF ~HasUnit(P, s.name) THEN Fail(S1, "unknown-procedure")
                              ELSE LET r == CallUnitL(P, Unit(P, s.name), s.args, S1) IN
                                   IF r.st = "err" THEN Fail(S1, r.why) ELSE [S1 EXCEPT !.env = r.env, !.out = r.out, !.log = r.log]
         [] s.s = "print"  -> PrintItems(P, s.items, Put(S1, PrintReads(P, s.items, S)), 1)
         [] s.s = "exit"   -> [S1 EXCEPT !.st = "exit"]
         [] s.s = "cycle"  -> [S1 EXCEPT !.st = "cycle"]
         [] s.s = "return" -> [S1 EXCEPT !.st = "return"]
         [] s.s \in {"nop", "raw"} -> S1
         [] s.s = "assoc"  -> AssociateL(P, u, s, S1)
         [] s.s = "where"  -> WhereL(P, u, s, S1)
         [] OTHER -> Fail(S1, "unsupported-statement")
  IN Put(R, <<ExitEv(S, s.id)>>)

\* as FMachine!Associate; selectors that are expressions are evaluated (read) on entry and bind a value
\* name (vn); element selectors evaluate (read) their subscripts on entry
AssociateL(P, u, s, S) ==
  LET n == Len(s.names)
      tref(i) == RealRef(S.env, s.targets[i])
      isvar(i) == s.targets[i].k = "var" /\ s.targets[i].name \in DOMAIN S.env /\ tref(i).k = "var"
      iselem(i) == tref(i).k = "arr" /\ tref(i).name \in DOMAIN S.env /\ S.env[tref(i).name].t = "arr"
                   /\ \A d \in 1..Len(tref(i).c) : tref(i).c[d].k # "range"
      elemix(i) == SubIdx(P, S.env[tref(i).name], tref(i).c, S.env, <<>>, 1, 1)
      val(i) == IF isvar(i) THEN [t |-> "alias", base |-> tref(i).name, ix |-> <<>>]
                ELSE IF iselem(i) THEN (IF elemix(i).ok /\ InBounds(S.env[tref(i).name], elemix(i).ix)
                                        THEN [t |-> "alias", base |-> tref(i).name, ix |-> elemix(i).ix] ELSE Err("bounds"))
                ELSE EvalE(P, s.targets[i], S.env, <<>>)
      vals == TLCEval([i \in 1..n |-> val(i)])
      tyof(i) == IF isvar(i) \/ iselem(i) THEN Decl(u, tref(i).name).type
                 ELSE IF vals[i].t \in {"int", "real", "log"} THEN vals[i].t ELSE "int"
      idx(nm) == CHOOSE i \in 1..n : s.names[i] = nm
      names == {s.names[i] : i \in 1..n}
      valnames == {s.names[i] : i \in {j \in 1..n : ~isvar(j) /\ ~iselem(j)}}
                  \cup {s.names[i] : i \in {j \in 1..n : isvar(j) /\ tref(j).name \in S.vn}}
      u2 == [u EXCEPT !.decls = @ \o [i \in 1..n |-> [name |-> s.names[i], type |-> tyof(i), intent |-> "local", dims |-> <<>>, init |-> None]]]
      env1 == TLCEval([nm \in DOMAIN S.env \cup names |-> IF nm \in names THEN vals[idx(nm)] ELSE S.env[nm]])
      bad == {i \in 1..n : IsErr(vals[i])}
      evs == CatN([i \in 1..n |-> IF isvar(i) THEN <<>>
                                  ELSE IF iselem(i) THEN SubReads(P, tref(i).c, S, <<>>)
                                  ELSE ReadsE(P, s.targets[i], S, <<>>)], n)
  IN
  IF bad # {} THEN Fail(S, "associate-selector")
  ELSE IF names \cap DOMAIN S.env # {} THEN Fail(S, "associate-shadowing-not-modelled")
  ELSE LET B == ExecBodyL(P, u2, s.body, [Put(S, evs) EXCEPT !.env = env1, !.vn = @ \cup valnames]) IN
       IF B.st = "err" THEN B ELSE [B EXCEPT !.env = TLCEval([nm \in DOMAIN S.env |-> B.env[nm]]), !.vn = S.vn]

(* ------------------------------------------------------------ procedure call *)
\* as FMachine!CallUnit (copy-in / copy-out) + events; returns [st, why, env, out, ret, log]
\* (log = S.log extended by the events of the call)
CallUnitL(P, cal, actuals, S) ==
  IF Len(actuals) # Len(cal.args) THEN [st |-> "err", why |-> "argument-count", env |-> S.env, out |-> S.out, ret |-> Undef, log |-> S.log]
  ELSE
  LET argidx(n) == CHOOSE i \in 1..Len(cal.args) : cal.args[i] = n
      isarg(n) == \E i \in 1..Len(cal.args) : cal.args[i] = n
      actualval(i) ==
         LET a == actuals[i] IN
         IF a.k = "var" /\ a.name \in DOMAIN S.env /\ S.env[a.name].t \in {"arr", "undef"} THEN S.env[a.name]
         ELSE EvalE(P, a, S.env, <<>>)
      hostenv == IF cal.host # "" THEN S.env ELSE [n \in {} |-> Undef]
      own == DeclNames(cal)
      env0 == TLCEval([n \in own \cup DOMAIN hostenv |->
                 IF n \in own
                 THEN (IF isarg(n)
                       THEN LET v == actualval(argidx(n))
                                d == Decl(cal, n)
                            IN IF v.t = "arr"
                               THEN [t |-> "arr", lb |-> [i \in 1..Len(d.dims) |-> d.dims[i][1]],
                                     ub |-> [i \in 1..Len(d.dims) |-> d.dims[i][1] + (v.ub[i] - v.lb[i])],
                                     data |-> [ix \in IdxSet([i \in 1..Len(d.dims) |-> d.dims[i][1]],
                                                             [i \in 1..Len(d.dims) |-> d.dims[i][1] + (v.ub[i] - v.lb[i])], 1) |->
                                                 v.data[[i \in 1..Len(ix) |-> ix[i] - d.dims[i][1] + v.lb[i]]]]]
                               ELSE v
                       ELSE Undef)
                 ELSE hostenv[n]])
      env1 == TLCEval([n \in DOMAIN env0 |-> IF n \in own /\ ~isarg(n) THEN InitLocal(P, Decl(cal, n), env0) ELSE env0[n]])
      argerr == {i \in 1..Len(cal.args) : IsErr(env0[cal.args[i]]) /\ env0[cal.args[i]].why # "undef"}
      \* actuals associated by reference: variables, whole arrays, array elements (seen through associations)
      byref(i) == actuals[i].k \in {"var", "arr"} /\ actuals[i].name \in DOMAIN S.env /\ actuals[i].name \notin S.vn
                  /\ RealRef(S.env, actuals[i]).name \notin S.vn
      ref(i) == RealRef(S.env, actuals[i])
      argev(i) == IF byref(i) THEN (IF ref(i).k = "arr" THEN SubReads(P, ref(i).c, S, <<>>) ELSE <<>>)
                  ELSE ReadsE(P, actuals[i], S, <<>>)
      dp == S.d + 1
      pre == CatN([i \in 1..Len(actuals) |-> argev(i)], Len(actuals)) \o <<Ev("F", 0, cal.name, <<>>, dp)>>
      B0 == [env |-> env1, out |-> S.out, st |-> "ok", why |-> "", log |-> <<Ev("E", cal.bid, "", <<>>, dp)>>, d |-> dp, vn |-> {}]
      R == ExecBodyL(P, cal, cal.body, B0)
      \* what the callee did through a dummy, seen from the caller
      Translatable(ev) == ev.d = dp /\ ev.e \in {"R", "W"} /\ isarg(ev.v) /\ byref(argidx(ev.v))
      Translate(ev) ==
        LET i == argidx(ev.v)
            r == ref(i)
            a == S.env[r.name]
            dd == Decl(cal, ev.v)
        IN IF r.k = "var"
           THEN Ev(ev.e, 0, r.name, IF a.t = "arr" THEN TLCEval([k \in 1..Len(ev.ix) |-> ev.ix[k] - dd.dims[k][1] + a.lb[k]]) ELSE <<>>, S.d)
           ELSE Ev(ev.e, 0, r.name, TLCEval(SubIdx(P, a, r.c, S.env, <<>>, 1, 1).ix), S.d)
      trs == SelectSeq(R.log, Translatable)
      post == <<Ev("X", cal.bid, "", <<>>, dp), Ev("G", 0, cal.name, <<>>, dp)>> \o TLCEval([k \in 1..Len(trs) |-> Translate(trs[k])])
      fulllog == S.log \o pre \o R.log \o post
  IN
  IF argerr # {} THEN [st |-> "err", why |-> "argument-evaluation", env |-> S.env, out |-> S.out, ret |-> Undef, log |-> S.log]
  ELSE IF R.st = "err" THEN [st |-> "err", why |-> R.why, env |-> S.env, out |-> S.out, ret |-> Undef, log |-> S.log]
  ELSE IF R.st \in {"exit", "cycle"} THEN [st |-> "err", why |-> "exit-outside-loop", env |-> S.env, out |-> S.out, ret |-> Undef, log |-> S.log]
  ELSE
  LET back1 == TLCEval([n \in DOMAIN S.env |->
                  LET writers == {i \in 1..Len(actuals) : actuals[i].k = "var" /\ actuals[i].name = n
                                                          /\ Decl(cal, cal.args[i]).intent # "in"}
                  IN IF writers # {}
                     THEN LET i == CHOOSE j \in writers : TRUE
                              v == R.env[cal.args[i]]
                          IN IF v.t = "arr" /\ S.env[n].t = "arr"
                             THEN [S.env[n] EXCEPT !.data = [ix \in DOMAIN S.env[n].data |->
                                       v.data[[d \in 1..Len(ix) |-> ix[d] - S.env[n].lb[d] + v.lb[d]]]]]
                             ELSE v
                     ELSE IF cal.host # "" /\ n \notin own THEN R.env[n]
                     ELSE S.env[n]])
      elemw == {i \in 1..Len(actuals) : actuals[i].k = "arr" /\ Decl(cal, cal.args[i]).intent # "in"
                                         /\ Len(Decl(cal, cal.args[i]).dims) = 0}
      RECURSIVE PutBack(_, _)
      PutBack(env, todo) ==
        IF todo = {} THEN env
        ELSE LET i == CHOOSE j \in todo : TRUE
                 a == actuals[i]
                 r == SubIdx(P, S.env[a.name], a.c, S.env, <<>>, 1, 1)
             IN PutBack([env EXCEPT ![a.name].data[r.ix] = R.env[cal.args[i]]], todo \ {i})
  IN [st |-> "ok", why |-> "", env |-> PutBack(back1, elemw), out |-> R.out,
      ret |-> IF cal.kind = "function" THEN R.env[cal.result] ELSE Undef, log |-> fulllog]

(* ------------------------------------------------------------ whole programs *)
\* as FMachine!Run, plus the event log of the execution
RunL(P, entry, input) ==
  LET u == Unit(P, entry)
      own == DeclNames(u)
      env0 == TLCEval([n \in own |-> IF n \in DOMAIN input THEN input[n] ELSE Undef])
      env1 == TLCEval([n \in own |-> IF n \in DOMAIN input THEN env0[n] ELSE InitLocal(P, Decl(u, n), env0)])
      R == ExecBodyL(P, u, u.body, [env |-> env1, out |-> <<>>, st |-> "ok", why |-> "", d |-> 0, vn |-> {},
                                    log |-> <<Ev("F", 0, u.name, <<>>, 0), Ev("E", u.bid, "", <<>>, 0)>>])
      outs == SelectSeq(u.args, LAMBDA n : Decl(u, n).intent \in {"out", "inout"})
      RECURSIVE Final(_)
      Final(i) == IF i > Len(outs) THEN <<>>
                  ELSE LET v == R.env[outs[i]] IN
                       (IF v.t = "arr" THEN [k \in 1..Len(Elements(v)) |-> Image(Elements(v)[k])] ELSE <<Image(v)>>) \o Final(i + 1)
  IN IF R.st = "err" THEN [ok |-> FALSE, why |-> R.why, out |-> <<>>, log |-> <<>>]
     ELSE LET fin == Final(1) IN
          IF \E k \in 1..Len(fin) : fin[k][1] \in {"err"} THEN [ok |-> FALSE, why |-> "undefined-result", out |-> <<>>, log |-> <<>>]
          ELSE [ok |-> TRUE, why |-> "", out |-> R.out \o fin,
                log |-> R.log \o <<Ev("X", u.bid, "", <<>>, 0), Ev("G", 0, u.name, <<>>, 0)>>]
=============================================================================
