-------------------------- MODULE Trace_AttachDetach --------------------------
(* Trace validation for C16.  A case is one operation sequence executed on a REAL generated routine:   *)
(*   [before : exported IR (both sections, fully detached), text0 : hash of fgen,                    *)
(*    steps : <<[op, what, types, post, n, obs : exported IR after the operation, text]>>]           *)
(* The export is the harness' own recursion over node fields with node identity (python id) as `id`.*)
(* TLC tracks which facets are attached (AttachDetach!FacetsOf) and checks after every operation      *)
(*   NothingLost       Flat(obs) = before                                                             *)
(*   BalancedRestores  nothing attached  =>  obs = before (shape, identities, dataflow flags)         *)
(*                     and the generated code is the original one.                                    *)
EXTENDS AttachDetach, Json, IOUtils

Cases == JsonDeserialize(IOEnv.CASES)
VARIABLES tid, l, info
tvars == <<init, cur, stack, att, tid, l, info>>

X(e) == [what |-> e.what, types |-> ToSet(e.types), post |-> e.post]

RECURSIVE StripIds(_)
StripIds(s) == [j \in DOMAIN s |-> [s[j] EXCEPT !.id = 0, !.body = StripIds(@), !.pre = StripIds(@), !.post = StripIds(@)]]
ClearDfa(s) == ClearAll(s)

Judge(c, e, att1) ==
  LET flat == FlatSeq(e.obs) IN
  IF flat # c.before
  THEN "NothingLost:" \o (IF StripIds(flat) = StripIds(c.before) THEN "ids" ELSE "shape")
  ELSE IF att1 = {} /\ ClearDfa(e.obs) # c.before
  THEN "BalancedRestores:" \o (IF StripIds(ClearDfa(e.obs)) = StripIds(c.before) THEN "ids" ELSE "shape")
  ELSE IF att1 = {} /\ e.text # c.text0 THEN "BalancedRestores:text"
  ELSE "ok"

\* not demanded by C16 (see AttachDetach!DataflowFullyDetached): reported with the verdict as information only
Residue(e, att1) == att1 = {} /\ e.obs # ClearDfa(e.obs)

Reset == init' = <<>> /\ cur' = <<>> /\ stack' = <<>> /\ att' = {}
Advance == tid' = tid + 1 /\ l' = 1 /\ info' = "ok" /\ Reset
Init_ == tid = 1 /\ l = 1 /\ info = "ok" /\ init = <<>> /\ cur = <<>> /\ stack = <<>> /\ att = {}

Next_ ==
  /\ tid <= Len(Cases)
  /\ LET c == Cases[tid] IN
     IF l = 1 /\ FlatSeq(c.before) # c.before
     THEN PrintT(<<"VERDICT", c.id, FALSE, "Fixture:not-flat", 0>>) /\ Advance
     ELSE IF l > Len(c.steps)
     THEN PrintT(<<"VERDICT", c.id, TRUE, info, 0>>) /\ Advance
     ELSE LET e == c.steps[l]
              x == X(e)
              ok == CASE e.op \in {"attach", "detach", "enter"} -> TRUE
                      [] e.op = "exit"  -> stack # <<>>
                      [] e.op = "raise" -> e.n \in 1..Len(stack)
              att1 == CASE e.op \in {"attach", "enter"} -> att \cup FacetsOf(x)
                        [] e.op = "detach" -> att \ FacetsOf(x)
                        [] e.op = "exit"   -> att \ FacetsOf(Last(stack))
                        [] e.op = "raise"  -> UnwindAtt(att, stack, e.n)
              stack1 == CASE e.op = "enter" -> Append(stack, x)
                          [] e.op = "exit"  -> Front(stack)
                          [] e.op = "raise" -> SubSeq(stack, 1, Len(stack) - e.n)
                          [] OTHER -> stack
          IN IF ~ok THEN PrintT(<<"VERDICT", c.id, FALSE, "Machinery:ill-nested", l>>) /\ Advance
             ELSE LET j == Judge(c, e, att1) IN
                  IF j # "ok" THEN PrintT(<<"VERDICT", c.id, FALSE, j, l>>) /\ Advance
                  ELSE /\ att' = att1 /\ stack' = stack1 /\ l' = l + 1 /\ tid' = tid /\ UNCHANGED <<init, cur>>
                       /\ info' = IF Residue(e, att1) THEN "info:dataflow-residue" ELSE info

TraceSpec == Init_ /\ [][Next_]_tvars
=============================================================================
