SPECIFICATION FlagSpec
CONSTANT UnionOnRaw = FALSE
CONSTANT MaxDepth = 3
CONSTANT AllFiles = FALSE
INVARIANT DiscoveredIsProjection
CHECK_DEADLOCK FALSE
