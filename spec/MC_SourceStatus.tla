--------------------------- MODULE MC_SourceStatus ---------------------------
(* Design-level model of C03.  A small fixed tree (a section with two leaves, a loop with two leaves, and a      *)
(* trailing leaf); histories of up to MaxEdits local edits applied with the CONTRACT of the rebuilding transformer *)
(* (the touched node loses validity, every ancestor becomes INVALID_CHILDREN, nothing else changes) and an        *)
(* abstract conservative emitter.  Checked: the clauses of SourceStatus hold in every reachable state, the        *)
(* unmodified tree prints the original text, and markings that leave an ancestor VALID, or an emitter that       *)
(* regenerates a VALID node, are rejected.                                                                        *)
EXTENDS SourceStatus
CONSTANT MaxEdits

\* original tree: 1 section(1..8) [2 leaf(1), 3 leaf(2), 4 loop(3..6) [5 leaf(4), 6 leaf(5)], 7 leaf(7), 8 leaf(8)]
Par == <<0, 1, 1, 1, 4, 4, 1, 1>>
L0  == <<1, 1, 2, 3, 4, 5, 7, 8>>
L1  == <<8, 1, 2, 6, 4, 5, 7, 8>>
Orig == <<"a = 1", "b = 2", "do i = 1, n", "  c = 3", "  d = 4", "end do", "e = 5", "f = 6">>
Leaves == {2, 3, 5, 6, 7, 8}
N == 8
ONodes == [i \in 1..N |-> [par |-> Par[i], kind |-> IF i \in Leaves THEN "leaf" ELSE "block", st |-> "VALID", l0 |-> L0[i], l1 |-> L1[i], oid |-> i, whole |-> TRUE]]

VARIABLES st, gone, newtext, touched, own, nedits
vars == <<st, gone, newtext, touched, own, nedits>>
Init == /\ st = [i \in 1..N |-> "VALID"] /\ gone = {} /\ newtext = [i \in 1..N |-> ""] /\ touched = {} /\ own = {} /\ nedits = 0

Ancs(i) == {a \in 1..N : a # i /\ IsAnc(ONodes, a, i)}
Invalidate(s, i) == [j \in 1..N |-> IF j \in Ancs(i) THEN (IF s[j] = "VALID" THEN "INVALID_CHILDREN" ELSE s[j]) ELSE s[j]]
Replace(i) == /\ i \in Leaves \ gone /\ nedits < MaxEdits
              /\ st' = [Invalidate(st, i) EXCEPT ![i] = "NONE"] /\ newtext' = [newtext EXCEPT ![i] = "x = 0"]
              /\ gone' = gone /\ touched' = touched \cup {i} /\ nedits' = nedits + 1 /\ own' = own
Remove(i) == /\ i \in Leaves \ gone /\ nedits < MaxEdits
             /\ st' = Invalidate(st, i) /\ gone' = gone \cup {i} /\ newtext' = newtext
             /\ touched' = touched \cup {i} /\ nedits' = nedits + 1 /\ own' = own
Subst(i) == /\ i \in Leaves \ gone /\ nedits < MaxEdits
            /\ st' = [Invalidate(st, i) EXCEPT ![i] = "INVALID_NODE"] /\ newtext' = [newtext EXCEPT ![i] = "y = 9"]
            /\ gone' = gone /\ touched' = touched \cup {i} /\ nedits' = nedits + 1 /\ own' = own \cup {i}
\* a substitution that changes the own expressions of a block (loop header): whatever the block's status was
\* (VALID or already INVALID_CHILDREN after an earlier edit below it) it becomes INVALID_NODE
SubstOwn(i) == /\ i \in (1..N) \ (Leaves \cup {1}) /\ nedits < MaxEdits
               /\ st' = [Invalidate(st, i) EXCEPT ![i] = "INVALID_NODE"] /\ newtext' = [newtext EXCEPT ![i] = "DO j=1,n"]
               /\ gone' = gone /\ touched' = touched \cup {i} /\ nedits' = nedits + 1 /\ own' = own \cup {i}
Next == \E i \in 1..N : Replace(i) \/ Remove(i) \/ Subst(i) \/ SubstOwn(i)
Spec == Init /\ [][Next]_vars

\* the tree after the history (removed nodes dropped; indices renumbered in pre-order)
Alive == {i \in 1..N : i \notin gone}
Rank(i) == Cardinality({j \in Alive : j <= i})
NewNodes(s) == [k \in 1..Cardinality(Alive) |->
                  LET i == CHOOSE i \in Alive : Rank(i) = k IN
                  [par |-> IF Par[i] = 0 THEN 0 ELSE Rank(Par[i]), kind |-> ONodes[i].kind, st |-> s[i], l0 |-> L0[i], l1 |-> L1[i],
                   oid |-> i, whole |-> TRUE]]
\* the abstract conservative emitter: a VALID node prints its original lines (regen = a node that is regenerated anyway)
RECURSIVE Emit(_, _, _)
Kids(i) == {j \in Alive : Par[j] = i}
RECURSIVE EmitKids(_, _, _, _)
EmitKids(s, ks, regen, acc) == IF ks = {} THEN acc
                               ELSE LET j == CHOOSE j \in ks : \A k \in ks : j <= k IN EmitKids(s, ks \ {j}, regen, acc \o Emit(s, j, regen))
Emit(s, i, regen) ==
  IF s[i] = "VALID" /\ i # regen THEN SubSeq(Orig, L0[i], L1[i])
  ELSE IF i \in Leaves THEN <<IF newtext[i] = "" THEN "REGENERATED" ELSE newtext[i]>>
  ELSE IF i = 1 THEN EmitKids(s, Kids(i), regen, <<>>)
  ELSE <<IF s[i] = "VALID" THEN "DO i=1,n" ELSE IF s[i] = "INVALID_CHILDREN" THEN Orig[L0[i]] ELSE newtext[i]>>
       \o EmitKids(s, Kids(i), regen, <<>>) \o <<Orig[L1[i]]>>
RECURSIVE SetToSeqT(_)
SetToSeqT(T) == IF T = {} THEN <<>> ELSE LET x == CHOOSE x \in T : TRUE IN <<x>> \o SetToSeqT(T \ {x})
Case(s, regen) == [orig |-> Orig, onodes |-> ONodes, nodes |-> NewNodes(s), touched |-> SetToSeqT(touched), own |-> SetToSeqT(own), out |-> Emit(s, 1, regen), l0 |-> 1, l1 |-> 8]

\* 1. the contract satisfies all clauses
ContractAccepted == Findings(Case(st, 0)) = <<>>
\* 2. the unmodified tree prints the original text
UnmodifiedVerbatim == touched = {} => Emit(st, 1, 0) = Orig
\* 3. leaving an ancestor of a touched node VALID is rejected by ValidSound
AncestorLeftValid == \A t \in touched : \A a \in Ancs(t) :
                        \E k \in DOMAIN Findings(Case([st EXCEPT ![a] = "VALID"], 0)) : Findings(Case([st EXCEPT ![a] = "VALID"], 0))[k][1] = "valid-sound"
\* 4. an emitter that regenerates an outermost VALID node (its text differs from the original) is rejected by ValidEmitted
\*    (or by Unmodified when nothing was edited)
\* 5. a status that is not upgraded (the block whose header changed stays INVALID_CHILDREN, so the emitter re-uses the
\*    original header) is rejected by ChildrenOnly and by StaleHeader
Has(fs, cl) == \E k \in DOMAIN fs : fs[k][1] = cl
NoUpgradeRejected == \A b \in own \ Leaves :
                        LET fs == Findings(Case([st EXCEPT ![b] = "INVALID_CHILDREN"], 0)) IN Has(fs, "children-only") /\ Has(fs, "stale-header")
Outermost(i) == st[i] = "VALID" /\ \A a \in Ancs(i) : st[a] # "VALID"
RegenRejected == \A i \in Alive \ {1} : Outermost(i) => Findings(Case(st, i)) # <<>>
=============================================================================
