--------------------------- MODULE Trace_VarFactory ---------------------------
(* Trace validation for C13: histories recorded from real `Variable(...)` objects attached to real  *)
(* scoped nodes are replayed against VarFactory!Apply, one TLC step per event.  Every event carries *)
(* its arguments and the observation after the call:                                               *)
(*    obs.syms[k] = <<type(var_k).__name__, projected var_k.type, index of var_k.scope (0 none)>>   *)
(*    obs.tab[s][i] = projected entry of name NameSeq[i] in scope s ("none" if absent)              *)
(* The first disagreement is reported with the clause of C13 it breaks:                            *)
(*    class            the class of a symbol is not the tier decision for its declared type        *)
(*    attached-type    a symbol attached to a scope does not report the type recorded there         *)
(*    detached-type    an unattached symbol does not report its own type                           *)
(*    scope / table    attachment or the recorded types differ from the specified effect            *)
EXTENDS VarFactory, Json, IOUtils

Cases == JsonDeserialize(IOEnv.CASES)
NameSeq == <<"x", "y", "d%x">>

VARIABLES tid, l
tvars == <<st, tid, l>>

Legal(s0, e) ==
  /\ e.op \in {"create", "settype", "clone", "rescope", "detach"}
  /\ e.op \in {"clone", "rescope", "detach"} => (e.k \in 1..Len(s0.syms) /\ e.n = s0.syms[e.k].name)
  /\ e.op = "clone" => CloneOK(s0, e)
  /\ e.op = "create" => (e.n \in Names /\ e.s \in 0..3 /\ e.t \in Types \cup {None} /\ e.pc \in PCs
                          /\ ((e.pc = "none") <=> (e.n # "d%x")))
  /\ e.op = "settype" => (e.n \in Names /\ e.s \in Scopes /\ e.t \in Types)

\* first clause violated by the observation, "ok" if none
Clause(s2, obs) ==
  IF Len(obs.syms) # Len(s2.syms) THEN "symbols"
  ELSE IF \E k \in 1..Len(s2.syms) : obs.syms[k][1] # s2.syms[k].cls THEN "class"
  ELSE IF \E k \in 1..Len(s2.syms) : obs.syms[k][3] # s2.syms[k].scope THEN "scope"
  ELSE IF \E k \in 1..Len(s2.syms) : s2.syms[k].scope # 0 /\ obs.syms[k][2] # TypeOf(s2, k) THEN "attached-type"
  ELSE IF \E k \in 1..Len(s2.syms) : s2.syms[k].scope = 0 /\ obs.syms[k][2] # TypeOf(s2, k) THEN "detached-type"
  ELSE IF \E s \in Scopes, i \in 1..3 : obs.tab[s][i] # s2.tab[s][NameSeq[i]] THEN "table"
  ELSE "ok"

\* which symbol / what was expected (diagnostics; kept short: TLC wraps printed tuples beyond 80 columns).
\* The harness reads the observed value from its own trace.
ShortCls(c) == CASE c = "ProcedureSymbol" -> "Procedure" [] c = "DeferredTypeSymbol" -> "Deferred" [] OTHER -> c
Detail(s2, obs, cl) ==
  IF cl = "class" THEN LET k == CHOOSE k \in 1..Len(s2.syms) : obs.syms[k][1] # s2.syms[k].cls
                       IN  ":" \o ToString(k) \o ":" \o ShortCls(s2.syms[k].cls)
  ELSE IF cl = "scope" THEN LET k == CHOOSE k \in 1..Len(s2.syms) : obs.syms[k][3] # s2.syms[k].scope
                            IN  ":" \o ToString(k) \o ":" \o ToString(s2.syms[k].scope)
  ELSE IF cl \in {"attached-type", "detached-type"}
       THEN LET k == CHOOSE k \in 1..Len(s2.syms) : obs.syms[k][2] # TypeOf(s2, k)
            IN  ":" \o ToString(k) \o ":" \o TypeOf(s2, k)
  ELSE IF cl = "table"
       THEN LET p == CHOOSE p \in Scopes \X (1..3) : obs.tab[p[1]][p[2]] # s2.tab[p[1]][NameSeq[p[2]]]
            IN  ":" \o ToString(p[1]) \o "/" \o ToString(p[2]) \o ":" \o s2.tab[p[1]][NameSeq[p[2]]]
  ELSE ":0:"

Advance == tid' = tid + 1 /\ l' = 1 /\ st' = InitSt
Init_ == st = InitSt /\ tid = 1 /\ l = 1

Next_ ==
  /\ tid <= Len(Cases)
  /\ LET c == Cases[tid] IN
     IF l > Len(c.events)
     THEN PrintT(<<"VERDICT", c.id, TRUE, "ok", 0>>) /\ Advance
     ELSE LET e == c.events[l] IN
          IF ~Legal(st, e)
          THEN PrintT(<<"VERDICT", c.id, FALSE, "ILLEGAL-EVENT:" \o e.op, l>>) /\ Advance
          ELSE LET s2 == Apply(st, e)
                   cl == Clause(s2, e.obs)
               IN IF cl # "ok"
                  THEN PrintT(<<"VERDICT", c.id, FALSE, cl \o ":" \o e.op \o Detail(s2, e.obs, cl), l>>) /\ Advance
                  ELSE st' = s2 /\ l' = l + 1 /\ tid' = tid

TraceSpec == Init_ /\ [][Next_]_tvars
=============================================================================
