------------------------------- MODULE PickleRT -------------------------------
(***************************************************************************)
(* C18: pickling round trip of a program unit.                             *)
(*   u = pickle.loads(pickle.dumps(o))                                     *)
(* (Subroutine/Module/Sourcefile.__getstate__/__setstate__,                *)
(* ScopedNode.__setstate__, SymbolTable / ProcedureType pickling)          *)
(*                                                                         *)
(* The round trip is one step of the CloneAlias heap model: it allocates a *)
(* complete second object graph ("c" = the unpickled unit) in which every  *)
(* scope / parent reference points into the new graph; weak references     *)
(* (parent scope, procedure links) are not transported, contained          *)
(* procedures are re-registered and all symbols re-scoped by __setstate__. *)
(* Properties: Equal (same content), SameText, ScopesReattached (symbols   *)
(* of the unpickled unit resolve through the unpickled unit, with the same *)
(* types), OriginalUntouched.                                              *)
(***************************************************************************)
EXTENDS CloneAlias

Unpickle(s) == DoClone(s, "")

PNext == /\ TLCGet("level") < MaxDepth
         /\ ~st.exists["c"]
         /\ \/ \E e \in {x \in Events(st) : x.op # "clone"} : st' = Apply(st, e) /\ ev' = e    \* any content before pickling
            \/ st' = Unpickle(st) /\ ev' = Ev("unpickle", "c", "", "", "")
PInit == st = InitSt(FALSE) /\ ev = NoEv
PSpec == PInit /\ [][PNext]_vars

Done == ev.op = "unpickle"
Equal    == Done => LET o == View(st, "o")  u == View(st, "c")
                    IN  o.name = u.name /\ o.decl = u.decl /\ o.tab = u.tab /\ o.body = u.body /\ o.spec = u.spec /\ o.members = u.members
                        /\ o.ntab = u.ntab
SameText == Done => Text(View(st, "c")) = Text(View(st, "o"))
ScopesReattached ==
  Done => LET u == View(st, "c") IN
          /\ u.owners \subseteq {"self"} /\ u.memparent \subseteq {"self"} /\ u.memtab \subseteq {"own"} /\ u.calls \subseteq {"own"}
          /\ u.nparent \subseteq {"self"} /\ u.nown \subseteq {"self"} /\ u.nocc = View(st, "o").nocc
          /\ \A v \in Vars : u.occ[v] = View(st, "o").occ[v]                 \* ... with the same types
          /\ \A v \in {"v1", "v2"} : u.mocc[v] = View(st, "o").mocc[v]
OriginalUntouched == [][ev'.op = "unpickle" => View(st', "o") = View(st, "o")]_vars
=============================================================================
