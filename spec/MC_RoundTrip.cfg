SPECIFICATION Spec
INVARIANT NormAccepted
INVARIANT GrowRejected
INVARIANT IndentRejected
INVARIANT DropRejected
CHECK_DEADLOCK FALSE
