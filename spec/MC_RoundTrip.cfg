SPECIFICATION Spec
INVARIANT NormAccepted
INVARIANT GrowRejected
INVARIANT IndentRejected
INVARIANT DropRejected
INVARIANT EndsExempt
INVARIANT Unreadable
INVARIANT NotCompiling
CHECK_DEADLOCK FALSE
