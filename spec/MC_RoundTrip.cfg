SPECIFICATION Spec
INVARIANT NormAccepted
INVARIANT GrowRejected
INVARIANT IndentRejected
INVARIANT DropRejected
INVARIANT EndsExempt
CHECK_DEADLOCK FALSE
