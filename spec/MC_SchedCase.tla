---------------------------- MODULE MC_SchedCase ----------------------------
(* Design-level check for C23 part 2: a hash-bucket collection of items (what a python set /     *)
(* dict / networkx graph does with Item objects: bucket chosen by hash, equality by folded name)  *)
(* refines the abstract collection of SchedCase!ApplyC for every history over a universe of names *)
(* that contains case variants -- provided the hash is a function of the FOLDED name.             *)
(* MC_SchedCase.cfg     HashOf <- HashFolded : all invariants hold                                *)
(* MC_SchedCase_raw.cfg HashOf <- HashRaw    : negative control, TLC must find a counterexample   *)
(*                      (two equal items in one collection / an equal item that is not found)      *)
EXTENDS SchedCase
CONSTANTS HashOf(_), MaxDepth

\* m#k  M#K  M#k  #p  #P  m#q
U == {<<109, 35, 107>>, <<77, 35, 75>>, <<77, 35, 107>>, <<35, 112>>, <<35, 80>>, <<109, 35, 113>>}
NB == 7
RECURSIVE Sum(_)
Sum(s) == IF s = <<>> THEN 0 ELSE Head(s) + Sum(Tail(s))
HashRaw(n) == Sum(n) % NB
HashFolded(n) == Sum(Fold(n)) % NB

VARIABLES buckets, abs, last   \* abs: the abstract set of the same history; last: [op, a, ret] of the last event
cvars == <<buckets, abs, last>>

Stored == UNION {buckets[h] : h \in DOMAIN buckets}
FindIn(n) == \E m \in buckets[HashOf(n)] : Fold(m) = Fold(n)

MAdd(n) ==
  /\ buckets' = IF FindIn(n) THEN buckets ELSE [buckets EXCEPT ![HashOf(n)] = @ \cup {n}]
  /\ abs' = ApplyC(abs, [op |-> "add", a |-> n, b |-> n]).st
  /\ last' = [op |-> "add", ret |-> "none", exp |-> "none"]
MDel(n) ==
  /\ buckets' = [buckets EXCEPT ![HashOf(n)] = {m \in @ : Fold(m) # Fold(n)}]
  /\ abs' = ApplyC(abs, [op |-> "del", a |-> n, b |-> n]).st
  /\ last' = [op |-> "del", ret |-> B(FindIn(n)), exp |-> ApplyC(abs, [op |-> "del", a |-> n, b |-> n]).ret]
MHas(n) ==
  /\ UNCHANGED <<buckets, abs>>
  /\ last' = [op |-> "has", ret |-> B(FindIn(n)), exp |-> ApplyC(abs, [op |-> "has", a |-> n, b |-> n]).ret]
MSize ==
  /\ UNCHANGED <<buckets, abs>>
  /\ last' = [op |-> "size", ret |-> Str(Cardinality(Stored)), exp |-> ApplyC(abs, [op |-> "size", a |-> <<>>, b |-> <<>>]).ret]

MCInit == buckets = [h \in 0..(NB - 1) |-> {}] /\ abs = {} /\ last = [op |-> "init", ret |-> "none", exp |-> "none"]
MCNext == TLCGet("level") < MaxDepth /\ (\/ \E n \in U : MAdd(n) \/ MDel(n) \/ MHas(n)
                                         \/ MSize)
MCSpec == MCInit /\ [][MCNext]_cvars

\* the bucket design returns what the abstract collection returns, and stores the same elements
ReturnsAgree == last.ret = last.exp
Refines == {Fold(m) : m \in Stored} = abs /\ Cardinality(Stored) = Cardinality(abs)
\* equal items hash equally (the law the abstract hasheq event states)
HashLaw == buckets = buckets /\ \A a, b \in U : Fold(a) = Fold(b) => HashOf(a) = HashOf(b)
=============================================================================
