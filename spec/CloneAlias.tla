------------------------------ MODULE CloneAlias ------------------------------
(***************************************************************************)
(* C17: cloning a program unit yields an independent, correctly scoped     *)
(* copy (loki ProgramUnit.clone / Subroutine.clone / Module.clone /        *)
(* Sourcefile.clone, Scope.clone + rescope_symbols).                       *)
(*                                                                         *)
(* The implementation has reference semantics: a program unit is a small   *)
(* object graph (symbol table, spec section, body section, contained       *)
(* member units, symbols that point to the scope they resolve their type   *)
(* through, a registration of the unit's name in the parent scope).  The   *)
(* property demands value semantics: after `c = o.clone()` the two copies  *)
(* behave like two independent values.                                     *)
(*                                                                         *)
(* The model is a heap with two slots per object class ("o" / "c"):        *)
(*   unit[k]   = [name, tab, spec, body, mem]   references to heap slots   *)
(*   tabs[r]   = [types : name -> type token, procs : member -> slot the   *)
(*               registered procedure object lives in]                     *)
(*   specs[r]  = [decl : declared variables, marks : extra spec nodes,     *)
(*               scope : the unit the symbols of this section point to]    *)
(*   bodies[r] = [stmts : statement tokens, scope]                         *)
(*   mems[r]   = sequence of [n : member name, parent : unit]              *)
(*   nest[r]   = nested scope nodes of the unit (id "td": a derived type   *)
(*               definition in the spec, "as": an ASSOCIATE block in the   *)
(*               body): [types : nested name -> type, parent : the unit    *)
(*               whose table the nested table is chained to, scope : the   *)
(*               unit whose scope chain owns the nested symbols]           *)
(*   par       = image of the ORIGINAL's parent scope: reg[name] = which   *)
(*               copy the parent's symbol-table entry of that name refers  *)
(*               to                                                        *)
(* A deep clone allocates the "c" slots and re-points every scope / parent *)
(* reference; every later modification is an in-place update of the slot   *)
(* the modified copy references.  View(st, k) dereferences copy k: it is   *)
(* exactly what the harness projects from the real objects.                *)
(*                                                                         *)
(* The Mut* constants switch on design mutants (shallow or mis-scoped      *)
(* clones).  They are all FALSE in the specification; the driver also runs *)
(* TLC with each of them TRUE and requires the matching invariant to fail  *)
(* (the invariants have teeth).                                            *)
(***************************************************************************)
EXTENDS Naturals, Sequences, FiniteSets, TLC

CONSTANTS MutShareBody, MutShareSpec, MutShareTab, MutShareMembers,
          MutNoRescope, MutStaleProcs, MutRegisterInParent,
          MutShareNest     \* the clone's nested scopes (TypeDef, ASSOCIATE) alias the symbol tables of the original's

Copies   == {"o", "c"}
Other(k) == IF k = "o" THEN "c" ELSE "o"
Vars     == {"v1", "v2", "v3"}      \* v1, v2 are declared and used initially, v3 can be added
Extras   == {"x1"}                  \* a symbol-table-only name
TabNames == Vars \cup Extras
Types    == {"int", "real"}
None     == "none"
NameToks == {"n0", "n1", "n2"}      \* n0 = original name
MemToks  == {"m1", "m2", "m3"}      \* m3 can be added
BodyToks == {"e1", "e2"}            \* statements inserted by body edits
MarkToks == {"c1"}                  \* nodes inserted by spec edits
NestIds  == {"td", "as"}            \* nested scopes: TypeDef in the spec, ASSOCIATE block in the body
NestNames == {"n1", "n2", "xn"}     \* n1, n2: component / associate names (declared and used), xn can be declared

ToSet(s) == {s[i] : i \in DOMAIN s}

(***************************************************************************)
(* Dereferencing                                                           *)
(***************************************************************************)
Resolve(st, s, v) == st.tabs[st.unit[s].tab].types[v]   \* type of name v seen from scope (unit) s
Tag(k, s) == IF s = k THEN "self" ELSE "other"

View(st, k) ==
  LET u  == st.unit[k]
      sp == st.specs[u.spec]
      bd == st.bodies[u.body]
      ms == st.mems[u.mem]
      tb == st.tabs[u.tab]
      memnames == {ms[i].n : i \in DOMAIN ms}
  IN [ name    |-> u.name,
       decl    |-> [v \in Vars |-> IF v \in sp.decl THEN Resolve(st, sp.scope, v) ELSE None],
       tab     |-> tb.types,
       \* types seen at the occurrences of v: the declaration (spec) and, for v1/v2, the body
       occ     |-> [v \in Vars |-> IF v \notin sp.decl THEN {}
                                   ELSE {Resolve(st, sp.scope, v)} \cup
                                        (IF v \in {"v1", "v2"} THEN {Resolve(st, bd.scope, v)} ELSE {})],
       \* host-associated uses inside member units resolve through the member's parent
       mocc    |-> [v \in {"v1", "v2"} |-> {Resolve(st, ms[i].parent, v) : i \in DOMAIN ms}],
       body    |-> bd.stmts,
       spec    |-> sp.marks,
       members |-> [i \in DOMAIN ms |-> ms[i].n],
       owners  |-> {Tag(k, sp.scope), Tag(k, bd.scope)},
       memparent |-> {Tag(k, ms[i].parent) : i \in DOMAIN ms},
       memtab  |-> {IF tb.procs[m] = None THEN "none" ELSE IF tb.procs[m] = u.mem /\ u.mem = k THEN "own" ELSE "other"
                     : m \in memnames},
       \* calls to members in the body resolve through the scope of the body's symbols
       calls   |-> {LET e == st.tabs[st.unit[bd.scope].tab].procs[m]
                    IN  IF e = None THEN "deferred" ELSE IF e = u.mem /\ u.mem = k THEN "own" ELSE "other"
                     : m \in memnames \cap {"m1"}},
       \* nested scopes: table contents, types seen at the occurrences of the nested names (they resolve through the
       \* nested table their scope owns), chaining of the nested tables, ownership of nested symbols
       ntab    |-> [i \in NestIds |-> st.nest[u.nest][i].types],
       nocc    |-> [i \in NestIds |-> [n \in NestNames |->
                      LET t == st.nest[st.unit[st.nest[u.nest][i].scope].nest][i].types[n]
                      IN  IF n = "xn" \/ st.nest[u.nest][i].types[n] = None THEN {} ELSE {t}]],
       nparent |-> {Tag(k, st.nest[u.nest][i].parent) : i \in NestIds},
       nown    |-> {Tag(k, st.nest[u.nest][i].scope) : i \in NestIds} ]

\* the generated code is a function of these components
Text(w)     == <<w.name, w.decl, w.body, w.spec, w.members>>
TextSansName(w) == <<w.decl, w.body, w.spec, w.members>>

(***************************************************************************)
(* Events  e = [op, k, a1, a2, how]                                        *)
(***************************************************************************)
Ev(op, k, a1, a2, how) == [op |-> op, k |-> k, a1 |-> a1, a2 |-> a2, how |-> how]

DoClone(st, nm) ==
  LET u  == st.unit["o"]
      cu == [name |-> IF nm = "" THEN u.name ELSE nm,
             tab  |-> IF MutShareTab THEN u.tab ELSE "c",
             spec |-> IF MutShareSpec THEN u.spec ELSE "c",
             body |-> IF MutShareBody THEN u.body ELSE "c",
             mem  |-> IF MutShareMembers THEN u.mem ELSE "c",
             nest |-> IF MutShareNest THEN u.nest ELSE "c"]
      sc == IF MutNoRescope THEN "o" ELSE "c"
      ot == st.tabs[u.tab]
  IN [st EXCEPT !.exists["c"] = TRUE,
                !.unit["c"]   = cu,
                !.tabs["c"]   = [types |-> ot.types,
                                 procs |-> [m \in MemToks |-> IF ot.procs[m] = None THEN None
                                                              ELSE IF MutStaleProcs THEN ot.procs[m] ELSE "c"]],
                !.specs["c"]  = [st.specs[u.spec] EXCEPT !.scope = sc],
                !.bodies["c"] = [st.bodies[u.body] EXCEPT !.scope = sc],
                !.mems["c"]   = [i \in DOMAIN st.mems[u.mem] |-> [n |-> st.mems[u.mem][i].n, parent |-> sc]],
                \* nested scope nodes are rebuilt with their own tables, chained to and owned by the clone
                \* (a carried-over table would now be chained to the clone and its symbols re-scoped into it)
                !.nest        = IF MutShareNest
                                THEN [@ EXCEPT ![u.nest] = [i \in NestIds |-> [@[i] EXCEPT !.parent = "c", !.scope = "c"]]]
                                ELSE [@ EXCEPT !["c"] = [i \in NestIds |-> [st.nest[u.nest][i] EXCEPT !.parent = "c", !.scope = sc]]],
                \* the clone keeps the original's parent as its parent scope, but cloning must not
                \* touch that scope: its entry for the unit's name keeps referring to the original
                !.par.reg     = IF MutRegisterInParent /\ st.parented THEN [@ EXCEPT ![cu.name] = "c"] ELSE @]

EditStmts(s, how, tok) ==
  CASE how = "append"  -> Append(s, tok)
    [] how = "prepend" -> <<tok>> \o s
    \* Transformer({first: new}): rebuilt tree; the mapping is applied to every node EQUAL to the first statement
    [] how = "replace" -> [i \in DOMAIN s |-> IF s[i] = s[1] THEN tok ELSE s[i]]
    [] how = "inplace" -> [s EXCEPT ![1] = tok]                  \* in-place update of the first statement node

Apply(st, e) ==
  LET u == st.unit[e.k] IN
  CASE e.op = "clone"    -> DoClone(st, e.a1)
    [] e.op = "rename"   -> [st EXCEPT !.unit[e.k].name = e.a1]
    \* re-typing a declared variable / adding or updating a symbol-table entry: both end in the unit's table
    [] e.op \in {"retype", "symtab"} -> [st EXCEPT !.tabs[u.tab].types[e.a1] = e.a2]
    [] e.op = "editbody" -> [st EXCEPT !.bodies[u.body].stmts = EditStmts(@, e.how, e.a1)]
    [] e.op = "editspec" -> IF e.how = "addvar"
                            THEN [st EXCEPT !.specs[u.spec].decl = @ \cup {e.a1}, !.tabs[u.tab].types[e.a1] = e.a2]
                            ELSE [st EXCEPT !.specs[u.spec].marks = Append(@, e.a1)]
    \* re-typing a nested name / declaring a symbol in a nested scope (e.how = nested scope id): the nested table
    [] e.op \in {"nretype", "ndeclare"} -> [st EXCEPT !.nest[u.nest][e.how].types[e.a1] = e.a2]
    [] e.op = "addmember" -> [st EXCEPT !.mems[u.mem] = Append(@, [n |-> e.a1, parent |-> e.k]),
                                        !.tabs[u.tab].procs[e.a1] = u.mem]

Declared(st, k) == st.specs[st.unit[k].spec].decl
MemNames(st, k) == {st.mems[st.unit[k].mem][i].n : i \in DOMAIN st.mems[st.unit[k].mem]}

\* events enabled in a state
Events(st) ==
  LET live == {k \in Copies : st.exists[k]} IN
       (IF st.exists["c"] THEN {} ELSE {Ev("clone", "c", nm, "", "") : nm \in {"", "n1"}})
  \cup {Ev("rename", k, n, "", "") : k \in live, n \in {"n1", "n2"}}
  \cup {Ev("retype", k, v, t, how) : k \in live, v \in {"v1", "v2"}, t \in Types, how \in {"symtab", "var"}}
  \cup {Ev("symtab", k, "x1", t, "") : k \in live, t \in Types}
  \cup {Ev("editbody", k, tok, "", how) : k \in live, tok \in BodyToks, how \in {"append", "prepend", "replace", "inplace"}}
  \cup {e \in {Ev("editspec", k, "v3", t, "addvar") : k \in live, t \in Types} : "v3" \notin Declared(st, e.k)}
  \cup {Ev("editspec", k, "c1", "", "comment") : k \in live}
  \cup {e \in {Ev("addmember", k, "m3", "", "") : k \in live} : "m3" \notin MemNames(st, e.k)}
  \cup {Ev("nretype", k, n, t, i) : k \in live, n \in {"n1", "n2"}, t \in Types, i \in NestIds}
  \cup {Ev("ndeclare", k, "xn", t, i) : k \in live, t \in Types, i \in NestIds}

(***************************************************************************)
(* Initial state: the original alone                                       *)
(***************************************************************************)
InitPar(parented) == [reg |-> [n \in NameToks |-> IF parented /\ n = "n0" THEN "o" ELSE None]]

InitSt(parented) ==
  [ exists   |-> [k \in Copies |-> k = "o"],
    parented |-> parented,
    unit     |-> [k \in Copies |-> [name |-> "n0", tab |-> "o", spec |-> "o", body |-> "o", mem |-> "o", nest |-> "o"]],
    nest     |-> [r \in Copies |-> [i \in NestIds |->
                     [types |-> [n \in NestNames |-> CASE n = "n1" -> "int" [] n = "n2" -> "real" [] OTHER -> None],
                      parent |-> "o", scope |-> "o"]]],
    tabs     |-> [r \in Copies |-> [types |-> [n \in TabNames |-> CASE n = "v1" -> "int" [] n = "v2" -> "real" [] OTHER -> None],
                                    procs |-> [m \in MemToks |-> IF m \in {"m1", "m2"} THEN "o" ELSE None]]],
    specs    |-> [r \in Copies |-> [decl |-> {"v1", "v2"}, marks |-> <<>>, scope |-> "o"]],
    bodies   |-> [r \in Copies |-> [stmts |-> <<"s1", "s2">>, scope |-> "o"]],
    mems     |-> [r \in Copies |-> <<[n |-> "m1", parent |-> "o"], [n |-> "m2", parent |-> "o"]>>],
    par      |-> InitPar(parented) ]

VARIABLES st, ev
vars == <<st, ev>>

NoEv == Ev("init", "o", "", "", "")
Init == \E p \in BOOLEAN : st = InitSt(p) /\ ev = NoEv

CONSTANT MaxDepth
Next == TLCGet("level") < MaxDepth /\ \E e \in Events(st) : st' = Apply(st, e) /\ ev' = e
Spec == Init /\ [][Next]_vars

(***************************************************************************)
(* Properties (C17)                                                        *)
(***************************************************************************)
Live == {k \in Copies : st.exists[k]}

\* "A cloned unit generates the same code as the original" (modulo an overridden name) and has the same content
CloneFaithful ==
  ev.op = "clone" =>
     LET o == View(st, "o")  c == View(st, "c") IN
       /\ TextSansName(c) = TextSansName(o)
       /\ c.tab = o.tab /\ c.occ = o.occ /\ c.mocc = o.mocc /\ c.ntab = o.ntab /\ c.nocc = o.nocc
       /\ c.name = (IF ev.a1 = "" THEN o.name ELSE ev.a1)

\* "all of its symbols resolve their types through the clone and its own scope chain"
SymbolsResolveInOwnChain ==
  \A k \in Live : LET w == View(st, k) IN
       /\ w.owners \subseteq {"self"}
       /\ w.memparent \subseteq {"self"}
       /\ w.memtab \subseteq {"own"}
       /\ w.calls \subseteq {"own"}
       /\ w.nparent \subseteq {"self"} /\ w.nown \subseteq {"self"}
       /\ \A i \in NestIds, n \in NestNames : w.nocc[i][n] \subseteq {w.ntab[i][n]}
       /\ \A v \in Vars : w.occ[v] \subseteq {w.tab[v]}
       /\ \A v \in {"v1", "v2"} : w.mocc[v] \subseteq {w.tab[v]}

\* cloning / editing never changes the symbol table of the original's parent
ParentScopeOfOriginalUnchanged == st.par = InitPar(st.parented)

\* "any later modification of the clone or of the original leaves the other unchanged" (action property)
OtherCopyUnchanged ==
  [][(ev'.op # "clone" /\ st.exists[Other(ev'.k)]) => View(st', Other(ev'.k)) = View(st, Other(ev'.k))]_vars

\* the modified copy changes exactly as the operation says (value semantics of each operation)
EffectV(w, e) ==
  CASE e.op = "rename"   -> [w EXCEPT !.name = e.a1]
    [] e.op \in {"retype", "symtab"} ->
         [w EXCEPT !.tab[e.a1] = e.a2,
                   !.decl = [v \in Vars |-> IF v = e.a1 /\ w.decl[v] # None THEN e.a2 ELSE w.decl[v]],
                   !.occ  = [v \in Vars |-> IF v = e.a1 /\ w.occ[v] # {} THEN {e.a2} ELSE w.occ[v]],
                   !.mocc = [v \in {"v1", "v2"} |-> IF v = e.a1 /\ w.mocc[v] # {} THEN {e.a2} ELSE w.mocc[v]]]
    [] e.op = "editbody" -> [w EXCEPT !.body = EditStmts(@, e.how, e.a1)]
    [] e.op = "editspec" -> IF e.how = "addvar"
                            THEN [w EXCEPT !.decl[e.a1] = e.a2, !.tab[e.a1] = e.a2, !.occ[e.a1] = {e.a2}]
                            ELSE [w EXCEPT !.spec = Append(@, e.a1)]
    [] e.op = "nretype"  -> [w EXCEPT !.ntab[e.how][e.a1] = e.a2, !.nocc[e.how][e.a1] = {e.a2}]
    [] e.op = "ndeclare" -> [w EXCEPT !.ntab[e.how][e.a1] = e.a2]
    [] e.op = "addmember" -> [w EXCEPT !.members = Append(@, e.a1), !.memparent = @ \cup {"self"}, !.memtab = @ \cup {"own"},
                                       !.mocc = [v \in {"v1", "v2"} |-> @[v] \cup {w.tab[v]}]]
EffectOnTarget ==
  [][ev'.op # "clone" => View(st', ev'.k) = EffectV(View(st, ev'.k), ev')]_vars

(***************************************************************************)
(* Observed views (projected from the real objects, JSON) against the      *)
(* model; shared by Trace_CloneAlias and Trace_PickleRT                    *)
(***************************************************************************)
\* ---- observed view against the model's view of the same copy: name of the first differing component, or "ok"
Diff(m, obs) ==
  IF obs.name # m.name THEN "name"
  ELSE IF [v \in Vars |-> obs.decl[v]] # m.decl THEN "decl"
  ELSE IF [n \in TabNames |-> obs.tab[n]] # m.tab THEN "tab"
  ELSE IF \E v \in Vars : ~(ToSet(obs.occ[v]) \subseteq m.occ[v]) \/ (m.occ[v] # {} /\ ToSet(obs.occ[v]) = {}) THEN "occ"
  ELSE IF \E v \in {"v1", "v2"} : ~(ToSet(obs.mocc[v]) \subseteq {m.tab[v]}) THEN "mocc"
  ELSE IF obs.body # m.body THEN "body"
  ELSE IF obs.spec # m.spec THEN "spec"
  ELSE IF obs.members # m.members THEN "members"
  ELSE IF \E i \in NestIds : [n \in NestNames |-> obs.ntab[i][n]] # m.ntab[i] THEN "ntab"
  ELSE IF \E i \in NestIds, n \in NestNames : ~(ToSet(obs.nocc[i][n]) \subseteq m.nocc[i][n])
                                              \/ (m.nocc[i][n] # {} /\ ToSet(obs.nocc[i][n]) = {}) THEN "nocc"
  ELSE "ok"

\* ---- identity tags observed on one copy
OwnChain(obs, parented) ==
  IF ~(ToSet(obs.owners) \subseteq ({"self"} \cup (IF parented THEN {"parent"} ELSE {}))) THEN "owners"
  ELSE IF ~(ToSet(obs.memparent) \subseteq {"self"}) THEN "memparent"
  ELSE IF ~(ToSet(obs.memtab) \subseteq {"own"}) THEN "memtab"
  ELSE IF ~(ToSet(obs.calls) \subseteq {"own"}) THEN "calls"
  ELSE IF ~(ToSet(obs.tdef) \subseteq {"own"}) THEN "tdef"
  ELSE IF ~(ToSet(obs.nparent) \subseteq {"self"}) THEN "nparent"
  ELSE IF ~(ToSet(obs.nown) \subseteq {"self"}) THEN "nown"
  ELSE "ok"

TypeOK == /\ st.exists \in [Copies -> BOOLEAN]
          /\ \A k \in Live : View(st, k).name \in NameToks
=============================================================================
