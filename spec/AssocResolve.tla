---------------------------- MODULE AssocResolve ----------------------------
(***************************************************************************)
(* C29, design level: what "replacing associate names by their targets"    *)
(* means on MiniFortran programs, and under which condition it preserves   *)
(* Run.  Resolve is the textual replacement every associate resolver       *)
(* performs (name -> selector, expression selectors in parentheses); the   *)
(* reference semantics (FMachine.Associate) binds a name on ENTRY of the    *)
(* block.  MC_AssocResolve checks on a small exhaustive universe:          *)
(*    Stable(block)  =>  Run(Resolve(P)) = Run(P)                           *)
(* and that there are unstable blocks on which the two differ, i.e. the    *)
(* harness populations "stable" / "volatile" split the programs where the  *)
(* property can be met by replacement from those where it cannot.          *)
(***************************************************************************)
EXTENDS FMachine

Par(e) == [k |-> "par", c |-> <<e>>]

\* replace references to the associate name nm inside an expression
RECURSIVE SubstE(_, _, _)
SubstE(e, nm, sel) ==
  IF e.k = "var" THEN (IF e.name = nm THEN (IF sel.k \in {"var", "arr"} THEN sel ELSE Par(sel)) ELSE e)
  ELSE IF e.k = "arr" THEN
       [k |-> "arr", name |-> (IF e.name = nm /\ sel.k = "var" THEN sel.name ELSE e.name),
        c |-> [i \in 1..Len(e.c) |-> SubstE(e.c[i], nm, sel)]]
  ELSE IF e.k \in {"int", "real", "log", "none"} THEN e
  ELSE IF e.k = "range" THEN [e EXCEPT !.lo = SubstE(e.lo, nm, sel), !.hi = SubstE(e.hi, nm, sel), !.st = SubstE(e.st, nm, sel)]
  ELSE [e EXCEPT !.c = [i \in 1..Len(e.c) |-> SubstE(e.c[i], nm, sel)]]

RECURSIVE SubstS(_, _, _), SubstB(_, _, _), ResolveB(_)
SubstB(ss, nm, sel) == [i \in 1..Len(ss) |-> SubstS(ss[i], nm, sel)]
SubstS(s, nm, sel) ==
  CASE s.s = "assign" -> [s EXCEPT !.lhs = SubstE(s.lhs, nm, sel), !.rhs = SubstE(s.rhs, nm, sel)]
    [] s.s = "print"  -> [s EXCEPT !.items = [i \in 1..Len(s.items) |-> SubstE(s.items[i], nm, sel)]]
    [] s.s = "assoc"  -> [s EXCEPT !.targets = [i \in 1..Len(s.targets) |-> SubstE(s.targets[i], nm, sel)],
                                   !.body = SubstB(s.body, nm, sel)]
    [] OTHER -> s

\* all pairs of one block, innermost blocks first
RECURSIVE SubstAll(_, _, _, _)
SubstAll(ss, names, targets, i) == IF i > Len(names) THEN ss ELSE SubstAll(SubstB(ss, names[i], targets[i]), names, targets, i + 1)
RECURSIVE Flatten(_, _)
Flatten(ss, i) == IF i > Len(ss) THEN <<>>
                  ELSE (IF ss[i].s = "assoc" THEN SubstAll(ResolveB(ss[i].body), ss[i].names, ss[i].targets, 1) ELSE <<ss[i]>>)
                       \o Flatten(ss, i + 1)
ResolveB(ss) == Flatten(ss, 1)
Resolve(P) == [P EXCEPT !.units = [i \in 1..Len(P.units) |-> [P.units[i] EXCEPT !.body = ResolveB(P.units[i].body)]]]

\* names an expression mentions
RECURSIVE Mentions(_)
Mentions(e) == IF e.k \in {"var"} THEN {e.name}
               ELSE IF e.k = "arr" THEN {e.name} \cup UNION {Mentions(e.c[i]) : i \in 1..Len(e.c)}
               ELSE IF e.k \in {"int", "real", "log", "none"} THEN {}
               ELSE UNION {Mentions(e.c[i]) : i \in 1..Len(e.c)}
\* what must keep its value for entry-time and use-time evaluation of a selector to agree
Sensitive(sel) == IF sel.k = "var" THEN {}
                  ELSE IF sel.k = "arr" THEN UNION {Mentions(sel.c[i]) : i \in 1..Len(sel.c)}
                  ELSE Mentions(sel)
\* variables (through the block's own names) that a statement list defines
RECURSIVE Defined(_, _, _)
Defined(ss, names, targets) ==
  UNION {IF ss[i].s = "assign"
         THEN LET n == ss[i].lhs.name IN
              IF \E j \in 1..Len(names) : names[j] = n
              THEN {targets[CHOOSE j \in 1..Len(names) : names[j] = n].name}
              ELSE {n}
         ELSE {} : i \in 1..Len(ss)}
Stable(blk) == \A j \in 1..Len(blk.names) : Sensitive(blk.targets[j]) \cap Defined(blk.body, blk.names, blk.targets) = {}
=============================================================================
