--------------------------- MODULE Trace_StackBound ---------------------------
(* C38 "enough storage": the scratch space a stack / pool allocator transformation reserves in the   *)
(* driver must cover the high-water mark of the temporaries that are live on the deepest call path. *)
(*                                                                                                   *)
(* A case is [id, prog, entry, input <<[name, val]>>, alloc <<[name, mode, cat, value]>>]:          *)
(*   prog/entry/input  the ORIGINAL MiniFortran call tree (FMachine JSON) and the entry's inputs;    *)
(*   alloc             what the instrumented transformed driver printed for its size variables:      *)
(*                     mode "words": 8-byte words for all types together (pool allocator, ISTSZ),   *)
(*                     mode "elems": elements of the type/kind `cat` (FtrPtr / DirectIdx stacks),    *)
(*                     mode "cols" : horizontal columns of type/kind `cat` (raw stack).              *)
(* Need(u, env) = sum of the sizes of u's automatic arrays (extents evaluated with the machine's own *)
(* expression semantics in the environment of u's scalar integer dummies)                            *)
(*              + the maximum, over the call statements that u executes unconditionally (top level   *)
(*                or inside DO loops), of Need(callee, environment of the actual arguments).          *)
(* Calls under IF are ignored, so Need never exceeds the true high-water mark; for call trees whose  *)
(* calls are all unconditional (the generator's multisize stratum) it IS the high-water mark.        *)
(* Accepted iff every reported allocation is >= Need in its unit.                                    *)
EXTENDS FMachine, Json, IOUtils
Cases == JsonDeserialize(IOEnv.CASES)

IsArg(u, n) == \E i \in 1..Len(u.args) : u.args[i] = n
Temps(u) == SelectSeq(u.decls, LAMBDA d : HasX(d) /\ ~IsArg(u, d.name))
Cat(d) == IF d.type = "real" THEN (IF "kind" \in DOMAIN d THEN d.kind ELSE "jprb") ELSE d.type
ElemBytes(d) == IF d.type = "real" THEN 8 ELSE 4

Extent(P, d, j, env) == LET lo == XLb(P, d, j, env)
                            hi == EvalE(P, d.xdims[j][2], env, <<>>)
                        IN IF lo.t # "int" \/ hi.t # "int" THEN 0 ELSE Max2(hi.v - lo.v + 1, 0)
RECURSIVE ProdExt(_, _, _, _)
ProdExt(P, d, j, env) == IF j > Len(d.xdims) THEN 1 ELSE Extent(P, d, j, env) * ProdExt(P, d, j + 1, env)

Cost(P, d, env, mode, cat) ==
  CASE mode = "words" -> (ProdExt(P, d, 1, env) * ElemBytes(d) + 7) \div 8
    [] mode = "elems" -> IF Cat(d) = cat THEN ProdExt(P, d, 1, env) ELSE 0
    [] mode = "cols"  -> IF Cat(d) = cat THEN ProdExt(P, d, 2, env) ELSE 0
    [] OTHER -> 0

RECURSIVE CallsIn(_)
CallsIn(ss) == IF ss = <<>> THEN <<>>
               ELSE LET s == Head(ss) IN
                    (IF s.s = "call" THEN <<s>> ELSE IF s.s = "do" THEN CallsIn(s.body) ELSE <<>>) \o CallsIn(Tail(ss))

ScalarArgs(cu) == {i \in 1..Len(cu.args) : Len(Decl(cu, cu.args[i]).dims) = 0 /\ Decl(cu, cu.args[i]).type = "int"}
CalleeEnv(P, cu, s, env) ==
  TLCEval([n \in {cu.args[i] : i \in ScalarArgs(cu)} |->
             EvalE(P, s.args[CHOOSE i \in ScalarArgs(cu) : cu.args[i] = n], env, <<>>)])

RECURSIVE SumCost(_, _, _, _, _, _), Need(_, _, _, _, _), MaxNeed(_, _, _, _, _, _)
SumCost(P, ts, k, env, mode, cat) == IF k > Len(ts) THEN 0
                                     ELSE Cost(P, ts[k], env, mode, cat) + SumCost(P, ts, k + 1, env, mode, cat)
Need(P, u, env, mode, cat) == SumCost(P, Temps(u), 1, env, mode, cat) + MaxNeed(P, CallsIn(u.body), 1, env, mode, cat)
MaxNeed(P, cs, k, env, mode, cat) ==
  IF k > Len(cs) THEN 0
  ELSE IF ~HasUnit(P, cs[k].name) \/ Len(cs[k].args) # Len(Unit(P, cs[k].name).args) THEN MaxNeed(P, cs, k + 1, env, mode, cat)
  ELSE LET cu == Unit(P, cs[k].name)
       IN Max2(Need(P, cu, CalleeEnv(P, cu, cs[k], env), mode, cat), MaxNeed(P, cs, k + 1, env, mode, cat))

EntryEnv(c) == LET S == {i \in 1..Len(c.input) : c.input[i][2].t = "int"} IN
               TLCEval([n \in {c.input[i][1] : i \in S} |-> I(c.input[CHOOSE i \in S : c.input[i][1] = n][2].v)])

Judge(c) ==
  LET u == Unit(c.prog, c.entry)
      env == EntryEnv(c)
      need(a) == Need(c.prog, u, env, a.mode, a.cat)
      bad == {k \in 1..Len(c.alloc) : c.alloc[k].value < need(c.alloc[k])}
  IN IF bad = {} THEN <<TRUE, "ok", Len(c.alloc)>>
     ELSE LET k == CHOOSE j \in bad : \A m \in bad : j <= m
              a == c.alloc[k]
          IN <<FALSE, "under:" \o a.mode \o ":" \o a.cat \o ":need=" \o ToString(need(a)) \o ":alloc=" \o ToString(a.value), k>>

VARIABLE tid
Init == tid = 1
Next == /\ tid <= Len(Cases)
        /\ LET c == Cases[tid] j == Judge(c) IN PrintT(<<"VERDICT", c.id, j[1], j[2], j[3]>>)
        /\ tid' = tid + 1
Spec == Init /\ [][Next]_tid
=============================================================================
