SPECIFICATION PSpec
CONSTANT MutShareBody = FALSE
CONSTANT MutShareSpec = FALSE
CONSTANT MutShareTab = FALSE
CONSTANT MutShareMembers = FALSE
CONSTANT MutNoRescope = FALSE
CONSTANT MutStaleProcs = FALSE
CONSTANT MutRegisterInParent = FALSE
CONSTANT MutShareNest = FALSE
CONSTANT MaxDepth = 4
INVARIANT Equal
INVARIANT SameText
INVARIANT ScopesReattached
PROPERTY OriginalUntouched
CHECK_DEADLOCK FALSE
