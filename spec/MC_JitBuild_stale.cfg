SPECIFICATION SpecA
CONSTANT MaxN = 3
CONSTANT MaxW = 2
CONSTANT MaxNoSrc = 1
CONSTANT Stale = TRUE
INVARIANT LinkAfterAll
CHECK_DEADLOCK FALSE
