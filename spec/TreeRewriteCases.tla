-------------------------- MODULE TreeRewriteCases --------------------------
(* The small universe of C14 cases: every tree with at most MaxNodes nodes below the root     *)
(* (depth <= MaxDepth) over the node kinds, every mapping with at most two entries over its   *)
(* nodes / sibling windows with every replacement shape, and every mask (start / stop sets of *)
(* at most one node each plus a second start node, all flag combinations).                    *)
(* Used by MC_TreeRewrite (properties of the contract on the whole universe) and by           *)
(* Gen_TreeRewrite (the same universe exported as JSON and replayed into the real classes).   *)
EXTENDS TreeRewrite

CONSTANTS MaxNodes, MaxDepth, LeafTerms, OneSlotKinds, WithCond, WithMulti, Family, MaskRich

Mk(k, t, b) == [k |-> k, t |-> t, b |-> b, o |-> 0]
\* candidate values for the constant LeafTerms (cfg files cannot spell tuples)
LeafTerms2 == {<<"leaf", "a">>, <<"leaf", "b">>}
LeafTerms3 == {<<"leaf", "a">>, <<"leaf", "b">>, <<"asg", "a">>}
LeafSet == {Mk(x[1], x[2], <<>>) : x \in LeafTerms}

RECURSIVE Forests(_, _), TreesN(_, _)
\* all sibling sequences with exactly n nodes in total and depth <= d
Forests(n, d) ==
  IF n = 0 THEN {<<>>} ELSE IF d = 0 THEN {}
  ELSE UNION {{<<t>> \o f : t \in TreesN(j, d), f \in Forests(n - j, d)} : j \in 1..n}
TreesN(n, d) ==
  IF d = 0 \/ n = 0 THEN {}
  ELSE (IF n = 1 THEN LeafSet ELSE {})
       \cup {Mk(k, "x", <<f>>) : k \in OneSlotKinds, f \in Forests(n - 1, d - 1)}
       \cup (IF WithCond
             THEN UNION {{Mk("cond", "x", <<f, g>>) : f \in Forests(j, d - 1), g \in Forests(n - 1 - j, d - 1)} : j \in 0..(n - 1)}
             ELSE {})
       \cup (IF WithMulti
             THEN UNION {UNION {{Mk("multi", "x", <<f, g, h>>) : f \in Forests(j, d - 1), g \in Forests(l, d - 1), h \in Forests(n - 1 - j - l, d - 1)}
                                : l \in 0..(n - 1 - j)} : j \in 0..(n - 1)}
             ELSE {})

Roots == UNION {{Mk("sec", "root", <<f>>) : f \in Forests(n, MaxDepth)} : n \in 0..MaxNodes}

\* fresh replacement material (tags never used in trees)
F1 == Mk("leaf", "f1", <<>>)
F4 == Mk("leaf", "f4", <<>>)
FA == Mk("asg", "f5", <<>>)
FS == Mk("sec", "f2", <<<<Mk("leaf", "f3", <<>>)>>>>)
FL == Mk("loop", "f6", <<<<Mk("leaf", "f3", <<>>)>>>>)

Unstrip(x) == [k |-> x.k, t |-> x.t, b |-> x.b, o |-> 0]   \* (identity is irrelevant for handles)
RECURSIVE AsNode(_), AsNodeSeq(_), AsNodeSlots(_)
AsNode(x) == [k |-> x.k, t |-> x.t, o |-> 0, b |-> AsNodeSlots(x.b)]
AsNodeSlots(bs) == IF Len(bs) = 0 THEN <<>> ELSE <<AsNodeSeq(Head(bs))>> \o AsNodeSlots(Tail(bs))
AsNodeSeq(s) == IF Len(s) = 0 THEN <<>> ELSE <<AsNode(Head(s))>> \o AsNodeSeq(Tail(s))
E(key, typ, val) == [key |-> key, typ |-> typ, val |-> val]

\* every replacement shape for a node key K (a stripped term)
FullVals(K) ==
  LET kn == AsNode(K) IN
  {E(<<K>>, "none", <<>>), E(<<K>>, "node", <<F1>>), E(<<K>>, "node", <<FA>>), E(<<K>>, "node", <<FS>>), E(<<K>>, "node", <<FL>>)}
  \cup (IF Len(K.b) > 0 THEN {E(<<K>>, "node", <<[kn EXCEPT !.t = @ \o "@r"]>>)} ELSE {})
  \cup {E(<<K>>, "tuple", v) : v \in {<<>>, <<F1>>, <<F1, F4>>, <<kn>>, <<F1, kn>>, <<kn, F1>>, <<kn, kn>>, <<F1, kn, F4>>, <<FS, F1>>}}
SomeVals(K) ==
  LET kn == AsNode(K) IN
  {E(<<K>>, "none", <<>>), E(<<K>>, "node", <<F1>>), E(<<K>>, "tuple", <<F1, F4>>), E(<<K>>, "tuple", <<F4, kn>>)}
  \cup (IF Len(K.b) > 0 THEN {E(<<K>>, "node", <<[kn EXCEPT !.t = @ \o "@r"]>>)} ELSE {})

\* all windows of two consecutive siblings anywhere below the root
RECURSIVE WindowsOf(_)
WindowsOf(s) == {<<Strip(s[j]), Strip(s[j + 1])>> : j \in 1..(Len(s) - 1)}
                \cup UNION {UNION {WindowsOf(s[j].b[i]) : i \in 1..Len(s[j].b)} : j \in 1..Len(s)}
WinVals(W) == {E(W, "none", <<>>), E(W, "node", <<F1>>), E(W, "tuple", <<F1, F4>>),
               E(W, "node", <<Mk("sec", "w", <<<<AsNode(W[1]), AsNode(W[2])>>>>)>>)}

Keys(root) == SubsSeq(root.b[1])
Maps(root) ==
  {<<>>}
  \cup UNION {{<<e>> : e \in FullVals(K)} : K \in Keys(root)}
  \cup UNION {UNION {{<<e1, e2>> : e1 \in SomeVals(K1), e2 \in SomeVals(K2)} : K2 \in Keys(root) \ {K1}} : K1 \in Keys(root)}
  \cup UNION {{<<e>> : e \in WinVals(W)} : W \in WindowsOf(root.b[1])}
  \cup UNION {UNION {{<<e1, e2>> : e1 \in WinVals(W), e2 \in {E(<<K>>, "none", <<>>), E(<<K>>, "tuple", <<F1, F4>>)}} : K \in Keys(root)} : W \in WindowsOf(root.b[1])}

Base(root, M, start, stop, active, ras, gs) ==
  [cls |-> "T", entry |-> "node", tree |-> <<root>>, map |-> M, start |-> start, stop |-> stop,
   active |-> active, ras |-> ras, gs |-> gs, inplace |-> FALSE, rs |-> FALSE]

\* (operators with a parameter: TLC evaluates every constant-level definition without parameters at start-up)
MapCasesOf(r) == {Base(r, M, <<>>, <<>>, FALSE, FALSE, FALSE) : M \in Maps(r)}

\* masks: start in {none, one node, two nodes}, stop in {none, one node}; the root may be a start node
MaskNodes(r) == Keys(r) \cup {Strip(r)}
Starts(r) == {<<>>} \cup {<<x>> : x \in MaskNodes(r)}
             \cup (IF MaskRich THEN {<<x, y>> : x \in Keys(r), y \in Keys(r)} ELSE {})
Stops(r)  == {<<>>} \cup {<<x>> : x \in Keys(r)}
MaskMaps(r) == {<<>>} \cup (IF MaskRich
                            THEN UNION {{<<E(<<K>>, "none", <<>>)>>, <<E(<<K>>, "node", <<F1>>)>>, <<E(<<K>>, "tuple", <<F1, F4>>)>>} : K \in Keys(r)}
                            ELSE {})
MaskCasesOf(r) == {[Base(r, M, s, t, a, ras, gs) EXCEPT !.cls = "M"] :
                      M \in MaskMaps(r), s \in Starts(r), t \in Stops(r), a \in BOOLEAN, ras \in BOOLEAN, gs \in BOOLEAN}

CasesOf(r) == IF Family = "map" THEN MapCasesOf(r) ELSE MaskCasesOf(r)
Classes == IF Family = "map" THEN {"T", "N"} ELSE {"M", "NM"}
LegalAny(c) == \E cls \in Classes : Legal([c EXCEPT !.cls = cls])
=============================================================================
