------------------------- MODULE Trace_SourceStatus -------------------------
(* Trace validation for C03: one case = one program unit (or file) read with source tracking, edited by a        *)
(* (possibly empty) history of local edits through the real Transformer / SubstituteExpressions, and printed     *)
(* by the conservative backend.  Decided by SourceStatus!Findings.                                               *)
(* Prints <<"VERDICT", id, ok, first clause, n>> and <<"VERDICT", "id#k", FALSE, clause, position>> per finding.  *)
EXTENDS SourceStatus, Json, IOUtils
Cases == JsonDeserialize(IOEnv.CASES)
VARIABLE tid
Init_ == tid = 1
Next_ == /\ tid <= Len(Cases)
         /\ \E fs \in {Findings(Cases[tid])} :
              LET sid == ToString(Cases[tid].id) IN
              /\ PrintT(<<"VERDICT", Cases[tid].id, fs = <<>>, IF fs = <<>> THEN "ok" ELSE fs[1][1], Len(fs)>>)
              /\ \A k \in DOMAIN fs : PrintT(<<"VERDICT", sid \o "#" \o ToString(k), FALSE, fs[k][1], fs[k][2]>>)
         /\ tid' = tid + 1
TraceSpec == Init_ /\ [][Next_]_tid
=============================================================================
