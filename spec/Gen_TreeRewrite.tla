--------------------------- MODULE Gen_TreeRewrite ---------------------------
(* Case generator for C14 (spec -> code direction): the small universe of TreeRewriteCases is *)
(* enumerated by TLC and written as ndjson (one base case per line: tree, mapping, mask) to   *)
(* the file named by the environment variable OUT.  The harness realises every case with the  *)
(* real IR node classes, runs the real transformer classes and hands the observations back to *)
(* Trace_TreeRewrite.  Legality (Legal) is judged there, per class.                           *)
EXTENDS TreeRewriteCases, Json, IOUtils, SequencesExt
AllCases == UNION {CasesOf(r) : r \in Roots}
ASSUME LET s == SetToSeq(AllCases) IN
       /\ ndJsonSerialize(IOEnv.OUT, s)
       /\ PrintT(<<"GENERATED", Len(s), Cardinality(Roots)>>)
=============================================================================
