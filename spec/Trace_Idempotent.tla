-------------------------- MODULE Trace_Idempotent --------------------------
(* Batch validation of recorded (text0, text1, text2) triples against the Idempotent clause.           *)
(* case = [id, text0, text1, text2 (sequences of lines), status2 ("ok" | "raised")]                     *)
EXTENDS Idempotent, TLC, Json, IOUtils
Cases == JsonDeserialize(IOEnv.CASES)
VARIABLE tid
Init == tid = 1
Next == /\ tid <= Len(Cases)
        /\ LET c == Cases[tid] j == Judge(c) IN PrintT(<<"VERDICT", c.id, j[1], j[2], j[3]>>)
        /\ tid' = tid + 1
Spec == Init /\ [][Next]_tid
=============================================================================
