----------------------------- MODULE MC_Finders -----------------------------
(* Design-level model checking of the Finders specification on a small universe: all forests  *)
(* with at most MaxNodes nodes over {leaf a, leaf b, loop, typedef}, numbered in pre-order,   *)
(* every node carrying a small expression slot.  The invariants relate the recursive          *)
(* definitions to independent, declarative characterisations (completeness, order, greedy     *)
(* pruning, opacity of TypeDefs, the unique / with_ir_node quotients) and show that the       *)
(* acceptance clauses reject corrupted results.                                               *)
EXTENDS Finders
CONSTANTS MaxNodes, MaxDepth

\* shapes: [k, b]
RECURSIVE Forests(_, _), TreesN(_, _)
Forests(n, d) ==
  IF n = 0 THEN {<<>>} ELSE IF d = 0 THEN {}
  ELSE UNION {{<<t>> \o f : t \in TreesN(j, d), f \in Forests(n - j, d)} : j \in 1..n}
TreesN(n, d) ==
  IF d = 0 \/ n = 0 THEN {}
  ELSE (IF n = 1 THEN {[k |-> "leafa", b |-> <<>>], [k |-> "leafb", b |-> <<>>]} ELSE {})
       \cup {[k |-> k, b |-> f] : k \in {"loop", "tdef"}, f \in Forests(n - 1, d - 1)}

Var(o, name) == [o |-> o, mro |-> <<"Scalar", "Expression">>, key |-> name, ch |-> <<>>]
Lit(o) == [o |-> o, mro |-> <<"IntLiteral", "Expression">>, key |-> "1", ch |-> <<>>]
Call(o, args) == [o |-> o, mro |-> <<"InlineCall", "Expression">>, key |-> "f()", ch |-> args]
Slots(k, id) == CASE k = "leafa" -> <<Var(10 * id, "a")>>
                  [] k = "leafb" -> <<Call(10 * id, <<Var(10 * id + 1, "a"), Var(10 * id + 2, "b")>>), Var(10 * id + 3, "a")>>
                  [] k = "loop"  -> <<Var(10 * id, "i"), Lit(10 * id + 1)>>
                  [] k = "tdef"  -> <<Var(10 * id, "b")>>
Mro(k) == CASE k \in {"leafa", "leafb"} -> <<"Comment", "LeafNode", "Node">>
            [] k = "loop" -> <<"Loop", "InternalNode", "Node">>
            [] k = "tdef" -> <<"TypeDef", "ScopedNode", "InternalNode", "Node">>
\* number a forest in pre-order: returns [s: numbered forest, next: next free id]
RECURSIVE Number(_, _)
Number(f, next) ==
  IF Len(f) = 0 THEN [s |-> <<>>, next |-> next]
  ELSE LET kids == Number(Head(f).b, next + 1)
           me   == [id |-> next, mro |-> Mro(Head(f).k), td |-> Head(f).k = "tdef", eq |-> next,
                    b |-> kids.s, e |-> Slots(Head(f).k, next)]
           rest == Number(Tail(f), kids.next)
       IN  [s |-> <<me>> \o rest.s, next |-> rest.next]

VARIABLE T
Init == \E n \in 0..MaxNodes : \E f \in Forests(n, MaxDepth) : T = Number(f, 1).s
Next == UNCHANGED T
Spec == Init /\ [][Next]_T

ClassSets == {{"Node"}, {"Loop"}, {"Comment"}, {"TypeDef"}, {"InternalNode"}, {"Loop", "Comment"}}
ExprSets == {{"Scalar"}, {"InlineCall"}, {"IntLiteral"}, {"Expression"}}

RECURSIVE StrictlyBelow(_, _)   \* ids of all proper descendants of the nodes in s satisfying P-set H
Desc(n) == {x.id : x \in SeqSet(AllNodes(n.b))}
Hidden == UNION {Desc(n) : n \in {x \in SeqSet(AllNodes(T)) : x.td}}
StrictlyBelow(s, H) == UNION {Desc(n) : n \in {x \in SeqSet(AllNodes(s)) : x.id \in H}}
RECURSIVE Filter(_, _)
Filter(s, S) == IF Len(s) = 0 THEN <<>> ELSE (IF Head(s) \in S THEN <<Head(s)>> ELSE <<>>) \o Filter(Tail(s), S)
RECURSIVE NodeIds(_)
NodeIds(ns) == IF Len(ns) = 0 THEN <<>> ELSE <<Head(ns).id>> \o NodeIds(Tail(ns))
PreIds == NodeIds(AllNodes(T))

InvComplete == \A C \in ClassSets :
   FindNodesType(T, C, FALSE) = Filter(PreIds, TypeHits(T, C) \ Hidden)
InvGreedy == \A C \in ClassSets :
   LET H == TypeHits(T, C) IN
   FindNodesType(T, C, TRUE) = Filter(PreIds, (H \ Hidden) \ StrictlyBelow(T, H))
InvTypeDefOpaque == \A Q \in ExprSets :
   \A i \in 1..Len(TreeOcc(T, Q)) : TreeOcc(T, Q)[i].o \div 10 \notin (Hidden \cup {n.id : n \in {x \in SeqSet(AllNodes(T)) : x.td}})
InvExprComplete == \A Q \in ExprSets :
   \A n \in SeqSet(AllNodes(T)) : (n.id \notin Hidden /\ ~n.td) =>
       \A x \in SeqSet(OwnOcc(n, Q)) : Count(Ids(TreeOcc(T, Q)), x.o) = 1
RECURSIVE ConcatOwn(_, _)
ConcatOwn(vis, Q) == IF Len(vis) = 0 THEN <<>> ELSE OwnOcc(Head(vis), Q) \o ConcatOwn(Tail(vis), Q)
InvPairsFlatten == \A Q \in ExprSets : SameBag(Ids(ConcatOwn(Visited(T), Q)), Ids(TreeOcc(T, Q)))
\* canonical representatives: first occurrence of every key
RECURSIVE Reps(_, _)
Reps(occ, seen) == IF Len(occ) = 0 THEN <<>>
                   ELSE IF Head(occ).key \in seen THEN Reps(Tail(occ), seen)
                   ELSE <<Head(occ).o>> \o Reps(Tail(occ), seen \cup {Head(occ).key})
InvAccepts == \A Q \in ExprSets :
   LET occ == TreeOcc(T, Q) IN
   /\ PlainOK(occ, Ids(occ))
   /\ UniqueOK(occ, Reps(occ, {}))
   /\ PairsOK(T, Q, [i \in {} |-> 0], FALSE) <=> (Len(occ) = 0)
\* the acceptance clauses are not vacuous: corrupted results are rejected
InvRejects == \A Q \in ExprSets :
   LET occ == TreeOcc(T, Q) IN
   Len(occ) > 0 =>
     /\ ~PlainOK(occ, Tail(Ids(occ)))                       \* an occurrence is missing
     /\ ~PlainOK(occ, Ids(occ) \o <<Head(Ids(occ))>>)        \* an occurrence is reported twice
     /\ ~UniqueOK(occ, Tail(Reps(occ, {})))                  \* a key is missing
     /\ ~UniqueOK(occ, Reps(occ, {}) \o <<99999>>)           \* a foreign object
     /\ (Len(occ) > Len(Reps(occ, {})) => ~UniqueOK(occ, Ids(occ)))   \* a key twice
InvScopes == \A n \in SeqSet(AllNodes(T)) :
   LET p == FindScopesOf(T, n.id) IN
   IF n.id \in Hidden THEN Len(p) = 0
   ELSE /\ Len(p) = 1 /\ p[1][Len(p[1])] = n.id
        /\ \E r \in 1..Len(T) : T[r].id = p[1][1]
        /\ \A i \in 1..(Len(p[1]) - 1) : \E x \in SeqSet(AllNodes(T)) : x.id = p[1][i] /\ \E j \in 1..Len(x.b) : x.b[j].id = p[1][i + 1]
=============================================================================
