------------------------------- MODULE FParse -------------------------------
(***************************************************************************)
(* Token-level reference parser for Fortran expressions (F2008 R701-R722),  *)
(* written as recursive operators over a token sequence.  Tokens come from *)
(* the harness lexer: [t, s, n, d] with                                     *)
(*   t = "int" (n), "real" (n/d), "log" (n = 1/0), "id" (s, lower case,     *)
(*       components merged: "a%b"), "op" (s), "lp", "rp", "comma"           *)
(* Relational operators are normalised by the lexer to == /= < <= > >=.     *)
(* Result: [e |-> tree in FExpr format, p |-> next position, ext |-> BOOL]  *)
(* ext = the GNU extension "sign directly after * / **" was used (gfortran  *)
(* meaning: the sign applies to the following mult-operand).               *)
(* A syntax error yields e.k = "bad".                                      *)
(***************************************************************************)
EXTENDS FExpr

Eof == [t |-> "eof", s |-> "", n |-> 0, d |-> 1]
Tok(ts, p) == IF p >= 1 /\ p <= Len(ts) THEN ts[p] ELSE Eof
IsOp(ts, p, s) == Tok(ts, p).t = "op" /\ Tok(ts, p).s = s
Res(e, p, x) == [e |-> e, p |-> p, ext |-> x]
Bad(ts) == Res([k |-> "bad"], Len(ts) + 2, FALSE)
IsBad(r) == r.e.k = "bad"
Un(k, a) == [k |-> k, c |-> <<a>>]
Bin(k, a, b) == [k |-> k, c |-> <<a, b>>]
RelOps == {"==", "/=", "<", "<=", ">", ">="}

RECURSIVE PEquiv(_, _), LEquiv(_, _), POr(_, _), LOr(_, _), PAnd(_, _), LAnd(_, _), PNot(_, _),
          PRel(_, _), PLevel2(_, _), LAdd(_, _), PTerm(_, _), LMul(_, _), PFactor(_, _),
          PSignedFactor(_, _), PPrimary(_, _), PArgs(_, _, _), PSTerm(_, _)

PEquiv(ts, p) == LEquiv(ts, POr(ts, p))
LEquiv(ts, l) ==
  IF IsBad(l) THEN l
  ELSE IF IsOp(ts, l.p, ".eqv.") \/ IsOp(ts, l.p, ".neqv.")
  THEN LET r == POr(ts, l.p + 1) IN
       IF IsBad(r) THEN r
       ELSE LEquiv(ts, Res(Bin(IF IsOp(ts, l.p, ".eqv.") THEN "eqv" ELSE "neqv", l.e, r.e), r.p, l.ext \/ r.ext))
  ELSE l

POr(ts, p) == LOr(ts, PAnd(ts, p))
LOr(ts, l) ==
  IF IsBad(l) THEN l
  ELSE IF IsOp(ts, l.p, ".or.")
  THEN LET r == PAnd(ts, l.p + 1) IN
       IF IsBad(r) THEN r ELSE LOr(ts, Res(Bin("or", l.e, r.e), r.p, l.ext \/ r.ext))
  ELSE l

PAnd(ts, p) == LAnd(ts, PNot(ts, p))
LAnd(ts, l) ==
  IF IsBad(l) THEN l
  ELSE IF IsOp(ts, l.p, ".and.")
  THEN LET r == PNot(ts, l.p + 1) IN
       IF IsBad(r) THEN r ELSE LAnd(ts, Res(Bin("and", l.e, r.e), r.p, l.ext \/ r.ext))
  ELSE l

PNot(ts, p) ==
  IF IsOp(ts, p, ".not.")
  THEN LET r == PRel(ts, p + 1) IN IF IsBad(r) THEN r ELSE Res(Un("not", r.e), r.p, r.ext)
  ELSE PRel(ts, p)

\* level-4: level-3 [rel-op level-3]  (not associative)
PRel(ts, p) ==
  LET l == PLevel2(ts, p) IN
  IF IsBad(l) THEN l
  ELSE IF Tok(ts, l.p).t = "op" /\ Tok(ts, l.p).s \in RelOps
  THEN LET r == PLevel2(ts, l.p + 1) IN
       IF IsBad(r) THEN r
       ELSE Res([k |-> "cmp", op |-> Tok(ts, l.p).s, c |-> <<l.e, r.e>>], r.p, l.ext \/ r.ext)
  ELSE l

\* level-2: [sign] add-operand { add-op add-operand }; a leading sign applies to the first term
PLevel2(ts, p) ==
  IF IsOp(ts, p, "-") \/ IsOp(ts, p, "+")
  THEN LET t == PSTerm(ts, p + 1) IN
       IF IsBad(t) THEN t
       ELSE LAdd(ts, Res(Un(IF IsOp(ts, p, "-") THEN "neg" ELSE "pos", t.e), t.p, t.ext))
  ELSE LAdd(ts, PTerm(ts, p))
LAdd(ts, l) ==
  IF IsBad(l) THEN l
  ELSE IF IsOp(ts, l.p, "+") \/ IsOp(ts, l.p, "-")
  THEN LET r == PSTerm(ts, l.p + 1) IN
       IF IsBad(r) THEN r
       ELSE LAdd(ts, Res(IF IsOp(ts, l.p, "+") THEN [k |-> "sum", c |-> <<l.e, r.e>>]
                         ELSE [k |-> "sum", c |-> <<l.e, Un("neg", r.e)>>], r.p, l.ext \/ r.ext))
  ELSE l

\* GNU extension: further signs directly after a sign or an add-op ("a + -b", "--a")
PSTerm(ts, p) ==
  IF IsOp(ts, p, "-") \/ IsOp(ts, p, "+")
  THEN LET r == PSTerm(ts, p + 1) IN
       IF IsBad(r) THEN r ELSE Res(Un(IF IsOp(ts, p, "-") THEN "neg" ELSE "pos", r.e), r.p, TRUE)
  ELSE PTerm(ts, p)

\* add-operand: mult-operand { mult-op mult-operand }
PTerm(ts, p) == LMul(ts, PFactor(ts, p))
LMul(ts, l) ==
  IF IsBad(l) THEN l
  ELSE IF IsOp(ts, l.p, "*") \/ IsOp(ts, l.p, "/")
  THEN LET r == PSignedFactor(ts, l.p + 1) IN
       IF IsBad(r) THEN r
       ELSE LMul(ts, Res(Bin(IF IsOp(ts, l.p, "*") THEN "prod" ELSE "quot", l.e, r.e), r.p, l.ext \/ r.ext))
  ELSE l

\* mult-operand: level-1 [ ** mult-operand ]   (right associative)
PFactor(ts, p) ==
  LET b == PPrimary(ts, p) IN
  IF IsBad(b) THEN b
  ELSE IF IsOp(ts, b.p, "**")
  THEN LET r == PSignedFactor(ts, b.p + 1) IN
       IF IsBad(r) THEN r ELSE Res(Bin("pow", b.e, r.e), r.p, b.ext \/ r.ext)
  ELSE b

\* GNU extension: a sign directly after * / ** applies to the following mult-operand
PSignedFactor(ts, p) ==
  IF IsOp(ts, p, "-") \/ IsOp(ts, p, "+")
  THEN LET r == PSignedFactor(ts, p + 1) IN
       IF IsBad(r) THEN r ELSE Res(Un(IF IsOp(ts, p, "-") THEN "neg" ELSE "pos", r.e), r.p, TRUE)
  ELSE PFactor(ts, p)

PPrimary(ts, p) ==
  LET t == Tok(ts, p) IN
  CASE t.t = "int"  -> Res([k |-> "int", v |-> t.n], p + 1, FALSE)
    [] t.t = "real" -> Res([k |-> "real", n |-> t.n, d |-> t.d], p + 1, FALSE)
    [] t.t = "log"  -> Res([k |-> "log", v |-> (t.n = 1)], p + 1, FALSE)
    [] t.t = "lp"   -> LET r == PEquiv(ts, p + 1) IN
                       IF IsBad(r) \/ Tok(ts, r.p).t # "rp" THEN Bad(ts) ELSE Res(Un("par", r.e), r.p + 1, r.ext)
    \* C logical negation (token ".cnot." from the C lexer): a unary operator of primary rank, may be repeated
    [] t.t = "op" /\ t.s = ".cnot." -> LET r == PPrimary(ts, p + 1) IN
                                       IF IsBad(r) THEN r ELSE Res(Un("not", r.e), r.p, r.ext)
    [] t.t = "id"   -> IF Tok(ts, p + 1).t = "lp"
                       THEN PArgs(ts, p + 2, [k |-> "call", f |-> t.s, c |-> <<>>])
                       ELSE Res([k |-> "var", name |-> t.s], p + 1, FALSE)
    [] OTHER -> Bad(ts)

\* argument list after "name(" : acc.c collects the parsed arguments
PArgs(ts, p, acc) ==
  IF Tok(ts, p).t = "rp" /\ Len(acc.c) = 0 THEN Res(acc, p + 1, FALSE)
  ELSE LET a == PEquiv(ts, p) IN
       IF IsBad(a) THEN a
       ELSE LET acc2 == [acc EXCEPT !.c = Append(@, a.e)] IN
            IF Tok(ts, a.p).t = "comma" THEN PArgs(ts, a.p + 1, acc2)
            ELSE IF Tok(ts, a.p).t = "rp" THEN Res(acc2, a.p + 1, a.ext)
            ELSE Bad(ts)

\* whole-string parse: must consume every token
Parse(ts) == LET r == PEquiv(ts, 1) IN IF IsBad(r) \/ r.p # Len(ts) + 1 THEN Bad(ts) ELSE r
=============================================================================
