INIT Init
NEXT Next
INVARIANT DoSeqLaws
