SPECIFICATION GSpec
CONSTANT GenDepth = 8
CONSTANT GenMaxSyms = 6
CONSTANT Full = FALSE
CHECK_DEADLOCK FALSE
