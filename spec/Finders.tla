------------------------------- MODULE Finders -------------------------------
(***************************************************************************)
(* C15  Node and expression finders return exactly the matching nodes.     *)
(*                                                                         *)
(* loki/ir/find.py: FindNodes (modes 'type' and 'scope', greedy),          *)
(*                  FindScopes;                                            *)
(* loki/ir/expr_visitors.py: ExpressionFinder and its instances            *)
(*                  FindVariables, FindInlineCalls, FindLiterals, ...      *)
(*                  (unique, with_ir_node).                                *)
(*                                                                         *)
(* The IR is given as exported by an independent structural recursion      *)
(* (harness/lib_irexport.py):                                              *)
(*   node  n = [id, mro, td, eq, b, e]                                     *)
(*      id  : unique number        mro : names of the node's classes       *)
(*      td  : TRUE for a derived-type definition (TypeDef)                 *)
(*      eq  : value-equality class of the node (IR nodes compare by value) *)
(*      b   : child nodes, in order     e : the node's own expression trees*)
(*   expression x = [o, mro, key, ch]                                      *)
(*      o   : object identity      mro : names of the expression's classes *)
(*      key : the documented uniqueness key (name, parent name, dimensions *)
(*            for variables, the printed form otherwise)                   *)
(*      ch  : sub-expressions                                              *)
(***************************************************************************)
EXTENDS Integers, Sequences, FiniteSets, TLC

\* (sequences are built eagerly with \o: TLC re-evaluates lazy [i \in 1..n |-> e] on every access)
SeqSet(s) == {s[i] : i \in 1..Len(s)}
IsA(x, classes) == \E i \in 1..Len(x.mro) : x.mro[i] \in classes

(***************************************************************************)
(* FindNodes(match, mode='type', greedy): "Collect all instances of type   *)
(* match", pre-order; greedy: "Do not recurse for children of a matched    *)
(* node"; TypeDef: "does not traverse the body".                           *)
(* The predicate is a parameter: P(n).                                     *)
(***************************************************************************)
RECURSIVE PreNode(_, _, _), PreSeq(_, _, _)
\* hit(n) is supplied as the set H of matching node ids
PreNode(n, H, greedy) ==
  IF n.id \in H /\ greedy THEN <<n.id>>
  ELSE (IF n.id \in H THEN <<n.id>> ELSE <<>>) \o (IF n.td THEN <<>> ELSE PreSeq(n.b, H, greedy))
PreSeq(s, H, greedy) == IF Len(s) = 0 THEN <<>> ELSE PreNode(Head(s), H, greedy) \o PreSeq(Tail(s), H, greedy)

\* all nodes (pre-order), including the bodies of TypeDefs
RECURSIVE AllNodes(_)
AllNodes(s) == IF Len(s) = 0 THEN <<>> ELSE <<Head(s)>> \o AllNodes(Head(s).b) \o AllNodes(Tail(s))

TypeHits(T, classes) == {n.id : n \in {x \in SeqSet(AllNodes(T)) : IsA(x, classes)}}
\* mode 'scope': "Return the InternalNode in which the object match appears": nodes with a direct
\* child equal (by value) to the given node
ScopeHits(T, eqc) == {n.id : n \in {x \in SeqSet(AllNodes(T)) : \E j \in 1..Len(x.b) : x.b[j].eq = eqc}}

FindNodesType(T, classes, greedy) == PreSeq(T, TypeHits(T, classes), greedy)
FindNodesScope(T, eqc, greedy) == PreSeq(T, ScopeHits(T, eqc), greedy)

(***************************************************************************)
(* FindScopes(match, greedy): "Find all parent nodes for node match": the  *)
(* ancestor lists (root first, match last) of every occurrence (identity)  *)
(* of match; greedy: "Stop traversal when match was found".                *)
(***************************************************************************)
RECURSIVE PathsNode(_, _, _), PathsSeq(_, _, _)
PathsNode(n, target, anc) ==
  LET a == Append(anc, n.id) IN
  IF n.id = target THEN <<a>>
  ELSE IF n.td THEN <<>> ELSE PathsSeq(n.b, target, a)
PathsSeq(s, target, anc) == IF Len(s) = 0 THEN <<>> ELSE PathsNode(Head(s), target, anc) \o PathsSeq(Tail(s), target, anc)
FindScopesOf(T, target) == PathsSeq(T, target, <<>>)

(***************************************************************************)
(* Expression finders.  Occurrences of class Q in one expression tree; in  *)
(* the own expression slots of a node; in a whole (sub)tree, "not          *)
(* traversing the body" of TypeDefs (nor their own slots).                 *)
(* Results are compared as bags of object ids: the order inside one        *)
(* expression is not documented.                                           *)
(***************************************************************************)
RECURSIVE OccExpr(_, _), OccExprs(_, _)
OccExpr(x, Q) == (IF IsA(x, Q) THEN <<x>> ELSE <<>>) \o OccExprs(x.ch, Q)
OccExprs(s, Q) == IF Len(s) = 0 THEN <<>> ELSE OccExpr(Head(s), Q) \o OccExprs(Tail(s), Q)
OwnOcc(n, Q) == OccExprs(n.e, Q)
RECURSIVE TreeOcc(_, _)
TreeOcc(s, Q) == IF Len(s) = 0 THEN <<>>
                 ELSE (IF Head(s).td THEN <<>> ELSE OwnOcc(Head(s), Q) \o TreeOcc(Head(s).b, Q)) \o TreeOcc(Tail(s), Q)
\* the nodes visited by an expression finder (pre-order)
RECURSIVE Visited(_)
Visited(s) == IF Len(s) = 0 THEN <<>>
              ELSE (IF Head(s).td THEN <<>> ELSE <<Head(s)>> \o Visited(Head(s).b)) \o Visited(Tail(s))

\* (not recursive: occurrence lists of parsed routines have hundreds of entries; the elements are cheap)
Ids(xs) == [i \in 1..Len(xs) |-> xs[i].o]
Count(s, v) == Cardinality({i \in 1..Len(s) : s[i] = v})
SameBag(a, b) == Len(a) = Len(b) /\ \A v \in SeqSet(a) \cup SeqSet(b) : Count(a, v) = Count(b, v)

\* plain mode (unique=False): every occurrence, with multiplicity
PlainOK(occ, res) == SameBag(Ids(occ), res)
\* unique mode: "a set of unique sub-expressions": one representative per key, nothing else
KeyOfId(occ, o) == LET S == {i \in 1..Len(occ) : occ[i].o = o} IN IF S = {} THEN "?" ELSE occ[CHOOSE i \in S : TRUE].key
UniqueOK(occ, res) ==
  /\ \A i \in 1..Len(res) : \E j \in 1..Len(occ) : occ[j].o = res[i]           \* only occurrences
  /\ \A i, j \in 1..Len(res) : i # j => KeyOfId(occ, res[i]) # KeyOfId(occ, res[j])   \* no key twice
  /\ {KeyOfId(occ, res[i]) : i \in 1..Len(res)} = {occ[j].key : j \in 1..Len(occ)}     \* every key
\* with_ir_node: "tuples which contain the sub-expression(s) and the corresponding IR node in which the
\* expression is contained": one pair per node with occurrences in its own slots
PairsOK(T, Q, res, unique) ==
  LET vis  == Visited(T)
      want == {i \in 1..Len(vis) : Len(OwnOcc(vis[i], Q)) > 0}
  IN
  /\ \A r \in 1..Len(res) : \E i \in want : vis[i].id = res[r].n
  /\ \A i \in want : \E r \in 1..Len(res) :
        /\ res[r].n = vis[i].id
        /\ \A r2 \in 1..Len(res) : res[r2].n = vis[i].id => r2 = r
        /\ IF unique THEN UniqueOK(OwnOcc(vis[i], Q), res[r].xs) ELSE PlainOK(OwnOcc(vis[i], Q), res[r].xs)

(***************************************************************************)
(* Verdict for one recorded query q on the exported forest T               *)
(* q = [f, classes, greedy, unique, pairs, target, ids, lists, prs, exc]   *)
(***************************************************************************)
QueryOK(T, q) ==
  q.exc = "" /\      \* a finder does not raise on a well-formed tree
  CASE q.f = "FindNodes"  -> q.ids = FindNodesType(T, SeqSet(q.classes), q.greedy)
    [] q.f = "FindNodesScope" -> q.ids = FindNodesScope(T, q.target, q.greedy)
    \* (greedy only prunes the search below the match; a node object occurs once in the tree)
    [] q.f = "FindScopes" -> q.lists = FindScopesOf(T, q.target)
    [] q.f = "Expr" -> LET Q == SeqSet(q.classes) IN
                       IF q.pairs THEN PairsOK(T, Q, q.prs, q.unique)
                       ELSE IF q.unique THEN UniqueOK(TreeOcc(T, Q), q.ids)
                       ELSE PlainOK(TreeOcc(T, Q), q.ids)

(***************************************************************************)
(* Diagnosis of a rejected query (part of the verdict; kept short: TLC     *)
(* wraps long tuples).  R:<exception>  N: wrong node list                  *)
(* M:<node class> occurrences in a node of that class are missing          *)
(* P:<node class> the (node, expressions) pair of such a node is wrong     *)
(* X / P?: results that are no occurrences / pairs for unexpected nodes    *)
(***************************************************************************)
MinOf(S) == CHOOSE i \in S : \A j \in S : i <= j
ClassOf(n) == n.mro[1]
Diag(T, q) ==
  IF q.exc # "" THEN "R:" \o q.exc
  ELSE IF q.f # "Expr" THEN "N"
  ELSE LET Q   == SeqSet(q.classes)
           vis == Visited(T)
           occ == TreeOcc(T, Q)
       IN
       IF q.pairs THEN
          LET want == {i \in 1..Len(vis) : Len(OwnOcc(vis[i], Q)) > 0}
              bad  == {i \in want : ~\E r \in 1..Len(q.prs) :
                          /\ q.prs[r].n = vis[i].id
                          /\ \A r2 \in 1..Len(q.prs) : q.prs[r2].n = vis[i].id => r2 = r
                          /\ IF q.unique THEN UniqueOK(OwnOcc(vis[i], Q), q.prs[r].xs) ELSE PlainOK(OwnOcc(vis[i], Q), q.prs[r].xs)}
          IN  IF bad # {} THEN "P:" \o ClassOf(vis[MinOf(bad)]) ELSE "P?"
       ELSE
          LET bad == IF q.unique
                     THEN {i \in 1..Len(vis) : \E x \in SeqSet(OwnOcc(vis[i], Q)) : x.key \notin {KeyOfId(occ, q.ids[r]) : r \in 1..Len(q.ids)}}
                     ELSE {i \in 1..Len(vis) : \E x \in SeqSet(OwnOcc(vis[i], Q)) : Count(q.ids, x.o) < Count(Ids(occ), x.o)}
          IN  IF bad # {} THEN "M:" \o ClassOf(vis[MinOf(bad)]) ELSE "X"
=============================================================================
