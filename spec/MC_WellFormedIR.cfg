SPECIFICATION Spec
CONSTANT MaxOcc = 2
INVARIANT CorrectStepsKeepWellFormed
INVARIANT MoveNoRescope
INVARIANT InlineNoRescope
INVARIANT RemoveUsedDecl
INVARIANT LostParent
INVARIANT ForeignScope
CHECK_DEADLOCK FALSE
INVARIANT DuplicateDecl
