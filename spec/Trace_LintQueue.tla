---------------------------- MODULE Trace_LintQueue ----------------------------
(* Trace validation for C42: event logs and handler outputs recorded from REAL runs of            *)
(* loki.lint.lint_files (probe rules + probe handler of the harness, see harness/lib_lintprobe.py)*)
(* are checked, one TLC step per event,                                                            *)
(*   (P) against the property: P-EachFileOnce, P-ReportIsFunctionOfFile (the report of a file is   *)
(*       the planted Rep(f), whichever worker produced it and whenever), P-CollectedEqualsReported, *)
(*       P-OutputsSameAsSerial (per-file handler outputs, return value), and finally                *)
(*       P-OutputsSameAsSerial:..:at-return (what the caller sees when lint_files returns);         *)
(*   (M) against the next-state relation of LintQueue (every logged event must be enabled after    *)
(*       the hidden steps) and the bookkeeping of the log itself (pid, per-process seq).           *)
(* P failures are violations of C42; M failures mean the model does not describe the code.         *)
EXTENDS LintQueue, Json, IOUtils

Cases == JsonDeserialize(IOEnv.CASES)

VARIABLES tid, l, s, h
tvars == <<tid, l, s, h>>

FailSet(k) == {f \in 1..k.n : k.files[f].fails}
Cfg(k) == [n |-> k.n, fails |-> FailSet(k), W |-> k.W, H |-> 1]
H0 == [begun |-> {}, ended |-> {}, reported |-> {}, cur |-> {}, workers |-> {}, last |-> {}, collected |-> FALSE,
       mfail |-> "", mpos |-> 0]
StartOf(i) == IF i <= Len(Cases) THEN InitState(Cfg(Cases[i])) ELSE <<>>

ItemSet(q) == {q[i] : i \in 1..Len(q)}

RepClause(k, f, items) ==
  IF k.files[f].fails
  THEN IF Len(items) = 1 /\ items[1][1] \notin ItemSet(k.rules) /\ items[1][2] = "0" THEN "ok"
       ELSE "P-ReportIsFunctionOfFile:parse-failure"
  ELSE IF Len(items) = Len(k.files[f].rep) /\ ItemSet(items) = ItemSet(k.files[f].rep) THEN "ok"
       ELSE "P-ReportIsFunctionOfFile:wrong-violations"

PClause(k, hh, e) ==
  CASE e.a = "begin" ->
         IF e.f = 0 THEN "P-EachFileOnce:unselected-file-checked"
         ELSE IF e.f \in hh.begun THEN "P-EachFileOnce:second-begin"
         ELSE "ok"
    [] e.a = "report" ->
         IF e.f = 0 THEN "P-EachFileOnce:unselected-file-checked"
         ELSE IF e.f \in hh.reported THEN "P-EachFileOnce:second-report"
         ELSE IF e.ncoll # 1 THEN "P-CollectedEqualsReported:lost-report"
         ELSE RepClause(k, e.f, e.items)
    [] e.a = "collect" ->
         IF hh.reported # 1..k.n THEN "P-EachFileOnce:file-not-checked"
         ELSE IF k.extra # 0 THEN "P-CollectedEqualsReported:extra-entry"
         ELSE "ok"
    [] OTHER -> "ok"

Outs == <<"probe", "default", "junit", "violations">>
OutOf(r, name) == CASE name = "probe" -> r.probe [] name = "default" -> r.default
                    [] name = "junit" -> r.junit [] name = "violations" -> r.violations

PFinal(k, hh) ==
  IF k.raised # k.base_raised THEN "P-OutputsSameAsSerial:lint_files-raised"
  ELSE IF ~hh.collected /\ ~k.raised THEN "P-EachFileOnce:no-output"
  ELSE IF \E i \in 1..4 : OutOf(k.outs, Outs[i]) # OutOf(k.base_outs, Outs[i])
       THEN "P-OutputsSameAsSerial:" \o Outs[CHOOSE i \in 1..4 : OutOf(k.outs, Outs[i]) # OutOf(k.base_outs, Outs[i])] \o ":final"
  ELSE IF k.count # k.base_count THEN "P-OutputsSameAsSerial:checked-count"
  ELSE IF \E i \in 3..4 : OutOf(k.ret_outs, Outs[i]) # OutOf(k.base_ret_outs, Outs[i])
       THEN "P-OutputsSameAsSerial:" \o Outs[CHOOSE i \in 3..4 : OutOf(k.ret_outs, Outs[i]) # OutOf(k.base_ret_outs, Outs[i])] \o ":at-return"
  ELSE "ok"

\* ---- model clauses
LastSeq(hh, w) == IF \E p \in hh.last : p[1] = w THEN (CHOOSE p \in hh.last : p[1] = w)[2] ELSE 0

\* model state after the hidden steps and, for a file that fails to parse, after the worker took it
Before(c, ss, e) ==
  LET t == Closure(c, ss) IN
  IF e.a = "report" /\ e.f \in c.fails /\ En(c, t, Ev("begin", e.f))
  THEN Ap(c, Ap(c, t, Ev("begin", e.f)), Ev("parsefail", e.f))
  ELSE t
ModelEv(e) == Ev(CASE e.a = "end" -> "check" [] e.a = "collect" -> "output" [] OTHER -> e.a,
                 IF e.a = "collect" THEN 0 ELSE e.f)

MClause(k, c, ss, hh, e) ==
  IF e.seq <= LastSeq(hh, e.w) THEN "M-seq-not-monotone"
  ELSE IF e.a = "collect" /\ e.w # 0 THEN "M-collect-outside-main"
  ELSE IF e.a # "collect" /\ ((k.W = 1) # (e.w = 0)) THEN "M-wrong-process"
  ELSE IF e.a = "begin" /\ (\E p \in hh.cur : p[1] = e.w) THEN "M-worker-runs-two-files"
  ELSE IF e.a # "collect" /\ Cardinality(hh.workers \cup {e.w}) > k.W THEN "M-more-workers-than-W"
  ELSE IF e.a = "end" /\ <<e.w, e.f>> \notin hh.cur THEN "M-end-on-other-worker"
  ELSE IF e.a = "report" /\ ~k.files[e.f].fails /\ (<<e.w, e.f>> \notin hh.cur \/ e.f \notin hh.ended) THEN "M-report-before-end"
  ELSE IF e.a = "report" /\ k.files[e.f].fails /\ (\E p \in hh.cur : p[1] = e.w) THEN "M-worker-runs-two-files"
  ELSE IF ~En(c, Before(c, ss, e), ModelEv(e)) THEN "M-not-enabled:" \o e.a
  ELSE "ok"

NextH(hh, e) ==
  LET g == [hh EXCEPT !.last = {p \in @ : p[1] # e.w} \cup {<<e.w, e.seq>>},
                      !.workers = IF e.a = "collect" THEN @ ELSE @ \cup {e.w}] IN
  CASE e.a = "begin"   -> [g EXCEPT !.begun = @ \cup {e.f}, !.cur = @ \cup {<<e.w, e.f>>}]
    [] e.a = "end"     -> [g EXCEPT !.ended = @ \cup {e.f}]
    [] e.a = "report"  -> [g EXCEPT !.reported = @ \cup {e.f}, !.cur = @ \ {<<e.w, e.f>>}]
    [] e.a = "collect" -> [g EXCEPT !.collected = TRUE]

Advance == tid' = tid + 1 /\ l' = 1 /\ s' = StartOf(tid + 1) /\ h' = H0
Verdict(k, ok, clause, pos) == PrintT(<<"VERDICT", k.id, ok, clause, pos>>) /\ Advance

Init_ == tid = 1 /\ l = 1 /\ s = StartOf(1) /\ h = H0

Next_ ==
  /\ tid <= Len(Cases)
  /\ LET k == Cases[tid]
         c == Cfg(k)
     IN IF l > Len(k.events)
        THEN LET pf == PFinal(k, h)
             IN IF pf # "ok" THEN Verdict(k, FALSE, pf, l)
                ELSE IF h.mfail # "" THEN Verdict(k, FALSE, h.mfail, h.mpos)
                ELSE IF ~k.raised /\ s.pc # "done" THEN Verdict(k, FALSE, "M-model-not-done", l)
                ELSE Verdict(k, TRUE, "ok", 0)
        ELSE LET e  == k.events[l]
                 pc == PClause(k, h, e)
                 \* after the first model mismatch the model is switched off and only P clauses are evaluated
                 \* on the rest of the log; the mismatch is reported at the end unless a P clause fails
                 mc == IF pc = "ok" /\ h.mfail = "" THEN MClause(k, c, s, h, e) ELSE "ok"
             IN IF pc # "ok" THEN Verdict(k, FALSE, pc, l)
                ELSE /\ s' = IF h.mfail = "" /\ mc = "ok" THEN Ap(c, Before(c, s, e), ModelEv(e)) ELSE s
                     /\ h' = [NextH(h, e) EXCEPT !.mfail = IF h.mfail = "" THEN (IF mc = "ok" THEN "" ELSE mc) ELSE h.mfail,
                                                 !.mpos = IF h.mfail = "" /\ mc # "ok" THEN l ELSE h.mpos]
                     /\ l' = l + 1 /\ tid' = tid

TraceSpec == Init_ /\ [][Next_]_tvars

ReplayedStatesSatisfyInvariants ==
  (tid <= Len(Cases) /\ h.mfail = "") =>
     LET c == Cfg(Cases[tid]) IN EachFileOnceP(c, s) /\ ReportsAreFunctionOfFileP(c, s) /\ WorkersBoundP(c, s)
                                 /\ CountIsParsedP(c, s)
=============================================================================
