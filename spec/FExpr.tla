------------------------------- MODULE FExpr -------------------------------
(***************************************************************************)
(* Executable reference semantics of Fortran scalar expressions.           *)
(*                                                                         *)
(* Values:  [t |-> "int", v |-> i]   default integer                        *)
(*          [t |-> "real", n |-> p, d |-> q]  exact rational p/q, q > 0,   *)
(*                                            lowest terms                 *)
(*          [t |-> "log", v |-> b]                                          *)
(*          [t |-> "err", why |-> s]  division by zero, 0**negative, a     *)
(*                                    magnitude beyond the model ("big"),   *)
(*                                    or a construct outside the model      *)
(* Expression trees (JSON image, shared by exported Loki trees and by the  *)
(* reference parser FParse):                                               *)
(*   [k |-> "int", v]  [k |-> "real", n, d]  [k |-> "log", v]              *)
(*   [k |-> "var", name]                                                   *)
(*   [k |-> "sum"|"prod", c |-> <<children>>]   n-ary, left-associative     *)
(*   [k |-> "quot"|"pow", c |-> <<a, b>>]                                   *)
(*   [k |-> "neg"|"pos"|"par"|"not", c |-> <<a>>]                           *)
(*   [k |-> "cmp", op, c |-> <<a, b>>]  op in == /= < <= > >=               *)
(*   [k |-> "and"|"or", c |-> <<children>>]   [k |-> "eqv"|"neqv", c]       *)
(*   [k |-> "call", f, c |-> <<args>>]  modelled intrinsics (lower case)    *)
(* Real arithmetic is exact: rounding is outside the model by design.      *)
(***************************************************************************)
EXTENDS Integers, Sequences, FiniteSets, TLC

Limit == 30000        \* magnitudes above this are "big" (TLC integers are 32 bit)

Abs(x) == IF x < 0 THEN -x ELSE x
Sgn(x) == IF x < 0 THEN -1 ELSE IF x = 0 THEN 0 ELSE 1
Min2(a, b) == IF a <= b THEN a ELSE b
Max2(a, b) == IF a >= b THEN a ELSE b

RECURSIVE Gcd(_, _)
Gcd(a, b) == IF b = 0 THEN a ELSE Gcd(b, a % b)

\* Fortran integer division truncates toward zero (TLA+ \div floors)
TDiv(a, b) == Sgn(a) * Sgn(b) * (Abs(a) \div Abs(b))
\* MOD(a,p) = a - p*TDiv(a,p) (sign of a);  MODULO(a,p) has the sign of p
FMod(a, p) == a - p * TDiv(a, p)

Err(w) == [t |-> "err", why |-> w]
I(v) == IF Abs(v) > Limit THEN Err("big") ELSE [t |-> "int", v |-> v]
L(b) == [t |-> "log", v |-> b]
\* rational constructor: normalises sign and gcd
Q(n, d) == IF d = 0 THEN Err("divzero")
           ELSE IF Abs(n) > Limit \/ Abs(d) > Limit THEN Err("big")
           ELSE LET g == Gcd(Abs(n), Abs(d))
                    s == IF d < 0 THEN -1 ELSE 1
                IN  IF g = 0 THEN [t |-> "real", n |-> 0, d |-> 1]
                    ELSE [t |-> "real", n |-> s * (n \div g), d |-> s * (d \div g)]

IsErr(x) == x.t = "err"
IsNum(x) == x.t \in {"int", "real"}
Num(x) == IF x.t = "int" THEN x.v ELSE x.n     \* numerator / denominator view of a number
Den(x) == IF x.t = "int" THEN 1 ELSE x.d
BothInt(a, b) == a.t = "int" /\ b.t = "int"

\* error propagation helper: first error wins, non-numbers are type errors
Arith2(a, b, f(_, _)) ==
  IF IsErr(a) THEN a ELSE IF IsErr(b) THEN b
  ELSE IF ~IsNum(a) \/ ~IsNum(b) THEN Err("type")
  ELSE f(a, b)

AddV(a, b) == Arith2(a, b, LAMBDA x, y :
                 IF BothInt(x, y) THEN I(x.v + y.v) ELSE Q(Num(x) * Den(y) + Num(y) * Den(x), Den(x) * Den(y)))
SubV(a, b) == Arith2(a, b, LAMBDA x, y :
                 IF BothInt(x, y) THEN I(x.v - y.v) ELSE Q(Num(x) * Den(y) - Num(y) * Den(x), Den(x) * Den(y)))
MulV(a, b) == Arith2(a, b, LAMBDA x, y :
                 IF BothInt(x, y) THEN I(x.v * y.v) ELSE Q(Num(x) * Num(y), Den(x) * Den(y)))
DivV(a, b) == Arith2(a, b, LAMBDA x, y :
                 IF Num(y) = 0 THEN Err("divzero")
                 ELSE IF BothInt(x, y) THEN I(TDiv(x.v, y.v)) ELSE Q(Num(x) * Den(y), Den(x) * Num(y)))
NegV(a) == IF IsErr(a) THEN a ELSE IF a.t = "int" THEN I(-a.v) ELSE IF a.t = "real" THEN Q(-a.n, a.d) ELSE Err("type")

\* x ** k for a natural k, by repeated multiplication with the magnitude guard
RECURSIVE PowNat(_, _)
PowNat(x, k) == IF k = 0 THEN (IF x.t = "int" THEN I(1) ELSE Q(1, 1))
                ELSE LET r == PowNat(x, k - 1) IN IF IsErr(r) THEN r ELSE MulV(r, x)

\* Fortran power: integer**integer stays integer (negative exponent: truncated reciprocal);
\* real**integer is a rational; integer**real / real**real are outside the model unless the
\* exponent is integral-valued (then the result is real)
PowV(a, b) ==
  Arith2(a, b, LAMBDA x, y :
    IF Abs(Num(y)) > 12 THEN Err("big")
    ELSE IF y.t = "int" \/ Den(y) = 1
    THEN LET k == Num(y)
             xr == IF y.t = "real" /\ x.t = "int" THEN Q(x.v, 1) ELSE x
         IN  IF k >= 0 THEN PowNat(xr, k)
             ELSE IF Num(xr) = 0 THEN Err("divzero")
             ELSE LET p == PowNat(xr, -k) IN
                  IF IsErr(p) THEN p
                  ELSE IF xr.t = "int" THEN I(TDiv(1, p.v)) ELSE Q(Den(p), Num(p))
    ELSE Err("unsupported"))

CmpV(op, a, b) ==
  IF IsErr(a) THEN a ELSE IF IsErr(b) THEN b
  ELSE IF ~IsNum(a) \/ ~IsNum(b) THEN
       (IF a.t = "log" /\ b.t = "log" /\ op \in {"==", "/="} THEN Err("type") ELSE Err("type"))
  ELSE LET l == Num(a) * Den(b)
           r == Num(b) * Den(a)
       IN  L(CASE op = "==" -> l = r [] op = "/=" -> l # r [] op = "<" -> l < r
               [] op = "<=" -> l <= r [] op = ">" -> l > r [] op = ">=" -> l >= r)

Logic2(a, b, f(_, _)) == IF IsErr(a) THEN a ELSE IF IsErr(b) THEN b
                         ELSE IF a.t # "log" \/ b.t # "log" THEN Err("type") ELSE L(f(a.v, b.v))
NotV(a) == IF IsErr(a) THEN a ELSE IF a.t # "log" THEN Err("type") ELSE L(~a.v)

\* numeric equality of two values irrespective of int/real representation (logicals by value)
SameValue(a, b) ==
  IF IsErr(a) \/ IsErr(b) THEN IsErr(a) /\ IsErr(b)
  ELSE IF a.t = "log" \/ b.t = "log" THEN a.t = b.t /\ a.v = b.v
  ELSE Num(a) * Den(b) = Num(b) * Den(a)

ToReal(a) == IF a.t = "int" THEN Q(a.v, 1) ELSE a
ToRealOrErr(a) == IF IsErr(a) THEN a ELSE ToReal(a)
\* truncation of a rational toward zero
TruncQ(a) == IF a.t = "int" THEN a ELSE I(TDiv(a.n, a.d))
\* NINT: round half away from zero
NintQ(a) == IF a.t = "int" THEN a
            ELSE I(Sgn(a.n) * ((2 * Abs(a.n) + a.d) \div (2 * a.d)))

Intrinsic(f, args) ==
  LET n == Len(args)
      e == {i \in 1..n : IsErr(args[i])}
  IN
  IF e # {} THEN args[CHOOSE i \in e : \A j \in e : i <= j]
  ELSE CASE f = "abs" /\ n = 1 -> (IF args[1].t = "int" THEN I(Abs(args[1].v)) ELSE Q(Abs(args[1].n), args[1].d))
    [] f = "mod" /\ n = 2 /\ BothInt(args[1], args[2]) ->
         (IF args[2].v = 0 THEN Err("divzero") ELSE I(FMod(args[1].v, args[2].v)))
    [] f = "modulo" /\ n = 2 /\ BothInt(args[1], args[2]) ->
         (IF args[2].v = 0 THEN Err("divzero")
          ELSE LET r == FMod(args[1].v, args[2].v)
               IN I(IF r # 0 /\ Sgn(r) # Sgn(args[2].v) THEN r + args[2].v ELSE r))
    [] f \in {"max", "min"} /\ n >= 2 /\ \A i \in 1..n : IsNum(args[i]) ->
         LET allint == \A i \in 1..n : args[i].t = "int"
             better(x, y) == IF f = "max" THEN Num(x) * Den(y) >= Num(y) * Den(x) ELSE Num(x) * Den(y) <= Num(y) * Den(x)
             w == CHOOSE i \in 1..n : \A j \in 1..n : better(args[i], args[j])
         IN IF allint THEN args[w] ELSE ToReal(args[w])
    [] f = "sign" /\ n = 2 /\ IsNum(args[1]) /\ IsNum(args[2]) ->
         LET m == IF args[1].t = "int" THEN I(Abs(args[1].v)) ELSE Q(Abs(args[1].n), args[1].d)
         IN IF Num(args[2]) >= 0 THEN m ELSE NegV(m)
    [] f = "int" /\ n = 1 /\ IsNum(args[1]) -> TruncQ(args[1])
    [] f = "nint" /\ n = 1 /\ IsNum(args[1]) -> NintQ(args[1])
    [] f = "real" /\ n = 1 /\ IsNum(args[1]) -> ToReal(args[1])
    [] f = "merge" /\ n = 3 /\ args[3].t = "log" -> (IF args[3].v THEN args[1] ELSE args[2])
    \* C library pow(x, y): double result (used when reading text emitted by the C backend)
    [] f = "pow" /\ n = 2 /\ IsNum(args[1]) /\ IsNum(args[2]) -> ToRealOrErr(PowV(ToReal(args[1]), args[2]))
    [] OTHER -> Err("unsupported")

\* Array elements and references to unknown functions are uninterpreted: a fixed arithmetic
\* function of the name and the evaluated integer arguments (distinguishes a(i+1) from a(i)+1).
NameCode(nm) == CASE nm = "f" -> 1 [] nm = "g" -> 2 [] nm = "arr" -> 3 [] nm = "x" -> 4 [] OTHER -> 5 + Len(nm)
RECURSIVE WSum(_, _)
WSum(vs, n) == IF n = 0 THEN 0 ELSE WSum(vs, n - 1) + (n + 1) * (Num(vs[n]) + 3 * Den(vs[n]))
UF(nm, args) ==
  LET e == {i \in 1..Len(args) : IsErr(args[i])} IN
  IF e # {} THEN args[CHOOSE i \in e : \A j \in e : i <= j]
  ELSE IF \E i \in 1..Len(args) : ~IsNum(args[i]) THEN Err("type")
  ELSE I(((WSum(args, Len(args)) + NameCode(nm)) % 11) - 5)
IntrinsicNames == {"abs", "mod", "modulo", "max", "min", "sign", "int", "nint", "real", "merge", "pow"}

RECURSIVE Eval(_, _), EvalSeq(_, _)

\* TLCEval forces the function: TLC function constructors are lazy and would re-evaluate the
\* sub-expressions at every access (exponential in the nesting depth)
EvalSeq(cs, env) == TLCEval([i \in 1..Len(cs) |-> Eval(cs[i], env)])

RECURSIVE FoldAdd(_, _), FoldMul(_, _), FoldAnd(_, _), FoldOr(_, _)
FoldAdd(vs, n) == IF n = 1 THEN vs[1] ELSE AddV(FoldAdd(vs, n - 1), vs[n])
FoldMul(vs, n) == IF n = 1 THEN vs[1] ELSE MulV(FoldMul(vs, n - 1), vs[n])
FoldAnd(vs, n) == IF n = 1 THEN vs[1] ELSE Logic2(FoldAnd(vs, n - 1), vs[n], LAMBDA x, y : x /\ y)
FoldOr(vs, n)  == IF n = 1 THEN vs[1] ELSE Logic2(FoldOr(vs, n - 1), vs[n], LAMBDA x, y : x \/ y)

Eval(e, env) ==
  CASE e.k \in {"int", "rawint"} -> I(e.v)      \* rawint: an integer literal node holding a (possibly negative) value
    [] e.k = "real" -> Q(e.n, e.d)
    [] e.k = "log"  -> L(e.v)
    [] e.k = "var"  -> IF e.name \in DOMAIN env THEN env[e.name] ELSE UF(e.name, <<>>)   \* other names: uninterpreted
    [] e.k = "sum"  -> FoldAdd(EvalSeq(e.c, env), Len(e.c))
    [] e.k = "prod" -> FoldMul(EvalSeq(e.c, env), Len(e.c))
    [] e.k = "quot" -> DivV(Eval(e.c[1], env), Eval(e.c[2], env))
    [] e.k = "pow"  -> PowV(Eval(e.c[1], env), Eval(e.c[2], env))
    [] e.k = "neg"  -> NegV(Eval(e.c[1], env))
    [] e.k \in {"pos", "par"} -> Eval(e.c[1], env)
    [] e.k = "not"  -> NotV(Eval(e.c[1], env))
    [] e.k = "cmp"  -> CmpV(e.op, Eval(e.c[1], env), Eval(e.c[2], env))
    [] e.k = "and"  -> FoldAnd(EvalSeq(e.c, env), Len(e.c))
    [] e.k = "or"   -> FoldOr(EvalSeq(e.c, env), Len(e.c))
    [] e.k = "eqv"  -> Logic2(Eval(e.c[1], env), Eval(e.c[2], env), LAMBDA x, y : x = y)
    [] e.k = "neqv" -> Logic2(Eval(e.c[1], env), Eval(e.c[2], env), LAMBDA x, y : x # y)
    [] e.k = "call" -> IF e.f \in IntrinsicNames THEN Intrinsic(e.f, EvalSeq(e.c, env)) ELSE UF(e.f, EvalSeq(e.c, env))
    [] e.k = "arr"  -> UF(e.name, EvalSeq(e.c, env))
    [] OTHER -> Err("unsupported")

(***************************************************************************)
(* Sampled valuations: every variable ranges over a small domain chosen to *)
(* separate truncation from flooring, signs, zero, and non-integral reals. *)
(***************************************************************************)
IntSeq  == <<-3, -1, 0, 2, 5>>
RealSeq == <<<<-3, 2>>, <<-1, 1>>, <<0, 1>>, <<1, 2>>, <<2, 1>>>>
VarNames == {"a", "b", "c"}
\* 45 of the 125 index triples: two orthogonal Latin squares, i.e. every pair of values of every two
\* variables occurs (pairwise coverage), plus the diagonal
Triples == {<<i, j, ((i + j) % 5)>> : i \in 0..4, j \in 0..4} \cup {<<i, j, ((i + 2 * j) % 5)>> : i \in 0..4, j \in 0..4}
           \cup {<<i, i, i>> : i \in 0..4}
MkEnv(va, vb, vc) == [n \in VarNames |-> IF n = "a" THEN va ELSE IF n = "b" THEN vb ELSE vc]
IntEnvs  == {MkEnv(I(IntSeq[t[1] + 1]), I(IntSeq[t[2] + 1]), I(IntSeq[t[3] + 1])) : t \in Triples}
RealEnvs == {MkEnv(Q(RealSeq[t[1] + 1][1], RealSeq[t[1] + 1][2]), Q(RealSeq[t[2] + 1][1], RealSeq[t[2] + 1][2]),
                   Q(RealSeq[t[3] + 1][1], RealSeq[t[3] + 1][2])) : t \in Triples}
Envs(typing) == IF typing = "int" THEN IntEnvs ELSE RealEnvs

\* value image for printing / comparing with executed code: <<"int", v, 1>>, <<"real", n, d>>, <<"log", 0|1, 1>>, <<"err", 0, 1>>
Image(x) == CASE x.t = "int" -> <<"int", x.v, 1>> [] x.t = "real" -> <<"real", x.n, x.d>>
              [] x.t = "log" -> <<"log", IF x.v THEN 1 ELSE 0, 1>> [] OTHER -> <<"err", 0, 1>>
=============================================================================
