SPECIFICATION MCSpec
INVARIANT TypeOK
INVARIANT AttachedSeeScope
INVARIANT ClassifyOK
CONSTANT MaxDepth = 4
CONSTANT MaxSyms = 3
CHECK_DEADLOCK FALSE
