---------------------------- MODULE MC_SchedOps ----------------------------
(* Design-level check of SchedOps: every history of at most MaxOps operations (dep and wrap at   *)
(* most once) on every small project of SchedUniverse (NP procedures, every module assignment,   *)
(* forward call relations, ONLY imports at routine or module level, optional module-variable     *)
(* import, one unit per file) with seed p1 (driver or kernel) keeps the invariants of C25.       *)
EXTENDS SchedOps, SchedUniverse
CONSTANTS NP, MaxOps, Styles, Guarded
VARIABLES S, G, hist, pc      \* G: the graph of S (computed once per step)
mvars == <<S, G, hist, pc>>

Rels == SUBSET {<<i, j>> \in (1..NP) \X (1..NP) : i < j}
Kernels == {PN[i] : i \in 2..NP}
Ops == {[op |-> "dep", k |-> "", sfx |-> "_x", msfx |-> ms, sub |-> FALSE] : ms \in {"", "_mod"}}
       \cup {[op |-> "wrap", k |-> "", sfx |-> "", msfx |-> "_mod", sub |-> FALSE]}
       \cup {[op |-> "dup", k |-> k, sfx |-> "_d", msfx |-> "", sub |-> sb] : k \in Kernels, sb \in BOOLEAN}
       \cup {[op |-> "rm", k |-> k, sfx |-> "", msfx |-> "", sub |-> FALSE] : k \in Kernels}
Count(o) == Cardinality({i \in DOMAIN hist : hist[i].op = o})

ConfFor(P, drv) ==
  \* (a plain seed name becomes ambiguous when the seed's module is cloned by dup: qualified seeds for module procedures)
  [BaseConf(<<IF P.procs[1].mod = "" THEN Plain(P.procs[1]) ELSE Qual(P.procs[1])>>) EXCEPT !.routines = IF drv THEN <<[RE("p1") EXCEPT !.hasRole = TRUE, !.role = "driver"]>> ELSE <<>>]

\* Preconditions under which the design keeps the invariants.  Each excluded situation is a design-level
\* finding of this model (MC_SchedOps_unguarded.cfg, Guarded = FALSE, is the negative control that finds them):
\*  (a) dup of a module procedure k while another routine of the same module calls k: the whole module is cloned,
\*      k is renamed in the clone, the clone of the sibling still calls the old name
\*  (b) dup with subgraph when a module imports the callee at module level: only routine-level imports of a clone are
\*      re-pointed (a TODO in DuplicateKernel._rename_calls), the clone calls a name it does not import
\*  (c) dep or wrap while a module that is a node of the graph (or holds one) also holds a routine that is NOT in the
\*      graph (never reached, or taken out by rm): the processed routines and the module-level imports are re-pointed
\*      to the new names, the bystander in the same -- written -- file keeps calling / importing the old ones
\*      (seen for: a driver module with an unused routine; rm followed by wrap; dup + rm followed by dep)
NoBystanders ==
  \A m \in ({n.scope : n \in ProcNodes(G)} \cup {n.local : n \in {x \in G.nodes : x.kind = "mod"}}) \ {""} :
     \A pr \in Procs(S.P) : pr.mod = m => ItemOfProc(pr) \in G.nodes
Pre(o) ==
  /\ o.op \in {"dep", "wrap"} => NoBystanders
  /\ (o.op = "dup" /\ o.sub) => \A m \in Mods(S.P) : m.imports = <<>>
  /\ o.op = "dup" => \A q \in {n \in ProcNodes(G) : n.local = o.k /\ n.scope # ""} :
                     \A pr \in Procs(S.P) : (pr.mod = q.scope /\ pr.name # o.k) => o.k \notin Range(pr.calls)

EmptyGraph == [nodes |-> {}, edges |-> {}, poss |-> <<>>]
MCInit == S = <<>> /\ G = <<>> /\ hist = <<>> /\ pc = "pick"
Pick ==
  /\ pc = "pick"
  /\ \E f \in Assigns(NP), R \in Rels, st \in Styles, vi \in BOOLEAN, drv \in BOOLEAN :
       LET P == MkProject(NP, f, R, st, vi, "sep")
       IN /\ LegalProject(P) /\ AcyclicProject(P)
          /\ S' = InitState(P, ConfFor(P, drv))
  /\ G' = Graph(S')
  /\ pc' = "run" /\ hist' = <<>>
Step ==
  /\ pc = "run" /\ Len(hist) < MaxOps
  /\ \E o \in Ops :
       /\ o.op \in {"dep", "wrap"} => Count(o.op) = 0
       /\ o.op = "wrap" => Count("dep") = 0          \* wrapping after the dependency injection is not a use case
       /\ o.op = "dup" => \A i \in DOMAIN hist : ~(hist[i].op = "dup" /\ hist[i].k = o.k)   \* a kernel is duplicated once
       /\ Guarded => Pre(o)
       /\ S' = ApplyG(S, G, o)
       /\ G' = IF Consistent(S'.P, S'.C) THEN Graph(S') ELSE EmptyGraph
       /\ hist' = Append(hist, o)
  /\ UNCHANGED pc
MCNext == Pick \/ Step
MCSpec == MCInit /\ [][MCNext]_mvars

Running == pc = "run"
\* unique unit names, seeds resolve, no unresolved reference on any path from the seeds (then the graph is defined)
InvConsistent == Running => G # EmptyGraph
InvNoDanglingRef == Running => NoDanglingRef(S.P, G.nodes)
InvUniqueUnits == Running => UniqueUnits(S.P)
InvSeedsResolve == Running => SeedsResolve(S.P, S.C)
InvNoOutputClash == Running => NoOutputClash(S.P, G.nodes)
\* later processing visits the survivors: the graph is never empty and contains the seed
InvSeedInGraph == Running => \A i \in DOMAIN S.C.seeds : SeedItem(S.P, S.C.seeds[i]) \in G.nodes
=============================================================================
