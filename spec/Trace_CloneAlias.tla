--------------------------- MODULE Trace_CloneAlias ---------------------------
(* Trace validation for C17.  A case is one history replayed on REAL Loki program units:            *)
(*   [kind, parented, init : [o : view, par : image], events : <<[op,k,a1,a2,how, after]>>]  *)
(* `after` = [o : view, c : view, par : image] projected from the real objects after the event      *)
(* (views as in CloneAlias!View plus text hashes and identity tags, see harness/lib_units.py).      *)
(* The abstract heap state is initialised from the observed initial view of the original and        *)
(* advanced with CloneAlias!Apply; after every event both copies' observed views must equal the     *)
(* model's views (frame + effect), the observed identity tags must satisfy                          *)
(* SymbolsResolveInOwnChain, and the parent-scope image must be the initial one.                    *)
(* The verdict of a case lists every violated clause as "clause@step;..." (see Collect).             *)
EXTENDS CloneAlias, Json, IOUtils

Cases == JsonDeserialize(IOEnv.CASES)

VARIABLES tid, l, prev, parbase, fails
tvars == <<st, ev, tid, l, prev, parbase, fails>>

HeapFrom(c) ==
  LET w == c.init.o
      memset == ToSet(w.members)
  IN [ exists   |-> [k \in Copies |-> k = "o"],
       parented |-> c.parented,
       unit     |-> [k \in Copies |-> [name |-> w.name, tab |-> "o", spec |-> "o", body |-> "o", mem |-> "o", nest |-> "o"]],
       nest     |-> [r \in Copies |-> [i \in NestIds |-> [types |-> [n \in NestNames |-> w.ntab[i][n]], parent |-> "o", scope |-> "o"]]],
       tabs     |-> [r \in Copies |-> [types |-> [n \in TabNames |-> w.tab[n]],
                                       procs |-> [m \in MemToks |-> IF m \in memset THEN "o" ELSE None]]],
       specs    |-> [r \in Copies |-> [decl |-> {v \in Vars : w.decl[v] # None}, marks |-> w.spec, scope |-> "o"]],
       bodies   |-> [r \in Copies |-> [stmts |-> w.body, scope |-> "o"]],
       mems     |-> [r \in Copies |-> [i \in DOMAIN w.members |-> [n |-> w.members[i], parent |-> "o"]]],
       par      |-> [reg |-> [n \in NameToks |-> c.init.par.reg[n]]] ]

ParImage(p) == <<[n \in NameToks |-> p.reg[n]], ToSet(p.sibcalls), p.pmembers, p.nkeys>>

\* TLC wraps printed tuples that are wider than a line, which the verdict parser does not accept: clause names are
\* abbreviated here and expanded again by the driver.
\*   O OriginalUnchangedByClone  C CloneFaithful  E Effect  U OtherCopyUnchanged  S SymbolsResolveInOwnChain
\*   P ParentScopeOfOriginalUnchanged
Abbr(x) == CASE x = "name" -> "na" [] x = "decl" -> "de" [] x = "tab" -> "ta" [] x = "occ" -> "oc" [] x = "mocc" -> "mo"
             [] x = "body" -> "bo" [] x = "spec" -> "sp" [] x = "members" -> "me" [] x = "ntab" -> "nt" [] x = "nocc" -> "nc"
             [] OTHER -> x

\* all clauses of one event as <<violated?, name>>, in reporting order
Tags(w) == <<w.owners, w.memparent, w.memtab, w.calls, w.tdef, w.nparent, w.nown>>
Checks(c, s1, e, before, base) ==
  LET live == {k \in Copies : s1.exists[k]}
      tgt  == e.k
      oth  == Other(e.k)
      isC  == e.op = "clone"
      dT   == Diff(View(s1, tgt), e.after[tgt])
      dO   == IF oth \in live THEN Diff(View(s1, oth), e.after[oth]) ELSE "ok"
      \* an identity tag set is judged when the copy is created and whenever it changes
      fresh(k, f) == k \in live /\ ((isC /\ k = "c") \/ e.after[k][f] # before[k][f])
      allowed(f) == CASE f = "owners" -> {"self"} \cup (IF c.parented THEN {"parent"} ELSE {})
                      [] f \in {"memparent", "nparent", "nown"} -> {"self"}
                      [] OTHER -> {"own"}
      bad(k, f) == fresh(k, f) /\ ~(ToSet(e.after[k][f]) \subseteq allowed(f))
      pi   == ParImage(e.after.par)
  IN <<
    <<isC /\ dO # "ok",                                 "O:" \o Abbr(dO)>>,
    <<isC /\ e.after.o.text # before.o.text,            "O:tx">>,
    <<isC /\ Tags(e.after.o) # Tags(before.o),          "O:id">>,
    <<isC /\ dT # "ok",                                 "C:" \o Abbr(dT)>>,
    <<isC /\ e.after.c.ntext # e.after.o.ntext,         "C:tx">>,
    <<isC /\ e.a1 = "" /\ e.after.c.text # e.after.o.text, "C:tx">>,
    <<~isC /\ dT # "ok",                                "E:" \o Abbr(dT)>>,
    <<~isC /\ dO # "ok",                                "U:" \o Abbr(dO)>>,
    <<~isC /\ oth \in live /\ e.after[oth].text # before[oth].text, "U:tx">>,
    <<~isC /\ oth \in live /\ Tags(e.after[oth]) # Tags(before[oth]), "U:id">>,
    <<bad("c", "owners"), "S:c:ow">>, <<bad("c", "memparent"), "S:c:mp">>, <<bad("c", "memtab"), "S:c:mt">>,
    <<bad("c", "calls"), "S:c:ca">>, <<bad("c", "tdef"), "S:c:td">>, <<bad("c", "nparent"), "S:c:np">>, <<bad("c", "nown"), "S:c:no">>,
    <<bad("o", "owners"), "S:o:ow">>, <<bad("o", "memparent"), "S:o:mp">>, <<bad("o", "memtab"), "S:o:mt">>,
    <<bad("o", "calls"), "S:o:ca">>, <<bad("o", "tdef"), "S:o:td">>, <<bad("o", "nparent"), "S:o:np">>, <<bad("o", "nown"), "S:o:no">>,
    <<pi # base,                                        "P">>
  >>

\* Clauses whose violation makes the real objects diverge from the model end the validation of the history;
\* violated identity clauses (SymbolsResolveInOwnChain, ParentScopeOfOriginalUnchanged) are recorded and the
\* validation continues, so that one (possibly known) defect does not mask the later steps.
Fatal(name) == SubSeq(name, 1, 1) \in {"O", "C", "E", "U"} /\ name \notin {"O:id", "U:id"}   \* (identity tags do not enter the model state)

\* "clause@step;" for the violated clauses of one step, in order: at most `room` identity clauses, then the first
\* content clause (if any), which ends the history
RECURSIVE Collect(_, _, _, _)
Collect(ch, i, step, room) ==
  IF i > Len(ch) THEN ""
  ELSE IF ~ch[i][1] THEN Collect(ch, i + 1, step, room)
  ELSE IF Fatal(ch[i][2]) THEN ch[i][2] \o "@" \o ToString(step) \o ";"
  ELSE IF room = 0 THEN Collect(ch, i + 1, step, 0)
  ELSE ch[i][2] \o "@" \o ToString(step) \o ";" \o Collect(ch, i + 1, step, room - 1)

AnyFatal(ch) == \E i \in DOMAIN ch : ch[i][1] /\ Fatal(ch[i][2])

Advance == tid' = tid + 1 /\ l' = 0 /\ st' = NoEv /\ ev' = NoEv /\ prev' = NoEv /\ parbase' = NoEv /\ fails' = ""

Init_ == tid = 1 /\ l = 0 /\ st = NoEv /\ ev = NoEv /\ prev = NoEv /\ parbase = NoEv /\ fails = ""

Next_ ==
  /\ tid <= Len(Cases)
  /\ LET c == Cases[tid] IN
     IF l = 0
     THEN \* load the case; the generated original must itself be well scoped (otherwise the fixture is unusable)
          LET bad == OwnChain(c.init.o, c.parented) IN
          IF bad # "ok"
          THEN PrintT(<<"VERDICT", c.id, FALSE, "Fixture:" \o bad, 0>>) /\ Advance
          ELSE /\ st' = HeapFrom(c) /\ ev' = NoEv /\ prev' = [o |-> c.init.o, c |-> c.init.o] /\ parbase' = ParImage(c.init.par)
               /\ l' = 1 /\ tid' = tid /\ fails' = ""
     ELSE IF l > Len(c.events)
     THEN PrintT(<<"VERDICT", c.id, fails = "", IF fails = "" THEN "ok" ELSE fails, 0>>) /\ Advance
     ELSE LET e0 == c.events[l]
              e  == Ev(e0.op, e0.k, e0.a1, e0.a2, e0.how)
          IN IF e \notin Events(st)
             THEN PrintT(<<"VERDICT", c.id, FALSE, "Machinery:event-not-enabled", l>>) /\ Advance
             ELSE LET s1 == Apply(st, e)
                      ch == Checks(c, s1, e0, prev, parbase)
                      \* (at most a few recorded identity clauses per history: the verdict must fit on one line)
                      f1 == fails \o Collect(ch, 1, l, IF Len(fails) > 20 THEN 0 ELSE IF Len(fails) > 9 THEN 1 ELSE 3)
                  IN IF AnyFatal(ch)
                     THEN PrintT(<<"VERDICT", c.id, FALSE, f1, l>>) /\ Advance
                     ELSE /\ st' = s1 /\ ev' = e /\ prev' = [o |-> e0.after.o, c |-> e0.after.c]
                          \* an already recorded change of the parent image becomes the new reference
                          /\ parbase' = ParImage(e0.after.par)
                          /\ fails' = f1
                          /\ l' = l + 1 /\ tid' = tid

TraceSpec == Init_ /\ [][Next_]_tvars

\* the model's own invariants are re-checked on every abstract state reached while validating
ModelOwnChain ==
  st # NoEv => \A k \in {x \in Copies : st.exists[x]} :
     LET w == View(st, k) IN w.owners \subseteq {"self"} /\ w.memparent \subseteq {"self"} /\ w.memtab \subseteq {"own"}
=============================================================================
