----------------------------- MODULE MC_Transpile -----------------------------
(* Design-level check for C35 / C36: the verdicts of Trace_Transpile rest on a few laws of the     *)
(* MiniFortran machine that the transpilers are most likely to get wrong.  They are checked here    *)
(* exhaustively over small ranges against INDEPENDENT characterisations (not the machine's own       *)
(* helper operators):                                                                               *)
(*  LoopLaw     DO i = lo, hi, st visits exactly {lo + j*st} inside the bounds, in that many trips,  *)
(*              and leaves i = lo + trips*st (zero-trip: i = lo)                                      *)
(*  BoundLaw    redefining the bound variable inside the loop does not change the trip count         *)
(*  DivModLaw   a/b and MOD(a,b): a = q*b + r, |r| < |b|, r = 0 or sign(r) = sign(a)                 *)
(*  SignLaw     |SIGN(a,b)| = |a|, non-negative iff b >= 0 (or a = 0)                                *)
(*  ConvLaw     integer <- real assignment truncates toward zero                                     *)
(*  PowLaw      integer ** k is the k-fold product                                                   *)
EXTENDS FMachine

Lit(v) == [k |-> "int", v |-> v]
Var(n) == [k |-> "var", name |-> n]
Sum2(a, b) == [k |-> "sum", c |-> <<a, b>>]
Asg(n, e) == [s |-> "assign", lhs |-> Var(n), rhs |-> e]
D(n, ty, intent) == [name |-> n, type |-> ty, intent |-> intent, dims |-> <<>>, init |-> None]
Unit1(args, decls, body) == [units |-> <<[name |-> "kernel", kind |-> "subroutine", args |-> args, decls |-> decls,
                                           body |-> body, result |-> "", host |-> ""]>>]
NoInput == [n \in {} |-> Undef]

LoopProg(lo, hi, st) ==
  Unit1(<<"c", "z", "f">>, <<D("c", "int", "out"), D("z", "int", "out"), D("f", "int", "out"), D("i", "int", "local")>>,
        <<Asg("c", Lit(0)), Asg("z", Lit(0)),
          [s |-> "do", var |-> "i", lo |-> Lit(lo), hi |-> Lit(hi), st |-> Lit(st),
           body |-> <<Asg("c", Sum2(Var("c"), Lit(1))), Asg("z", Sum2(Var("z"), Var("i")))>>],
          Asg("f", Var("i"))>>)
Visited(lo, hi, st) == IF st > 0 THEN {x \in lo..hi : (x - lo) % st = 0} ELSE {x \in hi..lo : (lo - x) % (-st) = 0}
RECURSIVE SetSum(_)
SetSum(S) == IF S = {} THEN 0 ELSE LET x == CHOOSE y \in S : TRUE IN x + SetSum(S \ {x})
LoopLaw(lo, hi, st) ==
  LET V == Visited(lo, hi, st) n == Cardinality(V) r == Run(LoopProg(lo, hi, st), "kernel", NoInput) IN
  r.ok /\ r.out = <<<<"int", n, 1>>, <<"int", SetSum(V), 1>>, <<"int", lo + n * st, 1>>>>

BoundProg(lo, hi) ==
  Unit1(<<"c">>, <<D("c", "int", "out"), D("i", "int", "local"), D("t", "int", "local")>>,
        <<Asg("c", Lit(0)), Asg("t", Lit(hi)),
          [s |-> "do", var |-> "i", lo |-> Lit(lo), hi |-> Var("t"), st |-> None,
           body |-> <<Asg("t", Sum2(Var("t"), Lit(-1))), Asg("c", Sum2(Var("c"), Lit(1)))>>]>>)
BoundLaw(lo, hi) == LET r == Run(BoundProg(lo, hi), "kernel", NoInput) IN
                    r.ok /\ r.out = <<<<"int", IF hi >= lo THEN hi - lo + 1 ELSE 0, 1>>>>

Ev(e) == EvalE([units |-> <<>>], e, [n \in {} |-> Undef], <<>>)
DivModLaw(a, b) ==
  LET q == Ev([k |-> "quot", c |-> <<Lit(a), Lit(b)>>]) r == Ev([k |-> "call", f |-> "mod", c |-> <<Lit(a), Lit(b)>>]) IN
  /\ q.t = "int" /\ r.t = "int" /\ a = q.v * b + r.v
  /\ (IF r.v < 0 THEN -r.v ELSE r.v) < (IF b < 0 THEN -b ELSE b)
  /\ (r.v = 0 \/ (r.v > 0) = (a > 0))
SignLaw(a, b) ==
  LET s == Ev([k |-> "call", f |-> "sign", c |-> <<Lit(a), Lit(b)>>]) IN
  s.t = "int" /\ s.v * s.v = a * a /\ (b >= 0 => s.v >= 0) /\ (b < 0 => s.v <= 0)
ConvLaw(n, d) ==
  LET t == Conv("int", Q(n, d)) IN
  t.t = "int" /\ (n >= 0 => (t.v >= 0 /\ t.v * d <= n /\ n < (t.v + 1) * d)) /\ (n < 0 => (t.v <= 0 /\ t.v * d >= n /\ n > (t.v - 1) * d))
PowLaw(a) == Ev([k |-> "pow", c |-> <<Lit(a), Lit(2)>>]) = I(a * a) /\ Ev([k |-> "pow", c |-> <<Lit(a), Lit(3)>>]) = I(a * a * a)

CaseSet == {<<"loop", lo, hi, st>> : lo \in -2..4, hi \in -3..5, st \in {-3, -2, -1, 1, 2, 3}}
           \cup {<<"bound", lo, hi, 0>> : lo \in -1..3, hi \in -2..5}
           \cup {<<"divmod", a, b, 0>> : a \in -9..9, b \in {-4, -3, -2, -1, 1, 2, 3, 4}}
           \cup {<<"sign", a, b, 0>> : a \in -3..3, b \in -2..2}
           \cup {<<"conv", n, d, 0>> : n \in -11..11, d \in {1, 2, 4}}
           \cup {<<"pow", a, 0, 0>> : a \in -5..5}
VARIABLE cs
Init == cs \in CaseSet
Next == UNCHANGED cs
Spec == Init /\ [][Next]_cs
Law == CASE cs[1] = "loop" -> LoopLaw(cs[2], cs[3], cs[4])
         [] cs[1] = "bound" -> BoundLaw(cs[2], cs[3])
         [] cs[1] = "divmod" -> DivModLaw(cs[2], cs[3])
         [] cs[1] = "sign" -> SignLaw(cs[2], cs[3])
         [] cs[1] = "conv" -> ConvLaw(cs[2], cs[3])
         [] cs[1] = "pow" -> PowLaw(cs[2])
=============================================================================
