SPECIFICATION MCSpec
CONSTANT NameChars <- NameChars_
CONSTANT N = 3
CONSTANT Guarded = TRUE
INVARIANT PlanMatchesWrites
CHECK_DEADLOCK FALSE
