------------------------------- MODULE SecLoop -------------------------------
(***************************************************************************)
(* C30, design level: rewriting an array-section assignment                *)
(*        t(l1:h1:s1) = f(src(l2:h2:s2))                                   *)
(* into the loop   DO q = l1, h1, s1 ;  t(q) = f(src(idx(q))) ; END DO.     *)
(* Fortran evaluates the whole right-hand side before storing anything     *)
(* (FMachine.Assign); the loop stores element by element.  MC_SecLoop       *)
(* checks on an exhaustive small universe of 1-d sections that             *)
(*   - with the exact index map idx(q) = l2 + ((q-l1)/s1)*s2 the loop      *)
(*     agrees with Run whenever no element stored by an earlier iteration  *)
(*     is read by a later one (NoCarried);                                 *)
(*   - with the offset-only map idx(q) = q - l1 + l2 (strides ignored) it  *)
(*     agrees when additionally s1 = s2;                                   *)
(* and that both conditions matter (witnesses).  This is the yardstick for *)
(* the harness families: "overlap" contains carried cases, "stride" cases  *)
(* with s1 # s2.                                                           *)
(***************************************************************************)
EXTENDS FMachine

VarE(n) == [k |-> "var", name |-> n]
LitE(v) == IF v >= 0 THEN [k |-> "int", v |-> v] ELSE [k |-> "neg", c |-> <<[k |-> "int", v |-> -v]>>]
SumE(a, b) == [k |-> "sum", c |-> <<a, b>>]
ElemE(n, i) == [k |-> "arr", name |-> n, c |-> <<i>>]
RangeE(lo, hi, st) == [k |-> "range", lo |-> LitE(lo), hi |-> LitE(hi), st |-> LitE(st)]
AsgS(l, r) == [s |-> "assign", lhs |-> l, rhs |-> r]

\* a section statement is described by [src, l1, s1, l2, s2, n, c]: n elements, constant c added
Hi(l, s, n) == l + (n - 1) * s
SectionStmt(d) == AsgS(ElemE("v", RangeE(d.l1, Hi(d.l1, d.s1, d.n), d.s1)),
                       SumE(ElemE(d.src, RangeE(d.l2, Hi(d.l2, d.s2, d.n), d.s2)), LitE(d.c)))
ExactIdx(d) == SumE(LitE(d.l2), [k |-> "prod", c |-> <<[k |-> "quot", c |-> <<[k |-> "par", c |-> <<SumE(VarE("q"), LitE(-d.l1))>>], LitE(d.s1)>>], LitE(d.s2)>>])
OffsetIdx(d) == IF d.l1 = d.l2 THEN VarE("q") ELSE SumE(SumE(VarE("q"), LitE(-d.l1)), LitE(d.l2))
LoopStmt(d, idx) == [s |-> "do", var |-> "q", lo |-> LitE(d.l1), hi |-> LitE(Hi(d.l1, d.s1, d.n)), st |-> LitE(d.s1),
                     body |-> <<AsgS(ElemE("v", VarE("q")), SumE(ElemE(d.src, idx), LitE(d.c)))>>]

LhsIdx(d, p) == d.l1 + (p - 1) * d.s1
RhsIdx(d, p) == d.l2 + (p - 1) * d.s2
NoCarried(d) == d.src # "v" \/ \A p, r \in 1..d.n : p < r => LhsIdx(d, p) # RhsIdx(d, r)
=============================================================================
