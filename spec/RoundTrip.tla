------------------------------ MODULE RoundTrip ------------------------------
(***************************************************************************)
(* C02: read-write of generated Fortran is a fixpoint.                      *)
(*                                                                         *)
(* F = write . read  (fgen after the frontend).  For a source text src:     *)
(*     ir1 = read(src)    t1 = write(ir1)                                   *)
(*     ir2 = read(t1)     t2 = write(ir2)                                   *)
(* The property:  t2 = t1  (line by line)  and  ir2 ~ ir1  (structurally   *)
(* identical: the same node kinds in the same nesting with the same          *)
(* attributes and expression trees; source locations are not structure).    *)
(* A text is a sequence of lines (strings), an IR its independent           *)
(* structural export: the pre-order sequence of node images (strings        *)
(* "depth kind attributes/expression trees").                               *)
(***************************************************************************)
EXTENDS Naturals, Sequences, TLC

Min(a, b) == IF a < b THEN a ELSE b
\* first position at which two sequences differ (Min(len) + 1 if one is a proper prefix), 0 if equal
FirstDiff(a, b) ==
  IF a = b THEN 0
  ELSE IF \E k \in 1..Min(Len(a), Len(b)) : a[k] # b[k]
       THEN CHOOSE k \in 1..Min(Len(a), Len(b)) : a[k] # b[k] /\ \A j \in 1..(k - 1) : a[j] = b[j]
       ELSE Min(Len(a), Len(b)) + 1

\* c = [t1, t2, ir1, ir2]; result: the findings <<clause, position>> (empty: the property holds for the case)
Findings(c) ==
  LET dt == FirstDiff(c.t1, c.t2)
      di == FirstDiff(c.ir1, c.ir2)
  IN (IF dt = 0 THEN <<>> ELSE <<<<"text-fixpoint", dt>>>>) \o (IF di = 0 THEN <<>> ELSE <<<<"ir-identical", di>>>>)

(***************************************************************************)
(* Design-level model (MC_RoundTrip): texts over a tiny alphabet of lines,  *)
(* a writer that normalises (upper-cases keywords, strips blanks, squeezes  *)
(* blank lines) is a fixpoint and accepted; writers that drift (grow blank  *)
(* lines at each pass, re-indent cumulatively, reorder) are rejected at the  *)
(* first differing line.                                                    *)
(***************************************************************************)
=============================================================================
