------------------------------ MODULE RoundTrip ------------------------------
(***************************************************************************)
(* C02: read-write of generated Fortran is a fixpoint.                      *)
(*                                                                         *)
(* F = write . read  (fgen after the frontend).  For a source text src:     *)
(*     ir1 = read(src)    t1 = write(ir1)                                   *)
(*     ir2 = read(t1)     t2 = write(ir2)                                   *)
(* The property:  t2 = t1  (line by line)  and  ir2 ~ ir1  (structurally   *)
(* identical: the same node kinds in the same nesting with the same          *)
(* attributes and expression trees; source locations are not structure).    *)
(* A text is a sequence of lines (strings), an IR its independent           *)
(* structural export: the pre-order sequence of node images (strings        *)
(* "depth kind attributes/expression trees").                               *)
(***************************************************************************)
EXTENDS Naturals, Sequences, TLC

Min2(a, b) == IF a < b THEN a ELSE b
\* first position at which two sequences differ (Min2(len) + 1 if one is a proper prefix), 0 if equal
FirstDiff(a, b) ==
  IF a = b THEN 0
  ELSE IF \E k \in 1..Min2(Len(a), Len(b)) : a[k] # b[k]
       THEN CHOOSE k \in 1..Min2(Len(a), Len(b)) : a[k] # b[k] /\ \A j \in 1..(k - 1) : a[j] = b[j]
       ELSE Min2(Len(a), Len(b)) + 1

\* Exemption (documented frontend behaviour: FortranReader strips the source text before reading): empty lines at the
\* very beginning and end of a text, and the images "BLANK" of the empty-line comments that end an IR, do not count.
RECURSIVE DropLead(_, _), DropTrail(_, _)
DropLead(s, b) == IF s # <<>> /\ s[1] = b THEN DropLead(Tail(s), b) ELSE s
DropTrail(s, b) == IF s # <<>> /\ s[Len(s)] = b THEN DropTrail(SubSeq(s, 1, Len(s) - 1), b) ELSE s
Trim(s, b) == DropTrail(DropLead(s, b), b)
LeadCount(s, b) == Len(s) - Len(DropLead(s, b))

\* c = [t1, t2, ir1, ir2, rb, gf]; result: the findings <<clause, position>> (empty: the property holds for the case);
\* positions refer to the untrimmed t1 / ir1.
\*   rb  "the written text t1 was read back by the frontend" -- without it there is no second pass at all (t2, ir2 are
\*       then meaningless and not looked at): clause read-back
\*   gf  "a Fortran compiler (gfortran -fsyntax-only) accepts the written text t1"; recorded only for self-contained
\*       sources whose ORIGINAL text the compiler accepts (TRUE otherwise): clause written-text-compiles
Findings(c) ==
  LET dt0 == FirstDiff(Trim(c.t1, ""), Trim(c.t2, ""))
      dt == IF dt0 = 0 THEN 0 ELSE dt0 + LeadCount(c.t1, "")
      di == FirstDiff(DropTrail(c.ir1, "BLANK"), DropTrail(c.ir2, "BLANK"))
  IN (IF c.gf THEN <<>> ELSE <<<<"written-text-compiles", 0>>>>) \o
     (IF ~c.rb THEN <<<<"read-back", 0>>>>
      ELSE (IF dt = 0 THEN <<>> ELSE <<<<"text-fixpoint", dt>>>>) \o (IF di = 0 THEN <<>> ELSE <<<<"ir-identical", di>>>>))

(***************************************************************************)
(* Design-level model (MC_RoundTrip): texts over a tiny alphabet of lines,  *)
(* a writer that normalises (upper-cases keywords, strips blanks, squeezes  *)
(* blank lines) is a fixpoint and accepted; writers that drift (grow blank  *)
(* lines at each pass, re-indent cumulatively, reorder) are rejected at the  *)
(* first differing line.                                                    *)
(***************************************************************************)
=============================================================================
