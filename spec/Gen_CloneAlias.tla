---------------------------- MODULE Gen_CloneAlias ----------------------------
(* History generator for C17 (spec -> code direction).  The state is the history itself, so every  *)
(* distinct history is a distinct state:                                                           *)
(*   exhaustive:  tlc (BFS)  prints every history of length 1..GenDepth over CloneAlias!Events       *)
(*   sampled:     tlc -simulate  prints random histories of length GenDepth                          *)
(* A history is a sequence of events; the clone is the first event unless PreOps > 0, in which case *)
(* up to PreOps modifications of the original precede it.                                           *)
EXTENDS CloneAlias, Json
CONSTANTS GenDepth, PreOps, Sampled
VARIABLE hist
gvars == <<st, ev, hist>>
GInit == st = InitSt(FALSE) /\ ev = NoEv /\ hist = <<>>
Allowed(s, h) == {e \in Events(s) : /\ (~s.exists["c"] /\ Len(h) >= PreOps) => e.op = "clone"}
Step(e) == st' = Apply(st, e) /\ ev' = e /\ hist' = Append(hist, e)
GNext ==
  /\ Len(hist) < GenDepth
  /\ IF Sampled
     THEN \E op \in {RandomElement({e.op : e \in Allowed(st, hist)})} :
            \E e \in {RandomElement({x \in Allowed(st, hist) : x.op = op})} : Step(e)
     ELSE \E e \in Allowed(st, hist) : Step(e)
  /\ (st'.exists["c"] /\ (~Sampled \/ Len(hist') = GenDepth)) => PrintT(<<"HISTORY", ToJson(hist')>>)
GSpec == GInit /\ [][GNext]_gvars
=============================================================================
