---- MODULE MC_AttachDetach ----
(* Design-level model checking of AttachDetach: every abstract IR made of at most TreeLen top-level   *)
(* elements from a small alphabet (region start/end/other pragmas, loops with empty / plain / region- *)
(* crossing / region-containing / pragma-call bodies, calls, declarations, statements) x every         *)
(* sequence of at most MaxDepth-1 operations (direct attach/detach, context enter/exit, exceptions).   *)
EXTENDS AttachDetach
CONSTANT TreeLen

N(id, kind, kw, body) == [id |-> id, kind |-> kind, kw |-> kw, pre |-> <<>>, post |-> <<>>, body |-> body, dfa |-> FALSE]
Alphabet == {"S", "E", "P", "L0", "L1", "LE", "LR", "LP", "C", "D", "A"}
Elem(sym, b) ==
  CASE sym = "S"  -> N(b, "pragma", "s:x", <<>>)
    [] sym = "E"  -> N(b, "pragma", "e:x", <<>>)
    [] sym = "P"  -> N(b, "pragma", "p", <<>>)
    [] sym = "L0" -> N(b, "loop", "", <<>>)
    [] sym = "L1" -> N(b, "loop", "", <<N(b + 1, "stmt", "", <<>>)>>)
    [] sym = "LE" -> N(b, "loop", "", <<N(b + 1, "pragma", "e:x", <<>>)>>)                     \* region end at another level
    [] sym = "LR" -> N(b, "loop", "", <<N(b + 1, "pragma", "s:x", <<>>), N(b + 2, "stmt", "", <<>>), N(b + 3, "pragma", "e:x", <<>>)>>)
    [] sym = "LP" -> N(b, "loop", "", <<N(b + 1, "pragma", "p", <<>>), N(b + 2, "call", "", <<>>), N(b + 3, "pragma", "p", <<>>)>>)
    [] sym = "C"  -> N(b, "call", "", <<>>)
    [] sym = "D"  -> N(b, "decl", "", <<>>)
    [] sym = "A"  -> N(b, "stmt", "", <<>>)
Words == UNION {[1..n -> Alphabet] : n \in 1..TreeLen}
MCInitTrees == {[i \in DOMAIN w |-> Elem(w[i], 10 * i)] : w \in Words}
====
