SPECIFICATION TraceSpec
CONSTANT UnionOnRaw = TRUE
CHECK_DEADLOCK FALSE
