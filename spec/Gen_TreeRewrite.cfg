CONSTANT MaxNodes = 2
CONSTANT MaxDepth = 3
CONSTANT LeafTerms <- LeafTerms2
CONSTANT OneSlotKinds = {"loop", "assoc"}
CONSTANT WithCond = TRUE
CONSTANT WithMulti = FALSE
CONSTANT MaskRich = FALSE
CONSTANT Family = "mask"
