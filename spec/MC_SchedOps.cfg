SPECIFICATION MCSpec
CONSTANT NameChars <- TabChars
CONSTANT NP = 3
CONSTANT MaxOps = 2
CONSTANT Styles = {"only_r", "only_m"}
CONSTANT Guarded = TRUE
INVARIANT InvAllRefsLegal
INVARIANT InvNoDanglingRef
INVARIANT InvUniqueUnits
INVARIANT InvSeedsResolve
INVARIANT InvNoOutputClash
INVARIANT InvSeedInGraph
CHECK_DEADLOCK FALSE
