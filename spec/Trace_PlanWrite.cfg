SPECIFICATION TraceSpec
CONSTANT NameChars <- JsonChars
CHECK_DEADLOCK FALSE
