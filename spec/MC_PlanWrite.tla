---------------------------- MODULE MC_PlanWrite ----------------------------
(* Design-level check of the planner model of PlanWrite: all assignments of N file items          *)
(* (selected or not, on disk or clone, replicate, origin of clones) in every visiting order.       *)
(* Two inputs break the property at design level and are excluded by the constraints below; they  *)
(* are reported in the notes (and MC_PlanWrite_neg.cfg, Guarded = FALSE, finds them):              *)
(*  (a) two selected file items that share a path but disagree on `replicate` (a renamed copy and  *)
(*      the file read again): only the first visited one is planned;                               *)
(*  (b) a replicated clone whose original is not itself selected: the original is listed to be     *)
(*      transformed although nothing written derives from it by name (the repository's plan tests  *)
(*      expect the original of a clone to be absent, test_dependency_duplicate_remove_plan).       *)
EXTENDS PlanWrite
CONSTANTS N, Guarded
NameChars_(P, n) == <<>>
Paths == {"a", "b", "c"}
FileRecs == [sel : BOOLEAN, onDisk : BOOLEAN, repl : BOOLEAN, orig : 1..N, path : Paths]
WellFormed(fs) ==
  /\ \A f \in 1..N : fs[f].onDisk => fs[f].orig = f
  /\ \A f \in 1..N : ~fs[f].onDisk => (fs[f].orig # f /\ fs[fs[f].orig].onDisk /\ \A g \in 1..N : g # f => fs[g].path # fs[f].path)
  /\ \A f, g \in 1..N : (f < g /\ fs[f].path = fs[g].path) => (fs[f].onDisk /\ fs[g].onDisk)
Pre(fs) ==
  /\ \A f, g \in 1..N : (fs[f].sel /\ fs[g].sel /\ fs[f].path = fs[g].path) => fs[f].repl = fs[g].repl
  /\ \A f \in 1..N : (fs[f].sel /\ ~fs[f].onDisk /\ fs[f].repl) => fs[fs[f].orig].sel
MCInit ==
  /\ files \in {fs \in [1..N -> FileRecs] : WellFormed(fs) /\ (Guarded => Pre(fs))}
  /\ todo = {f \in 1..N : files[f].sel}
  /\ transform = {} /\ append = {} /\ remove = {}
MCSpec == MCInit /\ [][PlanNext]_pwvars
=============================================================================
