SPECIFICATION GSpec
CONSTANT NameChars <- TabChars
CONSTANT NP = 3
CONSTANT MaxOps = 3
CONSTANT Styles = {"only_r", "only_m"}
CONSTANT Guarded = TRUE
CHECK_DEADLOCK FALSE
