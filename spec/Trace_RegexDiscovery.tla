------------------------ MODULE Trace_RegexDiscovery ------------------------
(* Trace validation for C19.  One case = one abstract file (rendered to Fortran by the       *)
(* harness under some layout) together with                                                  *)
(*   fp    : the observation recorded from the full parser (Frontend.FP) on the same text,   *)
(*   obs   : the table of distinct observations recorded from the REGEX frontend,            *)
(*   hists : request histories; each step = [req |-> <<class names>>, o |-> index into obs]; *)
(*           step 1 is Sourcefile.from_source(frontend=REGEX, parser_classes=req), later     *)
(*           steps are make_complete(frontend=REGEX, parser_classes=req).                    *)
(* TLC folds the requests into `parsed` and decides every step with RegexDiscovery!Clauses.  *)
(* Verdict(c) = <<ok, clause, 0, details>>; details = witnesses <<clause, direct, P, o, start>>*)
(* (direct: the observation is also produced by a single request of P; P as class letters    *)
(* UFITDCG; o = index of the observation; start: kind of the request history).               *)
EXTENDS RegexDiscovery, Json, IOUtils, SequencesExt

Cases == JsonDeserialize(IOEnv.CASES)

Letter(c) == CASE c = "ProgramUnit" -> "U" [] c = "Interface" -> "F" [] c = "Import" -> "I"
               [] c = "TypeDef" -> "T" [] c = "Declaration" -> "D" [] c = "Call" -> "C" [] c = "Pragma" -> "G"
ClassOrder == <<"ProgramUnit", "Interface", "Import", "TypeDef", "Declaration", "Call", "Pragma">>
RECURSIVE PStrR(_, _)
PStrR(P, i) == IF i > Len(ClassOrder) THEN ""
               ELSE (IF ClassOrder[i] \in P THEN Letter(ClassOrder[i]) ELSE "") \o PStrR(P, i + 1)
PStr(P) == PStrR(P, 1)

RECURSIVE UnionUpTo(_, _)
UnionUpTo(h, s) == IF s = 0 THEN {} ELSE UnionUpTo(h, s - 1) \cup Range(h[s].req)

\* all <<parsed, observation, first step?, history starts with a request containing ProgramUnit?>> of a case
Quads(c) == UNION { { <<UnionUpTo(c.hists[h], s), c.hists[h][s].o, s = 1, "ProgramUnit" \in Range(c.hists[h][1].req)>>
                      : s \in DOMAIN c.hists[h] } : h \in DOMAIN c.hists }

\* Classes requested while the program units exist: the requests from the first one that makes the union
\* contain ProgramUnit onwards (ProgramUnit included).  Whatever was requested *before* the units existed may be
\* forgotten by Loki (known finding, decided by the full-union clause); what is requested afterwards - also when
\* it repeats an earlier request - must be discovered.
RECURSIVE FreshUpTo(_, _)
FreshUpTo(h, s) == IF s = 0 THEN {}
                   ELSE FreshUpTo(h, s - 1) \cup (IF "ProgramUnit" \in UnionUpTo(h, s) THEN Range(h[s].req) ELSE {})
\* <<fresh classes, observation>> of the steps of histories that do not start with ProgramUnit, once units exist
FreshPairs(c) == UNION { { <<FreshUpTo(c.hists[h], s) \cup {"ProgramUnit"}, c.hists[h][s].o>>
                           : s \in {t \in DOMAIN c.hists[h] : "ProgramUnit" \in UnionUpTo(c.hists[h], t)} }
                         : h \in {g \in DOMAIN c.hists : "ProgramUnit" \notin Range(c.hists[g][1].req)} }

\* Verdict(c) = <<ok, clause, 0, details>>; details = witnesses <<clause, direct, P, o, unitstart>> per violated
\* clause (unitstart: "unit" = the witness comes from a history whose first request contains ProgramUnit,
\* "nounit" = the clause is violated only in histories that request ProgramUnit later)
Verdict(c) ==
  IF ~ValidFile(c.file) THEN <<FALSE, "oracle:invalid-file", 0, {}>>
  ELSE LET fpc == Clauses(c.fp, c.file, Classes) IN
  IF fpc # {} THEN <<FALSE, "oracle:fp-disagrees:" \o (CHOOSE x \in fpc : TRUE), 0, {}>>
  ELSE
    LET qs  == Quads(c)
        Prs(u) == { <<q[1], q[2]>> : q \in {qq \in qs : qq[4] = u} }
        prs == Prs(TRUE) \cup Prs(FALSE)
        \* eager set of <<pair, violated clause>> (a function [pr |-> ..] would be re-evaluated at every use)
        bad == UNION { { <<pr, x>> : x \in Clauses(c.obs[pr[2]], c.file, pr[1]) } : pr \in prs }
        Od(S) == {pr \in S : \E q \in S : q[1] = pr[1] /\ q[2] # pr[2]}      \* same union, different result
        odT == Od(Prs(TRUE))
        Best(w) == CHOOSE pr \in w : \A q \in w : Cardinality(pr[1]) <= Cardinality(q[1])
        Direct(w, u) == \E pr \in w : <<pr[1], pr[2], TRUE, u>> \in qs
        Name(u) == IF u THEN "unit" ELSE "nounit"
        \* one witness per clause: from the histories that start with ProgramUnit if the clause is violated
        \* there, otherwise from the others
        W(x, u) == {b[1] : b \in {bb \in bad : bb[2] = x}} \cap Prs(u)
        clauseDet == { LET u == W(x, TRUE) # {}
                           w == W(x, u) IN <<x, Direct(w, u), PStr(Best(w)[1]), Best(w)[2], Name(u)>>
                       : x \in {b[2] : b \in bad} }
        odR == Od(prs) \ odT
        odDet == IF odT # {} THEN {<<"order-dependence", FALSE, PStr(Best(odT)[1]), Best(odT)[2], "unit">>}
                 ELSE IF odR # {} THEN {<<"order-dependence", FALSE, PStr(Best(odR)[1]), Best(odR)[2], "nounit">>}
                 ELSE {}
        \* the weaker demand on histories that request ProgramUnit late: classes requested since the units exist
        fps == FreshPairs(c)
        badF == UNION { { <<pr, x>> : x \in Clauses(c.obs[pr[2]], c.file, pr[1]) } : pr \in fps }
        WF(x) == {b[1] : b \in {bb \in badF : bb[2] = x}}
        \* (a clause that is already violated in histories starting with ProgramUnit is a defect of its own,
        \* reported there, not a loss caused by the late ProgramUnit request)
        freshDet == { <<x, FALSE, PStr(Best(WF(x))[1]), Best(WF(x))[2], "repeat">>
                      : x \in {y \in {b[2] : b \in badF} : W(y, TRUE) = {}} }
        det == clauseDet \cup odDet \cup freshDet
    IN IF det = {} THEN <<TRUE, "ok", 0, {}>>
       ELSE <<FALSE, (CHOOSE d \in det : TRUE)[1], 0, det>>

VARIABLE tid
Init_ == tid = 1 /\ file = <<>> /\ parsed = {} /\ top = "raw" /\ upc = <<>>
\* One short line per print (core's verdict reader needs single-line tuples): the main verdict under the
\* case id, and one pair of lines per violated clause under the string ids "id#k" and "id#k#P".
Next_ == /\ tid <= Len(Cases)
         /\ \E v \in {Verdict(Cases[tid])} :     \* (bound once: a LET would re-evaluate the verdict at every use)
              LET ds == SetToSeq(v[4])
                  sid == ToString(Cases[tid].id)
              IN /\ PrintT(<<"VERDICT", Cases[tid].id, v[1], v[2], Len(ds)>>)
                 /\ \A k \in DOMAIN ds :
                       /\ PrintT(<<"VERDICT", sid \o "#" \o ToString(k), ds[k][2], ds[k][1], ds[k][4]>>)
                       /\ PrintT(<<"VERDICT", sid \o "#" \o ToString(k) \o "#P", TRUE, ds[k][3], ds[k][5]>>)
         /\ tid' = tid + 1
         /\ UNCHANGED rdvars
TraceSpec == Init_ /\ [][Next_]_<<tid, file, parsed, top, upc>>
=============================================================================
