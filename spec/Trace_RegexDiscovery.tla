------------------------ MODULE Trace_RegexDiscovery ------------------------
(* Trace validation for C19.  One case = one abstract file (rendered to Fortran by the       *)
(* harness under some layout) together with                                                  *)
(*   fp    : the observation recorded from the full parser (Frontend.FP) on the same text,   *)
(*   obs   : the table of distinct observations recorded from the REGEX frontend,            *)
(*   hists : request histories; each step = [req |-> <<class names>>, o |-> index into obs]; *)
(*           step 1 is Sourcefile.from_source(frontend=REGEX, parser_classes=req), later     *)
(*           steps are make_complete(frontend=REGEX, parser_classes=req).                    *)
(* TLC folds the requests into `parsed` and decides every step with RegexDiscovery!Clauses.  *)
(* Verdict(c) = <<ok, clause, 0, details>>; details = one witness per violated clause:       *)
(* <<clause, direct, P, o>> (direct: the observation is also produced by a single request of *)
(* P; P as class letters UFITDCG; o = index of the observation).                             *)
EXTENDS RegexDiscovery, Json, IOUtils, SequencesExt

Cases == JsonDeserialize(IOEnv.CASES)

Letter(c) == CASE c = "ProgramUnit" -> "U" [] c = "Interface" -> "F" [] c = "Import" -> "I"
               [] c = "TypeDef" -> "T" [] c = "Declaration" -> "D" [] c = "Call" -> "C" [] c = "Pragma" -> "G"
ClassOrder == <<"ProgramUnit", "Interface", "Import", "TypeDef", "Declaration", "Call", "Pragma">>
RECURSIVE PStrR(_, _)
PStrR(P, i) == IF i > Len(ClassOrder) THEN ""
               ELSE (IF ClassOrder[i] \in P THEN Letter(ClassOrder[i]) ELSE "") \o PStrR(P, i + 1)
PStr(P) == PStrR(P, 1)

RECURSIVE UnionUpTo(_, _)
UnionUpTo(h, s) == IF s = 0 THEN {} ELSE UnionUpTo(h, s - 1) \cup Range(h[s].req)

\* all <<parsed, observation, first-step?>> triples of a case
Triples(c) == UNION { { <<UnionUpTo(c.hists[h], s), c.hists[h][s].o, s = 1>> : s \in DOMAIN c.hists[h] }
                      : h \in DOMAIN c.hists }

Verdict(c) ==
  IF ~ValidFile(c.file) THEN <<FALSE, "oracle:invalid-file", 0, {}>>
  ELSE LET fpc == Clauses(c.fp, c.file, Classes) IN
  IF fpc # {} THEN <<FALSE, "oracle:fp-disagrees:" \o (CHOOSE x \in fpc : TRUE), 0, {}>>
  ELSE
    LET trs == Triples(c)
        prs == { <<t[1], t[2]>> : t \in trs }
        \* eager set of <<pair, violated clause>> (a function [pr |-> ..] would be re-evaluated at every use)
        bad == UNION { { <<pr, x>> : x \in Clauses(c.obs[pr[2]], c.file, pr[1]) } : pr \in prs }
        od  == {pr \in prs : \E q \in prs : q[1] = pr[1] /\ q[2] # pr[2]}      \* same union, different result
        all == {b[2] : b \in bad} \cup (IF od = {} THEN {} ELSE {"order-dependence"})
        Wit(x) == IF x = "order-dependence" THEN od ELSE {b[1] : b \in {bb \in bad : bb[2] = x}}
        Best(w) == CHOOSE pr \in w : \A q \in w : Cardinality(pr[1]) <= Cardinality(q[1])
        Direct(w) == \E pr \in w : <<pr[1], pr[2], TRUE>> \in trs
        Det(x) == LET w == Wit(x) b == Best(w) IN <<x, Direct(w), PStr(b[1]), b[2]>>
        det == { Det(x) : x \in all }
    IN IF all = {} THEN <<TRUE, "ok", 0, {}>>
       ELSE <<FALSE, CHOOSE x \in all : TRUE, 0, det>>

VARIABLE tid
Init_ == tid = 1 /\ file = <<>> /\ parsed = {} /\ top = "raw" /\ upc = <<>>
\* One short line per print (core's verdict reader needs single-line tuples): the main verdict under the
\* case id, and one pair of lines per violated clause under the string ids "id#k" and "id#k#P".
Next_ == /\ tid <= Len(Cases)
         /\ \E v \in {Verdict(Cases[tid])} :     \* (bound once: a LET would re-evaluate the verdict at every use)
              LET ds == SetToSeq(v[4])
                  sid == ToString(Cases[tid].id)
              IN /\ PrintT(<<"VERDICT", Cases[tid].id, v[1], v[2], Len(ds)>>)
                 /\ \A k \in DOMAIN ds :
                       /\ PrintT(<<"VERDICT", sid \o "#" \o ToString(k), ds[k][2], ds[k][1], ds[k][4]>>)
                       /\ PrintT(<<"VERDICT", sid \o "#" \o ToString(k) \o "#P", TRUE, ds[k][3], 0>>)
         /\ tid' = tid + 1
         /\ UNCHANGED rdvars
TraceSpec == Init_ /\ [][Next_]_<<tid, file, parsed, top, upc>>
=============================================================================
