--------------------------- MODULE Gen_AttachDetach ---------------------------
(* Operation-sequence generator for C16 (spec -> code).  A sequence is a behaviour of the            *)
(* AttachDetach state machine (direct attach/detach calls, context enter / exit / exception) that     *)
(* ends with every context closed.                                                                   *)
(*   Mode = "nest": exhaustive (BFS): every well-nested stack of at most MaxStack contexts out of the *)
(*                  three context managers, closed normally or by an exception unwinding n of them    *)
(*   Mode = "walk": tlc -simulate: random sequences of GenDepth operations incl. direct calls          *)
(*   Mode = "direct": exhaustive: every sequence of <= GenDepth direct attach/detach calls (pragmas, regions) *)
(* For pragma operations the generator fixes only post/what; the harness picks the node classes.     *)
EXTENDS AttachDetach, Json
CONSTANTS GenDepth, Mode
VARIABLES hist, closing
gvars == <<init, cur, stack, att, hist, closing>>

NestOps == {[what |-> "pragmas", types |-> {"loop", "call", "decl"}, post |-> TRUE],
            [what |-> "regions", types |-> {}, post |-> FALSE], [what |-> "dfa", types |-> {}, post |-> FALSE]}
E(op, x, n) == [op |-> op, what |-> x.what, types |-> x.types, post |-> x.post, n |-> n]
NoX == [what |-> "", types |-> {}, post |-> FALSE]

GInit == init = <<>> /\ cur = <<>> /\ stack = <<>> /\ att = {} /\ hist = <<>> /\ closing = FALSE

Rec(e) == hist' = Append(hist, e)
NestNext ==
  \/ /\ ~closing /\ \E x \in NestOps : Enter(x) /\ Rec(E("enter", x, 0)) /\ closing' = FALSE
  \/ /\ stack # <<>> /\ Exit /\ Rec(E("exit", NoX, 1)) /\ closing' = TRUE
  \/ /\ ~closing /\ \E n \in 1..Len(stack) : Raise(n) /\ Rec(E("raise", NoX, n)) /\ closing' = TRUE

\* random walk: towards the end only closing steps are allowed
WalkStep(kind, x, n) ==
  CASE kind = "attach" -> Attach(x) /\ Rec(E("attach", x, 0))
    [] kind = "detach" -> Detach(x) /\ Rec(E("detach", x, 0))
    [] kind = "enter"  -> Enter(x) /\ Rec(E("enter", x, 0))
    [] kind = "exit"   -> Exit /\ Rec(E("exit", NoX, 1))
    [] kind = "raise"  -> Raise(n) /\ Rec(E("raise", NoX, n))
WalkNext ==
  /\ closing' = FALSE
  /\ ~(stack = <<>> /\ att = {} /\ Len(hist) >= GenDepth)
  /\ LET mustclose == Len(hist) + Len(stack) >= GenDepth
         kinds == IF stack = <<>> /\ mustclose THEN {"detach"}
                  ELSE IF mustclose THEN {"exit", "raise"}
                  ELSE {"attach", "attach", "detach", "enter", "enter"} \cup (IF stack # <<>> THEN {"exit", "raise"} ELSE {})
         \* at the end everything still attached is detached again (the sequence ends Balanced)
         xs == IF stack = <<>> /\ mustclose THEN {x \in Ops : FacetsOf(x) \cap att # {}} ELSE Ops
     IN \E kind \in {RandomElement(kinds)} : \E x \in {RandomElement(xs)} : \E n \in {RandomElement(1..(IF stack = <<>> THEN 1 ELSE Len(stack)))} :
          WalkStep(kind, x, n)

Emit == (stack' = <<>> /\ (Mode = "nest" \/ (att' = {} /\ Len(hist') >= GenDepth))) => PrintT(<<"OPS", ToJson(hist')>>)

\* "direct": exhaustive (BFS): every sequence of at most GenDepth direct attach/detach calls for pragmas and regions
\* (crossing orders included); the harness appends the detach calls that make the sequence Balanced
DirectOps == {x \in NestOps : x.what # "dfa"}
DirectStep(x) == (Attach(x) /\ Rec(E("attach", x, 0))) \/ (Detach(x) /\ Rec(E("detach", x, 0)))
DirectNext == /\ Len(hist) < GenDepth
              /\ closing' = FALSE
              /\ \E x \in DirectOps : DirectStep(x)
              /\ PrintT(<<"OPS", ToJson(hist')>>)

GNext == /\ Len(hist) < GenDepth + MaxStack + 12
         /\ IF Mode = "direct" THEN DirectNext
            ELSE (IF Mode = "nest" THEN NestNext ELSE WalkNext) /\ Emit
GSpec == GInit /\ [][GNext]_gvars
=============================================================================
