---------------------------- MODULE Trace_PickleRT ----------------------------
(* Trace validation for C18.  A case is one real round trip:                                          *)
(*   [kind, raised, equal, hasheq, o_before, o_after, u : views (see CloneAlias!View / lib_units),    *)
(*    types_o, types_u : <<"name:type...">> for every symbol occurrence in traversal order]            *)
(* The model state is built from the observed original, PickleRT!Unpickle is applied, and the          *)
(* observed unpickled unit must equal the model's view of the new graph.                               *)
EXTENDS PickleRT, Json, IOUtils

Cases == JsonDeserialize(IOEnv.CASES)
VARIABLE tid
tvars == <<st, ev, tid>>

HeapFromView(w) ==
  LET memset == ToSet(w.members) IN
  [ exists   |-> [k \in Copies |-> k = "o"],
    parented |-> FALSE,
    unit     |-> [k \in Copies |-> [name |-> w.name, tab |-> "o", spec |-> "o", body |-> "o", mem |-> "o"]],
    tabs     |-> [r \in Copies |-> [types |-> [n \in TabNames |-> w.tab[n]],
                                    procs |-> [m \in MemToks |-> IF m \in memset THEN "o" ELSE None]]],
    specs    |-> [r \in Copies |-> [decl |-> {v \in Vars : w.decl[v] # None}, marks |-> w.spec, scope |-> "o"]],
    bodies   |-> [r \in Copies |-> [stmts |-> w.body, scope |-> "o"]],
    mems     |-> [r \in Copies |-> [i \in DOMAIN w.members |-> [n |-> w.members[i], parent |-> "o"]]],
    par      |-> InitPar(FALSE) ]

Tags(w) == <<w.owners, w.memparent, w.memtab, w.calls, w.tdef>>

Judge(c) ==
  LET s1 == Unpickle(HeapFromView(c.o_before))
      dU == Diff(View(s1, "c"), c.u)
      dO == Diff(View(s1, "o"), c.o_after)
      own == OwnChain(c.u, FALSE)
  IN
  IF OwnChain(c.o_before, FALSE) # "ok" THEN "Fixture:" \o OwnChain(c.o_before, FALSE)
  ELSE IF c.raised # "" THEN "RoundTripCompletes:" \o c.raised
  ELSE IF dO # "ok" THEN "OriginalUntouched:" \o dO
  ELSE IF c.o_after.text # c.o_before.text \/ Tags(c.o_after) # Tags(c.o_before) THEN "OriginalUntouched:text-or-identities"
  ELSE IF c.u.text # c.o_before.text THEN "SameText"
  ELSE IF dU # "ok" THEN "Equal:" \o dU
  ELSE IF own # "ok" THEN "ScopesReattached:" \o own
  ELSE IF c.types_u # c.types_o THEN "ScopesReattached:types"
  ELSE IF ~c.equal THEN "Equal:__eq__"
  ELSE IF ~c.hasheq THEN "Equal:__hash__"
  ELSE "ok"

Init_ == tid = 1 /\ st = NoEv /\ ev = NoEv
Next_ == /\ tid <= Len(Cases)
         /\ LET c == Cases[tid]  j == Judge(c) IN PrintT(<<"VERDICT", c.id, j = "ok", j, 0>>)
         /\ tid' = tid + 1 /\ UNCHANGED <<st, ev>>
TraceSpec == Init_ /\ [][Next_]_tvars
=============================================================================
