---------------------------- MODULE Trace_PickleRT ----------------------------
(* Trace validation for C18.  A case is one real round trip:                                          *)
(*   [kind, raised, equal, hasheq, o_before, o_after, u : views (see CloneAlias!View / lib_units),    *)
(*    types_o, types_u : <<"name:type...">> for every symbol occurrence in traversal order]            *)
(* The model state is built from the observed original, PickleRT!Unpickle is applied, and the          *)
(* observed unpickled unit must equal the model's view of the new graph.                               *)
EXTENDS PickleRT, Json, IOUtils

Cases == JsonDeserialize(IOEnv.CASES)
VARIABLE tid
tvars == <<st, ev, tid>>

HeapFromView(w) ==
  LET memset == ToSet(w.members) IN
  [ exists   |-> [k \in Copies |-> k = "o"],
    parented |-> FALSE,
    unit     |-> [k \in Copies |-> [name |-> w.name, tab |-> "o", spec |-> "o", body |-> "o", mem |-> "o", nest |-> "o"]],
    nest     |-> [r \in Copies |-> [i \in NestIds |-> [types |-> [n \in NestNames |-> w.ntab[i][n]], parent |-> "o", scope |-> "o"]]],
    tabs     |-> [r \in Copies |-> [types |-> [n \in TabNames |-> w.tab[n]],
                                    procs |-> [m \in MemToks |-> IF m \in memset THEN "o" ELSE None]]],
    specs    |-> [r \in Copies |-> [decl |-> {v \in Vars : w.decl[v] # None}, marks |-> w.spec, scope |-> "o"]],
    bodies   |-> [r \in Copies |-> [stmts |-> w.body, scope |-> "o"]],
    mems     |-> [r \in Copies |-> [i \in DOMAIN w.members |-> [n |-> w.members[i], parent |-> "o"]]],
    par      |-> InitPar(FALSE) ]

Tags(w) == <<w.owners, w.memparent, w.memtab, w.calls, w.tdef, w.nparent, w.nown>>

\* every violated clause, abbreviated (TLC wraps wide tuples; the driver expands the names):
\*   R:<exception> RoundTripCompletes   OU:<what> OriginalUntouched   T SameText   E:<component> Equal (content)
\*   S:<tag set: ow owners, mp memparent, mt memtab, ca calls, td tdef> ScopesReattached   ST ScopesReattached (same types)   EQ / EH  Equal (__eq__ / __hash__)
Judge(c) ==
  LET s1 == Unpickle(HeapFromView(c.o_before))
      dU == Diff(View(s1, "c"), c.u)
      dO == Diff(View(s1, "o"), c.o_after)
      item(cond, name) == IF cond THEN name \o ";" ELSE ""
  IN
  IF OwnChain(c.o_before, FALSE) # "ok" THEN "Fixture:" \o OwnChain(c.o_before, FALSE)
  ELSE IF c.raised # "" THEN "R:" \o c.raised \o ";"
  ELSE item(dO # "ok", "OU:" \o dO)
       \o item(dO = "ok" /\ (c.o_after.text # c.o_before.text \/ Tags(c.o_after) # Tags(c.o_before)), "OU:ids")
       \o item(c.u.text # c.o_before.text, "T")
       \o item(dU # "ok", "E:" \o dU)
       \o item(~(ToSet(c.u.owners) \subseteq {"self"}), "S:ow")
       \o item(~(ToSet(c.u.memparent) \subseteq {"self"}), "S:mp")
       \o item(~(ToSet(c.u.memtab) \subseteq {"own"}), "S:mt")
       \o item(~(ToSet(c.u.calls) \subseteq {"own"}), "S:ca")
       \o item(~(ToSet(c.u.tdef) \subseteq {"own"}), "S:td")
       \o item(~(ToSet(c.u.nparent) \subseteq {"self"}), "S:np")
       \o item(~(ToSet(c.u.nown) \subseteq {"self"}), "S:no")
       \o item(c.types_u # c.types_o, "ST")
       \o item(~c.equal, "EQ")
       \o item(~c.hasheq, "EH")

Init_ == tid = 1 /\ st = NoEv /\ ev = NoEv
Next_ == /\ tid <= Len(Cases)
         /\ LET c == Cases[tid]  j == Judge(c) IN PrintT(<<"VERDICT", c.id, j = "", IF j = "" THEN "ok" ELSE j, 0>>)
         /\ tid' = tid + 1 /\ UNCHANGED <<st, ev>>
TraceSpec == Init_ /\ [][Next_]_tvars
=============================================================================
