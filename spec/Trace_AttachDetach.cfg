SPECIFICATION TraceSpec
CONSTANT MutDetachForgetsPost = FALSE
CONSTANT MutUnregDropsEnd = FALSE
CONSTANT MutDfaSkipsAttached = FALSE
CONSTANT MaxDepth = 99
CONSTANT MaxStack = 99
CONSTANT InitTrees = {}
CHECK_DEADLOCK FALSE
