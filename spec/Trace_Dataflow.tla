---------------------------- MODULE Trace_Dataflow ----------------------------
(***************************************************************************)
(* C26 / C27: the def/use/live sets and the dependency queries of Loki's    *)
(* dataflow analysis must over-approximate what an execution actually reads *)
(* and writes.  A case is                                                   *)
(*   [id, prog, entry, input, observed, plain, sets]                        *)
(* prog/entry/input as for Trace_FMachine (prog with statement ids, see     *)
(* FMachineLog); observed = stdout of the gfortran-compiled ORIGINAL text;  *)
(* plain = TRUE iff the un-instrumented FMachine supports the program (no   *)
(* WHERE); sets[id] = [d, u, l, c, r]: the names Loki recorded for node id  *)
(* (defines_symbols, uses_symbols, live_symbols, loop_carried_dependencies  *)
(* (loops), read_after_write_vars(parent body, inspection_node = node)).    *)
(*                                                                         *)
(* Pre-flight (never a violation): RunL must be legal, its output must equal *)
(* `observed` and, for plain programs, FMachine!Run.                        *)
(*                                                                         *)
(* Judgement: DataflowJudge!Misses over RunL(...).log (clauses D U L C R).  *)
(* For every execution instance                                             *)
(* (Enter..Exit window, events of the window's own call depth) of node n:   *)
(*  D  every location written in the window: its variable is in sets[n].d   *)
(*     (definitions of a DO variable by its own DO construct are exempt:    *)
(*     Loki documents that it hides the induction variable outside the loop)*)
(*  U  every location read in the window and not written earlier in the     *)
(*     window: its variable is in sets[n].u                                 *)
(*  L  ... and if the location holds a value from earlier execution (written *)
(*     earlier in the frame, or the variable is a dummy argument): its       *)
(*     variable is in sets[n].l                                             *)
(*  C  loop instance n: a location written in iteration i and read in an    *)
(*     iteration j > i before being written in j: variable in sets[n].c     *)
(*  R  inspection point "before statement p" in one execution of the         *)
(*     statement list containing p: a location written earlier in that list *)
(*     execution and read at/after p before being re-written: in sets[p].r  *)
(* Granularity: locations are scalars and single array elements; the sets   *)
(* name variables.  Only the over-approximation direction is checked.       *)
(* Every miss is reported as <<clause, node, variable, leaf, aux>> (leaf =  *)
(* innermost open node at the access; aux: "p" another element of the same   *)
(* array was written where the scalar rule would see a kill, "w"/"a" value   *)
(* from an earlier write / from the caller).                                *)
(***************************************************************************)
EXTENDS DataflowJudge, Json, IOUtils
Cases == JsonDeserialize(IOEnv.CASES)

RECURSIVE InVal(_)
InVal(j) == CASE j.t = "int" -> I(j.v)
              [] j.t = "real" -> Q(j.n, j.d)
              [] j.t = "log" -> L(j.v)
              [] j.t = "arr" -> LET order == ColMajor(j.lb, j.ub, Len(j.lb)) IN
                                [t |-> "arr", lb |-> j.lb, ub |-> j.ub,
                                 data |-> TLCEval([ix \in IdxSet(j.lb, j.ub, 1) |->
                                             InVal(j.els[CHOOSE k \in 1..Len(order) : order[k] = ix])])]
InputOf(c) == TLCEval([n \in {c.input[i][1] : i \in 1..Len(c.input)} |->
                 InVal(c.input[CHOOSE i \in 1..Len(c.input) : c.input[i][1] = n][2])])

NodeSets(c) == TLCEval([i \in 1..Len(c.sets) |->
                  [d |-> ToSet(c.sets[i].d), u |-> ToSet(c.sets[i].u), l |-> ToSet(c.sets[i].l),
                   c |-> ToSet(c.sets[i].c), r |-> ToSet(c.sets[i].r)]])

(* ---------------------------------------------------------------- verdicts *)
\* <<ok, clause, position, misses, counters>>
Judge(c) ==
  LET inp == InputOf(c)
      r == RunL(c.prog, c.entry, inp)
  IN IF ~r.ok THEN <<FALSE, "illegal:" \o r.why, 0, {}, Z0.n>>
     ELSE IF r.out # c.observed THEN <<FALSE, "preflight:gfortran-differs", 0, {}, Z0.n>>
     ELSE IF c.plain /\ Run(c.prog, c.entry, inp) # [ok |-> TRUE, why |-> "", out |-> r.out]
          THEN <<FALSE, "preflight:fmachine-differs", 0, {}, Z0.n>>
     ELSE LET z == Misses(c.prog, r.log, NodeSets(c)) IN
          IF z.fr # <<>> THEN <<FALSE, "preflight:log-unbalanced", 0, {}, z.n>>
          ELSE IF \E b \in z.bad : b[1] = "M" THEN <<FALSE, "preflight:log-malformed", 0, {}, z.n>>
          ELSE IF \E b \in z.bad : b[1] \in {"U", "L"} /\ b[5] = "n" THEN <<FALSE, "preflight:read-of-unwritten", 0, {}, z.n>>
          ELSE <<z.bad = {}, IF z.bad = {} THEN "ok" ELSE "miss", Len(r.log), z.bad, z.n>>

VARIABLE tid
Init == tid = 1
Next == /\ tid <= Len(Cases)
        /\ LET c == Cases[tid]
               j == Judge(c)
               ms == SetToSeq(j[4])
           IN /\ PrintT(<<"VERDICT", c.id, j[1], j[2], j[3], j[5].reads, j[5].writes, j[5].windows, j[5].iters, j[5].points>>)
              /\ \A k \in 1..Len(ms) :
                   PrintT(<<"VERDICT", ToString(c.id) \o "#" \o ToString(k), FALSE, ms[k][1], ms[k][2], ms[k][3], ms[k][4], ms[k][5]>>)
        /\ tid' = tid + 1
Spec == Init /\ [][Next]_tid
=============================================================================
