SPECIFICATION Spec
CONSTANT NStmt = 2
INVARIANTS Agrees Sound Detects
CHECK_DEADLOCK FALSE
