SPECIFICATION Spec
INVARIANT Law
CHECK_DEADLOCK FALSE
