---- MODULE MC_SymTab ----
EXTENDS SymTab
\* small-scope configuration: mutating events restricted to 3 scopes x 5 spellings of 2 names.
\* The depth bound is part of the next-state relation (not a CONSTRAINT) so that states beyond
\* the bound are never generated: TLC re-checks invariants on every regenerated out-of-model state.
CONSTANT MaxDepth
MCNext == TLCGet("level") < MaxDepth /\ NextOver(1..3, {"a", "A(I)", "b", "B", "Ab"})
MCSpec == Init /\ [][MCNext]_vars
====
