------------------------------- MODULE JitBuild -------------------------------
(***************************************************************************)
(* C44  Parallel JIT library builds (loki.jit_build.Lib.build).            *)
(*                                                                         *)
(* One build of a library: the main thread computes the dependency graph,  *)
(* walks its nodes in a reverse topological order and, per node,           *)
(*                                                                         *)
(*     if obj.source_path and obj.q_task is None:        (else: Skip)      *)
(*         if queue: for dep in obj.obj_dependencies:                      *)
(*                       wait_and_check(dep.q_task)       (WaitDep)        *)
(*         obj.build(..., workqueue=queue)                (Submit)         *)
(*                                                                         *)
(* then `wait_and_check(obj.q_task)` for all nodes (WaitAll) and links     *)
(* (Link).  With workers = 1 there is no queue: Obj.build runs the compile *)
(* command synchronously in the main thread and q_task stays None.         *)
(* With workers > 1 the compile commands are futures of a                  *)
(* ProcessPoolExecutor with W worker processes (Start / Finish).           *)
(* wait_and_check(None) returns at once: a dependency without q_task       *)
(* (no source file, e.g. an intrinsic or external module) is not waited on.*)
(*                                                                         *)
(* Configuration  c = [n, deps, src, order, W]                             *)
(*   deps[o]  objects providing the modules object o uses                  *)
(*   src[o]   o has a source file (objects without one are never compiled) *)
(*   order    the walk order of the main thread                            *)
(* State  s = [pc, pos, waited, qtask, comp, nstart]                       *)
(*   qtask[o] state of the future Obj.q_task: "none" | "pending" | "done"  *)
(*   comp[o]  ground truth of the compile: "no"|"queued"|"running"|"done"  *)
(* Functional core: En(c, s, e) / Ap(c, s, e) for events e = [a, o]; the   *)
(* model-checking spec (MC_JitBuild) and the trace spec (Trace_JitBuild)   *)
(* both use them.                                                          *)
(***************************************************************************)
EXTENDS Naturals, FiniteSets, Sequences, TLC

Objs(c)       == 1..c.n
Sourced(c)    == {o \in Objs(c) : c.src[o]}
SrcDeps(c, o) == {d \in c.deps[o] : c.src[d]}
Serial(c)     == c.W = 1
\* objects nobody depends on
Roots(c)      == {o \in Objs(c) : \A u \in Objs(c) : o \notin c.deps[u]}

PosOf(c, o)   == CHOOSE i \in 1..c.n : c.order[i] = o
IsPerm(c)     == Len(c.order) = c.n /\ {c.order[i] : i \in 1..c.n} = Objs(c)
IsRevTopo(c)  == IsPerm(c) /\ \A o \in Objs(c) : \A d \in c.deps[o] : PosOf(c, d) < PosOf(c, o)
Acyclic(c)    == \E ord \in [1..c.n -> Objs(c)] : IsRevTopo([c EXCEPT !.order = ord])

\* A fresh build: every future is None.  `stale` models what a second parallel build of the same
\* Lib object in one process starts from: Builder.get_dependency_graph re-creates (and thereby
\* resets) exactly the Obj nodes that are a dependency of something; the roots keep the finished
\* future of the previous build.
InitState(c, stale) ==
  [pc     |-> "walk", pos |-> 1, waited |-> {},
   qtask  |-> [o \in Objs(c) |-> IF stale /\ c.src[o] /\ o \in Roots(c) THEN "done" ELSE "none"],
   comp   |-> [o \in Objs(c) |-> "no"],
   nstart |-> [o \in Objs(c) |-> 0]]

Cur(c, s)      == c.order[s.pos]
AtObj(c, s)    == s.pc = "walk" /\ s.pos <= c.n
Eligible(c, s) == AtObj(c, s) /\ c.src[Cur(c, s)] /\ s.qtask[Cur(c, s)] = "none"
Running(c, s)  == {o \in Objs(c) : s.comp[o] = "running"}

Ev(a, o) == [a |-> a, o |-> o]
\* both wait loops are sequential and blocking (`for dep in ...: wait_and_check(dep.q_task)`); the
\* iteration order is immaterial for everything a compiler log can see, so one order is modelled
MinOf(S) == CHOOSE x \in S : \A y \in S : x <= y

En(c, s, e) ==
  CASE e.a = "skip"         -> AtObj(c, s) /\ ~Eligible(c, s)
    [] e.a = "waitdep"      -> /\ Eligible(c, s) /\ ~Serial(c)
                               /\ c.deps[Cur(c, s)] \ s.waited # {}
                               /\ e.o = MinOf(c.deps[Cur(c, s)] \ s.waited)
                               /\ s.qtask[e.o] # "pending"
    [] e.a = "submit"       -> /\ Eligible(c, s) /\ e.o = Cur(c, s)
                               /\ (Serial(c) \/ s.waited = c.deps[Cur(c, s)])
    [] e.a = "serialreturn" -> s.pc = "serial" /\ s.comp[Cur(c, s)] = "done"
    [] e.a = "endwalk"      -> s.pc = "walk" /\ s.pos = c.n + 1
    [] e.a = "waitall"      -> /\ s.pc = "waitall" /\ Objs(c) \ s.waited # {}
                               /\ e.o = MinOf(Objs(c) \ s.waited)
                               /\ s.qtask[e.o] # "pending"
    [] e.a = "link"         -> s.pc = "link"
    [] e.a = "start"        -> /\ e.o \in Objs(c) /\ s.comp[e.o] = "queued"
                               /\ Cardinality(Running(c, s)) < c.W
    [] e.a = "finish"       -> e.o \in Objs(c) /\ s.comp[e.o] = "running"
    [] OTHER                -> FALSE

Ap(c, s, e) ==
  CASE e.a = "skip"         -> [s EXCEPT !.pos = @ + 1, !.waited = {}]
    [] e.a = "waitdep"      -> [s EXCEPT !.waited = @ \cup {e.o}]
    [] e.a = "submit"       -> IF Serial(c)
                               THEN [s EXCEPT !.comp[e.o] = "queued", !.pc = "serial"]
                               ELSE [s EXCEPT !.comp[e.o] = "queued", !.qtask[e.o] = "pending",
                                              !.pos = @ + 1, !.waited = {}]
    [] e.a = "serialreturn" -> [s EXCEPT !.pc = "walk", !.pos = @ + 1, !.waited = {}]
    [] e.a = "endwalk"      -> [s EXCEPT !.pc = IF Serial(c) THEN "link" ELSE "waitall", !.waited = {}]
    [] e.a = "waitall"      -> LET w == s.waited \cup {e.o} IN
                               [s EXCEPT !.waited = w, !.pc = IF w = Objs(c) THEN "link" ELSE "waitall"]
    [] e.a = "link"         -> [s EXCEPT !.pc = "linked"]
    [] e.a = "start"        -> [s EXCEPT !.comp[e.o] = "running", !.nstart[e.o] = @ + 1]
    [] e.a = "finish"       -> [s EXCEPT !.comp[e.o] = "done",
                                         !.qtask[e.o] = IF @ = "pending" THEN "done" ELSE @]

\* the main thread's steps that leave no mark in a compiler log
HiddenEvents(c) == {Ev("skip", 0), Ev("serialreturn", 0), Ev("endwalk", 0)}
                   \cup {Ev("waitdep", o) : o \in Objs(c)} \cup {Ev("waitall", o) : o \in Objs(c)}
\* the steps a compiler wrapper / compiler object can observe
VisibleEvents(c) == {Ev("link", 0)} \cup {Ev(a, o) : a \in {"submit", "start", "finish"}, o \in Objs(c)}
Events(c) == HiddenEvents(c) \cup VisibleEvents(c)

\* run the main thread as far as it can go without a visible step (hidden steps commute)
RECURSIVE Closure(_, _)
Closure(c, s) == LET en == {e \in HiddenEvents(c) : En(c, s, e)}
                 IN  IF en = {} THEN s ELSE Closure(c, Ap(c, s, CHOOSE e \in en : TRUE))

-----------------------------------------------------------------------------
(* The property, as state predicates over (c, s).                           *)

\* compile of o begins only after all objects providing its modules have finished compiling
\* ("done" is stable, so the state predicate is equivalent to the statement about Start steps)
StartAfterDepsFinishedP(c, s) ==
  \A o \in Objs(c) : s.comp[o] \in {"running", "done"} => \A d \in SrcDeps(c, o) : s.comp[d] = "done"
AtMostOnceP(c, s)  == \A o \in Objs(c) : s.nstart[o] <= 1 /\ (~c.src[o] => s.nstart[o] = 0)
LinkAfterAllP(c, s) == s.pc = "linked" => \A o \in Sourced(c) : s.comp[o] = "done" /\ s.nstart[o] = 1
ConcurrencyBoundP(c, s) == Cardinality(Running(c, s)) <= c.W
TypeOKP(c, s) ==
  /\ s.pc \in {"walk", "serial", "waitall", "link", "linked"}
  /\ s.pos \in 1..(c.n + 1) /\ s.waited \subseteq Objs(c)
  /\ s.qtask \in [Objs(c) -> {"none", "pending", "done"}]
  /\ s.comp \in [Objs(c) -> {"no", "queued", "running", "done"}]
  /\ s.nstart \in [Objs(c) -> 0..2]
=============================================================================
