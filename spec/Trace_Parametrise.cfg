SPECIFICATION SpecP
CHECK_DEADLOCK FALSE
