---------------------------- MODULE Trace_SymTab ----------------------------
(* Trace validation for C12: recorded histories of the real SymbolTable / Scope /            *)
(* CaseInsensitiveDict objects are replayed against SymTab!Apply, one TLC step per event.    *)
(* Each event carries its arguments, the observed return value and the projected state       *)
(* after the call (raw keys per scope, stored attribute tags, parent links).                 *)
EXTENDS SymTab, Json, IOUtils

Cases == JsonDeserialize(IOEnv.CASES)

VARIABLES tid, l
tvars == <<st, tid, l>>

\* projected state of the implementation -> comparable image of the abstract state
TabImage(s0, s) == {<<n, s0.tab[s][n]>> : n \in {m \in Names : Has(s0, s, m)}}
ObsImage(after, s) == {<<after.tabs[s][i][1], after.tabs[s][i][2]>> : i \in 1..Len(after.tabs[s])}

\* number of scopes that exist in a case of this kind (cidict: a single dictionary)
NScopes(kind) == IF kind = "cidict" THEN 1 ELSE 4

StateClause(kind, s0, after) ==
  IF \E s \in 1..NScopes(kind) : TabImage(s0, s) # ObsImage(after, s) THEN "state-keys-or-values"
  ELSE IF kind # "cidict" /\ \E s \in Scopes : s0.parent[s] # after.parents[s] THEN "state-parent"
  ELSE IF kind \in {"scope", "unit"} /\ \E s \in Scopes : s0.parent[s] # after.tparents[s] THEN "state-table-parent"
  ELSE "ok"

\* CaseInsensitiveDict: dict semantics, setdefault returns the stored value
ApplyK(kind, s0, e) ==
  IF kind = "cidict" /\ e.op = "setdefault"
  THEN LET n == Fold(e.k) IN
       IF Has(s0, e.s, n) THEN R(s0, s0.tab[e.s][n]) ELSE R(Put(s0, e.s, n, e.v), e.v)
  ELSE Apply(s0, e)

Advance == tid' = tid + 1 /\ l' = 1 /\ st' = InitSt

Init_ == st = InitSt /\ tid = 1 /\ l = 1

Next_ ==
  /\ tid <= Len(Cases)
  /\ LET c == Cases[tid] IN
     IF l > Len(c.events)
     THEN PrintT(<<"VERDICT", c.id, TRUE, "ok", 0>>) /\ Advance
     ELSE LET e == c.events[l]
              r == ApplyK(c.kind, st, e)
              sc == StateClause(c.kind, r.st, e.after)
          IN IF r.ret # "unspecified" /\ e.ret # r.ret
             THEN PrintT(<<"VERDICT", c.id, FALSE, "return:" \o e.op \o ":expected=" \o r.ret \o ":got=" \o e.ret, l>>) /\ Advance
             ELSE IF sc # "ok"
             THEN PrintT(<<"VERDICT", c.id, FALSE, sc \o ":" \o e.op, l>>) /\ Advance
             ELSE st' = r.st /\ l' = l + 1 /\ tid' = tid

TraceSpec == Init_ /\ [][Next_]_tvars
=============================================================================
