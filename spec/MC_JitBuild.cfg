SPECIFICATION SpecA
CONSTANT MaxN = 4
CONSTANT MaxW = 3
CONSTANT MaxNoSrc = 1
CONSTANT Stale = FALSE
INVARIANT TypeOK
INVARIANT StartAfterDepsFinished
INVARIANT AtMostOnce
INVARIANT LinkAfterAll
INVARIANT ConcurrencyBound
INVARIANT ClosureIsInvisible
INVARIANT Progress
PROPERTY EventuallyLinked
CHECK_DEADLOCK FALSE
