SPECIFICATION TraceSpec
CHECK_DEADLOCK FALSE
INVARIANT AttachedSeeScope
