---------------------------- MODULE MC_LintFix ----------------------------
(* Design-level check of LintFix over all files of up to MaxLines lines from a small line universe: *)
(* the reference fixer is accepted, the untouched file is accepted by Unchanged (ReLintClean's      *)
(* business), fixed files are clean and fixing is idempotent, and characteristic wrong fixers        *)
(* (rewriting inside strings / comments, changing letter case, dropping or adding a line, removing   *)
(* half a UBOUND check) are rejected with the right class.                                           *)
EXTENDS LintFix
CONSTANT MaxLines

Tk(k, t, f) == [k |-> k, t |-> t, f |-> f]
A    == Tk("id", "a", "a")
Bup  == Tk("id", "B", "b")
Lt   == Tk("dot", ".lt.", ".lt.")
LtU  == Tk("dot", ".GE.", ".ge.")
And  == Tk("dot", ".and.", ".and.")
Str  == Tk("str", "'a .lt. b'", "'a .lt. b'")
Cmt  == Tk("cmt", "! a .lt. b", "! a .lt. b")
Less == Tk("sym", "<", "<")
FirstTok == {A, Bup, Lt, LtU, And, Str, Less}
AnyTok   == FirstTok \cup {Cmt}

RECURSIVE Raw(_)
Raw(ts) == IF ts = <<>> THEN "" ELSE Head(ts).t \o (IF Tail(ts) = <<>> THEN "" ELSE " " \o Raw(Tail(ts)))
Line(ts, mark, grp, head, name, bounds) ==
  [raw |-> Raw(ts), toks |-> ts, mark |-> mark, grp |-> grp, head |-> head, name |-> name, bounds |-> bounds]
Code(ts) == Line(ts, "code", 0, FALSE, "", <<>>)
Decl == Line(<<Tk("id", "x", "x"), Tk("sym", "(", "("), Tk("sym", ":", ":"), Tk("sym", ")", ")")>>, "ubdecl", 0, FALSE, "x", <<"n">>)
ChkHead(g) == Line(<<Tk("id", "if", "if"), Tk("id", "ubound", "ubound"), Less, A>>, "ubchk", g, TRUE, "", <<>>)
ChkEnd(g) == Line(<<Tk("id", "end", "end")>>, "ubchk", g, FALSE, "", <<>>)

\* pieces a file is built from (a UBOUND check is a two-line group)
Pieces(g) == {<<Code(<<t>>)>> : t \in AnyTok} \cup {<<Code(<<t, u>>)>> : t \in FirstTok, u \in AnyTok}
             \cup {<<Decl>>, <<ChkHead(g), ChkEnd(g)>>}

RECURSIVE AsLines(_)
AsLines(tss) == IF tss = <<>> THEN <<>> ELSE <<Code(Head(tss))>> \o AsLines(Tail(tss))
Ideal(F) == AsLines(IdealFix(F))

\* wrong fixers
BadTok(t) == IF t.k \in {"str", "cmt"} THEN [t EXCEPT !.t = "x < y"]          \* rewrites inside strings / comments
             ELSE IF t.k = "id" /\ t.t = "a" THEN [t EXCEPT !.t = "A"]        \* changes letter case
             ELSE t
RECURSIVE BadToks(_)
BadToks(ts) == IF ts = <<>> THEN <<>> ELSE <<BadTok(Head(ts))>> \o BadToks(Tail(ts))
RECURSIVE BadLines(_)
BadLines(G) == IF G = <<>> THEN <<>> ELSE <<Code(BadToks(Head(G).toks))>> \o BadLines(Tail(G))
HasStrCmt(G) == \E i \in 1..Len(G) : \E j \in 1..Len(G[i].toks) : G[i].toks[j].k \in {"str", "cmt"}
HasA(G) == \E i \in 1..Len(G) : \E j \in 1..Len(G[i].toks) : G[i].toks[j] = A
HalfRemoved(F) == SelectSeq(F, LAMBDA l : ~(l.mark = "ubchk" /\ l.head))     \* drops only the IF line of each check
HasChk(F) == \E i \in 1..Len(F) : F[i].mark = "ubchk"
NonTarget(F) == {i \in 1..Len(F) : F[i].mark = "code" /\ ~HasTarget(F[i].toks)}
Drop(G, i) == SubSeq(G, 1, i - 1) \o SubSeq(G, i + 1, Len(G))

VARIABLES file, n
Init == file = <<>> /\ n = 0
Next == /\ n < MaxLines
        /\ \E p \in Pieces(n + 1) : file' = file \o p
        /\ n' = n + 1

AcceptIdeal == Unchanged(file, Ideal(file)).cls = {}
AcceptUntouched == Unchanged(file, file).cls = {}
IdealClean == \A i \in 1..Len(Ideal(file)) : ~HasTarget(Ideal(file)[i].toks)
Idempotent == IdealFix(Ideal(file)) = IdealFix(file)
RejectInsideStrings == HasStrCmt(Ideal(file)) => "tok" \in Unchanged(file, BadLines(Ideal(file))).cls
RejectCase == (HasA(Ideal(file)) /\ ~HasStrCmt(Ideal(file))) => Unchanged(file, BadLines(Ideal(file))).cls = {"case"}
RejectExtraLine == Unchanged(file, Ideal(file) \o <<Code(<<A>>)>>).cls = {"lines"}
                   /\ Unchanged(file, Ideal(file) \o <<Code(<<>>)>>).cls = {"eof"}
RejectHalfCheck == HasChk(file) => Unchanged(file, HalfRemoved(file)).cls # {}
RejectDroppedLine == \A i \in NonTarget(file) :
                        LET j == Cardinality({q \in 1..i : file[q].mark # "ubchk"}) IN
                        Unchanged(file, Drop(Ideal(file), j)).cls # {}
Spec == Init /\ [][Next]_<<file, n>>
=============================================================================
