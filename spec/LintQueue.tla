------------------------------- MODULE LintQueue -------------------------------
(***************************************************************************)
(* C42  Parallel linting (loki.lint.linter.lint_files_glob,                *)
(*      loki.lint.reporter.Reporter, loki.jit_build.workqueue).            *)
(*                                                                         *)
(* Main process: discovers the files 1..n (find_paths, sorted), then       *)
(*   max_workers = 1 : for each file, check_and_fix_file in the main       *)
(*                     process (Submit; the main thread is the worker;     *)
(*                     SerialReturn adds the result to checked_count);     *)
(*   max_workers > 1 : q_tasks = [q.call(check_and_fix_file, f, ...)]      *)
(*                     (Submit for every file, EndSubmit), then            *)
(*                     `for t in as_completed(q_tasks)` (Collect);         *)
(* finally reporter.output() (Output).                                     *)
(* A worker takes a queued task (Begin), parses the file and runs the      *)
(* rules (Check) or fails to parse (ParseFail: add_file_error), appends    *)
(* handler.handle(file_report) to the list of every handler h = 1..H in    *)
(* turn (Report; each append is atomic: the lists live in a Manager        *)
(* process) and finishes the future (End) with result TRUE iff parsed.     *)
(*                                                                         *)
(* Configuration c = [n, fails, W, H];  state s, see InitState.            *)
(* RepOf(c, f) is the report of file f -- a function of the file alone.    *)
(* Functional core En/Ap, shared by MC_LintQueue and Trace_LintQueue.      *)
(***************************************************************************)
EXTENDS Naturals, FiniteSets, Sequences, TLC

Files(c)    == 1..c.n
Handlers(c) == 1..c.H
Serial(c)   == c.W = 1
RepOf(c, f) == IF f \in c.fails THEN <<"error", f>> ELSE <<"report", f>>

InitState(c) ==
  [pc     |-> "submit", pos |-> 1,
   fst    |-> [f \in Files(c) |-> "new"],
   hdone  |-> [f \in Files(c) |-> 0],
   nbegin |-> [f \in Files(c) |-> 0],
   rep    |-> [h \in Handlers(c) |-> <<>>],
   count  |-> 0,
   out    |-> [h \in Handlers(c) |-> <<>>]]

Active(c, s) == {f \in Files(c) : s.fst[f] \in {"begun", "checked", "failed", "reported"}}
Ev(a, f) == [a |-> a, f |-> f]

En(c, s, e) ==
  CASE e.a = "submit"       -> s.pc = "submit" /\ s.pos <= c.n /\ e.f = s.pos
    [] e.a = "endsubmit"    -> s.pc = "submit" /\ s.pos = c.n + 1
    [] e.a = "begin"        -> /\ e.f \in Files(c) /\ s.fst[e.f] = "queued"
                               /\ Cardinality(Active(c, s)) < c.W
    [] e.a = "check"        -> e.f \in Files(c) /\ s.fst[e.f] = "begun" /\ e.f \notin c.fails
    [] e.a = "parsefail"    -> e.f \in Files(c) /\ s.fst[e.f] = "begun" /\ e.f \in c.fails
    [] e.a = "report"       -> e.f \in Files(c) /\ s.fst[e.f] \in {"checked", "failed"}
    [] e.a = "end"          -> e.f \in Files(c) /\ s.fst[e.f] = "reported"
    [] e.a = "collect"      -> s.pc = "collect" /\ e.f \in Files(c) /\ s.fst[e.f] = "done"
    [] e.a = "serialreturn" -> s.pc = "serial" /\ s.fst[s.pos] = "done"
    [] e.a = "output"       -> s.pc = "output"
    [] OTHER                -> FALSE

Result(c, f) == IF f \in c.fails THEN 0 ELSE 1

Ap(c, s, e) ==
  CASE e.a = "submit"       -> IF Serial(c)
                               THEN [s EXCEPT !.fst[e.f] = "queued", !.pc = "serial"]
                               ELSE [s EXCEPT !.fst[e.f] = "queued", !.pos = @ + 1]
    [] e.a = "endsubmit"    -> [s EXCEPT !.pc = IF Serial(c) \/ c.n = 0 THEN "output" ELSE "collect"]
    [] e.a = "begin"        -> [s EXCEPT !.fst[e.f] = "begun", !.nbegin[e.f] = @ + 1]
    [] e.a = "check"        -> [s EXCEPT !.fst[e.f] = "checked"]
    [] e.a = "parsefail"    -> [s EXCEPT !.fst[e.f] = "failed"]
    [] e.a = "report"       -> LET h == s.hdone[e.f] + 1 IN
                               [s EXCEPT !.rep[h] = Append(@, <<e.f, RepOf(c, e.f)>>), !.hdone[e.f] = h,
                                         !.fst[e.f] = IF h = c.H THEN "reported" ELSE @]
    [] e.a = "end"          -> [s EXCEPT !.fst[e.f] = "done"]
    [] e.a = "collect"      -> LET t == [s EXCEPT !.fst[e.f] = "collected", !.count = @ + Result(c, e.f)] IN
                               IF \A f \in Files(c) : t.fst[f] = "collected" THEN [t EXCEPT !.pc = "output"] ELSE t
    [] e.a = "serialreturn" -> [s EXCEPT !.fst[s.pos] = "collected", !.count = @ + Result(c, s.pos),
                                         !.pos = @ + 1, !.pc = "submit"]
    [] e.a = "output"       -> [s EXCEPT !.out = s.rep, !.pc = "done"]

\* steps that leave no mark in the probe rule's / probe handler's log
HiddenEvents(c) == {Ev("endsubmit", 0), Ev("serialreturn", 0)}
                   \cup {Ev(a, f) : a \in {"submit", "parsefail", "end", "collect"}, f \in Files(c)}
VisibleEvents(c) == {Ev("output", 0)} \cup {Ev(a, f) : a \in {"begin", "check", "report"}, f \in Files(c)}
Events(c) == HiddenEvents(c) \cup VisibleEvents(c)

RECURSIVE Closure(_, _)
Closure(c, s) == LET en == {e \in HiddenEvents(c) : En(c, s, e)}
                 IN  IF en = {} THEN s ELSE Closure(c, Ap(c, s, CHOOSE e \in en : TRUE))

-----------------------------------------------------------------------------
SeqSet(q) == {q[i] : i \in 1..Len(q)}
EntriesOf(q, f) == {i \in 1..Len(q) : q[i][1] = f}

\* every selected file is checked exactly once
EachFileOnceP(c, s) ==
  /\ \A f \in Files(c) : s.nbegin[f] <= 1
  /\ \A h \in Handlers(c) : \A f \in Files(c) : Cardinality(EntriesOf(s.rep[h], f)) <= 1
  /\ s.pc = "done" => \A h \in Handlers(c) : \A f \in Files(c) : Cardinality(EntriesOf(s.out[h], f)) = 1

\* whatever the interleaving, the collected reports are exactly {RepOf(f)}, one per file
ReportsAreFunctionOfFileP(c, s) ==
  /\ \A h \in Handlers(c) : \A i \in 1..Len(s.rep[h]) : s.rep[h][i] = <<s.rep[h][i][1], RepOf(c, s.rep[h][i][1])>>
  /\ s.pc = "done" => \A h \in Handlers(c) :
        Len(s.out[h]) = c.n /\ SeqSet(s.out[h]) = {<<f, RepOf(c, f)>> : f \in Files(c)}

CountIsParsedP(c, s) == s.pc = "done" => s.count = c.n - Cardinality(c.fails)
WorkersBoundP(c, s)  == Cardinality(Active(c, s)) <= c.W
TypeOKP(c, s) ==
  /\ s.pc \in {"submit", "serial", "collect", "output", "done"}
  /\ s.pos \in 1..(c.n + 1)
  /\ s.fst \in [Files(c) -> {"new", "queued", "begun", "checked", "failed", "reported", "done", "collected"}]
  /\ s.count \in 0..c.n
=============================================================================
