SPECIFICATION CSpec
CONSTANT GenDepth = 8
CONSTANT GenMaxSyms = 6
CONSTANT Full = FALSE
CONSTRAINT EmitCase
CHECK_DEADLOCK FALSE
