SPECIFICATION GSpec
CONSTANT GenN = 3
CONSTANT GenNoSrc = 1
CHECK_DEADLOCK FALSE
