---------------------------- MODULE Gen_VarFactory ----------------------------
(* Case generation for C13 (spec -> code direction).                                             *)
(*  GSpec : random walks through VarFactory's event vocabulary (tlc -simulate); each behaviour  *)
(*          is printed as JSON with the specified observation after every step.                 *)
(*  CSpec : exhaustive enumeration of the classification cross product: (type recorded in the   *)
(*          scope chain, where, shadowed?) x dimensions given? x explicit type x scope given?   *)
(*          x parent component mode; printed with the specified observation.                    *)
EXTENDS VarFactory, Json
CONSTANTS GenDepth, GenMaxSyms, Full

NameSeq == <<"x", "y", "d%x">>
\* what the harness can observe of a state: per symbol <<class, reported type, scope>>, per scope the entries
Obs(s0) == [syms |-> [k \in 1..Len(s0.syms) |-> <<s0.syms[k].cls, TypeOf(s0, k), s0.syms[k].scope>>],
            tab  |-> [s \in 1..3 |-> [i \in 1..3 |-> s0.tab[s][NameSeq[i]]]]]

RECURSIVE Run(_, _, _)
Run(s0, es, i) == IF i > Len(es) THEN <<>>
                  ELSE LET s2 == Apply(s0, es[i]) IN <<[e |-> es[i], obs |-> Obs(s2)]>> \o Run(s2, es, i + 1)
RECURSIVE AllStepsOK(_, _, _)
AllStepsOK(s0, es, i) == i > Len(es) \/ (StepOK(s0, es[i]) /\ AllStepsOK(Apply(s0, es[i]), es, i + 1))

VARIABLES hist, cc, pick
gvars == <<st, hist, cc, pick>>
GInit == st = InitSt /\ hist = <<>> /\ cc = 0 /\ pick = "create"
\* The simulator chooses uniformly among the successor states.  `pick` (the operation of the next step) is
\* drawn one step ahead so that every operation is equally likely whatever the size of its argument space.
\* (RandomElement is useless here: TLC re-seeds it for every state, so it would repeat the same draw.)
\* The behaviour is printed by the step after the last event, i.e. only for the state the simulator chose.
Ops == {"create", "settype", "clone", "rescope", "detach"}
GNext == IF Len(hist) < GenDepth
         THEN LET all == Events(st, Types, {"x", "y"}, GenMaxSyms)
                  sel == {x \in all : x.op = pick}
              IN  \E e \in (IF sel = {} THEN all ELSE sel) : \E nxt \in Ops :
                     st' = Apply(st, e) /\ hist' = Append(hist, e) /\ pick' = nxt /\ UNCHANGED cc
         ELSE /\ pick # "done"
              /\ Assert(AllStepsOK(InitSt, hist, 1), <<"step property violated", hist>>)
              /\ PrintT(<<"BEHAVIOUR", ToJson(Run(InitSt, hist, 1))>>)
              /\ pick' = "done" /\ UNCHANGED <<st, hist, cc>>
GSpec == GInit /\ [][GNext]_gvars

(* ---- classification cross product ---- *)
Set(s, n, t) == Ev("settype", 0, n, s, t, FALSE, "none")
Pres(n) == {<<>>}
           \cup {<<Set(w, n, t)>> : w \in Scopes, t \in Types}
           \cup {<<Set(3, n, "real"), Set(w, n, t)>> : w \in {1, 2}, t \in Types}       \* shadowing an outer entry
SmallPres(n) == {<<>>, <<Set(1, n, "proc")>>, <<Set(2, n, "int[]")>>, <<Set(1, n, "deferred")>>}
NameOf(pc) == IF pc = "none" THEN "x" ELSE "d%x"
ClassCases ==
  LET scoped1 == {[pre |-> p, ev |-> Ev("create", 0, NameOf(pc), 1, None, d, pc)] :
                     pc \in PCs, d \in BOOLEAN, p \in UNION {Pres(NameOf(q)) : q \in PCs}}
      scoped2 == {[pre |-> p, ev |-> Ev("create", 0, NameOf(pc), 1, t, d, pc)] :
                     pc \in PCs, d \in BOOLEAN, t \in Types,
                     p \in UNION {IF Full THEN Pres(NameOf(q)) ELSE SmallPres(NameOf(q)) : q \in PCs}}
      \* created in the middle scope: an entry in the inner scope must not be seen
      middle  == {[pre |-> <<Set(1, "x", t)>>, ev |-> Ev("create", 0, "x", 2, None, d, "none")] : t \in Types, d \in BOOLEAN}
      free    == {[pre |-> <<>>, ev |-> Ev("create", 0, NameOf(pc), 0, t, d, pc)] :
                     pc \in PCs, d \in BOOLEAN, t \in Types \cup {None}}
  IN  {c \in scoped1 \cup scoped2 : \A i \in 1..Len(c.pre) : c.pre[i].n = c.ev.n} \cup middle \cup free

CInit == cc \in ClassCases /\ st = InitSt /\ hist = <<>> /\ pick = "create"
CNext == FALSE /\ UNCHANGED gvars
EmitCase == PrintT(<<"CLASSCASE", ToJson(Run(InitSt, Append(cc.pre, cc.ev), 1))>>)
CSpec == CInit /\ [][CNext]_gvars
=============================================================================
