SPECIFICATION GSpec
CONSTANT GenDepth = 6
CHECK_DEADLOCK FALSE
