SPECIFICATION GSpec
CONSTANT GenDepth = 6
CONSTRAINT Emit
CHECK_DEADLOCK FALSE
