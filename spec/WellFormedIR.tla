---------------------------- MODULE WellFormedIR ----------------------------
(***************************************************************************)
(* C41  Built-in transformations leave a well-formed IR.                   *)
(*                                                                         *)
(* An exported unit tree is  S (sequence of scope records, S[i].id = i)    *)
(* and O (sequence of symbol occurrences), see harness/lib_wfir.py:        *)
(*  scope [id, kind, name, parent, encl, tparent, declared, imported,      *)
(*         assoc, wild, decls]   parent / tparent: the object the scope's parent  *)
(*         pointer (its symbol table's parent) refers to; encl: the scope   *)
(*         that structurally encloses it (0 = none; -1 = a foreign object)  *)
(*  occurrence [name, kind, scope, at, role, member]                        *)
(* Clauses                                                                  *)
(*  ParentLink    every scope's parent pointer and its symbol table's       *)
(*                parent are the structurally enclosing scope (so that      *)
(*                look-ups walk the unit's own chain)                        *)
(*  ScopeOnChain  every symbol is attached to a scope on the chain of the   *)
(*                scope that contains the occurrence (kind suffix           *)
(*                "-unattached": the symbol has no scope at all)            *)
(*  Resolvable    every variable used is declared, imported or an associate *)
(*                name somewhere on that chain (host association = outer    *)
(*                scopes of the chain).  Exempt: derived-type components    *)
(*                (resolved through the parent's type), names of procedures *)
(*                (external procedures and intrinsics need no declaration), *)
(*                chains with a USE without ONLY (cannot be decided)        *)
(*  UniqueNames   the names declared by the declaration statements of one  *)
(*                scope are pairwise different (decls: case-folded names,   *)
(*                one entry per declaration; Fortran is case-insensitive)   *)
(*  FrontendAccepts / CompilerAccepts   recorded facts: the generated code  *)
(*                re-parses; gfortran -fsyntax-only accepts it              *)
(* Offenders already present before the transformation (c.exempt) are not   *)
(* charged to the transformation.                                           *)
(***************************************************************************)
EXTENDS Integers, Sequences, FiniteSets, TLC

Range(s) == {s[i] : i \in 1..Len(s)}

RECURSIVE ChainF(_, _, _)
ChainF(S, s, fuel) == IF s <= 0 \/ s > Len(S) \/ fuel = 0 THEN {} ELSE {s} \cup ChainF(S, S[s].encl, fuel - 1)
Chain(S, s) == ChainF(S, s, Len(S))

ParentLinkOK(sc) == sc.parent = sc.encl /\ sc.tparent = sc.encl
ScopeOnChainOK(S, o) == o.scope \in Chain(S, o.at)
Visible(S, s) == UNION {Range(S[x].declared) \cup Range(S[x].imported) \cup Range(S[x].assoc) : x \in Chain(S, s)}
Undecidable(S, s) == \E x \in Chain(S, s) : S[x].wild
VarKinds == {"var", "deferred"}
ResolveRoles == {"use", "kind"}
MustResolve(o) == o.kind \in VarKinds /\ ~o.member /\ o.role \in ResolveRoles
ResolvableOK(S, o) == MustResolve(o) => (o.name \in Visible(S, o.at) \/ Undecidable(S, o.at))

Duplicated(sc) == {sc.decls[i] : i \in {j \in 1..Len(sc.decls) : \E k \in 1..Len(sc.decls) : k # j /\ sc.decls[k] = sc.decls[j]}}
UniqueNamesOK(sc) == Duplicated(sc) = {}

\* offenders as <<clause, name, kind>>
Offenders(S, O) ==
  {<<"PL", S[i].name, S[i].kind>> : i \in {j \in 1..Len(S) : ~ParentLinkOK(S[j])}}
  \cup {<<"SC", O[i].name, O[i].kind \o (IF O[i].scope = 0 THEN "-unattached" ELSE "")>> : i \in {j \in 1..Len(O) : ~ScopeOnChainOK(S, O[j])}}
  \cup {<<"UN", n, "var">> : n \in UNION {Duplicated(S[i]) : i \in 1..Len(S)}}
  \cup {<<"RS", O[i].name, O[i].kind>> : i \in {j \in 1..Len(O) : ~ResolvableOK(S, O[j])}}
WellFormed(S, O) == Offenders(S, O) = {}
=============================================================================
