----------------------------- MODULE MC_Sanitise -----------------------------
(* Design-level check of C05's universe and acceptance clauses over all placements:           *)
(*  - an ideal frontend (observables = the source's own strings/comments/...) is accepted;    *)
(*  - the clauses are sensitive: for every non-targeted placement the observables of the same *)
(*    source carrying a different trigger are rejected (the trigger text is really compared); *)
(*  - for targeted code placements the representation of the target is exempt.                *)
(*  - a model of a purely textual (region-blind) rewrite of the macro tokens is rejected      *)
(*    wherever the token sits in a string, comment, directive or identifier.                  *)
EXTENDS Sanitise
VARIABLE p
Init == p \in Placements
Next == UNCHANGED p /\ FALSE
Spec == Init /\ [][Next]_p

Ideal(src) == [parsed |-> TRUE, strings_ir |-> Strings(src), strings_out |-> Strings(src),
               comments_ir |-> Comments(src), comments_out |-> Comments(src), directives |-> Directives(src),
               idents |-> LET S == Idents(src) IN IF S = {} THEN <<>> ELSE <<CHOOSE x \in S : TRUE>>,
               opens |-> [i \in DOMAIN Opens(src) |-> LET l == SelectSeq(src, LAMBDA q : q.specs # <<>>)[i].specs IN l]]

Src == Source(p[1], p[2], p[3])
Targeted == p[2] \in {"code", "openspec", "semiopen"}

IdealAccepted == Clauses(Src, Ideal(Src)) = {}
Others == {t \in Triggers : t # p[1] /\ Legal(t, p[2], p[3])}
Sensitive == ~Targeted => \A t \in Others : Clauses(Src, Ideal(Source(t, p[2], p[3]))) # {}
TargetExempt == (p[2] = "code" /\ p[1] \in Macros) =>
                   \A t \in Macros : Clauses(Src, Ideal(Source(t, "code", "start"))) = {}
RestoreDemanded == p[2] \in {"openspec", "semiopen"} =>
                   Clauses(Src, [Ideal(Src) EXCEPT !.opens = [i \in DOMAIN @ |-> SelectSeq(@[i], LAMBDA s : s[1] \notin {"convert", "newunit"})]]) = {"open-specifiers"}
NotParsingRejected == Clauses(Src, [Ideal(Src) EXCEPT !.parsed = FALSE]) = {"parse"}
NonVacuous == Observed(Src) >= 2
=============================================================================
