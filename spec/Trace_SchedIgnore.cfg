SPECIFICATION TraceSpec
CHECK_DEADLOCK FALSE
