---------------------------- MODULE SchedCase ----------------------------
(* C23  Batch processing does not depend on the letter case of names.                            *)
(*                                                                                               *)
(* TLC strings cannot be folded, so every name / source token is a sequence of character codes;  *)
(* folding (A-Z -> a-z) is done HERE, the harness only ships raw spellings.                      *)
(*                                                                                               *)
(* Part 1  projection of one batch run and the comparison of two runs of the same abstract       *)
(*         project whose renderings differ only in the letter case of name occurrence classes.   *)
(*   run = [names : Seq(Seq(Nat))         raw spellings as reported by Loki                       *)
(*          items : Seq([n, kind, ign])   scheduler graph nodes after the pipeline (n: index)     *)
(*          edges : Seq(<<n1, n2>>)       dependencies                                            *)
(*          visits: Seq(n)                probe processing order (the probe of C22)               *)
(*          files : Seq([n, toks])        generated source per processed file, as token indices   *)
(*          toks  : Seq(Seq(Nat))         raw spellings of the distinct tokens                    *)
(*          raised: STRING]               "" or stage:exception type                              *)
(* Part 2  collections of items: the abstract meaning of set / dict / graph membership is a set  *)
(*         of FOLDED names; a hash-bucket design refines it iff the hash is a function of the     *)
(*         folded name (HashOf is a constant operator: MC_SchedCase checks the folded hash,       *)
(*         MC_SchedCase_raw is the negative control with the hash of the raw spelling).           *)
EXTENDS Naturals, Sequences, FiniteSets, TLC

FoldC(c) == IF c >= 65 /\ c <= 90 THEN c + 32 ELSE c
Fold(s) == [i \in 1..Len(s) |-> FoldC(s[i])]

---------------------------------------------------------------------------------------------
(* Part 1 *)
FN(r, i) == Fold(r.names[i])
ItemSet(r) == {<<FN(r, r.items[k].n), r.items[k].kind, r.items[k].ign>> : k \in DOMAIN r.items}
NodeNames(r) == {FN(r, r.items[k].n) : k \in DOMAIN r.items}
EdgeSet(r) == {<<FN(r, r.edges[k][1]), FN(r, r.edges[k][2])>> : k \in DOMAIN r.edges}
RECURSIVE VisitSeqFrom(_, _)
VisitSeqFrom(r, k) == IF k > Len(r.visits) THEN <<>> ELSE <<FN(r, r.visits[k])>> \o VisitSeqFrom(r, k + 1)
VisitSeq(r) == VisitSeqFrom(r, 1)
FileNames(r) == {FN(r, r.files[k].n) : k \in DOMAIN r.files}
FileByName(r, fn) == r.files[CHOOSE k \in DOMAIN r.files : FN(r, r.files[k].n) = fn]
Tok(r, f, k) == Fold(r.toks[f.toks[k]])
\* the folded token sequence of a file (a function value: evaluated once when compared with `=`)
FileCode(r, f) == [k \in 1..Len(f.toks) |-> Tok(r, f, k)]

\* first position where the folded token sequences of two files differ (only evaluated for unequal files)
RECURSIVE TokDiff(_, _, _, _, _)
TokDiff(b, fb, p, fp, k) ==
  IF k > Len(fb.toks) /\ k > Len(fp.toks) THEN 0
  ELSE IF k > Len(fb.toks) \/ k > Len(fp.toks) THEN k
  ELSE IF Tok(b, fb, k) # Tok(p, fp, k) THEN k
  ELSE TokDiff(b, fb, p, fp, k + 1)

RECURSIVE SeqDiff(_, _, _)
SeqDiff(s, t, k) ==
  IF k > Len(s) /\ k > Len(t) THEN 0
  ELSE IF k > Len(s) \/ k > Len(t) THEN k
  ELSE IF s[k] # t[k] THEN k ELSE SeqDiff(s, t, k + 1)

\* <<clause, position>> : the first difference between the base run b and the permuted run p
Compare(b, p) ==
  IF b.raised # "" THEN <<"base-raised", 0>>                       \* not a case (pipeline not applicable)
  ELSE IF p.raised # "" THEN <<"raised", 0>>
  ELSE IF NodeNames(b) # NodeNames(p) THEN
         <<IF NodeNames(b) \ NodeNames(p) # {} THEN "items-missing" ELSE "items-extra", 0>>
  ELSE IF ItemSet(b) # ItemSet(p) THEN <<"item-attributes", 0>>
  ELSE IF Len(p.items) # Cardinality(NodeNames(p)) THEN <<"items-duplicate", 0>>
  ELSE IF EdgeSet(b) # EdgeSet(p) THEN
         <<IF EdgeSet(b) \ EdgeSet(p) # {} THEN "edges-missing" ELSE "edges-extra", 0>>
  ELSE IF VisitSeq(b) # VisitSeq(p) THEN <<"order", SeqDiff(VisitSeq(b), VisitSeq(p), 1)>>
  ELSE IF FileNames(b) # FileNames(p) THEN <<"files", 0>>
  ELSE LET bad == {fn \in FileNames(b) : FileCode(b, FileByName(b, fn)) # FileCode(p, FileByName(p, fn))}
       IN IF bad = {} THEN <<"ok", 0>>
          ELSE LET fn == CHOOSE x \in bad : TRUE
               IN <<"code", TokDiff(b, FileByName(b, fn), p, FileByName(p, fn), 1)>>

---------------------------------------------------------------------------------------------
(* Part 2: collections of items.  Abstract state: the set of folded names that are present.      *)
(* An event  e = [op, a, b]  (a, b raw spellings):                                               *)
(*   add a      insert an item named a (no effect if an equal item is present)                   *)
(*   del a      remove the item equal to a; returns whether there was one                        *)
(*   has a      membership of an item named a                                                    *)
(*   hasstr a   membership of the plain string a (items compare equal to their name); a python    *)
(*              string hashes by its spelling, so only the canonical (lower case) spelling is    *)
(*              required to be found -- the property speaks about items, not about strings        *)
(*   size       number of elements                                                               *)
(*   eq a b     Item(a) == Item(b)                                                               *)
(*   hasheq a b hash(Item(a)) == hash(Item(b)); only constrained when the items are equal         *)
B(x) == IF x THEN "true" ELSE "false"
RECURSIVE Str(_)
Digit(d) == <<"0", "1", "2", "3", "4", "5", "6", "7", "8", "9">>[d + 1]
Str(n) == IF n < 10 THEN Digit(n) ELSE Str(n \div 10) \o Digit(n % 10)

ApplyC(S, e) ==
  CASE e.op = "add"    -> [st |-> S \cup {Fold(e.a)}, ret |-> "none"]
    [] e.op = "del"    -> [st |-> S \ {Fold(e.a)}, ret |-> B(Fold(e.a) \in S)]
    [] e.op = "has"    -> [st |-> S, ret |-> B(Fold(e.a) \in S)]
    [] e.op = "hasstr" -> [st |-> S, ret |-> IF Fold(e.a) \notin S THEN "false"
                                              ELSE IF Fold(e.a) = e.a THEN "true" ELSE "unspecified"]
    [] e.op = "size"   -> [st |-> S, ret |-> Str(Cardinality(S))]
    [] e.op = "eq"     -> [st |-> S, ret |-> B(Fold(e.a) = Fold(e.b))]
    [] e.op = "hasheq" -> [st |-> S, ret |-> IF Fold(e.a) = Fold(e.b) THEN "true" ELSE "unspecified"]
    [] OTHER           -> [st |-> S, ret |-> "bad-op"]

=============================================================================
