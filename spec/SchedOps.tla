---------------------------- MODULE SchedOps ----------------------------
(* C25  Renaming, duplicating and removing items keeps the graph consistent (also used by C24).  *)
(*                                                                                               *)
(* State of a scheduler while item-changing transformations are applied:                         *)
(*   S = [P    the program units the scheduler knows (format of SchedProject / lib_sched.py;      *)
(*              every unit record additionally carries `src`, the source object it lives in:        *)
(*              "disk" = the one registered under the file's path, "old" = the renamed copy of a   *)
(*              file that has been read again under the same path),                                *)
(*        P0   the project on disk (a renamed file is read again when the scheduler rediscovers), *)
(*        C    configuration (seeds, roles; no pruning lists), C0 the configuration at the start,  *)
(*        wrapped  set of <<module, routine>>: modules created by module wrapping]               *)
(* The graph is not part of the state: after every operation the scheduler rebuilds it from the  *)
(* seeds, Graph(S) == PrunedClosure(S.P, S.C).                                                    *)
(*                                                                                               *)
(* Operations  o = [op, k, sfx, msfx, sub]  (abstract records of harness/lib_sched.py):           *)
(*   dep   DependencyTransformation(suffix = sfx, module_suffix = msfx)                           *)
(*   wrap  ModuleWrapTransformation(module_suffix = msfx)                                         *)
(*   dup   DuplicateKernel(k, duplicate_suffix = sfx, duplicate_module_suffix = msfx, sub)        *)
(*   rm    RemoveKernel(k)                                                                        *)
(* The operators below state the documented effect on the units / references / configuration.    *)
(* Modelled inputs: one top-level unit per file, imports with ONLY lists, callers of wrapped      *)
(* routines declare them in interface blocks, dep and wrap at most once per history (the module   *)
(* name arithmetic of derive_module_name is only modelled for that case).                         *)
EXTENDS SchedProject

MapS(s, F(_)) == [i \in DOMAIN s |-> F(s[i])]
RECURSIVE SetToSeq(_)
SetToSeq(X) == IF X = {} THEN <<>> ELSE LET x == CHOOSE y \in X : TRUE IN <<x>> \o SetToSeq(X \ {x})
FlatMap(s, F(_)) == FlattenSeq([i \in DOMAIN s |-> F(s[i])])

Graph(S) == PrunedClosure(S.P, S.C)
ProcNodes(G) == {n \in G.nodes : n.kind = "proc"}
RoleOf(S, it) == ItemConf(S.C, it).role
InitState(P, C) ==
  LET P1 == [mods |-> MapS(P.mods, LAMBDA m : m @@ [src |-> "disk"]), procs |-> MapS(P.procs, LAMBDA r : r @@ [src |-> "disk"])]
  IN [P |-> P1, P0 |-> P1, C |-> C, C0 |-> C, wrapped |-> {}]

\* the item a written call name denotes in the current project
Callee(S, pr, c) == Resolve(S.P, pr, c)

---------------------------------------------------------------------------------------------
(* rm: the calls to k disappear from every processed routine (procedure items of the graph)      *)
Rm(S, G, k) ==
  LET f(pr) == IF ItemOfProc(pr) \in G.nodes
               THEN [pr EXCEPT !.calls = SelectSeq(@, LAMBDA c : c # k)]
               ELSE pr
  IN [S EXCEPT !.P.procs = MapS(@, f)]

---------------------------------------------------------------------------------------------
(* dup: every procedure item named k that a processed routine depends on is cloned together with  *)
(* its file (a module with all its procedures) under the suffixed names; the callers call both.   *)
(* With sub, the procedure items below k are cloned as well and the clones call the clones.       *)
DupName(n, sfx, msfx) == ProcItem(IF n.scope = "" THEN "" ELSE n.scope \o (IF msfx = "" THEN sfx ELSE msfx), n.local \o sfx)

\* the procedure items named k that a processed routine depends on, and the items that get a clone
DupHeads(G, k) == LET PN == ProcNodes(G) IN {q \in PN : q.local = k /\ \E p \in PN : <<p, q>> \in G.edges}
DupSet(G, k, sub) ==
  LET PN == ProcNodes(G)
      procEdges == {e \in G.edges : e[1] \in PN /\ e[2] \in PN}
  IN IF sub THEN ReachFrom(procEdges, DupHeads(G, k)) ELSE DupHeads(G, k)
\* the file (stem) the clone of item n is put into
DupStem(n, sfx, msfx) == IF n.scope = "" THEN n.local \o sfx ELSE n.scope \o (IF msfx = "" THEN sfx ELSE msfx)

Dup(S, G, k, sfx, msfx, sub) ==
  LET PN == ProcNodes(G)
      heads == DupHeads(G, k)
      D == DupSet(G, k, sub)            \* the items that get a clone
      ms == IF msfx = "" THEN sfx ELSE msfx
      cmods == {n.scope : n \in D} \ {""}                                  \* modules that are cloned
      \* a call inside a clone is diverted to the clone of its callee (only when the subgraph is cloned)
      newCall(pr, c) == IF sub /\ Callee(S, pr, c) \in D /\ Callee(S, pr, c) # ItemOfProc(pr) THEN c \o sfx ELSE c
      newImp(pr, im) ==     \* procedure-level imports of a clone: symbols whose clone exists move to the cloned module
        LET moved == SelectSeq(im.only, LAMBDA s : sub /\ ProcItem(im.mod, s) \in D /\ s \in Range(pr.calls))
            kept == SelectSeq(im.only, LAMBDA s : ~(sub /\ ProcItem(im.mod, s) \in D /\ s \in Range(pr.calls)))
        IN (IF moved # <<>> THEN <<[mod |-> im.mod \o ms, only |-> MapS(moved, LAMBDA s : s \o sfx)]>> ELSE <<>>)
           \o (IF kept # <<>> \/ im.only = <<>> THEN <<[mod |-> im.mod, only |-> kept]>> ELSE <<>>)
      cloneProc(pr) ==
        LET it == ItemOfProc(pr)
            isD == it \in D
        IN [pr EXCEPT !.name = IF isD THEN @ \o sfx ELSE @,
                      !.mod = IF @ = "" THEN "" ELSE @ \o ms,
                      !.file = IF pr.mod = "" THEN pr.name \o sfx ELSE pr.mod \o ms,
                      !.calls = IF isD THEN MapS(@, LAMBDA c : newCall(pr, c)) ELSE @,
                      !.imports = IF isD THEN FlatMap(@, LAMBDA im : newImp(pr, im)) ELSE @,
                      !.src = "disk"]
      cloneMod(m) == [m EXCEPT !.name = @ \o ms, !.file = m.name \o ms, !.src = "disk"]
      \* (a clone that exists already -- the item cache knows its name -- is used as it is)
      isNew(u) == IF u.mod = "" THEN ProcItem("", u.name) \notin AllItems(S.P) ELSE u.mod \notin ModNames(S.P)
      newProcs == {u \in {cloneProc(pr) : pr \in {r \in Procs(S.P) : (r.mod = "" /\ ItemOfProc(r) \in D) \/ (r.mod # "" /\ r.mod \in cmods)}} : isNew(u)}
      newMods == {u \in {cloneMod(m) : m \in {x \in Mods(S.P) : x.name \in cmods}} : u.name \notin ModNames(S.P)}
      \* callers: every processed routine that calls the name k calls the clone as well and imports it
      headOf(pr) == CHOOSE q \in heads : q = Callee(S, pr, k)
      caller(pr) ==
        IF ItemOfProc(pr) \in PN /\ k \in Range(pr.calls) /\ Callee(S, pr, k) \in heads /\ ItemOfProc(pr) \notin heads
        THEN [pr EXCEPT !.calls = FlatMap(@, LAMBDA c : IF c = k THEN <<c, c \o sfx>> ELSE <<c>>),
                        !.imports = (IF headOf(pr).scope # "" THEN <<[mod |-> headOf(pr).scope \o ms, only |-> <<k \o sfx>>]>> ELSE <<>>) \o @]
        ELSE pr
      \* a cloned module that exists already (an earlier dup of a sibling) is reused: the routine is renamed in it
      inClone(pr) ==
        IF \E n \in D : n.scope # "" /\ pr.mod = n.scope \o ms /\ pr.name = n.local
        THEN [pr EXCEPT !.name = @ \o sfx] ELSE pr
  IN IF heads = {} THEN S
     ELSE [S EXCEPT !.P = [mods |-> S.P.mods \o SetToSeq(newMods),
                           procs |-> MapS(MapS(S.P.procs, caller), inClone) \o SetToSeq(newProcs)]]

---------------------------------------------------------------------------------------------
(* wrap: in every processed file all of whose items are kernels, each free routine r becomes a    *)
(* procedure of a new module r+msfx; processed callers import it instead of declaring an           *)
(* interface; the file on disk is found again under its old name at the next discovery.           *)
Wrap(S, G, msfx) ==
  LET PN == ProcNodes(G)
      W == {n \in PN : n.scope = "" /\ RoleOf(S, n) = "kernel"}             \* one unit per file: the file's only item
      wrapProc(pr) == IF ItemOfProc(pr) \in W THEN [pr EXCEPT !.mod = pr.name \o msfx, !.src = "old"] ELSE pr
      caller(pr) ==
        LET ws == SelectSeq(Dedup(pr.calls), LAMBDA c : Callee(S, pr, c) \in W /\ c # pr.name)
        IN IF ItemOfProc(pr) \in PN /\ ws # <<>>
           THEN [pr EXCEPT !.imports = MapS(ws, LAMBDA c : [mod |-> c \o msfx, only |-> <<c>>]) \o @]
           ELSE pr
      newMods == {[name |-> n.local \o msfx, file |-> FileOf(S.P, n), imports |-> <<>>, vars |-> <<>>, params |-> <<>>, src |-> "old"] : n \in W}
      back == {pr \in Procs(S.P0) : ItemOfProc(pr) \in W} \ {pr \in Procs(S.P) : ItemOfProc(pr) \notin W}                   \* rediscovered from disk
      seedOf(s) == IF \E n \in W : n = SeedItem(S.P, s) THEN [q |-> TRUE, scope |-> s.local \o msfx, local |-> s.local] ELSE s
  IN [S EXCEPT !.P = [mods |-> S.P.mods \o SetToSeq(newMods),
                      procs |-> MapS(MapS(S.P.procs, caller), wrapProc) \o SetToSeq(back)],
               !.C.seeds = MapS(@, seedOf),
               !.wrapped = @ \cup {<<n.local \o msfx, n.local>> : n \in W}]

---------------------------------------------------------------------------------------------
(* dep: kernel routines of the graph get the suffix, their modules the derived name; every        *)
(* processed routine (and module) calls / imports the suffixed names; routines of a renamed        *)
(* module that are not in the graph are dropped from the copy; the files on disk are found again   *)
(* under the old names; configuration entries and seeds follow the renamed items.                 *)
DeriveMod(S, m, sfx, msfx) ==
  IF msfx # "" /\ \E w \in S.wrapped : w[1] = m /\ m = w[2] \o msfx
  THEN (CHOOSE w \in S.wrapped : w[1] = m)[2] \o sfx \o msfx
  ELSE m \o sfx \o msfx

Dep(S, G, sfx, msfx) ==
  LET PN == ProcNodes(G)
      K == {n \in PN : RoleOf(S, n) = "kernel"}                              \* renamed routines
      \* a module is renamed when it is a kernel module and all its items in the graph are kernels
      KM == {m \in {n.scope : n \in PN} \ {""} :
               RoleOf(S, ModItem(m)) = "kernel" /\ \A n \in PN : n.scope = m => RoleOf(S, n) = "kernel"}
      newMod(m) == IF m \in KM THEN DeriveMod(S, m, sfx, msfx) ELSE m
      \* rediscovery: the files of renamed items are read again
      refiles == {FileOf(S.P, n) : n \in K} \cup {ModRec(S.P, m).file : m \in KM}
      processed(pr) == ItemOfProc(pr) \in PN
      called(pr) == Range(pr.calls)
      impOf(calls, im) ==    \* ONLY symbols that are called move to the derived module under the suffixed name
        LET hit == SelectSeq(im.only, LAMBDA s : s \in calls)
            rest == SelectSeq(im.only, LAMBDA s : s \notin calls)
        IN (IF hit # <<>> THEN <<[mod |-> DeriveMod(S, im.mod, sfx, msfx), only |-> MapS(hit, LAMBDA s : s \o sfx)]>> ELSE <<>>)
           \o (IF rest # <<>> \/ im.only = <<>> THEN <<[mod |-> im.mod, only |-> rest]>> ELSE <<>>)
      procOf(pr) ==
        IF ~processed(pr) THEN pr
        ELSE [pr EXCEPT !.name = IF ItemOfProc(pr) \in K THEN @ \o sfx ELSE @,
                        !.mod = newMod(@),
                        !.calls = MapS(@, LAMBDA c : c \o sfx),
                        !.imports = FlatMap(@, LAMBDA im : impOf(called(pr), im)),
                        !.src = IF pr.file \in refiles THEN "old" ELSE @]
      modCalls(m) == UNION {called(pr) : pr \in {r \in Procs(S.P) : r.mod = m.name /\ processed(r)}}
      modOf(m) == IF m.name \in {n.scope : n \in PN}
                  THEN [m EXCEPT !.name = newMod(@), !.imports = FlatMap(@, LAMBDA im : impOf(modCalls(m), im)),
                                !.src = IF m.file \in refiles THEN "old" ELSE @]
                  ELSE m
      \* procedures of a renamed module that are not in the graph are removed from the copy
      dropped(pr) == pr.mod \in KM /\ ~processed(pr)
      keptProcs == SelectSeq(S.P.procs, LAMBDA pr : ~dropped(pr))
      \* (a unit whose name is still known -- not renamed, e.g. a driver in a module with kernels -- is not read again)
      remProcs == Range(MapS(keptProcs, procOf))
      remMods == Range(MapS(S.P.mods, modOf))
      backMods == {m \in Mods(S.P0) : m.file \in refiles /\ ~\E r \in remMods : r.name = m.name}
      backProcs == {pr \in Procs(S.P0) : /\ pr.file \in refiles /\ ~\E r \in remProcs : r.name = pr.name /\ r.mod = pr.mod
                                         /\ (pr.mod = "" \/ \E m \in backMods : m.name = pr.mod)}
      newFull(it) == IF it.kind = "mod" THEN newMod(it.local)
                     ELSE newMod(it.scope) \o "#" \o (IF it \in K THEN it.local \o sfx ELSE it.local)
      renamed == {n \in PN : newFull(n) # Full(n)}
      seedOf(s) == LET it == SeedItem(S.P, s)
                   IN IF it \in renamed THEN [q |-> TRUE, scope |-> newMod(it.scope), local |-> IF it \in K THEN it.local \o sfx ELSE it.local] ELSE s
      entryOf(r) == LET hit == {n \in renamed : r.key \in NamesOf(n, FALSE)}
                    IN IF hit = {} THEN r ELSE [r EXCEPT !.key = newFull(CHOOSE n \in hit : TRUE)]
  IN [S EXCEPT !.P = [mods |-> MapS(S.P.mods, modOf) \o SetToSeq(backMods),
                      procs |-> MapS(keptProcs, procOf) \o SetToSeq(backProcs)],
               !.C.seeds = MapS(@, seedOf),
               !.C.routines = MapS(@, entryOf)]

\* G must be Graph(S) (passed in so that it is computed once)
ApplyG(S, G, o) ==
  CASE o.op = "rm" -> Rm(S, G, o.k)
    [] o.op = "dup" -> Dup(S, G, o.k, o.sfx, o.msfx, o.sub)
    [] o.op = "wrap" -> Wrap(S, G, o.msfx)
    [] o.op = "dep" -> Dep(S, G, o.sfx, o.msfx)
Apply(S, o) == ApplyG(S, Graph(S), o)

---------------------------------------------------------------------------------------------
(* Invariants (C25), stated on a project P, a configuration C, a set of cache keys and a graph;   *)
(* the trace specification evaluates the same operators on the projected state of the real         *)
(* scheduler, the model checker on Apply.                                                         *)

\* every call and import in a set of program units refers to a program unit of P
ProcRefsLegal(P, pr) ==
  /\ \A c \in Range(pr.calls) : CallLegal(P, pr, c)
  /\ \A im \in Range(pr.imports) : ImportLegal(P, im, pr.mod)
ModRefsLegal(P, m) == \A im \in Range(m.imports) : ImportLegal(P, im, m.name)
AllRefsLegal(P) == (\A pr \in Procs(P) : ProcRefsLegal(P, pr)) /\ (\A m \in Mods(P) : ModRefsLegal(P, m))
\* ... in the processed sources: the files (source objects) of the items of the graph
SameSource(u, v) == u.file = v.file /\ u.src = v.src
UnitOf(P, n) == IF n.kind = "proc" THEN ProcRecOf(P, n) ELSE ModRec(P, n.local)
NoDanglingRef(P, nodes) ==
  LET us == {UnitOf(P, n) : n \in nodes}
  IN /\ \A pr \in Procs(P) : (\E u \in us : SameSource(u, pr)) => ProcRefsLegal(P, pr)
     /\ \A m \in Mods(P) : (\E u \in us : SameSource(u, m)) => ModRefsLegal(P, m)

\* names are unique among the units the scheduler knows (two units of one name cannot be linked)
UniqueUnits(P) ==
  /\ \A i, j \in DOMAIN P.mods : P.mods[i].name = P.mods[j].name => i = j
  /\ \A i, j \in DOMAIN P.procs : (P.procs[i].name = P.procs[j].name /\ P.procs[i].mod = P.procs[j].mod) => i = j
  /\ \A pr \in Procs(P) : pr.mod = "" \/ pr.mod \in ModNames(P)

\* the files that a later file write produces: no two different sources for one path
NoOutputClash(P, nodes) ==
  \A a, b \in {n \in nodes : n.kind = "proc"} :
     FileOf(P, a) = FileOf(P, b) => ProcRecOf(P, a).src = ProcRecOf(P, b).src

\* The closure of SchedProject is only defined when every reference met on the way resolves; Reachable tells whether it
\* does (ok) without evaluating an unresolved reference.
NodeLegal(P, n) ==
  /\ n \in AllItems(P)
  /\ IF n.kind = "proc" THEN LET pr == ProcRecOf(P, n)
                            IN ProcRefsLegal(P, pr) /\ (pr.mod = "" \/ ModRefsLegal(P, ModRec(P, pr.mod)))
     ELSE ModRefsLegal(P, ModRec(P, n.local))
RECURSIVE SafeReach(_, _, _, _)
SafeReach(P, C, seen, frontier) ==
  IF frontier = {} THEN TRUE
  ELSE IF \E n \in frontier : ~NodeLegal(P, n) THEN FALSE
  ELSE LET new == UNION {Children(P, C, n) : n \in frontier} \ seen IN SafeReach(P, C, seen \cup new, new)

SeedsResolve(P, C) == \A i \in DOMAIN C.seeds : Cardinality(SeedCands(P, C.seeds[i])) = 1
\* the state is consistent enough for the graph to be defined
Consistent(P, C) ==
  /\ UniqueUnits(P) /\ SeedsResolve(P, C)
  /\ LET ss == {SeedItem(P, C.seeds[i]) : i \in DOMAIN C.seeds} IN SafeReach(P, C, ss, ss)
=============================================================================
